"""C13 plan: Thread / ThreadGroup / parallel_for / Semaphore / Condition."""
from ..core import Job
from ..props import plan, COMMON_ASSUME
from ..texts import T

H = 'c13_threads'
NPAIRS = 44 * 44   # -3 <= i0, i1 <= 40
LIFE = 11 * 4 * 130  # thread kinds x bodies x delay patterns (none, 127 masks over the 7 hand-over points, 2 random jitters)

plan('C13',
     rule='parallel_for: every (i0, i1) with -3 <= i0, i1 <= 40 and every thread count 1..12 (one distinct item per triple), sampled larger ranges; lifecycles: 11 thread scenarios '
          '(subclass, lambda, parallel_invoke 2/3/4, ThreadGroup, two lambdas, restart after join, restart after finished() was polled, a Thread started inside parallel_invoke that outlives it, a creator spinning on finished()) x 4 task bodies (empty .. 2 ms) x 130 delay patterns forced at the library\'s hand-over points '
          '(distinct = hash of the observed order of hook events); Semaphore and Condition producer/consumer histories with unique items and conservation at quiescence',
     jobs=[
         Job(H, 'pfor', 'plain', quick=NPAIRS, thorough=NPAIRS, shards=(6, 8)),
         Job(H, 'pfor', 'asan', quick=NPAIRS, thorough=NPAIRS, shards=(6, 8), params=dict(nthstride=3), tparams=dict(nthstride=1)),
         Job(H, 'pfor', 'tsan', quick=NPAIRS, thorough=NPAIRS, shards=(8, 8), params=dict(nthstride=4), tparams=dict(nthstride=1), batch=50, leakcheck=False),
         Job(H, 'pfor_big', 'plain', quick=300, thorough=6000, shards=(2, 4), weight=2),
         Job(H, 'pfor_big', 'tsan', quick=60, thorough=1000, shards=(2, 4), weight=2, batch=20, leakcheck=False),
         Job(H, 'pfor_mt', 'plain', quick=200, thorough=2000, shards=(4, 8), params=dict(rounds=30), weight=2),
         Job(H, 'pfor_mt', 'tsan', quick=16, thorough=100, shards=(4, 8), params=dict(rounds=8), weight=2, batch=4, leakcheck=False),
         Job(H, 'lifecycle', 'plain', quick=LIFE, thorough=LIFE, shards=(8, 8), params=dict(reps=5), tparams=dict(reps=20)),
         Job(H, 'lifecycle', 'asan', quick=LIFE, thorough=LIFE, shards=(6, 8), params=dict(reps=1), tparams=dict(reps=5)),
         Job(H, 'lifecycle', 'tsan', quick=LIFE // 2, thorough=LIFE, shards=(6, 8), params=dict(reps=1), tparams=dict(reps=3), batch=40, leakcheck=False),
         Job(H, 'sem', 'plain', quick=3000, thorough=6000, shards=(3, 6), weight=2),
         Job(H, 'sem', 'tsan', quick=300, thorough=600, shards=(2, 4), weight=2, batch=10, leakcheck=False),
         Job(H, 'cond', 'plain', quick=1500, thorough=6000, shards=(3, 6), weight=2),
         Job(H, 'cond', 'tsan', quick=200, thorough=600, shards=(2, 4), weight=2, batch=10, leakcheck=False),
     ],
     exhaustive={'quick': False, 'thorough': False},
     assumptions=COMMON_ASSUME + [
         'in every seventh condition-queue case consumer 0 polls with Condition::wait(0.0) / wait(-0.001): a timed wait whose deadline has passed must still release the mutex while it looks; a library that does not leaves the producers blocked, which is reported as a hang of the case',
         'orderings of creator and worker are steered by forced delays at the hook points and observed through the hook event sequence; they are not enumerated by a serialising scheduler '
                                  '(the creator busy-waits on a flag without a yield point)',
                                  'a waiter that is still blocked 15 s after its predicate became true and was signalled under the mutex, with every other thread gone, is judged to have lost the signal',
                                  'visibility after join is judged by TSan happens-before analysis (plain writes in the task, plain reads after join) as well as by value'])
T('C13', 'exhaustive parallel_for range/thread-count sweep with per-index counters + systematic delay injection at the thread hand-over hooks + conservation/exactly-once monitors for Semaphore and Condition, , several concurrent parallel_for callers, under TSan, ASan and -O2',
  'Every (i0,i1,n) triple of the property\'s range is executed with per-index counters and guard zones; every thread scenario is run under all 127 combinations of forced delays at the seven hand-over points, '
  'so that "worker finishes before the creator resumes" and the opposite order both happen; TSan checks that effects are ordered before join returns, ASan watches the hand-over context.',
  'Trusts gcc TSan/ASan (with annotations that tell TSan the ready-flag spin is a synchronisation), std::atomic counters in the harness.')
