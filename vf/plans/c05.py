"""C05 plan: JSON/XDL round trip."""
from ..core import Job
from ..props import plan, COMMON_ASSUME
from ..texts import T
from .. import oracle_json

REQUIRED_CUTS = ['w', 'p', 's', 'e', '1', '2', '3', '4', 'S', 'i', 'f', 'x', 'l', 'k', 'q']


def post(prop, tier, seed, res, scratch):
    cov = oracle_json.check_records(scratch, prop, res, seed, 'c05_json', 'c05')
    if cov['python_json_records_encoder'] == 0:
        res.errors.append('no encoder records reached the python oracle')
    cuts = {k.split('cut_')[1]: v for k, v in res.counters.items() if 'chunkshift:cut_' in k}
    agg = {}
    for k, v in cuts.items():
        agg[k] = agg.get(k, 0) + v
    missing = [k for k in REQUIRED_CUTS if agg.get(k, 0) == 0]
    if missing:
        res.errors.append('read-chunk boundary never fell into lexical situations %s' % missing)
    cov['chunk_cut_situations'] = agg
    return cov


J = []
for mode, q, t in (('rt_json', 3000, 150000), ('rt_json_pretty', 2000, 100000), ('rt_xdl', 2000, 100000), ('rt_xdl_pretty', 1500, 80000), ('rt_numbers', 300, 15000)):
    J.append(Job('c05_json', mode, 'asan', quick=q, thorough=t, shards=(2, 4), params=dict(dump=1)))
    J.append(Job('c05_json', mode, 'plain', quick=q * 2, thorough=t * 2, shards=(1, 3)))
J.append(Job('c05_json', 'file_rt', 'asan', quick=700, thorough=20000, shards=(3, 6)))
J.append(Job('c05_json', 'file_rt', 'plain', quick=700, thorough=20000, shards=(2, 4)))
J.append(Job('c05_json', 'chunkshift', 'asan', quick=500, thorough=12000, shards=(3, 8), params=dict(chunk=16382)))
J.append(Job('c05_json', 'chunkshift', 'plain', quick=1500, thorough=30000, shards=(3, 8), params=dict(chunk=16382)))

plan('C05',
     rule='cases are random Var trees (depth <= 7, hostile strings and keys, ints incl. INT_MIN, doubles from random bit patterns/denormals/DBL_MAX, floats), '
          'encoded compact/pretty as JSON and XDL, decoded and compared structurally (doubles bit for bit, floats as float); files of 1 byte to several MB; '
          'generated token-rich documents shifted by 0..400 spaces so the read-chunk boundary falls in every lexical situation; non-trivial = tree with >= 3 nodes; '
          'distinct = hash of the tree (values included) and mode',
     jobs=J, post=post,
     assumptions=COMMON_ASSUME + ['python3 json (strict, constants rejected) is the independent parser; it is only applied to trees whose strings are valid UTF-8',
                                  'NONE-typed Vars are outside the property (it lists nulls, booleans, ints, doubles, floats, strings, arrays, objects)'])
T('C05', 'round-trip monitor with a structural comparer over generated Var trees + python json as independent parser of the encoder output + file/chunk-boundary sweeps, under ASan and at -O2',
  'Encodes generated trees with the real encoder, decodes with the real decoder and compares with the generator\'s tree; a sample of encoder outputs is parsed by python\'s strict json module; '
  'files are written/read through Json::write/read and Xdl::write/read, and the 16382-byte read boundary is swept across every lexical situation of generated documents.',
  'Trusts the harness comparer, python3 json, strtod, gcc ASan.')
