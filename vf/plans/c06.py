"""C06 plan: JSON/XDL decoding - total, safe, chunk-independent, RFC 8259 conformant."""
from ..core import Job, FuzzJob
from ..props import plan, COMMON_ASSUME
from ..texts import T
from .. import oracle_json


def post(prop, tier, seed, res, scratch):
    cov = oracle_json.check_records(scratch, prop, res, seed, 'c06_jsondec', 'c06')
    if cov['python_json_records_decoder'] == 0:
        res.errors.append('no decoder records reached the python oracle')
    return cov


plan('C06',
     rule='cases are grammar-generated RFC 8259 documents (every production: all number shapes, every escape incl. surrogate pairs, whitespace everywhere, nesting to 512) with every '
          'prefix before the root\'s closing character; generated XDL documents; mutated documents (truncation, deletion, duplication, splicing, bit flips, token insertion) and raw bytes; '
          'each text is also fed to the incremental parser in all 2-chunk cuts (short texts) or sampled cuts plus one-byte-at-a-time and random k-chunk partitions; '
          'non-trivial = document with >= 2 nodes or a root string; distinct = hash of the text',
     jobs=[
         Job('c06_jsondec', 'conform', 'asan', quick=3000, thorough=60000, shards=(4, 8), params=dict(dump=1)),
         Job('c06_jsondec', 'conform', 'plain', quick=8000, thorough=120000, shards=(2, 4), params=dict(dump=1)),
         Job('c06_jsondec', 'xdl', 'asan', quick=1000, thorough=40000, shards=(2, 4)),
         Job('c06_jsondec', 'total', 'asan', quick=10000, thorough=300000, shards=(4, 10)),
         Job('c06_jsondec', 'total', 'plain', quick=12000, thorough=200000, shards=(2, 4)),
         Job('c06_jsondec', 'deep', 'asan', quick=60, thorough=600, shards=(2, 4), params=dict(dump=1)),
         Job('c06_jsondec', 'deep', 'plain', quick=60, thorough=600, shards=(1, 2)),
         Job('c06_jsondec', 'hostile_depth', 'asan', quick=48, thorough=96, shards=(2, 4), batch=1),
         FuzzJob('fz_json', quick=150000, thorough=2000000, procs=(4, 12), max_len=512, dict_file='harness/fuzz/json.dict'),
         Job('c06_jsondec', 'hostile_depth', 'plain', quick=48, thorough=96, shards=(2, 4), batch=1),
     ],
     post=post,
     assumptions=COMMON_ASSUME + ['python3 json is the independent parser; documents avoid NUL escapes and lone surrogates as the property says',
                                  'XDL documents are judged for totality and chunk independence only (no independent XDL parser exists)'])
T('C06', 'grammar-driven document generator with model + python json as independent parser + exhaustive prefix and chunk-partition sweeps + mutation/raw-byte workloads under ASan',
  'Generated RFC 8259 documents must decode to the generator\'s value (and python\'s, on the sampled records); every prefix before the root\'s closing character must be rejected; '
  'each text is re-parsed through the incremental parser under all 2-chunk cuts / random partitions and must give the same result; mutants and raw bytes must not produce sanitizer reports or hangs.',
  'Trusts the generator model, python3 json, gcc ASan and the per-case watchdog for termination.')
