"""C10 plan: HTTP client <-> server exactness."""
from ..core import Job
from ..props import plan, COMMON_ASSUME
from ..texts import T

H = 'c10_httpx'
plan('C10',
     rule='every exchange carries a unique X-Req-Id; the generator\'s plan, the handler\'s observation and the client\'s observation are joined by id and compared byte for byte. '
          'lib: 1-4 requests (GET/POST/PUT/PATCH/DELETE, percent-encoded paths and queries, printable header values, bodies 0..300 KiB with CR/LF/NUL) x response kinds (fixed, text, JSON, file, file+Range, echo); '
          'concurrent: 2-64 client threads; sizes: one body length per case (boundary set in quick, every length 0..300 KiB in thorough); ranges: every [b,e] of files of 1..40 bytes, sampled larger; '
          'stream: handler writes the body without a length; raw: raw TCP client sending the same requests chunked, in 1-byte / small / large fragments, pipelined. distinct = hash of target, body prefixes and sizes',
     jobs=[
         Job(H, 'lib', 'asan', quick=2000, thorough=20000, shards=(4, 8), batch=125, case_timeout=120),
         Job(H, 'lib', 'plain', quick=4000, thorough=30000, shards=(3, 6), batch=270, case_timeout=120),
         Job(H, 'concurrent', 'tsan', quick=12, thorough=200, shards=(3, 4), batch=4, case_timeout=300, leakcheck=False, weight=3),
         Job(H, 'concurrent', 'asan', quick=16, thorough=300, shards=(2, 4), batch=8, case_timeout=300, weight=3),
         Job(H, 'concurrent', 'plain', quick=60, thorough=600, shards=(2, 4), batch=15, case_timeout=300, weight=3),
         Job(H, 'sizes', 'plain', quick=2401, thorough=307201, shards=(4, 16), params=dict(stride=128, base=0), tparams=dict(stride=1), batch=1000, case_timeout=120),
         Job(H, 'sizes', 'asan', quick=132, thorough=6001, shards=(3, 8), params=dict(stride=1, base=15935), tparams=dict(stride=51), batch=66, case_timeout=120, tag='c10.sizes_asan'),
         Job(H, 'sizes', 'plain', quick=4, thorough=32, shards=(2, 4), params=dict(stride=2097152, base=300001), tparams=dict(stride=262144), batch=4, case_timeout=200, tag='c10.sizes_big'),
         Job(H, 'ranges', 'plain', quick=44, thorough=300, shards=(4, 8), batch=11, case_timeout=200),
         Job(H, 'ranges', 'asan', quick=24, thorough=100, shards=(4, 8), batch=6, case_timeout=200),
         Job(H, 'chunked', 'plain', quick=16, thorough=64, shards=(16, 16), batch=2, case_timeout=200),
         Job(H, 'stream', 'plain', quick=150, thorough=4000, shards=(2, 4), batch=75, case_timeout=120),
         Job(H, 'stream', 'asan', quick=100, thorough=2000, shards=(2, 4), batch=50, case_timeout=120),
         Job(H, 'raw', 'asan', quick=500, thorough=20000, shards=(4, 8), batch=125, case_timeout=120),
         Job(H, 'raw', 'plain', quick=600, thorough=30000, shards=(4, 6), batch=400, case_timeout=120),
     ],
     assumptions=COMMON_ASSUME + [
         'a quarter of the String bodies (request and response) keep their zero bytes: a String carries its length',
         'one HttpServer per harness process on 127.0.0.1:ephemeral (loopback works in the sandbox); it is never stopped inside a case (C14 decides stopping)',
                                  'JSON bodies are generated inside the value domain C05 shows to round-trip, so that C10 does not re-report C05',
                                  'the raw client is the harness\'s own HTTP/1.1 framing (Content-Length or chunked, no trailers)'])
T('C10', 'three-way join by unique request id (generator plan / handler-side record / client-side record) over the real client and server on loopback TCP, with concurrent clients under TSan/ASan and a raw fragmenting client',
  'Every exchange is planned by the generator, observed inside the handler and observed by the client; the three records must agree byte for byte (method, decoded path, query, headers case-insensitively, body; status, headers, body, JSON value, file ranges). '
  'Concurrent runs check that each client gets the response to its own request.',
  'Trusts the generator and the harness\'s raw HTTP framing/parsing, gcc ASan/TSan, the sandbox loopback.')
