"""C02 plan: Map / Dic / HashMap / HashDic / Set against std::map / std::set in lock-step."""
from ..core import Job
from ..props import plan, COMMON_ASSUME
from ..texts import T

H = 'c02_maps'

plan('C02',
     rule='a case is one operation history (10..300 operations on up to 3 containers of one type, keys from a universe built to collide), '
          'one pair of containers compared with ==, one Set-algebra history, or one block of the exhaustive small-Map enumeration '
          '(one insertion sequence x 13 lookup keys x 9 operations x 3 insertion APIs). A history is non-trivial when it inserted, removed a present '
          'key and enumerated a container of >= 2 entries; a pair when it has >= 1 entry (or is the grown-and-emptied pattern); a Set history when it '
          'evaluated >= 2 algebra operations. The distinct hash covers the container type, the operation codes and the keys used.',
     jobs=[
         # ---- stratum A: must be completely clean
         Job(H, 'map_small', 'asan', quick=2068, thorough=7828, shards=(8, 16)),      # 2068 = all insertion orders of <= 4 of 6 keys x 4 map types
         Job(H, 'map_small', 'plain', quick=7828, thorough=7828, shards=(8, 16)),     # 7828 = all orders of <= 6 of 6 keys x 4 map types
         Job(H, 'map_hist', 'asan', quick=1500, thorough=30000, shards=(8, 16)),
         Job(H, 'map_hist', 'plain', quick=2500, thorough=50000, shards=(6, 16)),
         Job(H, 'hashmap_hist', 'asan', quick=1400, thorough=28000, shards=(12, 16)),
         Job(H, 'hashmap_hist', 'plain', quick=2400, thorough=48000, shards=(8, 16)),
         Job(H, 'eq', 'asan', quick=1500, thorough=30000, shards=(4, 16)),
         Job(H, 'eq', 'plain', quick=2000, thorough=40000, shards=(2, 16)),
         Job(H, 'set_ops', 'asan', quick=900, thorough=18000, shards=(8, 16)),
         Job(H, 'set_ops', 'plain', quick=2000, thorough=40000, shards=(4, 16)),
         # ---- stratum B: histories containing the two defect patterns found by this check (silent once both are repaired)
         Job(H, 'hashmap_remove_chain_head', 'asan', quick=700, thorough=14000, shards=(6, 16), params=dict(headok=1)),
         Job(H, 'hashmap_remove_chain_head', 'plain', quick=1200, thorough=24000, shards=(4, 16), params=dict(headok=1)),
         Job(H, 'eq_order', 'asan', quick=1000, thorough=20000, shards=(4, 16)),
         Job(H, 'eq_order', 'plain', quick=1500, thorough=30000, shards=(2, 16)),
         Job(H, 'eq_order', 'asan', quick=500, thorough=10000, shards=(2, 16), params=dict(headok=1), tag='c02.eq_order_headremove'),
         Job(H, 'map_convert', 'asan', quick=1200, thorough=30000, shards=(2, 16)),
         Job(H, 'map_convert', 'plain', quick=1200, thorough=30000, shards=(2, 16)),
     ],
     exhaustive={'quick': True, 'thorough': True},
     assumptions=COMMON_ASSUME + [
         'the mixed-string universe contains keys that start with bytes >= 0x80; ascending key order is the order of strcmp (unsigned bytes), which is what std::map<std::string> gives the model',
         'exhaustive refers to the finite space the property names: ordered maps of size 0..3 (here 0..4 in quick, 0..6 in thorough) built from a 6-key universe in '
         'every insertion order, probed at every key position; everything else is generated',
         'while two handles to one container are live the histories only read and overwrite through them (insertion through one of two handles is the shared-handle '
         'growth problem of C01/C12, not the subject of C02); const operator[] is only used on present keys; the value of an entry created by operator[] is not judged',
         'chain positions (first/middle/last) are derived from the public enumeration and binOf(); iteration order of hash containers is never judged',
         'stratum A never removes the first node of a hash chain that has successors and never compares equal hash containers with different layouts; these patterns '
         'run in the modes hashmap_remove_chain_head, eq_order and eq_order_headremove',
     ])

T('C02', 'reference-model monitor (std::map / std::set in lock-step) over colliding key universes + exhaustive small ordered maps, under ASan/LSan and at -O2',
  'Runs the real Map/Dic/HashMap/HashDic/Set code on random operation histories (insert, overwrite, lookup, remove at first/middle/last chain position, clear, clone, '
  'handle copy, merge, keys, three enumeration APIs) whose keys collide before and after the x8 rehash, across table growths 1->8->64->512, 256->2048->16384, on pairs '
  'built in different orders / growth histories compared with ==, on Set algebra, and on every insertion order and lookup position of ordered maps with <= 4 (quick) or '
  '<= 6 (thorough) keys; LSan checks that no chain node is lost when the containers are destroyed. Reports counts of what was driven.',
  'Trusts std::map/std::set, gcc ASan/LSan/UBSan and the harness. Histories are sampled; only the small ordered-map space is enumerated completely.')
