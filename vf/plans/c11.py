"""C11 plan: WebSocket."""
import os, glob, hashlib, base64
from ..core import Job
from ..props import plan, COMMON_ASSUME
from ..texts import T

H = 'c11_websocket'
GUID = '258EAFA5-E914-47DA-95CA-C5AB0DC85B11'


def post(prop, tier, seed, res, scratch):
    n = bad = 0
    for p in glob.glob(os.path.join(scratch, '*', 'records.txt')):
        for ln in open(p, errors='replace'):
            t = ln.rstrip('\n').split('\t')
            if len(t) != 3 or t[0] != 'H':
                continue
            n += 1
            want = base64.b64encode(hashlib.sha1((t[1] + GUID).encode()).digest()).decode()
            if want != t[2]:
                bad += 1
                if bad <= 5:
                    res.anoms.append(dict(property=prop, key='%s/c11.handshake/pyref/accept-key-differs-from-rfc6455' % prop, detector='pyref', job='c11.handshake', variant='-', harness=H,
                                          mode='handshake', seed=seed, idx=0, desc='key %s' % t[1], report='library sent %s, RFC 6455 prescribes %s' % (t[2], want), how='', cmd=[], batch_from=None))
    if n == 0:
        res.errors.append('no handshake records reached the python oracle')
    return dict(handshakes_checked_against_python_hashlib=n, accept_key_disagreements=bad)


plan('C11',
     rule='recv: 1-6 messages (text/binary, lengths at the 125/126/65535/65536 header boundaries +-3, random to 70000 and sampled up to several hundred KB / 4 MiB) framed by an independent RFC 6455 framer '
          'into 1-4 fragments with random / zero-byte mask keys, pings and pongs between messages and between fragments, written in random fragmentations; the library\'s receive() must yield exactly the non-empty '
          'messages sent, in order. send: the bytes the library emits are deframed independently (payload, opcode, mask bit per role, minimal length form). loop: library client <-> library server over loopback. '
          'handshake: random keys and header spellings, accept key checked against python hashlib. hostile: reserved opcodes, RSV bits, absurd 64-bit lengths, oversized control frames, each stream also cut at every offset',
     jobs=[
         Job(H, 'recv', 'asan', quick=1200, thorough=40000, shards=(5, 10), params=dict(maxbig=300000), tparams=dict(maxbig=4194304), batch=100, case_timeout=250),
         Job(H, 'recv', 'plain', quick=2500, thorough=60000, shards=(3, 6), params=dict(maxbig=300000), tparams=dict(maxbig=4194304), batch=200, case_timeout=250),
         Job(H, 'send', 'asan', quick=1200, thorough=40000, shards=(3, 6), params=dict(maxbig=300000), tparams=dict(maxbig=4194304), batch=100, case_timeout=250),
         Job(H, 'send', 'plain', quick=2500, thorough=60000, shards=(2, 4), params=dict(maxbig=300000), tparams=dict(maxbig=4194304), batch=200, case_timeout=250),
         Job(H, 'loop', 'asan', quick=40, thorough=1500, shards=(4, 8), params=dict(maxbig=200000), tparams=dict(maxbig=2000000), batch=5, case_timeout=200),
         Job(H, 'loop', 'plain', quick=40, thorough=1500, shards=(4, 8), params=dict(maxbig=200000), tparams=dict(maxbig=2000000), batch=5, case_timeout=200),
         Job(H, 'handshake', 'asan', quick=600, thorough=20000, shards=(2, 4), params=dict(dump=1), batch=100),
         Job(H, 'handshake_mt', 'plain', quick=48, thorough=600, shards=(3, 4), params=dict(dump=1, rounds=40), batch=8, case_timeout=250),
         Job(H, 'handshake_mt', 'tsan', quick=6, thorough=40, shards=(2, 4), params=dict(rounds=10), batch=2, case_timeout=250, leakcheck=False),
         Job(H, 'hostile', 'asan', quick=120, thorough=4800, shards=(6, 16), batch=25, case_timeout=200),
         Job(H, 'hostile', 'plain', quick=400, thorough=10000, shards=(2, 8), batch=25, case_timeout=200),
     ],
     post=post,
     assumptions=COMMON_ASSUME + [
         '30% of the raw handshakes send Connection: keep-alive, Upgrade (a token list that includes Upgrade, RFC 6455 4.2.1); 30% of the sizes above 70000 are powers of two from 128 KiB up to maxbig and their neighbours',
         'empty results of receive() (returned for control frames) are ignored: the property speaks of messages of non-zero length',
                                  'for hostile and truncated streams only sanitizer reports, non-termination after the peer closed and negative message lengths are judged; std::bad_alloc for an absurd length counts as "connection failed"',
                                  'use of uninitialised values after a truncated frame header is invisible to ASan (see DESIGN.md section 9)'])
T('C11', 'independent RFC 6455 framer/deframer on a socketpair against the real WebSocket object + library client/server over loopback + python hashlib for the accept key + hostile/cut frame streams under ASan',
  'Messages generated at every header-format boundary, fragmentation and mask-key shape are pushed through the real receive()/send(); the received sequence must equal the sent one and the emitted bytes must parse '
  'to the same payload with the right mask bit and minimal length form; hostile streams may only close the connection.',
  'Trusts the harness framer (RFC 6455 section 5.2), python hashlib/base64, gcc ASan.')
