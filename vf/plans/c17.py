"""C17 plan: File / TextFile / Directory copy-move return exactly what was written."""
from ..core import Job
from ..props import plan, COMMON_ASSUME
from ..texts import T

plan('C17',
     rule='a case is one file content plus one way of writing it (bin, lines, bom, copy, big) or one history of 2-10 '
          'put/write/append/<</close/reopen steps on one path (hist), followed by read-back through fresh File/TextFile objects and through '
          'plain open/read; every case writes and reads back at least once, so every case is non-trivial (the empty content is named by the property); '
          'it is distinct when the hash of (content bytes, writer or operation list) differs. bin enumerates every size 0..1100, 65496..65576, '
          '131042..131102 and 199990..200000 before sampling; lines enumerates every single-line length 0..2000 x {no newline, LF, CRLF, LF+tail} '
          'on its even indices. sameobj: one history of 3-12 calls (plus a closing write/close/read-back if the random part had none) on ONE long-lived File '
          '(even indices) or TextFile (odd indices) object: metadata queries, open(WRITE/APPEND/READ), put/write/append/<<, close, seek(0), '
          'content/text/firstBytes/lines/read/size, chosen at random among the calls the object\'s state supports; non-trivial when the object wrote and a '
          'later judged observation through the same object followed; distinct by the hash of (call list, final bytes). copy_mt: 2-6 threads, each with '
          '2-4 own files (0, <64 KiB, 65536, 65535/65537, 2-16 blocks, per-thread byte pattern + word counter) and 4-8 Directory::copy / File::copy / '
          'Directory::move / File::move calls released together; every source and destination is then compared byte for byte; distinct by the hash of '
          '(thread count, sizes, call list)',
     jobs=[
         Job('c17_files', 'bin', 'asan', quick=3000, thorough=80000, shards=(4, 12)),
         Job('c17_files', 'bin', 'plain', quick=3000, thorough=80000, shards=(2, 8)),
         Job('c17_files', 'lines', 'asan', quick=9000, thorough=150000, shards=(4, 12)),
         Job('c17_files', 'lines', 'plain', quick=9000, thorough=150000, shards=(2, 8)),
         Job('c17_files', 'hist', 'asan', quick=3000, thorough=80000, shards=(4, 16)),
         Job('c17_files', 'hist', 'plain', quick=3000, thorough=80000, shards=(3, 12)),
         Job('c17_files', 'bom', 'asan', quick=5000, thorough=120000, shards=(2, 8)),
         Job('c17_files', 'bom', 'plain', quick=5000, thorough=120000, shards=(1, 4)),
         Job('c17_files', 'copy', 'asan', quick=2000, thorough=40000, shards=(3, 12)),
         Job('c17_files', 'copy', 'plain', quick=2000, thorough=40000, shards=(2, 8)),
         # sizes above 200000 bytes: to 1 MiB in the quick tier, sampled to 16 MiB in the thorough tier
         Job('c17_files', 'big', 'asan', quick=8, thorough=100, shards=(4, 6), params=dict(maxmb=1), tparams=dict(maxmb=16)),
         Job('c17_files', 'big', 'plain', quick=16, thorough=200, shards=(2, 6), params=dict(maxmb=1), tparams=dict(maxmb=16)),
         # a write that fails at a chosen byte during copy/move (RLIMIT_FSIZE), and moves to another file system (/dev/shm)
         Job('c17_files', 'fault', 'asan', quick=2000, thorough=20000, shards=(3, 12)),
         Job('c17_files', 'fault', 'plain', quick=2000, thorough=20000, shards=(2, 8)),
         # one long-lived File / TextFile object: metadata queries, opens, writes, closes and reads interleaved
         Job('c17_files', 'sameobj', 'asan', quick=3000, thorough=80000, shards=(3, 12)),
         Job('c17_files', 'sameobj', 'plain', quick=3000, thorough=80000, shards=(2, 8)),
         # threads copying/moving their own files at the same time (beyond the stated quantifier, see assumptions)
         Job('c17_files', 'copy_mt', 'plain', quick=160, thorough=3000, shards=(2, 4), weight=3, batch=20),
         Job('c17_files', 'copy_mt', 'tsan', quick=40, thorough=600, shards=(2, 4), weight=3, batch=10, leakcheck=False),
         Job('c17_files', 'copy_mt', 'asan', quick=24, thorough=300, shards=(1, 2), weight=3, batch=8),
     ],
     assumptions=COMMON_ASSUME + [
         'modes bin/lines/hist/bom/copy/big write and re-read through fresh File/TextFile objects (the documented one-line usage); mode sameobj keeps ONE '
         'object alive over the whole history. A File object that cached size() before ANOTHER object (or another process) changed the file is '
         'not exercised',
         'sameobj judges only what the property states, in the object states the library supports: content()/text()/firstBytes()/lines()/read() when '
         'the object is closed or freshly opened for reading (position 0), size() whenever the object is not open for writing, and the bytes on '
         'disk after every close and read. While the object is open for writing, size()/lastModified() (stat without the stdio buffer, or a value '
         'cached earlier) are only counted; exists()/isFile()/isDirectory()/lastModified() are compared with stat() and counted, never judged. The '
         'generator closes before every open(): File::open on an already open object overwrites the handle without closing it (handle lost) - '
         'outside this property, not driven',
         'mode copy_mt goes BEYOND the stated quantifier (the property names no threads): it exists because an independent seeded change (a '
         'function-static block buffer in Directory::copy) showed that nothing observed copies running at the same time. Every thread touches only '
         'its own files; the harness threads are std::thread and only hand data over through thread creation/join. It runs in plain, asan and tsan; '
         'on the unchanged tree it is silent under TSan (Directory::copy/move and File::copy/move on distinct files share no state)',
         'lines()/readLine(): the reference is the split at LF with one CR removed before each LF; a final empty piece (empty text, or text '
         'ending in LF) may be reported or not, both are accepted and the convention seen is counted (asl reports it)',
         'the BOM clause is judged on text(); TextFile::text() folds CRLF to LF while decoding UTF-16, which is accepted and counted; UTF-16 '
         'texts without CRLF must match exactly; lines() of BOM files is only observed (asl does no BOM handling there)',
         'text content is NUL-free and does not begin with a byte-order mark unless the case is a BOM case',
         'modes copy/copy_mt move inside one file system (rename path). Mode fault moves from the scratch directory to /dev/shm when that is another '
         'device (EXDEV copy-and-delete fallback; the counter fault.moves-across-file-systems says how often) and arms a write fault with '
         'RLIMIT_FSIZE (EFBIG at a chosen byte, SIGXFSZ ignored) during copy/move. It judges only: a call that reports success left a complete '
         'destination; a copy never changes its source; after a move the complete content exists in the source or the destination; without a fault '
         'the call succeeds. What a failed call leaves at the destination is not judged. Other faults (EIO on read, ENOSPC at close) are not injected',
     ])


T('C17', 'reference-model monitor: byte-string model of a path under write/append/reopen histories, plain POSIX read of the disk bytes, reference '
         'line splitter and UTF-8/16 encoders, run under ASan and at -O2',
  'Runs the real File/TextFile/Directory code on every size 0..1100 and the windows around the 65536-byte copy block, every single-line length '
  '0..2000 with each line ending, generated multi-line texts (LF/CRLF/lone CR, CR at the end of a 255-byte chunk), histories of writers on one '
  'path, histories through one long-lived File/TextFile object (metadata queries, opens, writes, closes and reads interleaved), BOM files of '
  'random scalar sequences, copies/moves (also from 2-6 threads at once on distinct files, additionally under TSan), and sizes sampled to 16 MiB '
  '(thorough); compares disk bytes and every reader with the model and reports the counts of boundaries, operations, line-end and BOM kinds '
  'that were seen. Mode fault copies/moves with a write failing at a chosen byte (file-size limit) and across file systems.',
  'Trusts the harness model, the reference splitter/encoders (written from the property text), POSIX open/read/write, gcc ASan/UBSan. Sizes above '
  '200000 are sampled, not enumerated. The cross-device branch of Directory::move is not reached. Concurrent copies are scheduled by the OS: the '
  'run reports how many pairs of copy calls of different threads overlapped in time.')
