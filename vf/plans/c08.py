"""C08 plan: UTF-8/16/32 conversions, count/chars/iteration, case mapping, equalsNocase."""
import os, glob, codecs
from ..core import Job, FuzzJob
from ..props import plan, COMMON_ASSUME
from ..texts import T

N_SCALARS = 0x110000 - 0x800 - 1          # all scalar values except U+0000 (asl Strings are NUL-terminated)
N_BYTES3 = 1 + 255 + 255 ** 2 + 255 ** 3  # NUL-free byte strings of length <= 3
N_ALPHA5 = sum(15 ** l for l in range(6))  # strings of length <= 5 over the 15-byte boundary alphabet (00 = terminator excluded)

# avoid bit 1 (value 2, the default): length() != strlen() of the case maps on ILL-FORMED input (they can emit a NUL byte for a
# truncated sequence) is recorded in a counter, not judged: C08 asks for termination, in-bounds access and "never more bytes than
# the input" on arbitrary bytes, not for NUL-freeness. It is still judged on well-formed text.
# avoid bit 0 (value 1): skip count() on strings whose last byte is a 2-byte lead; only for trying the pre-fix stratum split.
AVOID = int(os.environ.get('VERIF_C08_AVOID', '2') or 0)   # the env override exists only to try the stratum split without editing this file


def _anom(prop, seed, what, desc, report):
    return dict(property=prop, key='%s/c08.oracle/pyref/%s' % (prop, what), detector='pyref', job='c08.oracle', variant='plain', harness='c08_unicode',
                mode='scalars', seed=seed, idx=0, desc=desc, report=report, how='', cmd=[], batch_from=None)


def post_c08(prop, tier, seed, res, scratch):
    """Validate the harness's reference codec against python3 codecs on the dumped records, and check that the
    enumerations the evidence calls exhaustive were complete."""
    ne = nd = bad = garbled = 0
    for p in glob.glob(os.path.join(scratch, '*', 'records.txt')):
        with open(p) as f:
            for ln in f:
                t = ln.split()
                if not t or t[-1] != '.':
                    garbled += 1
                    continue
                try:
                    if t[0] == 'E' and len(t) == 9:
                        cp, u8, u16, m8, d8, m16, d16 = int(t[1]), t[2], t[3], int(t[4]), int(t[5]), int(t[6]), int(t[7])
                        ne += 1
                        r8 = codecs.encode(chr(cp), 'utf-8').hex()
                        r16 = codecs.encode(chr(cp), 'utf-16-be').hex()
                        if (u8, u16, m8 * 2, d8, m16 * 4, d16) != (r8, r16, len(r8), cp, len(r16), cp):
                            bad += 1
                            if bad <= 3:
                                res.anoms.append(_anom(prop, seed, 'encoder-vs-python-codecs', 'U+%04X' % cp, 'harness %s %s python %s %s' % (u8, u16, r8, r16)))
                    elif t[0] == 'D' and len(t) == 5:
                        b = bytes.fromhex('' if t[1] == '-' else t[1])
                        wf = int(t[2])
                        cps = [] if t[3] == '-' else [int(x) for x in t[3].split(',')]
                        nd += 1
                        try:
                            ref = [ord(ch) for ch in codecs.decode(b, 'utf-8', 'strict')]
                            rwf = 1
                        except UnicodeDecodeError:
                            ref, rwf = [], 0
                        if wf != rwf or (wf and cps != ref):
                            bad += 1
                            if bad <= 3:
                                res.anoms.append(_anom(prop, seed, 'decoder-vs-python-codecs', t[1], 'harness wf=%d %s python wf=%d %s' % (wf, cps[:8], rwf, ref[:8])))
                    else:
                        garbled += 1
                except ValueError:
                    garbled += 1
    if ne == 0 or nd == 0:
        res.errors.append('no records for the python codecs cross-check (E=%d D=%d)' % (ne, nd))
    if garbled > 5:
        res.errors.append('%d unreadable record lines' % garbled)
    cov = dict(python_codecs_crosscheck_encoder_records=ne, python_codecs_crosscheck_decoder_records=nd, python_codecs_disagreements=bad)
    # completeness of the enumerations (per job = per build variant)
    viol = bool(res.anoms)
    def per_job(tag, counter):
        n = sum(1 for j in res.jobs if j['tag'] == tag)
        return n, res.counters.get('%s:%s' % (tag, counter), 0)
    n, tot = per_job('c08.scalars', 'scalars_checked')
    skipped = res.counters.get('c08.scalars:scalars_skipped_by_step', 0)
    cov['scalar_values_checked_all_variants'] = tot
    cov['scalar_values_skipped_by_step_in_the_asan_variant'] = skipped
    if n and (tot + skipped != n * N_SCALARS or skipped >= N_SCALARS or (tier == 'thorough' and skipped)) and not viol:
        res.errors.append('scalar enumeration incomplete: %d checked + %d skipped of %d' % (tot, skipped, n * N_SCALARS))
    if tier == 'thorough':
        if ne != N_SCALARS and not viol:
            res.errors.append('the reference encoder was checked on %d of %d scalar values' % (ne, N_SCALARS))
        for tag, ctr, want in (('c08.bytes', 'byte_strings', N_BYTES3), ('c08.alpha', 'byte_strings', N_ALPHA5)):
            n, tot = per_job(tag, ctr)
            cov[tag.split('.')[1] + '_strings_enumerated_per_variant'] = tot // n if n else 0
            if n and tot != n * want and not viol:
                res.errors.append('%s enumeration incomplete: %d of %d' % (tag, tot, n * want))
    return cov


_A = dict(avoid=AVOID)


def _p(**kw):
    d = dict(_A)
    d.update(kw)
    return d


plan('C08',
     rule='inputs are scalar values / scalar sequences (hash = the value or the UTF-8 bytes; non-trivial when at least one value is >= U+0080, i.e. a '
          'multi-byte encoding is exercised), byte strings over the boundary alphabet and random byte strings (hash = the bytes), blocks of 255 byte strings '
          'sharing a prefix in the exhaustive length<=3 enumeration (hash = the prefix; every string of the block is an evaluation), 16-bit unit sequences (hash = the units)',
     jobs=[
         FuzzJob('fz_text', quick=150000, thorough=2000000, procs=(4, 12), max_len=256),
         # well-formed text: everything judged against the reference codec
         Job('c08_unicode', 'scalars', 'plain', quick=4352, thorough=4352, shards=(8, 8), params=_p(blk=256, step=1, dump=97), tparams=dict(dump=1)),
         # quick/asan: every 4th value (phase rotating with the block) plus everything within 2 of a boundary scalar; thorough/asan: all
         Job('c08_unicode', 'scalars', 'asan', quick=4352, thorough=4352, shards=(16, 16), params=_p(blk=256, step=4), tparams=dict(step=1)),
         Job('c08_unicode', 'pairs', 'asan', quick=1936, thorough=1936, shards=(4, 4), params=_A),
         Job('c08_unicode', 'pairs', 'plain', quick=1936, thorough=1936, shards=(2, 2), params=_A),
         Job('c08_unicode', 'seqs', 'asan', quick=2000, thorough=100000, shards=(8, 16), params=_p(maxlen=200)),
         Job('c08_unicode', 'seqs', 'plain', quick=4000, thorough=200000, shards=(4, 8), params=_p(maxlen=200)),
         Job('c08_unicode', 'casemap', 'asan', quick=1500, thorough=1500, shards=(4, 16), params=_p(lim=1500, allpairs=0), tparams=dict(allpairs=1)),
         Job('c08_unicode', 'casemap', 'plain', quick=1500, thorough=1500, shards=(2, 8), params=_p(lim=1500, allpairs=0), tparams=dict(allpairs=1)),
         Job('c08_unicode', 'units', 'asan', quick=354, thorough=354, shards=(2, 2), params=_A),
         Job('c08_unicode', 'units', 'plain', quick=354, thorough=354, shards=(1, 1), params=_A),
         # arbitrary bytes: exhaustive short strings + random longer ones, flush against the end of their heap block
         Job('c08_unicode', 'bytes', 'asan', quick=256, thorough=65281, shards=(8, 16), params=_A),
         Job('c08_unicode', 'bytes', 'plain', quick=256, thorough=65281, shards=(4, 16), params=_p(dump=7), tparams=dict(dump=997)),
         Job('c08_unicode', 'alpha', 'asan', quick=212, thorough=3179, shards=(8, 16), params=_p(maxlen=4), tparams=dict(maxlen=5)),
         Job('c08_unicode', 'alpha', 'plain', quick=212, thorough=3179, shards=(4, 8), params=_p(maxlen=4, dump=5), tparams=dict(maxlen=5, dump=11)),
         Job('c08_unicode', 'rand', 'asan', quick=2500, thorough=200000, shards=(8, 16), params=_p(maxlen=300, per=8)),
         Job('c08_unicode', 'rand', 'plain', quick=5000, thorough=400000, shards=(4, 16), params=_p(maxlen=300, per=8, dump=3), tparams=dict(dump=40)),
         # strings ending in a truncated sequence, one function per case: precise witnesses per function
         Job('c08_unicode', 'trunc', 'asan', quick=3520, thorough=3520, shards=(4, 4), params=_A),
         Job('c08_unicode', 'trunc', 'plain', quick=3520, thorough=3520, shards=(1, 1), params=_A),
     ],
     post=post_c08,
     exhaustive={'thorough': True},
     assumptions=COMMON_ASSUME + [
         'U+0000 is excluded (asl Strings and all raw conversion entry points are NUL-terminated); byte 00 of the boundary alphabet is the terminator of every test string',
         'wchar_t is 32 bits on this platform; asl stores one UTF-16 code unit per wchar_t, and the UTF-16 functions are judged on 16-bit unit values only '
         '(native UTF-32 wide strings above U+FFFF are only recorded)',
         'every String under test is the 19-byte ASCII pad + the test bytes, built with String(const char*, int): a heap block of exactly len+1 bytes; raw inputs/outputs are exact malloc blocks',
         'on ill-formed bytes only termination, memory safety, output length <= input length and length()==strlen are judged; equalsNocase vs lower-case equality and '
         'count/chars/iteration agreement are judged on well-formed text and only recorded on ill-formed bytes',
         'the ASCII clause is judged against toupper/tolower after setlocale(LC_ALL, "C")',
     ])


T('C08', 'reference-codec monitor (validated offline against python3 codecs) over exhaustively enumerated scalar values and short byte strings + ASan with every input flush against the end of an exact-size heap block',
  'Runs the real conversion, count/chars/iteration, case-mapping and equalsNocase code on all 1,112,063 non-NUL scalar values (-O2 build in both tiers; ASan build: all in the thorough tier, every 4th value plus all boundary neighbourhoods in quick), all ordered pairs of 44 boundary scalars, '
  'random sequences up to 200 code points, all 1500x{self, images, neighbours} (thorough: all 1500x1500) code-point pairs for the equalsNocase equivalence, ASCII vs the C locale, and - for the any-bytes clause - '
  'every NUL-free byte string of length <= 3 (quick: <= 2), every string of length <= 5 (quick: <= 4) over the 15-byte boundary alphabet and random longer strings, each stored flush against the end of its heap block. '
  'The thorough tier enumerates the finite spaces named by the property completely (checked by counters); everything else is sampling.',
  'Trusts the 40-line reference encoder/decoder in the harness (checked against python3 codecs on every scalar value in the thorough tier, every 97th plus all boundary neighbourhoods in quick, and on sampled byte strings), '
  'gcc ASan/UBSan for the in-bounds clause (intra-object overflows and reads inside the 16-byte inline buffer of short Strings are invisible), and a 40 s per-case watchdog for termination.')
