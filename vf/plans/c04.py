"""C04 plan: Var."""
from ..core import Job
from ..props import plan, COMMON_ASSUME
from ..texts import T

plan('C04',
     rule='a case is a random history of 8-160 operations over 5 Vars (construction from every type, same-type and type-changing assignment between places up to two levels deep, '
          'auto-creating indexing, append, remove, extend, clone, resize) checked against a tagged-tree model with shared containers after every step; equality over all pairs and '
          'toString are checked at random points and at the end; non-trivial = history that crossed a container growth boundary or assigned from an own element, or has >= 20 ops; '
          'distinct = hash of the operation-kind sequence',
     jobs=[
         Job('c04_var', 'hist', 'asan', quick=4000, thorough=200000, shards=(6, 12)),
         Job('c04_var', 'hist', 'plain', quick=8000, thorough=300000, shards=(3, 4)),
         Job('c04_var', 'selfassign', 'asan', quick=2500, thorough=80000, shards=(4, 8)),
         Job('c04_var', 'selfassign', 'plain', quick=2500, thorough=80000, shards=(2, 4)),
         Job('c04_var', 'eq', 'asan', quick=300, thorough=6000, shards=(2, 4)),
         Job('c04_var', 'eq', 'plain', quick=300, thorough=6000, shards=(1, 2)),
         Job('c04_var', 'shared_growth', 'asan', quick=40, thorough=200, shards=(1, 2), floor=0.0),
     ],
     assumptions=COMMON_ASSUME + [
         'object literals Var{{k,x},{k,y},{k2,z}} may name a key twice: the later value counts and the object has one member per distinct key (what a sequence of property assignments gives)',
         'comparisons involving a NONE value anywhere in either operand are not judged (asl defines NONE==NONE as false; the property speaks of numbers, booleans, strings, arrays, objects)',
                                  'assignments that would make a container contain itself are excluded, as the property says'])
T('C04', 'lock-step tagged-tree model with shared containers over random multi-Var histories, under ASan/LSan and at -O2',
  'Runs real Var operation histories and compares every Var (type, accessors, length, children, key enumeration, toString, == over all pairs) with a reference model after each step; '
  'ASan/LSan observe use-after-free on self-element assignment, leaks and double destruction of shared children.',
  'Trusts the model and gcc ASan/LSan. Growth of a container through one Var while another Var refers to the same container is the C01 representation defect and is exercised only in its own stratum (known finding).')
