"""C09 plan: HTTP request parsing."""
from ..core import Job, FuzzJob
from ..props import plan, COMMON_ASSUME
from ..texts import T

H = 'c09_http'


def ntargets(L):
    f = [0] * (L + 1)
    f[0] = 1
    for n in range(1, L + 1):
        f[n] = 3 * f[n - 1] + (4 * f[n - 3] if n >= 3 else 0)
    return sum(f[1:])


def urlblocks(maxlen, blk):
    return (sum(11 ** l for l in range(maxlen + 1)) + blk - 1) // blk


PER = 200
plan('C09',
     rule='cases: (a) 1-4 pipelined generated well-formed requests (methods, percent-encoded paths and queries, header spellings/cases/optional whitespace, bodies with Content-Length or chunked) '
          'delivered in random fragmentations - the application must see exactly what was sent; (b) the same streams cut at every offset then closed; (c) mutated streams (Content-Length, chunked, '
          'Range, Expect abuse) against an application and a file server; (d) every request target over {. / %2e %2E %2f %25 a} up to a character length, 200 per connection, against a file server with '
          'a sentinel file outside the root; (e) all strings of URL metacharacters up to a length through Url(), Url::decode, parseQuery. distinct = hash of the stream / target / string',
     jobs=[
         FuzzJob('fz_url', quick=200000, thorough=2000000, procs=(4, 12), max_len=200),
         Job(H, 'wellformed', 'asan', quick=1200, thorough=40000, shards=(4, 8), batch=100, case_timeout=250),
         Job(H, 'wellformed', 'plain', quick=2000, thorough=60000, shards=(3, 6), batch=200, case_timeout=250),
         Job(H, 'cuts', 'asan', quick=40, thorough=1200, shards=(4, 8), batch=10, case_timeout=200),
         Job(H, 'cuts', 'plain', quick=40, thorough=1200, shards=(2, 4), batch=10, case_timeout=200),
         Job(H, 'mutants', 'asan', quick=2500, thorough=80000, shards=(4, 10), batch=100, case_timeout=120),
         Job(H, 'mutants', 'plain', quick=2500, thorough=60000, shards=(2, 6), batch=200, case_timeout=120),
         Job(H, 'targets', 'asan', quick=(ntargets(8) + PER - 1) // PER, thorough=(ntargets(11) + PER - 1) // PER, shards=(4, 8), params=dict(maxchars=8, per=PER), tparams=dict(maxchars=11), batch=50, case_timeout=250),
         Job(H, 'targets', 'plain', quick=(ntargets(9) + PER - 1) // PER, thorough=(ntargets(12) + PER - 1) // PER, shards=(4, 8), params=dict(maxchars=9, per=PER), tparams=dict(maxchars=12), batch=100, case_timeout=250),
         Job(H, 'bodies_mt', 'plain', quick=60, thorough=600, shards=(4, 8), batch=10, case_timeout=250),
         Job(H, 'bodies_mt', 'tsan', quick=12, thorough=100, shards=(4, 8), batch=3, case_timeout=250, leakcheck=False),
         Job(H, 'targets_rand', 'asan', quick=400, thorough=15000, shards=(2, 4), batch=50, case_timeout=250),
         Job(H, 'url', 'asan', quick=urlblocks(5, 2000), thorough=urlblocks(6, 2000), shards=(4, 8), params=dict(maxlen=5, blk=2000), tparams=dict(maxlen=6)),
         Job(H, 'url_rand', 'asan', quick=300, thorough=10000, shards=(2, 4)),
     ],
     exhaustive={'thorough': True},
     assumptions=COMMON_ASSUME + [
         '8% of the well-formed requests carry a #fragment after the target (possibly containing ?, = and &): path and query parameters are the ones in front of it; the cut sweep cuts long streams at every n-th offset and additionally within 3 bytes of every line end; chunked bodies mostly consist of several chunks so that a cut between chunks has delivered a proper prefix',
         'the per-connection handler of the real HttpServer runs on one end of a socketpair (through the public virtual of SocketServer); a smaller sample through real loopback sockets is part of C10',
                                  'termination is decided logically: after the client closed, a handler thread that is still running and has used > 2 s of CPU is spinning; one that is still blocked after 25 s is a hang '
                                  '(the library\'s own waits are at most 10 s); either ends the harness process for that case',
                                  'well-formed requests follow RFC 7230: optional whitespace after the header colon and at the end of the value, any case for header names; no obs-fold, no trailers, no fragments in the target'])
T('C09', 'hostile raw-socket client against the real connection handler on a socketpair: generated/mutated/cut request streams with an application-side recorder, exhaustive traversal-target enumeration against a file server with an out-of-root sentinel, , several connections with large bodies at once under TSan, under ASan and at -O2',
  'The application-side recorder must see exactly the generated requests; every stream is also cut at every offset; the handler must return after the peer closes (CPU-clock based spin detection); '
  'no decoded path may contain "..", no response may contain the sentinel stored outside the root; URL parsing/decoding is swept over all short metacharacter strings under ASan.',
  'Trusts the generator\'s description of each request, gcc ASan, thread CPU clocks for spin detection.')
