"""C15 plan: Base64 / hex / percent-encoding / SHA-1."""
from ..core import Job, FuzzJob
from ..props import plan, COMMON_ASSUME
from ..texts import T
from .. import oracle_c15

H = 'c15_codecs'


def _blocks(k, maxlen, blk):
    tot = sum(k ** i for i in range(maxlen + 1))
    return (tot + blk - 1) // blk


def post_c15(prop, tier, seed, res, scratch):
    return oracle_c15.crosscheck(prop, seed, res, scratch)


# exhaustive enumerations: strings over 8 symbols up to length 6 (quick, asan) / 7 (quick, plain) / 8 (thorough)
X6, X7, X8 = _blocks(8, 6, 1024), _blocks(8, 7, 4096), _blocks(8, 8, 4096)
UJ5, UJ7 = _blocks(8, 5, 512), _blocks(8, 7, 4096)
ODD = 5 + 125 + 3125   # odd-length strings of length <= 5 over 5 symbols

plan('C15',
     rule='a case is one length (with several contents: all-zero, all-0xFF, counting, random), one block of an exhaustive enumeration of short '
          'strings, or a batch of generated strings / dictionaries; non-trivial = non-empty byte array (hash of the bytes), SHA-1 message (hash of '
          'length + first 4 KiB), distinct generated string / query string, or distinct enumeration block (hash = first index of the block; the '
          'strings inside a block are counted as evaluations)',
     jobs=[
         FuzzJob('fz_codecs', quick=200000, thorough=2000000, procs=(4, 12), max_len=300),
         # every length 0..1024, Base64 + hex both directions, whitespace-interleaved decoding
         Job(H, 'bytes', 'asan', quick=1025, thorough=1025, shards=(8, 16), params=dict(reps=3), tparams=dict(reps=16)),
         Job(H, 'bytes', 'plain', quick=1025, thorough=1025, shards=(4, 8), params=dict(reps=3, dump=1), tparams=dict(reps=16)),
         Job(H, 'bytes_big', 'asan', quick=16, thorough=96, shards=(8, 16), params=dict(maxlen=1 << 20), tparams=dict(maxlen=4 << 20)),
         Job(H, 'bytes_big', 'plain', quick=32, thorough=256, shards=(8, 16), params=dict(maxlen=1 << 20, dump=1), tparams=dict(maxlen=4 << 20)),
         # SHA-1: every length 0..260 (dense part continues to 1100 in thorough), sampled to 1 MiB / 8 MiB
         Job(H, 'sha1', 'asan', quick=261, thorough=1100, shards=(4, 8), params=dict(reps=6), tparams=dict(reps=30)),
         Job(H, 'sha1', 'plain', quick=261, thorough=1100, shards=(2, 8), params=dict(reps=6, dump=1), tparams=dict(reps=30)),
         Job(H, 'codecs_mt', 'plain', quick=60, thorough=600, shards=(4, 8), params=dict(rounds=40)),
         Job(H, 'codecs_mt', 'tsan', quick=8, thorough=60, shards=(4, 8), params=dict(rounds=10), batch=2, leakcheck=False),
         Job(H, 'sha1_big', 'asan', quick=24, thorough=128, shards=(8, 16), params=dict(maxlen=1 << 20), tparams=dict(maxlen=8 << 20)),
         Job(H, 'sha1_big', 'plain', quick=64, thorough=400, shards=(8, 16), params=dict(maxlen=1 << 20, dump=1), tparams=dict(maxlen=8 << 20)),
         # exhaustive short strings through decodeBase64 (stratum A: everything but the pad-heavy shape)
         Job(H, 'b64x', 'asan', quick=X6, thorough=X8, shards=(8, 16), params=dict(maxlen=6, blk=1024), tparams=dict(maxlen=8, blk=4096)),
         Job(H, 'b64x', 'plain', quick=X7, thorough=X8, shards=(8, 16), params=dict(maxlen=7, blk=4096, dump=1, dumpevery=97), tparams=dict(maxlen=8)),
         # stratum B: more trailing '=' than decoded bytes (defect: negative length)
         Job(H, 'b64_padonly', 'asan', quick=X6, thorough=X8, shards=(4, 8), params=dict(maxlen=6, blk=1024), tparams=dict(maxlen=8, blk=4096)),
         Job(H, 'b64_padonly', 'plain', quick=X6, thorough=X8, shards=(2, 8), params=dict(maxlen=6, blk=1024), tparams=dict(maxlen=8, blk=4096)),
         Job(H, 'b64junk', 'asan', quick=1500, thorough=60000, shards=(4, 16)),
         Job(H, 'b64junk', 'plain', quick=1500, thorough=60000, shards=(2, 8)),
         # explicit-length C entry point with n delimiting the text (defect: n is ignored by the decode loop)
         Job(H, 'b64_ptrn', 'asan', quick=400, thorough=4000, shards=(1, 2)),
         # hex: exhaustive short strings, random long ones; odd lengths apart (defect: one byte written past the result)
         Job(H, 'hexx', 'asan', quick=62, thorough=62, shards=(2, 2), params=dict(blk=64)),
         Job(H, 'hexx', 'plain', quick=62, thorough=62, shards=(1, 1), params=dict(blk=64)),
         Job(H, 'hex', 'asan', quick=500, thorough=20000, shards=(4, 16)),
         Job(H, 'hex', 'plain', quick=500, thorough=20000, shards=(2, 8)),
         Job(H, 'hex_odd', 'asan', quick=ODD + 245, thorough=ODD + 20000, shards=(1, 4)),
         Job(H, 'hex_odd', 'plain', quick=ODD + 245, thorough=ODD + 20000, shards=(1, 2)),
         # percent-encoding
         Job(H, 'url_pairs', 'asan', quick=255, thorough=255, shards=(4, 8)),
         Job(H, 'url_pairs', 'plain', quick=255, thorough=255, shards=(2, 4), params=dict(dump=1)),
         Job(H, 'url', 'asan', quick=1500, thorough=60000, shards=(4, 16)),
         Job(H, 'url', 'plain', quick=1500, thorough=60000, shards=(2, 8), params=dict(dump=1)),
         Job(H, 'url_junk', 'asan', quick=UJ5, thorough=UJ7, shards=(4, 16), params=dict(maxlen=5, blk=512), tparams=dict(maxlen=7, blk=4096)),
         Job(H, 'url_junk', 'plain', quick=UJ5, thorough=UJ7, shards=(2, 8), params=dict(maxlen=5, blk=512), tparams=dict(maxlen=7, blk=4096)),
         Job(H, 'query', 'asan', quick=1500, thorough=60000, shards=(4, 16)),
         Job(H, 'query', 'plain', quick=1500, thorough=60000, shards=(2, 8), params=dict(dump=1)),
     ],
     post=post_c15,
     exhaustive={'thorough': True},
     assumptions=COMMON_ASSUME + [
         'strings are NUL-free (asl String); percent-encoding inputs range over bytes 1..255',
         'Url::encode is judged through its round trip and through an independent RFC 3986 decoder; which characters it leaves untouched is only counted '
         '(it equals the documented encodeURI / encodeURIComponent sets on everything observed)',
         'decoding of non-canonical Base64 (non-zero pad bits), upper-case hex and malformed percent escapes is exercised for totality and bounds, not judged for value',
         'short inputs (< 19 bytes) are additionally placed behind a valid prefix or in malloc(len+1) blocks so that their end coincides with the end of a heap block',
         'sampled lengths stop at 4 MiB (Base64/hex) and 8 MiB (SHA-1); SHA1::update takes an int length and its bit counter is not driven past 2^31 bits',
     ])


T('C15', 'independent re-implementations (RFC 4648, hex, RFC 3986, FIPS 180-4) in lock-step + python3 stdlib offline + ASan on exact-size blocks, '
         'with exhaustive enumeration of short decoder inputs, plus concurrent hashing/encoding of private buffers under TSan',
  'Runs the real codecs on byte arrays of every length 0..1024 (several contents each, Base64 text also interleaved with whitespace) and sampled lengths to 4 MiB, '
  'SHA-1 on every length 0..260 (0..1100 thorough) and sampled to 8 MiB, every string of length <= 8 over {A b + / = SP LF *} through decodeBase64 (<= 6/7 quick), '
  'every string of length <= 5 over {0 9 a F g} through decodeHex, all 1- and 2-byte strings over 1..255 and random longer ones through Url::encode/decode in both '
  'modes, random dictionaries through params/parseQuery; compares with in-harness references and, for a recorded sample, with python base64/binascii/urllib/hashlib. '
  'Held = no divergence and no sanitizer report on what was enumerated/generated; the evidence lists the counts.',
  'Trusts the harness references (each cross-checked against python3 stdlib on the recorded sample), gcc ASan/UBSan, and that inputs flush with a heap block end expose '
  'over-reads. Three input shapes are kept in their own modes because they hit genuine defects: odd-length hex (hex_odd), more trailing padding than data (b64_padonly), '
  'explicit-length C entry point (b64_ptrn).')
