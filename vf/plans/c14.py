"""C14 plan: SocketServer."""
from ..core import Job
from ..props import plan, COMMON_ASSUME
from ..texts import T

H = 'c14_server'
plan('C14',
     rule='a case is one server history: {TCP 127.0.0.1:ephemeral | Unix path} x {concurrent | sequential} x N in 0..200 clients (bursts and trickles, some closing before sending or before reading) '
          'x stop(true) issued before, during or after the clients x destruction x further connects afterwards, with seeded jitter at the accept-loop / handler-count / thread hooks; '
          'judged by an offline checker over the totally ordered event log; distinct = hash of the hook-event order and of the event log prefix',
     jobs=[
         Job(H, 'hist', 'asan', quick=48, thorough=400, shards=(16, 16), batch=4, case_timeout=120),
         Job(H, 'hist', 'tsan', quick=32, thorough=200, shards=(16, 16), batch=2, case_timeout=120, leakcheck=False),
         Job(H, 'hist', 'plain', quick=48, thorough=400, shards=(16, 16), batch=4, case_timeout=120),
     ],
     assumptions=COMMON_ASSUME + ['accept events are taken from the ASL_VERIF hook placed right after accept() in the accept loop; serve events from the harness subclass; all events pass through one mutex, which gives the total order the checker uses',
                                  'clients are raw POSIX sockets in harness threads; a client that got its echo must see EOF within 30 s of wall-clock time (the library closes the socket in the same thread right after serve() returns)',
                                  'a Unix-socket server\'s path disappears when the first accepted connection is destroyed (observed, outside the statement): later Unix clients fail to connect and are not "accepted connections"',
                                  'TSan suppressions cover only SocketServer::stop / running (plain bool flags polled across opaque calls); their behaviour is what the event-log checker decides'])
T('C14', 'offline checker over a totally ordered event log (hook-observed accepts, serve entries/exits, client echoes/EOFs, stop/destroy) across generated server histories (two-step and long-handler shutdowns, two endpoints, signals, descriptor 0) with seeded jitter, under ASan, TSan and -O2',
  'Each history runs the real SocketServer with real loopback/Unix clients; conservation accepted = served = returned, exactly-once per token, nothing after stop(true) returned, running() false, '
  'socket valid inside serve() and closed after it are checked on the log; ASan observes any thread touching the server after destruction.',
  'Trusts the log\'s mutex order, gcc ASan/TSan, loopback networking of the sandbox.')
