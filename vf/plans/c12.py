"""C12 plan: shared handles and atomic counters under concurrency."""
from ..core import Job
from ..props import plan, COMMON_ASSUME
from ..texts import T

H = 'c12_refcount'
plan('C12',
     rule='serial cases: a scenario of 2-3 threads x <=4 handle operations (copy, assign, drop, read, re-acquire) on one shared Array / Map / Dic / HashMap / Shared<T> / SmartObject-class object, '
          'executed once per interleaving of the threads at the library\'s atomic inc/dec steps (depth-first enumeration by a token-passing scheduler, capped per scenario); '
          'distinct = hash of the executed (thread, point) event sequence per scenario. stress cases: 16 real threads x 10^4-10^6 operations with seeded jitter at the same points under TSan, ASan and -O2; '
          'counters: AtomicCount and Atomic<int|Long|double> with known per-thread sums',
     jobs=[
         Job(H, 'serial', 'asan', quick=140, thorough=700, shards=(10, 16), params=dict(ops2=3, maxsched=800), tparams=dict(ops2=4, maxsched=3000), batch=7, case_timeout=300),
         Job(H, 'chain', 'asan', quick=600, thorough=20000, shards=(3, 6), batch=100),
         Job(H, 'chain', 'tsan', quick=150, thorough=3000, shards=(2, 4), batch=25, leakcheck=False),
         Job(H, 'chain', 'plain', quick=1200, thorough=40000, shards=(2, 4), batch=300),
         Job(H, 'serial_counters', 'asan', quick=16, thorough=200, shards=(4, 8), params=dict(maxsched=400), tparams=dict(maxsched=5000), batch=4, case_timeout=300),
         Job(H, 'stress', 'tsan', quick=14, thorough=70, shards=(4, 4), params=dict(threads=16, ops=15000), tparams=dict(ops=100000), weight=4, batch=1, case_timeout=300, leakcheck=False),
         Job(H, 'stress', 'asan', quick=14, thorough=70, shards=(4, 8), params=dict(threads=16, ops=50000), tparams=dict(ops=200000), weight=4, batch=7, case_timeout=300),
         Job(H, 'stress', 'plain', quick=28, thorough=140, shards=(4, 8), params=dict(threads=16, ops=300000), tparams=dict(ops=600000), weight=4, batch=7, case_timeout=300),
         Job(H, 'atomic_handle', 'asan', quick=16, thorough=160, shards=(8, 16), params=dict(rounds=3000), batch=4, case_timeout=300),
         Job(H, 'atomic_handle', 'tsan', quick=8, thorough=60, shards=(8, 8), params=dict(rounds=1000), batch=2, case_timeout=300, leakcheck=False),
         Job(H, 'dup_race', 'asan', quick=28, thorough=280, shards=(7, 14), params=dict(rounds=150), batch=7, case_timeout=300),
         Job(H, 'dup_race', 'plain', quick=28, thorough=280, shards=(7, 14), params=dict(rounds=300), batch=7, case_timeout=300),
         Job(H, 'counters', 'tsan', quick=4, thorough=16, shards=(2, 4), params=dict(threads=16, ops=20000), tparams=dict(ops=100000), weight=4, batch=1, case_timeout=300, leakcheck=False),
         Job(H, 'counters', 'plain', quick=12, thorough=60, shards=(3, 4), params=dict(threads=16, ops=300000), tparams=dict(ops=2000000), weight=4, batch=4, case_timeout=300),
     ],
     assumptions=COMMON_ASSUME + [
         'kind Shared<Derived>: its assignments additionally go through a base-typed handle (converting constructor, then converting assignment of the object it already holds); the base handle never outlives the two typed handles, so the object is always deleted through its own type; not in the TSan build (the converting copy rewrites the unchanged object pointer in the shared count block)',
         'interleavings are explored at the granularity of the hook points in front of atomicInc/atomicDec; the atomic step itself is only exercised by the real-thread stress runs '
                                  '(TSan happens-before analysis, lost-update conservation at full speed)',
                                  'reorderings that a weaker memory model than x86-64 TSO allows are seen only through TSan, not executed',
                                  'a handle is never assigned to itself (h = h), which is a sequential matter outside this property'])
T('C12', 'deterministic token-passing scheduler enumerating interleavings at the library\'s atomic steps + real-thread stress under TSan/ASan/-O2 with conservation and exactly-once-destruction monitors, incl. clone/dup races and Atomic<handle> publication',
  'Every enumerated interleaving is a real execution judged by payload construct/destroy accounting (exactly once, never while a handle is held: holders read through their handles) and ASan; '
  'stress runs add TSan race detection and conservation of counter sums.',
  'Trusts gcc TSan/ASan, the scheduler (its own state is behind one mutex and never touched from inside asl), std::thread.')
