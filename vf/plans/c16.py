"""C16 plan: endian-aware binary streams (StreamBuffer/StreamBufferReader, File, Socket)."""
from ..core import Job
from ..props import plan, COMMON_ASSUME
from ..texts import T

H = 'c16_streams'

plan('C16',
     rule='a case is one random sequence of 0..64 items drawn from {i8,u8,char,i16,u16,i32,u32,i64,u64,f32,f64,bool scalars with arbitrary bit '
          'patterns incl. NaN payloads/-0/min/max, String, const char*, int-length-prefixed String, Array<T> of each scalar type with length 0..100, '
          'setEndian(BIG|LITTLE|NATIVE)} with an explicit initial order, written through asl, compared byte for byte with a reference serializer and '
          'read back through asl; it is non-trivial when it has >= 3 items including at least one multi-byte scalar; distinct = hash of the initial '
          'order + the item-type sequence (array element types and the target of every setEndian included, values and lengths excluded). '
          'Stratum A (modes buffer/file/socket) keeps non-empty arrays of multi-byte elements off the not-swapped (host order: LITTLE/NATIVE on x86-64) '
          'array path; stratum B (modes *_hostorder_arrays) puts at least one on it in every sequence. About 8% of the items write the Array object '
          'of an earlier item again (same object, kept alive), half of them after a further setEndian; after every << the object handed over is '
          'compared (memcmp) with an independent copy built from the bit patterns. Mode socket_frag: the reference bytes of a stratum-B sequence are '
          'sent through the raw descriptor in pieces (four styles: 1..3 bytes, 1..7 bytes, 1..7 with some 8..64, cuts inside values only) with up to '
          '32 pauses of 100 us..2 ms per case, each taken only after FIONREAD on the reading descriptor shows that the reader has consumed everything '
          'sent so far; such a case is non-trivial only if at least one pause fell inside a multi-byte value (a forced short read), distinct = type '
          'sequence + style',
     jobs=[
         # stratum A: must be completely clean
         Job(H, 'buffer', 'plain', quick=300000, thorough=3000000, shards=(8, 16)),
         Job(H, 'buffer', 'asan', quick=60000, thorough=400000, shards=(8, 16)),
         Job(H, 'file', 'plain', quick=50000, thorough=400000, shards=(6, 16)),
         Job(H, 'file', 'asan', quick=20000, thorough=120000, shards=(6, 16)),
         Job(H, 'socket', 'plain', quick=12000, thorough=100000, shards=(8, 16)),
         Job(H, 'socket', 'asan', quick=6000, thorough=50000, shards=(8, 16)),
         # stratum B: arrays of multi-byte elements written in host byte order (the Array<T> fast path)
         Job(H, 'buffer_hostorder_arrays', 'plain', quick=30000, thorough=300000, shards=(2, 8)),
         Job(H, 'buffer_hostorder_arrays', 'asan', quick=10000, thorough=100000, shards=(2, 8)),
         Job(H, 'file_hostorder_arrays', 'plain', quick=8000, thorough=80000, shards=(2, 8)),
         Job(H, 'file_hostorder_arrays', 'asan', quick=4000, thorough=30000, shards=(2, 8)),
         Job(H, 'socket_hostorder_arrays', 'plain', quick=3000, thorough=40000, shards=(2, 8)),
         Job(H, 'socket_hostorder_arrays', 'asan', quick=1500, thorough=20000, shards=(2, 8)),
         # Socket read-back with fragmented delivery (forced short reads); the cases mostly sleep
         Job(H, 'socket_intr', 'plain', quick=48, thorough=600, shards=(8, 16), batch=6),
         Job(H, 'socket_intr', 'asan', quick=32, thorough=300, shards=(8, 16), batch=4),
         Job(H, 'socket_frag', 'plain', quick=2400, thorough=40000, shards=(8, 16)),
         Job(H, 'socket_frag', 'asan', quick=1200, thorough=20000, shards=(8, 16)),
     ],
     assumptions=COMMON_ASSUME + [
         'an Array<String> is an array of "these": a fifth of the String items are written as an Array<String> of 1-4 pieces whose bytes must be the pieces\' characters one after the other (read back as the same text); the StreamBuffer self-append histories also write runs of the buffer\'s own bytes with write(ptr, n) and << across growth boundaries',
         'host is x86-64 (little endian): NATIVE and LITTLE take the not-swapped paths, BIG the swapped ones; the host order is measured at run time by the harness, independently of ASL_BIGENDIAN',
         'the initial byte order is always set explicitly (constructor argument or setEndian); the classes\' defaults are not judged',
         'asl has no array or (for StreamBufferReader) string extraction: arrays are read back element by element with operator>>(T&), strings with '
         'read(n)/readString(n) of the known length, and with operator>>(String&) of File/Socket when the writer sent the int32 length first',
         'strings contain no NUL byte; Array<String> and nested arrays are not exercised (sizeof(T) bytes per element is meaningless for them)',
         'Socket is exercised over AF_UNIX stream socketpairs wrapped with Socket(fd); File on the local scratch file system',
         'socket_frag judges only the reading side (Socket >> and readString) in blocking mode; short reads are produced by the delivery schedule of '
         'the peer, not by signals or non-blocking descriptors',
     ])

T('C16', 'reference-model monitor: byte-by-byte reference serializer vs bytes in the StreamBuffer, in the file (POSIX read) and on a raw socketpair fd, plus typed read-back, under ASan/UBSan and at -O2',
  'Runs the real stream operators on random sequences of up to 64 typed values, arrays (0..100 elements of every scalar type) and strings with byte-order '
  'switches at arbitrary points, for BIG, LITTLE and NATIVE, on the three stream classes; every produced byte and every value read back is compared '
  '(memcmp on bit patterns). Source objects are compared with an independent copy after every << and Array objects are written more than once, so an '
  'operator that damages its argument is seen both directly and in later bytes. Socket read-back is repeated with fragmented delivery (pieces of 1..7 '
  'bytes cut inside 2/4/8-byte values, paced so that short reads are certain, counted as frag.short_reads_forced) with guard bytes around the object '
  'read into. Reports per-type, per-order, per-array-element-type counts and the number of distinct item-type sequences.',
  'Trusts the harness serializer (shift-and-mask from the integer bit pattern), gcc ASan/UBSan, POSIX read, AF_UNIX socketpairs. Little-endian host only; '
  'big-endian hosts (where LITTLE is the swapped order) are not reachable here. Exploration, not proof.')
