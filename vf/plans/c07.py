"""C07 plan: Xml::decode total and safe, parent links, encode -> decode preserves the tree."""
from ..core import Job, FuzzJob
from ..props import plan, COMMON_ASSUME
from ..texts import T


def post(prop, tier, seed, res, scratch):
    """Floors on what the monitors must have seen (a run that exercised no lexical situation proves nothing)."""
    c = res.counters
    need = ['c07.total:lex_comment', 'c07.total:lex_pi', 'c07.total:lex_doctype', 'c07.total:lex_cdata', 'c07.total:lex_xmldecl',
            'c07.total:lex_ref_decimal', 'c07.total:lex_ref_hex', 'c07.total:lex_ref_huge_or_out_of_range', 'c07.total:lex_ref_negative',
            'c07.total:lex_ref_empty_or_malformed', 'c07.total:lex_ref_unterminated', 'c07.total:lex_ref_unknown_entity',
            'c07.total:lex_attr_single_quoted', 'c07.total:lex_attr_double_quoted', 'c07.total:lex_self_closing',
            'c07.total:input_raw_bytes', 'c07.total:mut_truncate', 'c07.total:mut_token',
            'c07.trunc:truncation_offsets', 'c07.trunc:cut_in_attr_value', 'c07.trunc:cut_in_reference', 'c07.trunc:cut_in_comment', 'c07.trunc:cut_in_start_tag',
            'c07.parents:walk_elements', 'c07.parents:walk_text_nodes', 'c07.parents:source_generated_tree', 'c07.parents:source_mutated_tree', 'c07.parents:source_roundtrip-output_tree',
            'c07.roundtrip:roundtrips_compact_ok', 'c07.roundtrip:roundtrips_indented_ok', 'c07.roundtrip:model_depth_9-12', 'c07.roundtrip:model_text_merges',
            'c07.roundtrip:model_whitespace_only_text_dropped']
    missing = [k for k in need if not c.get(k)]
    if missing and not res.anoms:
        res.errors.append('monitors saw none of: ' + ', '.join(missing))
    nodes = c.get('c07.parents:walk_elements', 0) + c.get('c07.parents:walk_text_nodes', 0) + c.get('c07.total:walk_elements', 0) + c.get('c07.total:walk_text_nodes', 0) + \
        c.get('c07.trunc:walk_elements', 0) + c.get('c07.trunc:walk_text_nodes', 0) + c.get('c07.roundtrip:walk_elements', 0) + c.get('c07.roundtrip:walk_text_nodes', 0)
    return dict(parent_links_checked=int(nodes), truncation_offsets=int(c.get('c07.trunc:truncation_offsets', 0)),
                roundtrips_compact=int(c.get('c07.roundtrip:roundtrips_compact_ok', 0)), roundtrips_indented=int(c.get('c07.roundtrip:roundtrips_indented_ok', 0)))


plan('C07',
     rule='roundtrip: random DOM trees (whole-tree depth 1..12, every 5th case exactly 12; names over [A-Za-z_:][A-Za-z0-9_.:-]* plus non-ASCII UTF-8 letters; attribute values and text over '
          '& < > " \' space tab CR LF, control bytes 0x01-0x1f/0x7f, UTF-8 and stray high bytes, markup-looking tokens; mixed content, adjacent text nodes, empty and whitespace-only text, '
          'empty elements) built through the public API, encoded (compact; also indented when text is only ever a sole child), decoded and compared with the generator\'s model after merging adjacent text and '
          'dropping whitespace-only text on both sides; non-trivial = at least 3 nodes or a markup character in a value; distinct = hash of the canonical model. '
          'parents: every element and text node below the root returned by decode (accepted generated documents, mutants, encoder outputs) must have parent() == its container; non-trivial = a returned tree with '
          'at least 2 nodes; distinct = hash of the input. total: generated documents (declaration, comments, PIs, DOCTYPE with internal subset and nested angle brackets, CDATA, all reference kinds, both quote '
          'styles, self-closing tags, malformed variants), 1-4 mutations (truncate, delete, duplicate, splice, bit flip, byte, token insertion), markup soup and raw bytes (some with NUL), each as an exact-size heap '
          'String (inputs under 19 bytes also padded to 19 with leading whitespace): null, or a tree that passes the parent walk, encodes in both modes, and whose compact encoding decodes to the same tree '
          '(judged when its names are well-formed); non-trivial = contains < or &; distinct = hash of the bytes. trunc: every prefix of generated documents of up to ~300 bytes. '
          'surplus / deep are strata for two defects: "</>" with nothing open (the byte sequence "</>" is broken up in all other modes) and nesting of 200..300000 levels; distinct = hash of bytes / (depth, form)',
     jobs=[
         FuzzJob('fz_xml', quick=150000, thorough=2000000, procs=(4, 12), max_len=400, dict_file='harness/fuzz/xml.dict'),
         Job('c07_xml', 'roundtrip', 'asan', quick=9000, thorough=140000, shards=(8, 16)),
         Job('c07_xml', 'roundtrip', 'plain', quick=24000, thorough=280000, shards=(4, 8)),
         Job('c07_xml', 'parents', 'asan', quick=22000, thorough=400000, shards=(6, 16)),
         Job('c07_xml', 'parents', 'plain', quick=36000, thorough=700000, shards=(4, 8)),
         Job('c07_xml', 'total', 'asan', quick=130000, thorough=2400000, shards=(6, 16)),
         Job('c07_xml', 'total', 'plain', quick=180000, thorough=3000000, shards=(4, 16)),
         Job('c07_xml', 'trunc', 'asan', quick=4500, thorough=70000, shards=(6, 16)),
         Job('c07_xml', 'trunc', 'plain', quick=4500, thorough=100000, shards=(2, 8)),
         Job('c07_xml', 'decode_mt', 'plain', quick=96, thorough=960, shards=(8, 16), batch=1),
         Job('c07_xml', 'decode_mt', 'tsan', quick=24, thorough=200, shards=(8, 16), batch=1, leakcheck=False),
         Job('c07_xml', 'surplus', 'asan', quick=1000, thorough=20000, shards=(2, 4)),
         Job('c07_xml', 'surplus', 'plain', quick=1000, thorough=20000, shards=(1, 2)),
         Job('c07_xml', 'deep', 'asan', quick=54, thorough=54, shards=(6, 6), batch=1),
         Job('c07_xml', 'deep', 'plain', quick=54, thorough=54, shards=(3, 3), batch=1),
     ],
     post=post,
     assumptions=COMMON_ASSUME + [
         'null element = a handle for which operator! is true (decode returns a fresh empty-tagged element, or occasionally a lone text node; both are counted)',
         'the element decode returns is the root of the tree: its parent() must be the null element (what Xml::parent() documents for a root), and walking parent() up from '
         'every fifth element must end there after exactly the element\'s depth. Before fix b6c6e42 the root still pointed at the parser\'s destroyed holder element, so the upward walk '
         'ended in freed memory; that is judged as a broken parent link of the returned tree, not as a new requirement',
         'whitespace-only text = text consisting of space, tab, CR, LF only (incl. empty text); well-formed name = [A-Za-z_:][A-Za-z0-9_.:-]* with valid UTF-8 non-ASCII characters allowed anywhere',
         'values and text never contain NUL (asl Strings are NUL-terminated); inputs shorter than 19 bytes are stored inline where ASan cannot see an over-read, so they are additionally run padded to 19 bytes',
         'decoding of generated documents is judged for totality, parent links and re-encodability only: no entity expansion, namespace, CDATA, comment or PI semantics is demanded',
         'termination is judged by the runner\'s per-case watchdog (40 s, re-run once)'])

T('C07', 'model-based round-trip monitor (generator DOM compared through the public accessors) + parent-link tree walk on every returned tree + grammar/mutation/truncation/raw-byte workloads on exact-size heap inputs  under ASan/UBSan/LSan, plus first-use decodes from several threads under TSan',
  'Runs the real Xml::encode/decode on generated DOM trees to depth 12 (compact, and indented for sole-child text) and compares tags, attributes, child order and text with the generator\'s model up to text merging '
  'and whitespace-only text; walks every tree decode returns (from accepted documents, mutants, all prefixes of short documents, raw bytes, encoder outputs) checking child.parent() == container; sanitizers and a '
  'watchdog judge memory safety and termination. Reports counts of lexical situations, truncation offsets per lexical region, depth histogram and parent links checked.',
  'Trusts the generator model and normaliser, gcc ASan/UBSan/LSan and the watchdog. Two defect strata (surplus end tag "</>", nesting >= 10^5) are kept apart from the clean modes. No coverage-guided fuzzing in the registered check '
  '(a one-off libFuzzer session of 4 x 7.4M runs on inputs <= 300 bytes found nothing beyond the two strata).')
