"""C20 plan: Matrix3/Matrix4 inverse + det, Matrix solve / least squares, rotation conversions."""
import os, glob, json, re
from ..core import Job
from ..props import plan, COMMON_ASSUME
from ..texts import T

# euler mode: case idx -> (axis convention idx % 24, middle angle idx // 24); the middle-angle grid has 270 entries
# (multiples of pi/12, +-10^-k neighbourhoods of 0, +-pi/2, +-pi, out-of-range values); indices beyond it are random
EULER_GRID = 24 * 270


def post_c20(prop, tier, seed, res, scratch):
    """The runner's counters add up over shards; the 'shardmax_*' counters are per-shard maxima, so replace their
    (meaningless) sums by the maximum over the shards, and check that the interesting strata were actually visited."""
    mx = {}
    for d in glob.glob(os.path.join(scratch, '*')):
        m = re.match(r'^\d+_(.+)_(asan|plain|tsan)_\d+$', os.path.basename(d))
        rp = os.path.join(d, 'result.json')
        if not m or not os.path.exists(rp):
            continue
        with open(rp) as f:
            r = json.load(f)
        for k, v in r['counters'].items():
            if k.startswith('shardmax_'):
                kk = '%s:%s' % (m.group(1), k)
                mx[kk] = max(mx.get(kk, 0), v)
    ratios, rots = {}, {}
    for kk, v in mx.items():
        res.counters.pop(kk, None)
        tag, name = kk.split(':', 1)
        res.counters['%s:%s' % (tag, name.replace('shardmax_', 'max_'))] = v
        if name.startswith('shardmax_milli.'):
            key = name[len('shardmax_milli.'):]
            ratios[key] = max(ratios.get(key, 0), v / 1000.0)
        elif name.startswith('shardmax_ppm_of_tol.') and not tag.endswith('_nd'):
            key = name[len('shardmax_ppm_of_tol.'):]
            rots[key] = max(rots.get(key, 0), v / 1e6)

    def total(suffix):
        return sum(v for k, v in res.counters.items() if k.endswith(suffix))

    need = ['f.m4.nonsingular', 'f.m3.nonsingular', 'f.solve.nonsingular', 'f.solve.row_exchange_required', 'f.solve.row_exchange_performed',
            'f.lsq.nonsingular', 'f.quat.roundtrip_checked', 'f.solve.n=12', 'f.solve.n=01', 'f.solve.nrhs=4',
            'fl.m4.float.judged', 'fl.m4.double.judged', 'fl.m3.float.judged', 'fl.m3.double.judged', 'fl.solve.float.judged', 'fl.solve.double.judged',
            'fl.lsq.float.judged', 'fl.lsq.double.judged',
            'euler.gimbal_branch_taken.double', 'euler.gimbal_branch_taken.float', 'euler.middle_angle_exactly_degenerate',
            'rot.lattice_quaternion_180_degrees', 'rot.angle_exactly_0_or_2pi', 'rot.angle_within_1e-3_of_pi',
            'rot.rotation_branch.w.double', 'rot.rotation_branch.x.double', 'rot.rotation_branch.y.double', 'rot.rotation_branch.z.double']
    ran = set(j['mode'] for j in res.jobs)
    for n in need:
        mode = 'field' if n.startswith('f.') else 'float' if n.startswith('fl.') else 'euler' if n.startswith('euler.m') else 'rot' if n.startswith('rot.') else None
        if mode and mode not in ran:
            continue   # --only-job runs
        if mode is None and not ({'rot', 'euler'} & ran):
            continue
        if total(':' + n) == 0:
            res.errors.append('stratum never visited: counter %s is 0' % n)
    if 'euler' in ran:
        orders = set(k.split('euler.order.')[1] for k in res.counters if 'c20.euler:euler.order.' in k)
        if len(orders) != 24:
            res.errors.append('only %d of the 24 Euler conventions were run' % len(orders))
    return dict(max_observed_over_n_eps_kappa=dict(sorted(ratios.items())), allowed_over_n_eps_kappa=1000,
                max_rotation_distance_over_tolerance_main_stratum=dict(sorted(rots.items())),
                tolerance=dict(double=1e-6, float=2e-3))


BIG = 20000   # cases per forked child for the cheap modes

plan('C20',
     rule='field: a case is one random/structured matrix (or system) over F_p, p=2^61-1, with a per-case random order for fabs(); it is non-trivial '
          'when the matrix is nonsingular so that the identity is actually evaluated (hash of kind, size and all entries); cases with a zero entry, '
          'with a required row exchange and with performed exchanges are counted separately. float: one well-conditioned float/double matrix or system '
          '(hash of entries), skipped when singular or kappa_inf > kmax. rot/euler: a sub-case is one rotation (direction, angle) / unit quaternion / '
          '(axis order, angle triple), hash of its parameters; every sub-case drives 10-30 conversions in float and double',
     jobs=[
         Job('c20_matrix', 'field', 'plain', quick=100000, thorough=10000000, shards=(8, 16), batch=BIG),
         Job('c20_matrix', 'field', 'asan', quick=40000, thorough=2000000, shards=(8, 16), batch=BIG),
         Job('c20_matrix', 'float', 'plain', quick=40000, thorough=2000000, shards=(4, 16), batch=BIG, params=dict(kmax=1000)),
         Job('c20_matrix', 'float', 'asan', quick=16000, thorough=400000, shards=(4, 16), batch=BIG, params=dict(kmax=1000)),
         Job('c20_matrix', 'rot', 'plain', quick=400, thorough=20000, shards=(8, 16), batch=100),
         Job('c20_matrix', 'rot', 'asan', quick=120, thorough=3000, shards=(8, 16), batch=50),
         Job('c20_matrix', 'euler', 'plain', quick=EULER_GRID, thorough=EULER_GRID + 24 * 130, shards=(16, 16), batch=100, params=dict(stride=3), tparams=dict(stride=1)),
         Job('c20_matrix', 'euler', 'asan', quick=EULER_GRID, thorough=EULER_GRID, shards=(16, 16), batch=100, params=dict(stride=24), tparams=dict(stride=2)),
         # stratum with the eulerAngles() near-degenerate inputs (deciding matrix entry within 16 eps below 1): see the finding
         Job('c20_matrix', 'rot_nd', 'plain', quick=400, thorough=20000, shards=(4, 16), batch=100),
         Job('c20_matrix', 'euler_nd', 'plain', quick=EULER_GRID, thorough=EULER_GRID + 24 * 130, shards=(8, 16), batch=100, params=dict(stride=3), tparams=dict(stride=1)),
     ],
     post=post_c20,
     assumptions=COMMON_ASSUME + [
         'identities over F_p are decided at random points: a wrong polynomial identity of degree <= 16 survives one point with probability < 2^-56; '
         'structured points (zeros, permutations, singular minors) are added on top, not instead',
         'the order used by fabs()/comparisons over F_p is x -> x*k mod p (k random per case) read as an integer: injective, 0 is the minimum; '
         'because every representative is >= 0, Matrix4::rotation() always takes its first branch over the field (the other three are covered in float/double only)',
         'least squares over F_p is judged only when AtA is nonsingular (full column rank does not imply that over a finite field)',
         'floating point: kappa is the infinity-norm condition number from a long-double Gauss-Jordan inverse; matrices with kappa > 1000 are skipped and counted; '
         'least squares is judged against the normal equations (kappa of AtA); its error scale includes |A|t|b|, the size of the rounding error of forming At*b, which can cancel to a much smaller At*b',
         'rotations are compared as 3x3 matrices (Frobenius distance <= 1e-6 double, 2e-3 float) against a long-double reference: Hamilton quaternions, Rodrigues formula, '
         'documented Euler composition R[a0](x)R[a1](y)R[a2](z) for moving and the reverse for fixed ("*") axes',
         'eulerAngles() inputs whose deciding entry m(a0,a2) lies within 16 eps below 1 in magnitude are judged in the separate modes rot_nd/euler_nd, not in rot/euler',
     ])


T('C20', 'exact prime-field instantiation of the asl matrix templates + long-double reference monitors for float/double and rotation conversions, under ASan/UBSan and at -O2',
  'Runs the real Matrix4_/Matrix3_/Matrix_/solve/Quaternion_ code: over F_p (p=2^61-1) M*inverse(M)=I, det against elimination, det(AB)=det(A)det(B), A*solve(A,B)=B (n<=12, 1-4 right-hand sides, '
  'row exchanges forced and randomised), AtA x=At b are exact equalities on 10^5 (quick) / 10^7 (thorough) random and structured points; float/double residuals are compared with 1000*n*eps*kappa; '
  'quaternion / matrix / axis-angle / Euler (24 conventions) conversions are compared as rotations on grids with 0, pi, 2pi, axis flips, gimbal lock and 10^-k neighbourhoods. '
  'Exploration-level evidence: counts of what was evaluated, worst observed ratios.',
  'Trusts the harness arithmetic modulo 2^61-1, the long-double references (independent formulas: Gauss-Jordan, q v q*, Rodrigues, elementary rotations) and gcc ASan/UBSan. '
  'Random evaluation gives overwhelming probability, not proof; kappa > 1000 is out of scope; eulerAngles() within 16 eps of gimbal lock is a separate stratum (known defect).')
