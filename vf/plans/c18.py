"""C18 plan: IniFile and TabularDataFile persist exactly what was set or written."""
from ..core import Job
from ..props import plan, COMMON_ASSUME
from ..texts import T

plan('C18',
     rule='an INI case is one generated text (0-5 sections, entries with identifier keys, # and ; comments, blank lines, optional entries before '
          'the first header, LF/CRLF/mixed, with or without final newline) plus 0-20 set()/operator[]= calls on existing keys, new keys and new '
          'sections, written explicitly or by the destructor, then read by a fresh IniFile and parsed raw for the order of untouched lines; it is '
          'non-trivial when the model holds at least one value, distinct by the hash of (text, operation list). A CSV case is one table of 0-30 rows x '
          '1-8 columns of ints, doubles, empty strings and strings over letters , ; " \' and space, written and re-read with fresh TabularDataFile '
          'objects; it is non-trivial when it has a row holding a number or a string with a separator, quote or space, distinct by the hash of its cells. '
          'Strata: ini_nonl = the last line of the text is an entry without a final newline; csv_tiny = doubles of magnitude 1e-300..1e-290 '
          '(the main csv mode draws 1e-290..1e300)',
     jobs=[
         Job('c18_inicsv', 'ini', 'asan', quick=3000, thorough=160000, shards=(5, 16)),
         Job('c18_inicsv', 'ini', 'plain', quick=3000, thorough=160000, shards=(3, 12)),
         Job('c18_inicsv', 'ini_nonl', 'asan', quick=600, thorough=30000, shards=(2, 8)),
         Job('c18_inicsv', 'ini_nonl', 'plain', quick=600, thorough=30000, shards=(1, 4)),
         Job('c18_inicsv', 'csv', 'asan', quick=3000, thorough=160000, shards=(3, 12)),
         Job('c18_inicsv', 'csv', 'plain', quick=4000, thorough=160000, shards=(2, 6)),
         Job('c18_inicsv', 'csv_tiny', 'asan', quick=300, thorough=16000, shards=(1, 4)),
         Job('c18_inicsv', 'csv_tiny', 'plain', quick=300, thorough=16000, shards=(1, 2)),
     ],
     assumptions=COMMON_ASSUME + [
         'a quarter of the tables are written row-wise as one array Var per row, the same row object sometimes twice in a row: every row must arrive and the caller\'s array must be unchanged',
         'INI keys are ASCII identifiers, unique per section; values have no leading/trailing blank and no CR/LF (they may hold = # ; [ ] / \\ quotes, '
         'tabs and UTF-8); section names are identifiers, optionally with one inner . - or space; a value set to the empty string counts as returned '
         'when the fresh IniFile yields the empty string',
         'entries before the first section header are addressed without a section prefix and are only set when the text already has such entries '
         '(the documented "current section" rule); lines that are neither header, comment, blank nor key=value are not generated',
         'order check: untouched comment lines (compared after trimming) and untouched entries (section, key, value) of the original must be a '
         'subsequence of the rewritten file as read by an independent parser; indentation and spacing around = are not judged',
         'CSV: column names are letters/digits/_ starting with a letter; strings never start with a digit, - or . (the reader infers numbers from '
         'the text, which the property does not forbid); numbers are compared as ints exactly and doubles by equality of their "%.15g" text; '
         'NaN/inf are not written; doubles range over 1e-300..1e300 in magnitude plus zero',
     ])


T('C18', 'reference-model monitor: semantic INI model + independent raw-text parser for the order clause; table model for CSV; run under ASan and at -O2',
  'Runs the real IniFile on generated texts and set() histories, re-reads with a fresh IniFile and checks every set and every untouched value, and '
  'checks on the raw rewritten text that untouched comments and entries keep their relative order; runs the real TabularDataFile writer and reader on '
  'generated tables and compares cell for cell. Two triggering patterns of defects found here are isolated in their own strata (ini_nonl, csv_tiny) so '
  'that the main modes stay clean.',
  'Trusts the harness model and its mini INI parser, POSIX read/write, "%.15g" of the C library as the definition of the 15 digits written, gcc '
  'ASan/UBSan. INI texts outside the generated grammar (keys with / or spaces, lines without =, inline comments) are not covered.')
