"""C01 plan: Array / Stack / Queue."""
from ..core import Job
from ..props import plan, COMMON_ASSUME
from ..texts import T

J = []
for el in ('int', 'counted', 'string'):
    J.append(Job('c01_array', 'hist_' + el, 'asan', quick=1500, thorough=60000, shards=(3, 5)))
    J.append(Job('c01_array', 'hist_' + el, 'plain', quick=3000, thorough=120000, shards=(2, 3)))
    J.append(Job('c01_array', 'selfref_' + el, 'asan', quick=600, thorough=20000, shards=(2, 3)))
    J.append(Job('c01_array', 'selfref_' + el, 'plain', quick=600, thorough=20000, shards=(1, 2)))
    J.append(Job('c01_array', 'sq_' + el, 'asan', quick=500, thorough=15000, shards=(1, 2)))
# growth whose allocation fails: ASan's allocator returns null above 1 MiB for these jobs, the library throws bad_alloc
for el in ('int', 'counted', 'string'):
    J.append(Job('c01_array', 'allocfail_' + el, 'asan', quick=60, thorough=1500, shards=(2, 4), params=dict(limit_mb=1),
                 asan_extra='max_allocation_size_mb=1:allocator_may_return_null=1'))
J.append(Job('c01_array', 'nested', 'asan', quick=300, thorough=6000, shards=(2, 4)))
J.append(Job('c01_array', 'nested', 'plain', quick=300, thorough=6000, shards=(1, 2)))
J.append(Job('c01_array', 'shared_growth_int', 'asan', quick=40, thorough=200, shards=(1, 2), floor=0.0))
J.append(Job('c01_array', 'shared_growth_string', 'asan', quick=40, thorough=200, shards=(1, 2), floor=0.0))

plan('C01',
     rule='a case is a random history of 5-200 public operations over up to 4 handles / several arrays, checked against a reference sequence after every '
          'operation; non-trivial = at least 3 operations and at least one capacity-growth boundary crossed; distinct = hash of the operation-kind sequence and element type',
     jobs=J,
     assumptions=COMMON_ASSUME + ['Counted elements are tracked by an identity stored in the object, not by address, because Array relocates elements bitwise by design',
                                  'new int elements created by resize() are indeterminate by design and are assigned before being compared',
                                  'modes allocfail_* run with ASAN_OPTIONS max_allocation_size_mb=1:allocator_may_return_null=1: every malloc/realloc above 1 MiB returns null and '
                                  'the library throws std::bad_alloc. Judged: the failed call changed nothing (length, element sequence f(0..n-1), construct/destroy accounting), '
                                  'capacity >= length, and the array keeps working (appends into spare capacity, shrink, clone, concat, self-append, reserve, resize - each may fail '
                                  'again, none may touch memory outside the block: ASan). Only the size-triggered failure is injected, not a failure of a small allocation'])
T('C01', 'lock-step reference-sequence model over random multi-handle histories + element construct/destroy accounting, under ASan/LSan and at -O2',
  'Runs real Array/Stack/Queue operation histories (all public mutators, several handles, clones, self-referential arguments, every growth path) and compares every live handle with '
  'a std::vector model after each step; elements with counted constructors/destructors and heap Strings make double destruction, leaks and stale reads observable. '
  'Modes allocfail_* make the growth allocation itself fail (ASan allocation limit) and keep using the array.',
  'Trusts the std::vector model, gcc ASan/LSan. Growth of an array through one handle while another handle is alive is a listed known finding and is exercised only in its own stratum.')
