"""C03 plan: String vs std::string model, integer/text identities, printf-style construction."""
from ..core import Job
from ..props import plan, COMMON_ASSUME
from ..texts import T

H = 'c03_string'

plan('C03',
     rule='hist/hist_self: a case is a history of 5..80 operations on three Strings checked against std::string models after every step; '
          'it is non-trivial when it has >= 5 steps and at least one String changed storage (inline->heap or heap growth), hash = the operation list. '
          'func: a case is one subject string (lengths 0..1100, mostly heap Strings in a block of exactly len+1 bytes) put through one group of pure '
          'functions against every generated argument; non-trivial when the subject is non-empty (hash = group + bytes; split cases with >= 2 pieces are '
          'hashed per separator). ints: a case is the boundary set or a block of random values, ints32 a block of 2^20 consecutive 32-bit patterns '
          '(hash = block number; evaluations count the single conversions). fmt: a case is one format shape steered onto a target output length, '
          'evaluated through String::f and String(n, fmt, ...) for about a dozen initial sizes n (hash = format + expected output).',
     jobs=[
         # histories without aliasing operands: must be completely clean
         Job(H, 'hist', 'asan', quick=30000, thorough=800000, shards=(8, 16)),
         Job(H, 'hist', 'plain', quick=40000, thorough=1500000, shards=(4, 16)),
         # stratum with operands that alias the target (s += s, s += *s+k, s = *s+k, s = s, s << s.substring())
         Job(H, 'hist_self', 'asan', quick=3000, thorough=100000, shards=(4, 16)),
         Job(H, 'hist_self', 'plain', quick=4000, thorough=200000, shards=(2, 8)),
         Job(H, 'func', 'asan', quick=24000, thorough=1000000, shards=(8, 16)),
         Job(H, 'func', 'plain', quick=48000, thorough=2000000, shards=(4, 16)),
         # integers: boundaries + ~1e7 random conversions in quick; all 2^32 int and all 2^32 unsigned values + 1e8 random 64-bit in thorough
         Job(H, 'ints', 'plain', quick=130, thorough=130, shards=(4, 4), params=dict(blk=16384)),
         Job(H, 'ints', 'plain', quick=1, thorough=1601, shards=(1, 16), params=dict(blk=32768, only64=1), tag='c03.ints64', tiers=('thorough',)),
         Job(H, 'ints', 'asan', quick=20, thorough=200, shards=(2, 8), params=dict(blk=8192)),
         Job(H, 'ints32', 'plain', quick=4096, thorough=4096, shards=(16, 16), params=dict(blockbits=20), tiers=('thorough',), batch=64),
         Job(H, 'ints32', 'plain', quick=4096, thorough=4096, shards=(4, 4), params=dict(blockbits=8), tiers=('quick',), tag='c03.ints32-sample'),
         # LLONG_MIN in its own stratum
         Job(H, 'llmin', 'asan', quick=8, thorough=8, shards=(1, 1)),
         Job(H, 'llmin', 'plain', quick=8, thorough=8, shards=(1, 1)),
         Job(H, 'fmt', 'asan', quick=20000, thorough=400000, shards=(4, 16)),
         Job(H, 'fmt', 'plain', quick=40000, thorough=1000000, shards=(2, 16)),
     ],
     exhaustive={'thorough': True},
     assumptions=COMMON_ASSUME + [
         'byte strings never contain NUL; the model\'s whitespace for trim()/trimmed()/split() is exactly { space, \\t, \\n, \\r } - the set myisspace() enumerates - so \\v, \\f and every other byte are text; separators and patterns are non-empty; '
         'indices are in range (0 <= i <= j <= length, substr start in [-length, length], count >= 0)',
         'resize(n) to a larger length is judged as documented ("useful for writing to it externally"): old bytes kept, length n, NUL at n; the new bytes are written by the harness before comparing',
         'String(double) / String(float) have no documented format: only length/terminator are judged, plus exact read-back for values with a short exact decimal expansion; '
         'agreement with %.15g and read-back tolerance are recorded as counters',
         'the way back from text for a 64-bit unsigned value is (ULong)toLong(), the only 64-bit parser String has',
         'exhaustive (thorough tier) refers to the 2^32 int and 2^32 unsigned values through String(x), toInt(), int(), unsigned(), toLong() on the -O2 build; everything else is sampled',
         'inside String\'s 16 inline bytes and inside spare heap capacity ASan sees nothing: there the model comparison after every step is the detector',
     ])

T('C03',
  'lock-step reference model (std::string, libc snprintf/strtod) over generated mutation histories and pure-function cases, exhaustive 32-bit integer round trips, ASan/UBSan with exact-size blocks',
  'Runs the real String code on histories of 5-80 in-place operations steered across the 15/16, 19/20, 23/24 and 1023/1024/1025 storage boundaries, comparing length(), the NUL offset and '
  'every byte of every live String with a std::string model after each step; on pure functions against std::string for all generated arguments (all index pairs of short strings); on every int '
  'and unsigned value (thorough) and 10^8 random 64-bit values against snprintf and back; and on printf shapes whose outputs straddle 15/16, 99/100 and 254/255/256 bytes. '
  'Aliasing operands and LLONG_MIN are separate strata so that the main strata stay clean. Exploration, not proof: reports counts of what was driven.',
  'Trusts std::string, glibc snprintf/strtod, gcc ASan/UBSan. Over-reads are only visible at the end of exact-size blocks (String(const char*, int) with len >= 19, malloc\'d raw arguments).')
