"""C19 plan."""
import os, glob, datetime
from ..core import Job, FuzzJob
from ..props import plan, COMMON_ASSUME
from ..texts import T



def post_c19(prop, tier, seed, res, scratch):
    """Cross-check the harness's own calendar reference against python3 datetime on the dumped days."""
    n = bad = 0
    for p in glob.glob(os.path.join(scratch, '*', 'records.txt')):
        with open(p) as f:
            for ln in f:
                t = ln.split()
                if len(t) != 6 or t[0] != 'D':
                    continue
                day, y, m, d, wd = map(int, t[1:])
                ref = datetime.date.fromordinal(day + 719163)
                n += 1
                if (ref.year, ref.month, ref.day, (ref.weekday() + 1) % 7) != (y, m, d, wd):
                    bad += 1
                    if bad <= 3:
                        res.anoms.append(dict(property=prop, key='%s/c19.days/pyref/splitUTC-vs-python-datetime' % prop, detector='pyref', job='c19.days',
                                              variant='plain', harness='c19_date', mode='days', seed=seed, idx=0, desc='day %d' % day,
                                              report='asl %s python %s' % ((y, m, d, wd), ref), how='', cmd=[], batch_from=None))
    if n == 0:
        res.errors.append('no records for the python datetime cross-check')
    return dict(python_datetime_crosscheck_days=n, python_datetime_disagreements=bad)


plan('C19',
     rule='cases are (day, time-of-day) instants, offsets, or generated strings; an instant is non-trivial when it is a distinct calendar day '
          '(hash = day number), an offset case when the offset differs, a junk string when its bytes differ',
     jobs=[
         FuzzJob('fz_date', quick=200000, thorough=2000000, procs=(4, 12), max_len=120),
         Job('c19_date', 'days', 'plain', quick=2040, thorough=14266, shards=(16, 16), params=dict(stride=7, blk=256, dump=1), tparams=dict(stride=1)),
         Job('c19_date', 'days', 'asan', quick=286, thorough=2854, shards=(8, 16), params=dict(stride=50, blk=256), tparams=dict(stride=5), tag='c19.days'),
         Job('c19_date', 'edges', 'plain', quick=9999, thorough=9999, shards=(8, 8)),
         Job('c19_date', 'seconds', 'plain', quick=40, thorough=200, shards=(8, 16), params=dict(step=1)),
         Job('c19_date', 'millis', 'plain', quick=600, thorough=20000, shards=(4, 16)),
         Job('c19_date', 'offsets', 'asan', quick=2879, thorough=2879, shards=(8, 8)),
         Job('c19_date', 'offsets', 'plain', quick=2879, thorough=2879, shards=(4, 4)),
         # the same zoned strings while the process itself lives in another zone (a zoned string must not depend on it)
         Job('c19_date', 'offsets', 'plain', quick=2879, thorough=2879, shards=(4, 4), params=dict(tz='JST-9'), tag='c19.offsets_tz_jst'),
         Job('c19_date', 'offsets', 'asan', quick=2879, thorough=2879, shards=(4, 4), params=dict(tz='EST5EDT'), tag='c19.offsets_tz_est5edt'),
         Job('c19_date', 'offsets', 'plain', quick=2879, thorough=2879, shards=(4, 4), params=dict(tz='NST3:30NDT'), tag='c19.offsets_tz_nst'),
         Job('c19_date', 'parse_mt', 'plain', quick=200, thorough=2000, shards=(4, 8), params=dict(rounds=300)),
         Job('c19_date', 'parse_mt', 'tsan', quick=24, thorough=200, shards=(4, 8), params=dict(rounds=100), batch=4, leakcheck=False),
         Job('c19_date', 'junk', 'asan', quick=3000, thorough=120000, shards=(8, 16)),
     ],
     post=post_c19,
     exhaustive={'thorough': True},
     assumptions=COMMON_ASSUME + ['TZ=UTC is forced so that LOCAL paths are deterministic; mode offsets (only strings with Z or a numeric offset, whose instant does not depend on the local zone) additionally runs with the process in JST-9, EST5EDT and NST3:30NDT',
                                  'strings shorter than 19 bytes are stored inline or in a 20-byte block, where an over-read of up to 3 bytes is invisible to ASan'])


T('C19', 'reference-model monitor (independent civil-calendar algorithm, cross-checked against python datetime) over exhaustively enumerated days + ASan on generated strings + concurrent format/parse under TSan',
  'Runs the real Date code on every day 0001..9999 x 3 times of day (thorough; every 7th day plus all year/leap edges in quick), every second of chosen days, all zone offsets, '
  'and generated/mutated strings under ASan, comparing with an independent oracle; reports what was enumerated.',
  'Trusts the harness oracle (Hinnant civil-from-days, checked against python datetime on every 17th enumerated day), gcc ASan/UBSan, TZ=UTC. Strings shorter than 19 bytes cannot be placed flush against a heap block end.')
