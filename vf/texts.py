"""Manifest texts per property."""
NOT_CLAIMED = {}
TEXT = {}


def T(pid, technique, level, note):
    TEXT[pid] = dict(technique=technique, level=level, note=note)


T('C19', 'reference-model monitor (independent civil-calendar algorithm, cross-checked against python datetime) over exhaustively enumerated days + ASan on generated strings',
  'Runs the real Date code on every day 0001..9999 x 3 times of day (thorough; every 7th day plus all year/leap edges in quick), every second of chosen days, all zone offsets, '
  'and generated/mutated strings under ASan, comparing with an independent oracle; reports what was enumerated.',
  'Trusts the harness oracle (Hinnant civil-from-days, checked against python datetime on every 17th enumerated day), gcc ASan/UBSan, TZ=UTC. Strings shorter than 19 bytes cannot be placed flush against a heap block end.')
