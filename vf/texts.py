"""Manifest texts per property."""
NOT_CLAIMED = {}
TEXT = {}


def T(pid, technique, level, note):
    TEXT[pid] = dict(technique=technique, level=level, note=note)


