"""Variant builds of asl (from $VERIF_REPO, default /repo: always the current working
tree) and of the harness programs. Outputs are cached under /verif/.cache/build keyed by
a hash of every file under src/ and include/ plus the flags, so an edit to asl forces a
rebuild and an untouched tree is not recompiled for every check."""
import hashlib, os, subprocess, sys, shutil, fcntl, time, glob
from concurrent.futures import ThreadPoolExecutor

ROOT = os.path.dirname(os.path.dirname(os.path.abspath(__file__)))
REPO = os.environ.get('VERIF_REPO', '/repo')
CACHE = os.environ.get('VERIF_CACHE', os.path.join(ROOT, '.cache'))
GUARD = 'ASL_VERIF'

UBSAN = 'bounds,null,return,unreachable,vla-bound,builtin'  # not bool/enum: gcc 12 hoists the load of a volatile bool out of a spin loop when -fsanitize=bool instruments it (Thread.h ready flag -> livelock)

VARIANTS = {
    # name: (compiler, compile flags, link flags)
    'asan': ('g++', ['-std=gnu++11', '-O1', '-g', '-fno-omit-frame-pointer', '-fsanitize=address,' + UBSAN,
                     '-fno-sanitize-recover=all'], ['-fsanitize=address,' + UBSAN]),
    'tsan': ('g++', ['-std=gnu++11', '-O1', '-g', '-fno-omit-frame-pointer', '-fsanitize=thread'], ['-fsanitize=thread']),
    'plain': ('g++', ['-std=gnu++11', '-O2', '-g', '-DNDEBUG'], []),
    'fuzz': ('clang++-14', ['-std=gnu++17', '-O1', '-g', '-fno-omit-frame-pointer', '-fsanitize=fuzzer-no-link,address,' + UBSAN,
                            '-fno-sanitize-recover=all', '-fno-sanitize=object-size'], ['-fsanitize=fuzzer,address,' + UBSAN]),
}
COMMON = ['-D' + GUARD, '-w', '-pthread']
EXCLUDE_SRC = {'TlsSocket.cpp'}  # the pinned CMake configuration has ASL_TLS=OFF


def _hash_tree():
    h = hashlib.sha256()
    for sub in ('src', 'include'):
        for dp, dn, fn in sorted(os.walk(os.path.join(REPO, sub))):
            dn.sort()
            for f in sorted(fn):
                p = os.path.join(dp, f)
                h.update(os.path.relpath(p, REPO).encode())
                with open(p, 'rb') as fh:
                    h.update(fh.read())
    return h.hexdigest()


_tree_hash = None


def tree_hash():
    global _tree_hash
    if _tree_hash is None:
        _tree_hash = _hash_tree()
    return _tree_hash


def _key(variant, extra=''):
    cc, cf, lf = VARIANTS[variant]
    return hashlib.sha256((tree_hash() + cc + ' '.join(cf + lf + COMMON) + extra).encode()).hexdigest()[:20]


class BuildError(Exception):
    pass


def _run(cmd):
    p = subprocess.run(cmd, stdout=subprocess.PIPE, stderr=subprocess.STDOUT, text=True)
    if p.returncode != 0:
        raise BuildError('command failed: %s\n%s' % (' '.join(cmd), p.stdout[-6000:]))
    return p.stdout


def _lock(path):
    os.makedirs(os.path.dirname(path), exist_ok=True)
    f = open(path, 'w')
    fcntl.flock(f, fcntl.LOCK_EX)
    return f


def _prune(variant, keep):
    pat = os.path.join(CACHE, 'build', variant + '-*')
    dirs = sorted([d for d in glob.glob(pat) if os.path.isdir(d) and '.tmp' not in d], key=lambda d: os.path.getmtime(d), reverse=True)
    now = time.time()
    for d in dirs[3:]:
        # never remove a build another process may be using (scratch worktrees are built concurrently)
        if d != keep and now - os.path.getmtime(d) > 6 * 3600:
            shutil.rmtree(d, ignore_errors=True)


def lib(variant):
    """Build (or reuse) the asl archive for a variant; returns its directory."""
    d = os.path.join(CACHE, 'build', '%s-%s' % (variant, _key(variant)))
    a = os.path.join(d, 'libasl.a')
    if os.path.exists(a):
        os.utime(d)
        return d
    lk = _lock(os.path.join(CACHE, 'build', variant + '.lock'))
    try:
        if os.path.exists(a):
            return d
        cc, cf, lf = VARIANTS[variant]
        tmp = d + '.tmp%d' % os.getpid()
        shutil.rmtree(tmp, ignore_errors=True)
        os.makedirs(tmp)
        srcs = [s for s in sorted(glob.glob(os.path.join(REPO, 'src', '*.cpp'))) if os.path.basename(s) not in EXCLUDE_SRC]
        objs = []

        def comp(s):
            o = os.path.join(tmp, os.path.basename(s)[:-4] + '.o')
            _run([cc] + cf + COMMON + ['-I', os.path.join(REPO, 'include'), '-c', s, '-o', o])
            return o
        with ThreadPoolExecutor(16) as ex:
            objs = list(ex.map(comp, srcs))
        _run(['ar', 'rcs', os.path.join(tmp, 'libasl.a')] + objs)
        for o in objs:
            os.unlink(o)
        shutil.rmtree(d, ignore_errors=True)
        os.rename(tmp, d)
        _prune(variant, d)
        return d
    finally:
        lk.close()


def harness(name, variant, extra_flags=()):
    """Compile harness/<name>.cpp against the variant archive; returns the binary path."""
    d = lib(variant)
    src = os.path.join(ROOT, 'harness', name + '.cpp')
    h = hashlib.sha256()
    for p in [src] + sorted(glob.glob(os.path.join(ROOT, 'harness', 'common', '*'))):
        with open(p, 'rb') as fh:
            h.update(fh.read())
    h.update(' '.join(extra_flags).encode())
    out = os.path.join(d, '%s-%s' % (name, h.hexdigest()[:12]))
    if os.path.exists(out):
        return out
    lk = _lock(os.path.join(d, name + '.lock'))
    try:
        if os.path.exists(out):
            return out
        for old in glob.glob(os.path.join(d, name + '-*')):
            os.unlink(old)
        cc, cf, lf = VARIANTS[variant]
        tmp = out + '.tmp%d' % os.getpid()
        _run([cc] + cf + COMMON + list(extra_flags) + ['-I', os.path.join(REPO, 'include'), '-I', os.path.join(ROOT, 'harness'),
                                                       src, os.path.join(d, 'libasl.a'), '-o', tmp] + lf + ['-lpthread', '-ldl', '-lm'])
        os.rename(tmp, out)
        return out
    finally:
        lk.close()


def build_many(pairs):
    """pairs: iterable of (harness name, variant). Builds libs first (each parallel inside), then harnesses in parallel."""
    pairs = list(dict.fromkeys(pairs))
    for v in dict.fromkeys(v for _, v in pairs):
        lib(v)
    with ThreadPoolExecutor(16) as ex:
        outs = list(ex.map(lambda p: harness(*p), pairs))
    return dict(zip(pairs, outs))


def fuzz_target(name):
    """Build harness/fuzz/<name>.cpp as a libFuzzer binary against the clang `fuzz` variant of asl."""
    d = lib('fuzz')
    src = os.path.join(ROOT, 'harness', 'fuzz', name + '.cpp')
    h = hashlib.sha256()
    for p in [src] + sorted(glob.glob(os.path.join(ROOT, 'harness', 'common', '*'))):
        with open(p, 'rb') as fh:
            h.update(fh.read())
    out = os.path.join(d, '%s-%s' % (name, h.hexdigest()[:12]))
    if os.path.exists(out):
        return out
    lk = _lock(os.path.join(d, name + '.lock'))
    try:
        if os.path.exists(out):
            return out
        for old in glob.glob(os.path.join(d, name + '-*')):
            os.unlink(old)
        cc, cf, lf = VARIANTS['fuzz']
        cf = [f.replace('fuzzer-no-link', 'fuzzer') for f in cf]
        tmp = out + '.tmp%d' % os.getpid()
        _run([cc] + cf + COMMON + ['-I', os.path.join(REPO, 'include'), '-I', os.path.join(ROOT, 'harness'), src, os.path.join(d, 'libasl.a'), '-o', tmp, '-lpthread', '-ldl', '-lm'])
        os.rename(tmp, out)
        return out
    finally:
        lk.close()
