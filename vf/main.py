import json, os, shutil, subprocess, sys, time, argparse
from . import build, core, props
props.load_plans()


def do_replay(path):
    with open(path) as f:
        r = json.load(f)
    binp = build.harness(r['harness'], r['variant'])
    cmd = [binp] + r['cmd'][1:]
    env = core.variant_env(r['variant'])
    scratch = os.path.join(build.CACHE, 'run', 'replay%d' % os.getpid())
    os.makedirs(scratch, exist_ok=True)
    cmd += ['--out', scratch]
    print('replaying %s\n  %s' % (r['key'], ' '.join(cmd)))
    p = subprocess.run(cmd, env=env, cwd=scratch)
    shutil.rmtree(scratch, ignore_errors=True)
    print('replay exit status %d (non-zero = the anomaly reproduced)' % p.returncode)
    return 1 if p.returncode else 0


def main(argv):
    ap = argparse.ArgumentParser()
    ap.add_argument('prop', nargs='?')
    ap.add_argument('--tier', default=os.environ.get('VERIF_TIER', 'quick'))
    ap.add_argument('--seed', type=int, default=int(os.environ.get('VERIF_SEED', '1') or 1))
    ap.add_argument('--replay')
    ap.add_argument('--setup', action='store_true')
    ap.add_argument('--keep', action='store_true', help='keep the scratch directory')
    ap.add_argument('--only-job', help='run only jobs whose tag contains this text (debugging; evidence is still written)')
    a = ap.parse_args(argv)
    if a.setup:
        pairs = []
        fz = []
        ready = set(open(os.path.join(build.ROOT, 'vf', 'ready.txt')).read().split())
        for pid, plan in props.PLANS.items():
            if pid not in ready:
                continue
            for j in plan['jobs']:
                if getattr(j, 'fuzz', False):
                    fz.append(j.target)
                else:
                    pairs.append((j.harness, j.variant))
        t0 = time.time()
        build.build_many(pairs)
        for t in dict.fromkeys(fz):
            build.fuzz_target(t)
        print('setup: built %d harness binaries in %.1fs' % (len(set(pairs)), time.time() - t0))
        return 0
    if a.replay:
        return do_replay(a.replay)
    if a.prop not in props.PLANS:
        print('unknown property %s' % a.prop)
        return 2
    if a.tier not in ('quick', 'thorough'):
        print('unknown tier')
        return 2
    plan = props.PLANS[a.prop]
    t0 = time.time()
    scratch = os.path.join(build.CACHE, 'run', '%s.%d' % (a.prop, os.getpid()))
    shutil.rmtree(scratch, ignore_errors=True)
    os.makedirs(scratch)
    try:
        jobs = plan['jobs']
        if a.only_job:
            jobs = [j for j in jobs if a.only_job in j.tag + '/' + j.variant]
        try:
            res = core.run_jobs(a.prop, a.tier, a.seed, jobs, scratch)
        except build.BuildError as e:
            print('HARNESS-ERROR: build failed\n%s' % e)
            return 2
        extra = None
        if plan.get('post'):
            extra = plan['post'](a.prop, a.tier, a.seed, res, scratch)
        return core.conclude(a.prop, a.tier, a.seed, res, plan, t0, extra)
    finally:
        if not a.keep:
            shutil.rmtree(scratch, ignore_errors=True)
