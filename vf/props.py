"""Per-property plans: which harness modes run in which build variant, with how many
cases per tier. Bounds are case counts, never seconds."""
import os, glob, datetime
from .core import Job

PLANS = {}


def plan(pid, rule, jobs, post=None, assumptions=None, exhaustive=None):
    PLANS[pid] = dict(rule=rule, jobs=jobs, post=post, assumptions=assumptions or [], exhaustive=exhaustive or {})


COMMON_ASSUME = [
    'asl is rebuilt from the current working tree with -DASL_VERIF; the plain variant uses -O2 -DNDEBUG like the pinned build, the asan variant -O1',
    'a clean sanitizer run says nothing about paths the workloads did not drive, nor about intra-object overflows',
]


def load_plans():
    import importlib, pkgutil
    from . import plans
    for m in sorted(pkgutil.iter_modules(plans.__path__), key=lambda m: m.name):
        importlib.import_module('vf.plans.' + m.name)

