"""Offline cross-check for C15: python3 stdlib (base64, binascii, urllib.parse, hashlib) against the
(input, asl output) records that harness/c15_codecs.cpp sampled into records.txt files.

Record kinds (all binary fields hex-encoded, '-' = empty):
  B in text      encodeBase64(in) = text                      H in text   encodeHex(in) = text
  W in wstext    decodeBase64(wstext) = in (text interleaved with SP/LF/CR/TAB)
  X text out     decodeBase64(text) = out for canonical well-formed short texts of the exhaustive enumeration
  S in digest    SHA1::hash(in) = digest
  LS n blk dig   SHA1::hash of the 251-periodic message (blk repeated, cut to n)
  LB n blk dig   reference-SHA-1 of asl's Base64 text of that message;  LH likewise for encodeHex
  U comp in enc  Url::encode(in, component=comp) = enc
  Q k:v,k:v qs   Url::params(dictionary) = qs

Judged: the standards the property names (RFC 4648 text, lowercase hex, FIPS 180-4 digest) and the
independent-decoder form of the two percent-encoding round trips (unquote(enc) = in; parse_qsl(qs) = d).
Only counted: whether Url::encode leaves exactly the documented (JS-like) sets untouched.
"""
import os, glob, base64, binascii, hashlib
import urllib.parse as up

SAFE = {0: "-_.!~*'();/?:@&=+$,#", 1: "-_.!~*'()"}   # besides letters and digits: encodeURI / encodeURIComponent
MODE_OF = dict(B='bytes', H='bytes', W='bytes', X='b64x', S='sha1', LS='sha1_big', LB='bytes_big', LH='bytes_big', U='url', Q='query')


def _b(tok):
    return b'' if tok == '-' else bytes.fromhex(tok)


def _periodic(n, blk):
    return (blk * (n // len(blk) + 1))[:n]


def check_line(t):
    """Returns (kind, None) when the record agrees with python, (kind, text) on a disagreement, None for a foreign line."""
    k = t[0]
    if k == 'B' and len(t) == 3:
        x, text = _b(t[1]), _b(t[2])
        if base64.b64encode(x) != text:
            return k, 'encodeBase64(%s) gave %r, python base64.b64encode %r' % (t[1][:80], text[:80], base64.b64encode(x)[:80])
        if base64.b64decode(text, validate=True) != x:
            return k, 'python b64decode of asl text differs from the input %s' % t[1][:80]
    elif k == 'W' and len(t) == 3:
        x, text = _b(t[1]), _b(t[2])
        if base64.b64decode(text) != x:   # non-validating mode discards the whitespace
            return k, 'asl decoded %r to %s; python base64.b64decode gives %s' % (text[:80], t[1][:80], base64.b64decode(text).hex()[:80])
    elif k == 'X' and len(t) == 3:
        text, out = _b(t[1]), _b(t[2])
        if base64.b64decode(text) != out:
            return k, 'decodeBase64(%r) gave %s, python %s' % (text, out.hex(), base64.b64decode(text).hex())
    elif k == 'H' and len(t) == 3:
        x, text = _b(t[1]), _b(t[2])
        if binascii.hexlify(x) != text or binascii.unhexlify(text) != x:
            return k, 'encodeHex(%s) gave %r, python binascii.hexlify %r' % (t[1][:80], text[:80], binascii.hexlify(x)[:80])
    elif k == 'S' and len(t) == 3:
        x = _b(t[1])
        if hashlib.sha1(x).hexdigest() != t[2]:
            return k, 'SHA1::hash of %d bytes %s gave %s, hashlib.sha1 %s' % (len(x), t[1][:80], t[2], hashlib.sha1(x).hexdigest())
    elif k in ('LS', 'LB', 'LH') and len(t) == 4:
        n, blk = int(t[1]), _b(t[2])
        x = _periodic(n, blk)
        if k == 'LB':
            x = base64.b64encode(x)
        elif k == 'LH':
            x = binascii.hexlify(x)
        if hashlib.sha1(x).hexdigest() != t[3]:
            what = {'LS': 'SHA1::hash', 'LB': 'digest of encodeBase64 text', 'LH': 'digest of encodeHex text'}[k]
            return k, '%s for the %d-byte message of period %s: asl side %s, python %s' % (what, n, t[2][:40], t[3], hashlib.sha1(x).hexdigest())
    elif k == 'U' and len(t) == 4:
        comp, x, enc = int(t[1]), _b(t[2]), _b(t[3])
        if up.unquote_to_bytes(enc) != x:
            return k, 'Url::encode(%r, component=%d) gave %r, which urllib.parse.unquote_to_bytes maps to %r' % (x[:80], comp, enc[:120], up.unquote_to_bytes(enc)[:80])
        same = up.quote(x, safe=SAFE[comp]).encode('ascii') == enc
        return ('U_same_as_quote_with_documented_safe_set' if same else 'U_differs_from_quote_with_documented_safe_set'), None
    elif k == 'Q' and len(t) == 3:
        want = {}
        if t[1] != '-':
            for pair in t[1].split(','):
                a, b = pair.split(':')
                want[_b(a)] = _b(b)
        qs = _b(t[2])
        # latin-1 both ways keeps every byte value; parse_qsl on bytes input cannot return non-ASCII bytes
        got = {a.encode('latin-1'): b.encode('latin-1')
               for a, b in up.parse_qsl(qs.decode('latin-1'), keep_blank_values=True, encoding='latin-1', errors='strict')} if qs else {}
        if got != want:
            return k, 'Url::params gave %r; urllib.parse.parse_qsl maps it to %r, the dictionary was %r' % (qs[:200], sorted(got.items())[:6], sorted(want.items())[:6])
    else:
        return None
    return k, None


def crosscheck(prop, seed, res, scratch):
    counts, bad = {}, {}
    torn = 0
    for p in sorted(glob.glob(os.path.join(scratch, '*', 'records.txt'))):
        with open(p, errors='replace') as f:
            for ln in f:
                t = ln.split()
                if not t:
                    continue
                try:
                    r = check_line(t)
                except Exception as e:   # unreadable record: the machinery failed, not a verdict
                    r = None
                    if torn < 3:
                        res.errors.append('python cross-check could not process a record of %s: %r: %s' % (p, e, ln[:160]))
                if r is None:
                    torn += 1
                    continue
                kind, msg = r
                counts[kind] = counts.get(kind, 0) + 1
                if msg:
                    k0 = kind
                    bad[k0] = bad.get(k0, 0) + 1
                    if bad[k0] <= 2:
                        mode = MODE_OF.get(k0, 'bytes')
                        res.anoms.append(dict(property=prop, key='%s/c15.%s/pyref/%s-vs-python-stdlib' % (prop, mode, k0), detector='pyref', job='c15.' + mode,
                                              variant='plain', harness='c15_codecs', mode=mode, seed=seed, idx=0, desc=' '.join(t)[:600],
                                              report=msg, how='', cmd=[], batch_from=None))
    # every dumping job that ran must have produced records of its kinds
    ran = set(j['mode'] for j in res.jobs if j['variant'] == 'plain' and j['done'] > 0)
    need = {'bytes': ['B', 'H', 'W'], 'bytes_big': ['LB', 'LH'], 'sha1': ['S'], 'sha1_big': ['LS'], 'b64x': ['X'], 'query': ['Q']}
    for mode, kinds in need.items():
        if mode in ran:
            for k in kinds:
                if not counts.get(k):
                    res.errors.append('no %s records from mode %s for the python cross-check' % (k, mode))
    if ('url' in ran or 'url_pairs' in ran) and not any(k.startswith('U_') for k in counts):
        res.errors.append('no U records for the python cross-check')
    if torn:
        res.errors.append('%d unreadable record lines in the python cross-check' % torn)
    out = dict(python_crosscheck_records={k: v for k, v in sorted(counts.items())}, python_disagreements=bad, python_unreadable_lines=torn)
    return out
