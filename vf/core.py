"""Driver core: run planned jobs (harness x mode x variant x shards) on up to 16
processes, reduce every anomaly to a violation key, match keys against
known_findings.json, write replay files and the evidence file, decide the exit code."""
import json, os, re, shutil, subprocess, sys, threading, time, array, hashlib
from concurrent.futures import ThreadPoolExecutor
from . import build

ROOT = build.ROOT
NCPU = 16

ASAN_OPTIONS = ('abort_on_error=1:detect_leaks=1:detect_stack_use_after_return=1:allocator_may_return_null=1:'
                'max_allocation_size_mb=4096:malloc_context_size=12:fast_unwind_on_malloc=1:handle_abort=0:print_summary=1')
UBSAN_OPTIONS = 'print_stacktrace=1:halt_on_error=1'
LSAN_OPTIONS = 'print_suppressions=0'
TSAN_OPTIONS = ('halt_on_error=0:exitcode=66:second_deadlock_stack=1:history_size=3:report_signal_unsafe=0:'
                'suppressions=' + os.path.join(ROOT, 'harness', 'common', 'tsan.supp'))


class Job:
    def __init__(self, harness, mode, variant='asan', quick=1000, thorough=None, shards=(4, 16), params=None, batch=None,
                 case_timeout=None, weight=1, floor=None, tag=None, tparams=None, leakcheck=True, tiers=('quick', 'thorough'), asan_extra=None):
        self.harness, self.mode, self.variant = harness, mode, variant
        self.cases = {'quick': quick, 'thorough': thorough if thorough is not None else quick * 20}
        self.shards = {'quick': shards[0], 'thorough': shards[1]} if isinstance(shards, tuple) else {'quick': shards, 'thorough': shards}
        self.params = dict(params or {})
        self.tparams = dict(tparams or {})   # extra params in the thorough tier
        self.batch, self.case_timeout, self.weight = batch, case_timeout, weight
        self.floor = floor                   # minimum fraction of cases that must complete (default 0.98)
        self.tag = tag or ('%s.%s' % (harness.split('_', 1)[0], mode))
        self.leakcheck = leakcheck
        self.tiers = tiers
        self.asan_extra = asan_extra         # appended to ASAN_OPTIONS for this job (later keys win), e.g. a small allocation limit


class FuzzJob:
    """Coverage-guided byte-string workload: a libFuzzer target (harness/fuzz/<target>.cpp) linked against the clang ASan build.
    Bounded by -runs per process, never by seconds (a generous -max_total_time only guards against stalls and is reported)."""
    fuzz = True

    def __init__(self, target, quick=200000, thorough=5000000, procs=(4, 12), max_len=4096, tag=None, dict_file=None, tiers=('quick', 'thorough')):
        self.target, self.max_len, self.dict_file = target, max_len, dict_file
        self.runs = {'quick': quick, 'thorough': thorough}
        self.procs = {'quick': procs[0], 'thorough': procs[1]}
        self.tag = tag or ('fuzz.' + target)
        self.tiers = tiers
        self.variant, self.harness, self.mode = 'fuzz', 'fuzz/' + target, 'libfuzzer'
        self.floor = None


class Slots:
    def __init__(self, n):
        self.n, self.cv = n, threading.Condition()

    def acquire(self, k):
        with self.cv:
            while self.n < k:
                self.cv.wait()
            self.n -= k

    def release(self, k):
        with self.cv:
            self.n += k
            self.cv.notify_all()


def variant_env(variant):
    env = dict(os.environ)
    env['TZ'] = 'UTC'
    env['ASAN_OPTIONS'] = ASAN_OPTIONS
    env['UBSAN_OPTIONS'] = UBSAN_OPTIONS
    env['LSAN_OPTIONS'] = LSAN_OPTIONS
    env['TSAN_OPTIONS'] = TSAN_OPTIONS
    return env


# ------------------------------------------------------------------ sanitizer report -> signature
_FRAME = re.compile(r'^\s*#(\d+) (?:0x[0-9a-f]+ )?(?:in )?(.*)$')


def _clean_func(f):
    f = re.sub(r' /\S+$', '', f.strip())            # drop "file:line"
    f = re.sub(r' \(\S+\+0x[0-9a-f]+\)$', '', f)    # drop "(module+0x..)"
    f = re.sub(r'\s+\S+:\d+(:\d+)?$', '', f)
    # strip template argument lists and parameter lists so keys survive refactors of types
    prev = None
    while prev != f:
        prev = f
        f = re.sub(r'<[^<>]*>', '', f)
    f = re.sub(r'\(.*$', '', f)
    f = re.sub(r'\[abi:[^\]]*\]', '', f)
    return f.strip()


def _stacks(text):
    """Split a report into stacks (lists of cleaned function names)."""
    stacks, cur = [], None
    for ln in text.splitlines():
        m = _FRAME.match(ln)
        if m:
            if m.group(1) == '0' or cur is None:
                cur = []
                stacks.append(cur)
            cur.append(_clean_func(m.group(2)))
        else:
            if ln.strip() == '':
                cur = None
    return stacks


def _asl_frames(stack, n=3):
    fr = [f for f in stack if 'asl::' in f or f.startswith('asl')]
    return fr[:n]


def _harness_frame(stack):
    for f in stack:
        if f.startswith('vf::') or 'Runner' in f:
            break
        if not ('asl::' in f) and not f.startswith('__') and not f.startswith('operator') and f not in ('malloc', 'free', 'realloc', 'calloc', 'memcpy', 'memmove', 'strlen'):
            return f
    return ''


def signatures(kind, text):
    """Return a list of (detector, signature, excerpt) for one child report."""
    out = []
    if kind == 'tsan' or 'WARNING: ThreadSanitizer' in text:
        blocks = re.split(r'(?m)^={18}$', text)
        for b in blocks:
            m = re.search(r'WARNING: ThreadSanitizer: ([^\n(]+)', b)
            if not m:
                continue
            st = _stacks(b)
            tops = []
            for s in st[:2]:
                fr = _asl_frames(s, 2)
                tops.append('<'.join(fr) if fr else (s[0] if s else '?'))
            sig = m.group(1).strip().replace(' ', '-') + ':' + '|'.join(sorted(tops))
            out.append(('tsan', sig, b.strip()[:5000]))
        if out:
            return out
    m = re.search(r'ERROR: LeakSanitizer', text)
    if m and 'ERROR: AddressSanitizer' not in text[:m.start()]:
        for b in re.split(r'(?m)^(?=(?:Direct|Indirect) leak of)', text):
            if not b.startswith('Direct leak'):
                continue
            st = _stacks(b)
            fr = _asl_frames(st[0]) if st else []
            sig = 'leak:' + ('<'.join(fr) if fr else (_harness_frame(st[0]) if st else '?'))
            out.append(('lsan', sig, b.strip()[:3000]))
        if not out:
            out.append(('lsan', 'leak:unattributed', text[:3000]))
        # dedupe
        seen, ded = set(), []
        for o in out:
            if o[1] not in seen:
                seen.add(o[1])
                ded.append(o)
        return ded
    m = re.search(r'ERROR: AddressSanitizer: ([^\s:]+)', text)
    if m:
        cls = m.group(1)
        if cls == 'SEGV':
            cls = 'SEGV'
        st = _stacks(text[m.start():])
        fr = _asl_frames(st[0]) if st else []
        sig = cls + ':' + ('<'.join(fr) if fr else (st[0][0] if st and st[0] else '?'))
        return [('asan', sig, text[m.start():m.start() + 5000])]
    m = re.search(r'runtime error: ([^\n]+)', text)
    if m:
        msg = re.sub(r'0x[0-9a-f]+', 'ADDR', m.group(1))
        msg = re.sub(r'-?\d+', 'N', msg)
        st = _stacks(text[m.start():])
        fr = _asl_frames(st[0]) if st else []
        return [('ubsan', msg.replace(' ', '-')[:80] + ':' + '<'.join(fr), text[max(0, m.start() - 200):m.start() + 4000])]
    m = re.search(r"terminate called after throwing an instance of '([^']+)'", text)
    if m:
        return [('abort', 'uncaught:' + m.group(1), text[:3000])]
    return [('crash', 'unclassified', text[:3000])]


# ------------------------------------------------------------------ known findings
def load_known():
    p = os.path.join(ROOT, 'known_findings.json')
    if not os.path.exists(p):
        return []
    with open(p) as f:
        return json.load(f).get('findings', [])


def match_known(known, prop, key):
    for k in known:
        if k.get('status') != 'open' or k.get('property') != prop:
            continue
        if re.search(k['pattern'], key):
            return k
    return None


# ------------------------------------------------------------------ running
class Result:
    def __init__(self):
        self.evaluations = 0
        self.cases_done = 0
        self.cases_planned = 0
        self.nontrivial = 0
        self.hashes = set()
        self.hash_capped = False
        self.inconclusive = 0
        self.counters = {}
        self.samples = []
        self.anoms = []      # dicts with key, job info
        self.jobs = []       # per-job summaries
        self.errors = []     # machinery failures


def _run_task(job, tier, seed, shard, nshards, binpath, outdir, slots):
    os.makedirs(outdir, exist_ok=True)
    cmd = [binpath, '--mode', job.mode, '--seed', str(seed), '--cases', str(job.cases[tier]), '--tier', tier,
           '--shard', '%d/%d' % (shard, nshards), '--out', outdir]
    params = dict(job.params)
    if tier == 'thorough':
        params.update(job.tparams)
    for k, v in params.items():
        cmd += ['--param', '%s=%s' % (k, v)]
    if job.batch:
        cmd += ['--batch', str(job.batch)]
    if job.case_timeout:
        cmd += ['--case-timeout', str(job.case_timeout)]
    if not job.leakcheck:
        cmd += ['--no-leakcheck']
    env = variant_env(job.variant)
    if getattr(job, 'asan_extra', None):
        env['ASAN_OPTIONS'] += ':' + job.asan_extra
    slots.acquire(job.weight)
    t0 = time.time()
    try:
        p = subprocess.run(cmd, stdout=subprocess.PIPE, stderr=subprocess.STDOUT, env=env, cwd=outdir)
    finally:
        slots.release(job.weight)
    return cmd, p.returncode, p.stdout.decode('utf-8', 'replace'), time.time() - t0


def _run_fuzz_task(job, tier, seed, k, binpath, outdir, slots):
    os.makedirs(outdir, exist_ok=True)
    corpus = os.path.join(outdir, 'corpus')
    os.makedirs(corpus, exist_ok=True)
    seedc = os.path.join(ROOT, 'corpus', job.target)
    if os.path.isdir(seedc):
        for f in os.listdir(seedc):
            shutil.copy(os.path.join(seedc, f), os.path.join(corpus, f))
    art = os.path.join(outdir, 'artifacts')
    os.makedirs(art, exist_ok=True)
    cmd = [binpath, corpus, '-runs=%d' % job.runs[tier], '-seed=%d' % (seed * 1000 + k + 1), '-max_len=%d' % job.max_len, '-timeout=20', '-rss_limit_mb=3000',
           '-artifact_prefix=' + art + '/', '-print_final_stats=1', '-max_total_time=3000', '-verbosity=1', '-close_fd_mask=0']
    if job.dict_file:
        cmd.append('-dict=' + os.path.join(ROOT, job.dict_file))
    env = variant_env('fuzz')
    env['ASAN_OPTIONS'] = 'abort_on_error=1:detect_leaks=1:allocator_may_return_null=1:max_allocation_size_mb=2048:handle_abort=1:symbolize=1'
    env['ASAN_SYMBOLIZER_PATH'] = shutil.which('llvm-symbolizer-14') or shutil.which('llvm-symbolizer') or ''
    slots.acquire(1)
    t0 = time.time()
    try:
        p = subprocess.run(cmd, stdout=subprocess.PIPE, stderr=subprocess.STDOUT, env=env, cwd=outdir)
    finally:
        slots.release(1)
    return cmd, p.returncode, p.stdout.decode('utf-8', 'replace'), time.time() - t0, corpus, art


def _fuzz_collect(prop, job, tier, seed, k, fut_result, res, js):
    cmd, rc, out, wall, corpus, art = fut_result
    m = re.search(r'stat::number_of_executed_units:\s*(\d+)', out)
    execs = int(m.group(1)) if m else 0
    covs = re.findall(r'cov: (\d+) ft: (\d+) corp: (\d+)', out)
    cov, ft, corp = (int(x) for x in covs[-1]) if covs else (0, 0, 0)
    js['done'] += execs
    js['evaluations'] += execs
    js['wall_s'] = max(js['wall_s'], wall)
    res.evaluations += execs
    res.cases_done += execs
    for kk, v in (('executions', execs), ('corpus_entries', corp)):
        res.counters['%s:%s' % (job.tag, kk)] = res.counters.get('%s:%s' % (job.tag, kk), 0) + v
    for kk, v in (('coverage_edges_max', cov), ('coverage_features_max', ft)):
        res.counters['%s:%s' % (job.tag, kk)] = max(res.counters.get('%s:%s' % (job.tag, kk), 0), v)
    # distinct non-trivial = coverage-increasing inputs kept in the corpus (content hashes)
    n = 0
    for f in os.listdir(corpus):
        try:
            data = open(os.path.join(corpus, f), 'rb').read()
        except Exception:
            continue
        res.hashes.add(int(hashlib.sha1(job.target.encode() + data).hexdigest()[:16], 16))
        n += 1
        if k == 0 and n <= 2 and len(res.samples) < 24 and len(data) > 3:
            res.samples.append({'job': job.tag, 'case': repr(data[:200])})
    if 'max_total_time' in out and 'DONE' in out and execs < job.runs[tier] * 0.5:
        res.counters['%s:stopped_by_time_cap' % job.tag] = res.counters.get('%s:stopped_by_time_cap' % job.tag, 0) + 1
    arts = sorted(os.listdir(art))
    if rc != 0 or arts:
        witness = ''
        for a in arts[:1]:
            try:
                witness = repr(open(os.path.join(art, a), 'rb').read()[:600])
            except Exception:
                pass
        text = out[-12000:]
        mo = re.search(r'(VF-ORACLE: [^\n]+)', out)
        if mo:
            sigs = [('oracle', re.sub(r'[^A-Za-z0-9_.:-]+', '-', mo.group(1)[11:80]), mo.group(1))]
        elif 'ERROR: libFuzzer: timeout' in out:
            sigs = [('hang', 'timeout', 'input took longer than 20 s')]
        else:
            sigs = signatures('crash', text)
        js['anomalies'] += 1
        keepart = ''
        if arts:
            keep = os.path.join(ROOT, 'replays', prop)
            os.makedirs(keep, exist_ok=True)
            keepart = os.path.join(keep, 'fuzz_%s_%s' % (job.target, arts[0][:40]))
            shutil.copy(os.path.join(art, arts[0]), keepart)
        for det, sig, excerpt in sigs:
            res.anoms.append(dict(property=prop, key='%s/%s/%s/%s' % (prop, job.tag, det, sig), detector=det, job=job.tag, variant='fuzz', harness='fuzz/' + job.target,
                                  mode='libfuzzer', seed=seed, idx=0, desc='input %s' % witness, report=excerpt, how='exit %d' % rc, cmd=[cmd[0], keepart] if keepart else cmd, batch_from=None))


def replay_cmd(an):
    return an['cmd']


def run_jobs(prop, tier, seed, jobs, scratch):
    """Build and run all jobs; returns Result."""
    res = Result()
    jobs = [j for j in jobs if tier in j.tiers]
    fjobs = [j for j in jobs if getattr(j, 'fuzz', False)]
    jobs = [j for j in jobs if not getattr(j, 'fuzz', False)]
    bins = build.build_many([(j.harness, j.variant) for j in jobs])
    fbins = {}
    for j in fjobs:
        fbins[j.target] = build.fuzz_target(j.target)
    slots = Slots(NCPU)
    tasks = []
    with ThreadPoolExecutor(64) as ex:
        for ji, j in enumerate(jobs):
            n = max(1, min(j.shards[tier], j.cases[tier]))
            for s in range(n):
                outdir = os.path.join(scratch, '%02d_%s_%s_%d' % (ji, j.tag, j.variant, s))
                tasks.append((j, s, n, outdir, ex.submit(_run_task, j, tier, seed, s, n, bins[(j.harness, j.variant)], outdir, slots)))
        ftasks = []
        for ji, j in enumerate(fjobs):
            for k in range(j.procs[tier]):
                outdir = os.path.join(scratch, 'fz%02d_%s_%d' % (ji, j.target, k))
                ftasks.append((j, k, ex.submit(_run_fuzz_task, j, tier, seed, k, fbins[j.target], outdir, slots)))
        per_job = {}
        for j, k, fut in ftasks:
            js = per_job.setdefault(id(j), dict(tag=j.tag, variant='fuzz', mode='libfuzzer', harness='fuzz/' + j.target, planned=j.runs[tier] * j.procs[tier], done=0,
                                                evaluations=0, nontrivial=0, anomalies=0, inconclusive=0, wall_s=0.0, shards=j.procs[tier], floor=0.5))
            try:
                _fuzz_collect(prop, j, tier, seed, k, fut.result(), res, js)
            except Exception as e:
                res.errors.append('fuzz job %s failed: %s' % (j.tag, e))
        for j, s, n, outdir, fut in tasks:
            cmd, rc, out, wall = fut.result()
            js = per_job.setdefault(id(j), dict(tag=j.tag, variant=j.variant, mode=j.mode, harness=j.harness, planned=j.cases[tier], done=0,
                                                evaluations=0, nontrivial=0, anomalies=0, inconclusive=0, wall_s=0.0, shards=n, floor=j.floor))
            rp = os.path.join(outdir, 'result.json')
            if rc != 0 or not os.path.exists(rp):
                res.errors.append('harness %s mode %s shard %d failed rc=%s: %s' % (j.harness, j.mode, s, rc, out[-2000:]))
                continue
            with open(rp) as f:
                r = json.load(f)
            js['done'] += r['done']
            js['evaluations'] += r['evaluations']
            js['nontrivial'] += r['nontrivial']
            js['inconclusive'] += r['inconclusive']
            js['wall_s'] = max(js['wall_s'], r['wall_s'])
            if r.get('truncated'):
                js['truncated'] = True
            res.evaluations += r['evaluations']
            res.cases_done += r['done']
            res.nontrivial += r['nontrivial']
            res.inconclusive += r['inconclusive']
            for k, v in r['counters'].items():
                kk = '%s:%s' % (j.tag, k)
                res.counters[kk] = res.counters.get(kk, 0) + v
            if r['nhashes'] >= r['hash_cap']:
                res.hash_capped = True
            a = array.array('Q')
            with open(os.path.join(outdir, 'hashes.bin'), 'rb') as f:
                data = f.read()
            a.frombytes(data[:len(data) // 8 * 8])
            res.hashes.update(a)
            for sm in r['samples'][:2]:
                if len(res.samples) < 24 and (s == 0):
                    res.samples.append({'job': j.tag + '/' + j.variant, 'case': sm})
            ap = os.path.join(outdir, 'anoms.jsonl')
            if os.path.exists(ap):
                with open(ap, errors='replace') as f:
                    for ln in f:
                        ln = ln.strip()
                        if not ln:
                            continue
                        try:
                            an = json.loads(ln)
                        except Exception as e:
                            res.errors.append('bad anomaly line from %s: %r' % (j.tag, ln[:200]))
                            continue
                        js['anomalies'] += 1
                        base_cmd = [c for c in cmd]
                        # replay command: same binary/mode/seed/params, only that case
                        rc_cmd = []
                        skip = 0
                        for c in base_cmd:
                            if skip:
                                skip -= 1
                                continue
                            if c in ('--shard', '--out', '--batch'):
                                skip = 1
                                continue
                            rc_cmd.append(c)
                        rc_cmd += ['--only', str(an['idx'])]
                        if an['kind'] == 'oracle':
                            sigs = [('oracle', an['key'], an['detail'])]
                        elif an['kind'] == 'hang':
                            sigs = [('hang', 'hang', an['detail'])]
                        else:
                            sigs = signatures(an['kind'], an['detail'])
                        for det, sig, excerpt in sigs:
                            res.anoms.append(dict(property=prop, key='%s/%s/%s/%s' % (prop, j.tag, det, sig), detector=det, job=j.tag,
                                                  variant=j.variant, harness=j.harness, mode=j.mode, seed=seed, idx=an['idx'], desc=an.get('desc', ''),
                                                  report=excerpt, how=an.get('how', ''), cmd=rc_cmd, batch_from=an.get('batch_from')))
        res.jobs = list(per_job.values())
    res.cases_planned = sum(j['planned'] for j in res.jobs)
    return res


# ------------------------------------------------------------------ verdict + evidence
def conclude(prop, tier, seed, res, meta, t0, extra_cov=None):
    """Print KNOWN-FINDING / VIOLATION lines, write replays and evidence, return the exit code."""
    known = load_known()
    by_key = {}
    for a in res.anoms:
        by_key.setdefault(a['key'], []).append(a)
    viol, knownhit = [], {}
    rdir = os.path.join(ROOT, 'replays', prop)
    for key, lst in sorted(by_key.items()):
        k = match_known(known, prop, key)
        if k:
            knownhit.setdefault(k['what_fails'], 0)
            knownhit[k['what_fails']] += len(lst)
            continue
        os.makedirs(rdir, exist_ok=True)
        fn = os.path.join(rdir, re.sub(r'[^A-Za-z0-9_.-]+', '_', key)[:150] + '.json')
        a = lst[0]
        with open(fn, 'w') as f:
            json.dump(dict(property=prop, key=key, occurrences=len(lst), variant=a['variant'], harness=a['harness'], mode=a['mode'],
                           seed=a['seed'], idx=a['idx'], case=a['desc'], report=a['report'], how=a['how'], cmd=a['cmd'],
                           env=dict(ASAN_OPTIONS=ASAN_OPTIONS, UBSAN_OPTIONS=UBSAN_OPTIONS, TSAN_OPTIONS=TSAN_OPTIONS, TZ='UTC'),
                           other_indices=[x['idx'] for x in lst[1:20]]), f, indent=1)
        viol.append((key, fn, lst))
    for what, n in sorted(knownhit.items()):
        print('KNOWN-FINDING: property=%s %s (reproduced %d times in this run)' % (prop, what, n))
    for key, fn, lst in viol:
        print('VIOLATION property=%s replay=%s' % (prop, fn))
        print('  key=%s occurrences=%d' % (key, len(lst)))
        print('  case: %s' % lst[0]['desc'][:600])
        print('  report: %s' % lst[0]['report'][:1200].replace('\n', '\n    '))

    # floors: did the monitors observe enough?
    short = []
    for j in res.jobs:
        fl = j['floor'] if j['floor'] is not None else 0.98
        if j['done'] < fl * j['planned'] and not j.get('truncated'):
            short.append('%s/%s completed %d of %d cases' % (j['tag'], j['variant'], j['done'], j['planned']))
        if j.get('truncated') and not viol and not knownhit:
            short.append('%s/%s truncated without anomalies' % (j['tag'], j['variant']))
    if res.cases_done and res.inconclusive > 0.05 * res.cases_done:
        short.append('%d of %d cases inconclusive' % (res.inconclusive, res.cases_done))

    distinct = len(res.hashes)
    cov = dict(evaluations=int(res.evaluations), distinct_nontrivial=int(distinct), rule=meta['rule'] +
               (' [distinct count is a lower bound: a shard stopped recording hashes at its cap]' if res.hash_capped else ''),
               samples=res.samples[:16] if res.samples else [],
               nontrivial_with_repeats=int(res.nontrivial), cases_planned=res.cases_planned, cases_completed=res.cases_done,
               inconclusive=res.inconclusive, jobs=res.jobs, monitor_counters=dict(sorted(res.counters.items())),
               known_findings_reproduced=knownhit, anomaly_keys=sorted(by_key.keys())[:50],
               exhaustive=bool(meta.get('exhaustive', {}).get(tier, False)))
    if extra_cov:
        cov.update(extra_cov)
    ev = dict(property_id=prop, tier=tier, seed=seed, level='exploration', coverage=cov,
              assumptions=meta.get('assumptions', []), wall_s=round(time.time() - t0, 2), violations=len(viol))
    # selftest runs against scratch trees (VERIF_REPO set) give VERIF_EVIDENCE_DIR so that /verif/evidence only ever describes /repo
    evdir = os.environ.get('VERIF_EVIDENCE_DIR') or os.path.join(ROOT, 'evidence')
    os.makedirs(evdir, exist_ok=True)
    ok_evidence = cov['evaluations'] >= 1 and cov['distinct_nontrivial'] >= 2 and len(cov['samples']) >= 1
    with open(os.path.join(evdir, prop + '.json'), 'w') as f:
        json.dump(ev, f, indent=1)
    print('%s %s seed=%d: %d evaluations, %d distinct non-trivial, %d cases (%d inconclusive), %d anomaly keys (%d known), %.1fs' % (
        prop, tier, seed, cov['evaluations'], distinct, res.cases_done, res.inconclusive, len(by_key), len(by_key) - len(viol), time.time() - t0))
    if viol:
        return 1
    if res.errors:
        for e in res.errors:
            print('HARNESS-ERROR: ' + e)
        return 2
    if short or not ok_evidence:
        for s in short:
            print('INCONCLUSIVE: ' + s)
        if not ok_evidence:
            print('INCONCLUSIVE: the monitors observed too little to write valid evidence')
        return 2
    return 0
