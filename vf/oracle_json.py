"""Offline independent oracle for C05/C06: python's json module (strict) against the harness's typed dumps.
Record lines:  KIND \t hex(text) \t typed-dump
  EC/EP  text = asl encoder output, dump = the generator's tree     -> json.loads(text) must succeed and denote the tree
  D      text = generated RFC 8259 document, dump = what asl decoded -> json.loads(text) must succeed (else the generator is wrong)
                                                                       and asl's value must equal python's"""
import json, struct, glob, os, math


def _reject_constant(x):
    raise ValueError('non-standard constant ' + x)


def conv(d):
    k = d[0]
    if k == 'z':
        return ('z',)
    if k == 'b':
        return ('b', d[1])
    if k == 'i':
        return ('n', float(d[1]), d[1])
    if k == 'd':
        return ('n', float.fromhex(d[1]), None)
    if k == 'f':
        return ('f', float.fromhex(d[1]))
    if k == 's':
        return ('s', bytes.fromhex(d[1]))
    if k == 'a':
        return ('a', [conv(x) for x in d[1:]])
    if k == 'o':
        return ('o', {bytes.fromhex(kv[0]): conv(kv[1]) for kv in d[1:]})
    return ('?', k)


def equal(py, t, path='$'):
    """py = value from json.loads; t = converted typed dump. Returns None or a reason."""
    k = t[0]
    if k == 'z':
        return None if py is None else path + ': expected null'
    if k == 'b':
        return None if (type(py) is bool and py == t[1]) else path + ': bool'
    if k == 'n':
        if type(py) is bool or not isinstance(py, (int, float)):
            return path + ': number expected, python has %r' % type(py).__name__
        try:
            pf = float(py)
        except OverflowError:
            pf = math.inf if py > 0 else -math.inf
        if t[2] is not None and isinstance(py, int) and py != t[2]:
            return path + ': int %r vs %r' % (py, t[2])
        if pf != t[1] and not (math.isnan(pf) and math.isnan(t[1])):
            return path + ': number %r vs %r' % (py, t[1])
        return None
    if k == 'f':
        if type(py) is bool or not isinstance(py, (int, float)):
            return path + ': number expected'
        try:
            a = struct.pack('f', float(py))
        except OverflowError:
            return path + ': float overflow %r' % py
        return None if a == struct.pack('f', t[1]) else path + ': float %r vs %r' % (py, t[1])
    if k == 's':
        if not isinstance(py, str):
            return path + ': string expected'
        return None if py.encode('utf-8', 'surrogatepass') == t[1] else path + ': string %r vs %r' % (py[:60], t[1][:60])
    if k == 'a':
        if not isinstance(py, list) or len(py) != len(t[1]):
            return path + ': array of %d expected' % len(t[1])
        for i, (a, b) in enumerate(zip(py, t[1])):
            r = equal(a, b, '%s[%d]' % (path, i))
            if r:
                return r
        return None
    if k == 'o':
        if not isinstance(py, dict) or len(py) != len(t[1]):
            return path + ': object with %d keys expected, python has %s' % (len(t[1]), len(py) if isinstance(py, dict) else type(py).__name__)
        for kk, vv in t[1].items():
            ks = kk.decode('utf-8', 'surrogatepass')
            if ks not in py:
                return path + ': key %r missing' % ks
            r = equal(py[ks], vv, path + '.' + ks[:20])
            if r:
                return r
        return None
    return path + ': unknown dump kind %r' % (t,)


def check_records(scratch, prop, res, seed, harness, tagprefix):
    """Process every records.txt under scratch; append anomalies to res; return coverage dict."""
    n = {'EC': 0, 'EP': 0, 'D': 0}
    bad = 0
    generr = 0
    for p in sorted(glob.glob(os.path.join(scratch, '*', 'records.txt'))):
        job = os.path.basename(os.path.dirname(p))
        with open(p, errors='replace') as f:
            for ln in f:
                parts = ln.rstrip('\n').split('\t')
                if len(parts) != 3 or parts[0] not in n:
                    continue
                kind, hx, dump = parts
                try:
                    raw = bytes.fromhex(hx)
                    t = conv(json.loads(dump))
                except Exception as e:
                    res.errors.append('bad record in %s: %s' % (p, e))
                    continue
                n[kind] += 1
                why = None
                try:
                    text = raw.decode('utf-8')
                    py = json.loads(text, parse_constant=_reject_constant)
                except Exception as e:
                    if kind == 'D':
                        generr += 1
                        res.errors.append('generator produced a document python rejects: %r: %s' % (raw[:200], e))
                        continue
                    why = 'python json rejects the encoder output: %s' % e
                    key = 'encoder-output-not-strict-json'
                else:
                    why = equal(py, t)
                    key = 'encoder-output-denotes-other-value' if kind != 'D' else 'decoded-value-differs-from-python'
                if why:
                    bad += 1
                    if bad <= 40:
                        res.anoms.append(dict(property=prop, key='%s/%s/pyjson/%s' % (prop, tagprefix + ('.enc' if kind != 'D' else '.dec'), key), detector='pyjson',
                                              job=job, variant='-', harness=harness, mode='-', seed=seed, idx=0,
                                              desc='text: %r' % raw[:400], report=why, how='', cmd=[], batch_from=None))
    return dict(python_json_records_encoder=n['EC'] + n['EP'], python_json_records_decoder=n['D'], python_json_disagreements=bad)
