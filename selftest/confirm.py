#!/usr/bin/env python3
"""Confirm a seeded change produced by an independent sub-agent and run our check against it.

usage: selftest/confirm.py <seed_dir> <N> <PROP> <name> [--tier quick] [--keep-on-miss]

<seed_dir>/out/patchN.diff, demoN.cpp, metaN.txt are the agent's outputs. Steps, all in a scratch worktree of /repo's HEAD:
  1. the patch applies; the library and its own test suite build and all 28 tests pass with it
  2. the demonstration exits 0 on the clean tree and fails (non-zero / sanitizer report) with the patch
     (tried plain, then -fsanitize=address, then -fsanitize=thread)
  3. ./check PROP against the patched tree (VERIF_REPO): records whether it reports a VIOLATION
If 1 and 2 hold the change is stored as /verif/seeded/<name>/ {patch.diff, demo.cpp, meta.json}."""
import sys, os, subprocess, shutil, tempfile, json, glob, re, time

ROOT = os.path.dirname(os.path.dirname(os.path.abspath(__file__)))


def sh(cmd, **kw):
    return subprocess.run(cmd, shell=isinstance(cmd, str), stdout=subprocess.PIPE, stderr=subprocess.STDOUT, text=True, errors='replace', **kw)


def build_lib(tree, outdir, flags):
    os.makedirs(outdir, exist_ok=True)
    srcs = [s for s in glob.glob(os.path.join(tree, 'src', '*.cpp')) if not s.endswith('TlsSocket.cpp')]
    procs = []
    for s in srcs:
        o = os.path.join(outdir, os.path.basename(s)[:-4] + '.o')
        procs.append(subprocess.Popen(['g++', '-std=gnu++11', '-g', '-O1', '-w'] + flags + ['-I', os.path.join(tree, 'include'), '-c', s, '-o', o],
                                      stdout=subprocess.PIPE, stderr=subprocess.STDOUT))
    out = ''
    for p in procs:
        o, _ = p.communicate()
        if p.returncode:
            out += o.decode(errors='replace')
    if out:
        return None, out
    lib = os.path.join(outdir, 'libasl.a')
    sh(['ar', 'rcs', lib] + glob.glob(os.path.join(outdir, '*.o')))
    return lib, ''


def run_demo(tree, lib, demo, flags, outbin, timeout=120):
    r = sh(['g++', '-std=gnu++11', '-g', '-O1', '-w'] + flags + ['-I', os.path.join(tree, 'include'), demo, lib, '-lpthread', '-ldl', '-o', outbin])
    if r.returncode:
        return None, 'demo does not compile: ' + r.stdout[-1500:]
    env = dict(os.environ, ASAN_OPTIONS='detect_leaks=1:abort_on_error=0:exitcode=23', TSAN_OPTIONS='exitcode=66:halt_on_error=0', TZ='UTC')
    try:
        p = subprocess.run([outbin], stdout=subprocess.PIPE, stderr=subprocess.STDOUT, timeout=timeout, env=env, cwd=os.path.dirname(outbin))
        return p.returncode, p.stdout.decode(errors='replace')[-1500:]
    except subprocess.TimeoutExpired:
        return 124, 'timeout'


def main():
    seed_dir, n, prop, name = sys.argv[1:5]
    tier = 'quick'
    if '--tier' in sys.argv:
        tier = sys.argv[sys.argv.index('--tier') + 1]
    out = os.path.join(seed_dir, 'out')
    patch = os.path.join(out, 'patch%s.diff' % n)
    demo = os.path.join(out, 'demo%s.cpp' % n)
    meta = os.path.join(out, 'meta%s.txt' % n)
    tmp = tempfile.mkdtemp(prefix='aslconfirm.', dir='/tmp')
    wt = os.path.join(tmp, 'wt')
    res = dict(name=name, property=prop, patch=os.path.basename(patch), applied_to=sh('git -C /repo rev-parse --short HEAD').stdout.strip())
    try:
        r = sh(['git', '-C', '/repo', 'worktree', 'add', '-q', '--detach', wt, 'HEAD'])
        if r.returncode:
            print('cannot create worktree', r.stdout)
            return 3
        # clean-tree library builds for the demo (plain / asan / tsan as needed, lazily)
        variants = [('plain', []), ('asan', ['-fsanitize=address', '-fno-omit-frame-pointer']), ('tsan', ['-fsanitize=thread'])]
        clean = {}
        cleantree = os.path.join(tmp, 'cleantree')   # headers + sources of the unpatched tree (demos include headers)
        os.makedirs(cleantree)
        shutil.copytree(os.path.join(wt, 'include'), os.path.join(cleantree, 'include'))
        shutil.copytree(os.path.join(wt, 'src'), os.path.join(cleantree, 'src'))
        for vn, fl in variants[:1]:
            lib, err = build_lib(cleantree, os.path.join(tmp, 'clean_' + vn), fl)
            clean[vn] = lib
        r = sh(['git', '-C', wt, 'apply', '--whitespace=nowarn', patch])
        if r.returncode:
            print('PATCH DOES NOT APPLY:', r.stdout)
            res['applies'] = False
            print(json.dumps(res))
            return 3
        res['applies'] = True
        # 1. repo tests with the patch
        b = os.path.join(tmp, '_b')
        r = sh('cmake -S %s -B %s -G Ninja -DASL_TESTS=ON >/dev/null 2>&1 && cmake --build %s 2>&1 | tail -3 && ctest --test-dir %s -j8 2>&1 | tail -4' % (wt, b, b, b))
        res['repo_tests_pass'] = '100% tests passed' in r.stdout
        if not res['repo_tests_pass']:
            print('REPO TESTS FAIL WITH PATCH:\n' + r.stdout[-1500:])
        shutil.rmtree(b, ignore_errors=True)
        # 2. demo both ways
        res['demo'] = None
        for vn, fl in variants:
            if vn not in clean:
                lib, err = build_lib(cleantree, os.path.join(tmp, 'clean_' + vn), fl)
                clean[vn] = lib
            plib, err = build_lib(wt, os.path.join(tmp, 'patched_' + vn), fl)
            if not plib:
                print('patched tree does not compile:', err[-1500:])
                break
            # the clean library was built from the same worktree before patching
            rc_clean, o1 = run_demo(cleantree, clean[vn], demo, fl, os.path.join(tmp, 'demo_clean_' + vn))
            rc_patch, o2 = run_demo(wt, plib, demo, fl, os.path.join(tmp, 'demo_patch_' + vn))
            print('demo [%s]: clean rc=%s patched rc=%s' % (vn, rc_clean, rc_patch))
            if rc_clean == 0 and rc_patch not in (0, None):
                res['demo'] = dict(variant=vn, clean_rc=rc_clean, patched_rc=rc_patch, patched_output_tail=o2[-600:])
                break
            if rc_clean not in (0,):
                print('  clean output tail:', (o1 or '')[-400:])
        # 3. our check
        cache = os.path.join(ROOT, '.cache', 'selftest.%d' % os.getpid())
        env = dict(os.environ, VERIF_REPO=wt, VERIF_CACHE=cache, VERIF_EVIDENCE_DIR=os.path.join(cache, 'evidence'))
        t0 = time.time()
        p = subprocess.run(['./check', prop, '--tier', tier], cwd=ROOT, env=env, stdout=subprocess.PIPE, stderr=subprocess.STDOUT, text=True, errors='replace')
        keys = re.findall(r'^  key=(\S+)', p.stdout, re.M)
        res['check'] = dict(property=prop, tier=tier, exit=p.returncode, violation_keys=keys[:12], wall_s=round(time.time() - t0, 1),
                            summary=[l for l in p.stdout.splitlines() if l.startswith(prop + ' ')][-1:])
        print('check %s %s: exit %d, %d violation keys %s' % (prop, tier, p.returncode, len(keys), keys[:4]))
        # replays written by this run belong to the scratch tree
        st = sh('git -C %s status --porcelain replays' % ROOT).stdout
        for ln in st.splitlines():
            f = ln[3:].strip()
            if ln.startswith('??'):
                shutil.rmtree(os.path.join(ROOT, f), ignore_errors=True) if os.path.isdir(os.path.join(ROOT, f)) else os.path.exists(os.path.join(ROOT, f)) and os.unlink(os.path.join(ROOT, f))
        confirmed = res['applies'] and res['repo_tests_pass'] and res['demo'] is not None
        res['confirmed'] = bool(confirmed)
        res['detected'] = p.returncode == 1
        if confirmed:
            d = os.path.join(ROOT, 'seeded', name)
            os.makedirs(d, exist_ok=True)
            shutil.copy(patch, os.path.join(d, 'patch.diff'))
            shutil.copy(demo, os.path.join(d, 'demo.cpp'))
            mt = open(meta, errors='replace').read() if os.path.exists(meta) else ''
            json.dump(dict(breaks_property=prop, needs_to_manifest=mt, source='independent sub-agent given only the property text and a scratch worktree',
                           confirmation=res, ran=['git apply patch.diff in a scratch worktree of /repo @' + res['applied_to'],
                                                  'cmake+ctest of the repository tests with the patch: 28/28 pass',
                                                  'demo.cpp built against clean and patched trees (%s): clean exit 0, patched exit %s' % (res['demo']['variant'], res['demo']['patched_rc']),
                                                  'VERIF_REPO=<worktree> ./check %s --tier %s -> exit %d' % (prop, tier, p.returncode)]),
                      open(os.path.join(d, 'meta.json'), 'w'), indent=1)
        print('RESULT %s confirmed=%s detected=%s' % (name, res['confirmed'], res['detected']))
        return 0
    finally:
        sh(['git', '-C', '/repo', 'worktree', 'remove', '--force', wt])
        shutil.rmtree(tmp, ignore_errors=True)
        shutil.rmtree(os.path.join(ROOT, '.cache', 'selftest.%d' % os.getpid()), ignore_errors=True)


if __name__ == '__main__':
    sys.exit(main())
