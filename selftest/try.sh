#!/bin/bash
# usage: selftest/try.sh <patch.diff> <PROP> [tier]  - apply a patch to a scratch worktree of /repo, run the check against it, clean up.
# Prints the check's summary; exit status is the check's (1 = the break was detected).
set -u
patch=$(readlink -f "$1"); prop=$2; tier=${3:-quick}
wt=$(mktemp -d /tmp/aslwt.XXXXXX)
git -C /repo worktree add -q --detach "$wt" HEAD || exit 3
if ! git -C "$wt" apply --whitespace=nowarn "$patch"; then echo "PATCH DOES NOT APPLY"; git -C /repo worktree remove --force "$wt"; exit 3; fi
cd /verif
cache=/verif/.cache/selftest.$$
VERIF_REPO="$wt" VERIF_CACHE=$cache VERIF_EVIDENCE_DIR=$cache/evidence ./check "$prop" --tier "$tier" > "$wt.log" 2>&1
rc=$?
grep -E "^VIOLATION|^  key|^KNOWN|^C[0-9]+ |^INCONC|^HARNESS" "$wt.log" | cut -c1-300 | head -${MAXLINES:-12}
rm -f "$wt.log"
git -C /repo worktree remove --force "$wt"
rm -rf "$cache"
# replays written by this run belong to the scratch tree, not to /repo
git -C /verif status --porcelain replays 2>/dev/null | awk '{print $2}' | xargs -r rm -rf
exit $rc
