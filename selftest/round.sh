#!/bin/bash
# usage: selftest/round.sh <round-dir> <PROP> <tag>   - confirm the three outputs of one sub-agent (round-dir/PROP/out) as PROP-<tag>s1..3
R=$1; P=$2; T=$3
cd "$(dirname "$0")/.."
for n in 1 2 3; do
  python3 selftest/confirm.py "$R/$P" $n $P $P-${T}s$n 2>&1 | grep -E "^demo|^check|^RESULT|PATCH DOES NOT|REPO TESTS FAIL|does not compile" 
done
