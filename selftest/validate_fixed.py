#!/usr/bin/env python3
"""For every status=fixed entry of known_findings.json: revert that fix commit on a scratch worktree of /repo's HEAD and
run the property's check against it. The check must report a VIOLATION (exit 1): a fixed entry suppresses nothing.
usage: selftest/validate_fixed.py [PROP ...]   -> writes selftest/fixed_validation.json"""
import json, os, subprocess, sys, tempfile, shutil, re
ROOT = os.path.dirname(os.path.dirname(os.path.abspath(__file__)))
known = json.load(open(os.path.join(ROOT, 'known_findings.json')))['findings']
only = set(sys.argv[1:])
outp = os.path.join(ROOT, 'selftest', 'fixed_validation.json')
out = json.load(open(outp)) if os.path.exists(outp) else []
skip_done = '--missing' in sys.argv
only.discard('--missing')
for k in known:
    if k.get('status') != 'fixed':
        continue
    prop, commit = k['property'], k['commit']
    if only and prop not in only:
        continue
    if skip_done and any(r['commit'] == commit and r['result'] == 'detected' for r in out):
        continue
    out = [r for r in out if r['commit'] != commit]
    tmp = tempfile.mkdtemp(prefix='aslfixed.', dir='/tmp')
    wt = os.path.join(tmp, 'wt')
    r = dict(property=prop, commit=commit, what=k['line'][:160])
    try:
        subprocess.run(['git', '-C', '/repo', 'worktree', 'add', '-q', '--detach', wt, 'HEAD'], check=True)
        d = subprocess.run(['git', '-C', '/repo', 'diff', commit + '~1', commit], capture_output=True).stdout
        pf = os.path.join(tmp, 'fix.diff')
        open(pf, 'wb').write(d)
        a = subprocess.run(['git', '-C', wt, 'apply', '-R', '--whitespace=nowarn', pf], capture_output=True, text=True)
        if a.returncode:
            a = subprocess.run(['git', '-C', wt, 'apply', '-R', '--3way', '--whitespace=nowarn', pf], capture_output=True, text=True)
        if a.returncode:
            r['result'] = 'revert-does-not-apply (later commits changed the same lines)'
        else:
            cache = os.path.join(ROOT, '.cache', 'selftest.%d' % os.getpid())
            p = subprocess.run(['./check', prop, '--tier', 'quick'], cwd=ROOT, env=dict(os.environ, VERIF_REPO=wt, VERIF_CACHE=cache, VERIF_EVIDENCE_DIR=os.path.join(cache, 'evidence')), capture_output=True, text=True, errors='replace')
            keys = re.findall(r'^  key=(\S+)', p.stdout, re.M)
            r['exit'] = p.returncode
            r['keys'] = keys[:6]
            r['result'] = 'detected' if p.returncode == 1 else 'NOT DETECTED'
            shutil.rmtree(cache, ignore_errors=True)
            st = subprocess.run(['git', '-C', ROOT, 'status', '--porcelain', 'replays'], capture_output=True, text=True).stdout
            for ln in st.splitlines():
                if ln.startswith('??'):
                    f = os.path.join(ROOT, ln[3:].strip())
                    shutil.rmtree(f, ignore_errors=True) if os.path.isdir(f) else (os.path.exists(f) and os.unlink(f))
    finally:
        subprocess.run(['git', '-C', '/repo', 'worktree', 'remove', '--force', wt])
        shutil.rmtree(tmp, ignore_errors=True)
    print(prop, commit, r['result'], r.get('keys', [])[:2], flush=True)
    out.append(r)
    json.dump(out, open(os.path.join(ROOT, 'selftest', 'fixed_validation.json'), 'w'), indent=1)
