#!/usr/bin/env python3
"""Regenerates /verif/MANIFEST.json from vf/props.py (claimed properties) and vf/texts.py."""
import json, os, sys
ROOT = os.path.dirname(os.path.dirname(os.path.abspath(__file__)))
sys.path.insert(0, ROOT)
from vf import props, texts
props.load_plans()

ALL = ['C%02d' % i for i in range(1, 21)]
READY = set(open(os.path.join(ROOT, 'vf', 'ready.txt')).read().split())
checks = []
for pid in ALL:
    if pid not in props.PLANS or pid in texts.NOT_CLAIMED or pid not in READY or pid not in texts.TEXT:
        continue
    t = texts.TEXT[pid]
    checks.append(dict(property_id=pid,
                       quick_cmd='./check %s --tier quick' % pid,
                       thorough_cmd='./check %s --tier thorough' % pid,
                       evidence_file='/verif/evidence/%s.json' % pid,
                       replay_cmd_template='./check %s --replay {path}' % pid,
                       engine='vf',
                       level_claimed=dict(category='exploration', text=t['level'], design_ref='DESIGN.md section 6, ' + pid),
                       level_note=t['note'], technique=t['technique']))
na = [dict(property_id=p, reason=texts.NOT_CLAIMED.get(p, 'check not built yet in this phase; see DESIGN.md section 6 for the planned monitor'))
      for p in ALL if p not in [c['property_id'] for c in checks]]
import subprocess
hooks = subprocess.run(['git', '-C', '/repo', 'log', '--format=%H', '--grep=^ASL_VERIF hooks\|ASL_VERIF verification hooks'], capture_output=True, text=True).stdout.split()
m = dict(version=1,
         setup_cmd='./check --setup',
         hooks=dict(guard='ASL_VERIF', enable='vf/build.py compiles /repo/src/*.cpp (minus TlsSocket.cpp) with -DASL_VERIF -I/repo/include into per-variant archives (asan, tsan, plain, fuzz) under /verif/.cache/build, keyed by a hash of src/ and include/',
                    baseline_off_cmd='cmake --build /repo/_build && ctest --test-dir /repo/_build -j8 --timeout 900',
                    source_commits=hooks, add_only=True),
         engines=[dict(name='vf', path='/verif/check', serves_properties=[c['property_id'] for c in checks],
                       kind_free_text='python driver + C++ harnesses linked against sanitizer builds of the current /repo tree; fork-isolated seeded cases, reference models, offline log checkers, known-findings matching')],
         checks=checks,
         notes='Technique family: runtime monitoring and sanitizers. Exit 2 from a check means the machinery failed or observed too little (inconclusive).',
         not_applicable=na)
json.dump(m, open(os.path.join(ROOT, 'MANIFEST.json'), 'w'), indent=1)
print('MANIFEST.json: %d checks, %d not claimed' % (len(checks), len(na)))
