#!/usr/bin/env python3
"""CRLF-preserving exact-replace editor for /repo sources (most asl files use CRLF).
usage: redit.py FILE <<< JSON list of [old, new] pairs   (texts written with LF)"""
import sys, json
path = sys.argv[1]
pairs = json.load(sys.stdin)
b = open(path, 'rb').read()
crlf = b'\r\n' in b
s = b.decode('utf-8')
if crlf:
    s = s.replace('\r\n', '\n')
for old, new in pairs:
    n = s.count(old)
    if n != 1:
        sys.exit('%s: expected exactly one occurrence, found %d of: %r' % (path, n, old[:80]))
    s = s.replace(old, new)
if crlf:
    s = s.replace('\n', '\r\n')
open(path, 'wb').write(s.encode('utf-8'))
