#!/usr/bin/env python3
"""Regenerates the generated tables of DESIGN.md (between <!-- GEN:x --> and <!-- /GEN:x --> markers) from
known_findings.json, seeded/*/meta.json and selftest/fixed_validation.json."""
import json, os, re, glob, subprocess
ROOT = os.path.dirname(os.path.dirname(os.path.abspath(__file__)))
kf = json.load(open(os.path.join(ROOT, 'known_findings.json')))['findings']
val = {}
vp = os.path.join(ROOT, 'selftest', 'fixed_validation.json')
if os.path.exists(vp):
    for r in json.load(open(vp)):
        val[r['commit']] = r


def esc(t):
    return t.replace('|', '\\|').replace('\n', ' ')


rows = ['| prop | disposition | what fails (witness) | check that shows it on the pre-fix tree |', '|---|---|---|---|']
for k in sorted(kf, key=lambda k: (k['property'], k.get('status') != 'open')):
    if k['status'] == 'open':
        rows.append('| %s | **known finding (open)**, pattern `%s` | %s | %s |' % (k['property'], k['pattern'], esc(k['what_fails']), esc(k.get('witness', ''))))
    else:
        line = k['line']
        m = re.match(r'fixed: property=(\S+) (\S+) (.*)', line, re.S)
        what = m.group(3) if m else line
        v = val.get(k['commit'])
        if v is None:
            how = '(not re-run)'
        elif v['result'] == 'detected':
            how = 'reverting the fix: `' + re.sub(r'^C\d+/', '', v['keys'][0])[:90] + '`'
        else:
            how = v['result']
        rows.append('| %s | fixed in /repo `%s` | %s | %s |' % (k['property'], k['commit'], esc(what), esc(how)))
t7 = '\n'.join(rows)

rows = ['| id | what the change does / needs | detected by (first keys) |', '|---|---|---|']
for d in sorted(glob.glob(os.path.join(ROOT, 'seeded', '*'))):
    mp = os.path.join(d, 'meta.json')
    if not os.path.exists(mp):
        continue
    m = json.load(open(mp))
    c = m['confirmation']
    need = ' '.join(m['needs_to_manifest'].split())
    need = need[:330] + ('...' if len(need) > 330 else '')
    keys = [re.sub(r'^C\d+/', '', k)[:80] for k in c['check']['violation_keys'][:2]]
    det = ('`' + '`, `'.join(keys) + '`') if c['check']['exit'] == 1 else '**missed**'
    o = c.get('detected_by_other_check')
    if o and c['check']['exit'] != 1:
        det = '**missed** by its own check; reported by %s\'s: `%s`' % (o['property'], re.sub(r'^C\d+/', '', o['keys'][0])[:80])
    rows.append('| %s | %s | %s |' % (os.path.basename(d), esc(need), det))
t8 = '\n'.join(rows)

p = os.path.join(ROOT, 'DESIGN.md')
s = open(p).read()
for name, t in (('defects', t7), ('seeded', t8)):
    rep = '<!-- GEN:%s -->\n%s\n<!-- /GEN:%s -->' % (name, t, name)
    s = re.sub(r'<!-- GEN:%s -->.*?<!-- /GEN:%s -->' % (name, name), lambda m: rep, s, flags=re.S)
open(p, 'w').write(s)
print('tables regenerated: %d defect rows, %d seeded rows' % (len(kf), len(glob.glob(os.path.join(ROOT, 'seeded', '*')))))
