// C02: Map, Dic, HashMap, HashDic and Set behave as finite maps / sets.
// Oracle: std::map / std::set run in lock-step with the real asl containers; for equality the
// oracle is equality of the models. Only the public API is used (HashMap::a and binOf() are public
// members; they are used to *observe* bucket counts and chain membership, never to judge).
//
// Strata (see DESIGN.md section 5):
//   main modes (must be clean): map_small, map_hist, hashmap_hist, eq, set_ops
//   isolated defect modes     : hashmap_remove_chain_head  (removing the first node of a chain that has successors)
//                               eq_order                   (== of equal hash containers with different chain/bucket layout)
//                               eq_order_headremove        (both patterns together)
//   observation only (unplanned): hashmap_shared_growth    (table growth through one of two handles)
#include "common/runner.h"
#include <asl/Map.h>
#include <asl/HashMap.h>
#include <asl/Set.h>
#include <map>
#include <set>
#include <memory>
#include <algorithm>
#include <type_traits>
#include <limits.h>

using namespace asl;

// ------------------------------------------------------------------ asl type <-> model type
template<class A> struct TT;
template<> struct TT<int>
{
	typedef int M;
	static int mk(int m) { return m; }
	static int un(int a) { return a; }
	static std::string show(int m) { return vf::fmt("%d", m); }
	static uint64_t h(int m, uint64_t s) { return vf::mix(s, (uint64_t)(uint32_t)m); }
};
template<> struct TT<String>
{
	typedef std::string M;
	static String mk(const std::string& m) { return String(m.c_str(), (int)m.size()); }
	static std::string un(const String& a) { return std::string(*a, (size_t)a.length()); }
	static std::string show(const std::string& m)
	{
		if (m.size() > 28) return "\"" + vf::vis(m.substr(0, 8)) + ".." + vf::vis(m.substr(m.size() - 14)) + vf::fmt("\"(%d)", (int)m.size());
		return "\"" + vf::vis(m) + "\"";
	}
	static uint64_t h(const std::string& m, uint64_t s) { return vf::fnv(m, s); }
};

template<class V> struct Gen;
template<> struct Gen<int>
{
	static int val(vf::Rng& r) { return r.range(-999999, 999999); }
};
template<> struct Gen<String>
{
	static std::string val(vf::Rng& r)
	{
		int n = r.range(0, 99999);
		return r.chance(0.5) ? vf::fmt("v%d", n) : vf::fmt("value-%05d-with-a-heap-payload", n);  // >= 19 bytes: own heap block
	}
};

template<class T> static void shuffle_vec(vf::Rng& r, std::vector<T>& v)
{
	for (size_t i = v.size(); i > 1; i--) std::swap(v[i - 1], v[r.below((uint32_t)i)]);
}

// ------------------------------------------------------------------ key universes built to collide
static std::vector<std::string> g_pool3[256];  // all 3-letter lower-case strings grouped by asl hash() & 255

static void build_pools()
{
	char b[4] = {0, 0, 0, 0};
	for (b[0] = 'a'; b[0] <= 'z'; b[0]++)
		for (b[1] = 'a'; b[1] <= 'z'; b[1]++)
			for (b[2] = 'a'; b[2] <= 'z'; b[2]++) g_pool3[hash(String(b)) & 255].push_back(b);
}

static void uni_make(vf::Rng& r, int want, std::vector<int>& u, std::string& about, vf::Ctx&, int = 0)
{
	int kind = r.below(7);
	std::set<int> s;
	switch (kind) {
	case 0: {
		int off = r.range(-want, 50);
		for (int i = 0; i < want; i++) s.insert(off + i);
		about = vf::fmt("dense ints from %d", off);
		break;
	}
	case 1:
	case 2:
	case 3: {
		int step = kind == 1 ? 256 : kind == 2 ? 2048 : 16384;
		int nb = r.range(1, 3), per = (want + nb - 1) / nb;
		about = vf::fmt("ints congruent mod %d, bases", step);
		for (int b = 0; b < nb; b++) {
			int base = r.range(0, 255), j0 = r.chance(0.3) ? -per / 2 : 0;
			about += vf::fmt(" %d", base);
			for (int j = 0; j < per; j++) s.insert(base + step * (j0 + j));
		}
		break;
	}
	case 4: {
		int base = r.range(0, 255);
		for (int j = 0; j < want / 2; j++) s.insert(base + 256 * j);
		for (int i = 0; (int)s.size() < want; i++) s.insert(i * 3);
		about = vf::fmt("half ints congruent to %d mod 256, half multiples of 3", base);
		break;
	}
	case 5: {
		static const int X[] = {INT_MIN, INT_MIN + 1, -1, 0, 1, INT_MAX, INT_MAX - 1, 255, 256, 257, 2047, 2048, 2049, -256, -2048};
		for (size_t i = 0; i < sizeof(X) / sizeof(X[0]) && (int)s.size() < want; i++) s.insert(X[i]);
		while ((int)s.size() < want) s.insert((int)(uint32_t)r.next());
		about = "random 32-bit ints with extremes";
		break;
	}
	default: {
		int base = r.range(0, 2047);
		for (int j = 0; j < want; j++) s.insert(base + 2048 * (j / 3) + 256 * (j % 3));
		about = vf::fmt("ints congruent to %d mod 256, in triples also congruent mod 2048", base);
		break;
	}
	}
	u.assign(s.begin(), s.end());
	shuffle_vec(r, u);
}

static void uni_make(vf::Rng& r, int want, std::vector<std::string>& u, std::string& about, vf::Ctx& c, int depth = 0)
{
	int kind = r.below(5);
	std::set<std::string> s;
	if (kind == 2 && want > 60) kind = 4;
	if (kind == 4 && depth > 0) kind = r.chance(0.5) ? 0 : 1;
	switch (kind) {
	case 0: {  // "Ab"/"BA"/"C " blocks: every string of k blocks has the same 33*h+c hash
		static const char* blk[3] = {"Ab", "BA", "C "};
		int k = 2, n = 9;
		while (n < want) { k++; n *= 3; }
		std::vector<std::string> all;
		for (int i = 0; i < n; i++) {
			std::string t;
			for (int j = 0, x = i; j < k; j++, x /= 3) t += blk[x % 3];
			all.push_back(t);
		}
		shuffle_vec(r, all);
		all.resize(want);
		int h0 = hash(TT<String>::mk(all[0]));
		for (size_t i = 0; i < all.size(); i++)
			if (hash(TT<String>::mk(all[i])) != h0) { c.inconclusive("abba-family-not-colliding"); break; }
		c.count("universe.AbBA-equal-hash-verified");
		s.insert(all.begin(), all.end());
		about = vf::fmt("Ab/BA/'C ' block strings, %d blocks, all with asl hash %d", k, h0);
		break;
	}
	case 1: {  // long common prefix, including the prefix itself and prefix relations among keys
		std::string p = "shared/long/prefix/";
		int pl = r.range(24, 60);
		while ((int)p.size() < pl) p += (char)('a' + p.size() % 7);
		s.insert(p);
		s.insert(p + "0");
		s.insert(p + "00");
		for (int i = 0; (int)s.size() < want; i++) s.insert(p + vf::fmt(r.chance(0.5) ? "%d" : "%04d", i));
		about = vf::fmt("strings sharing a %d-byte prefix", (int)p.size());
		break;
	}
	case 2: {  // 3-letter strings in one residue class of hash mod 256 (subsets of which also agree mod 2048)
		int res = r.below(256);
		std::vector<std::string> all = g_pool3[res];
		shuffle_vec(r, all);
		for (size_t i = 0; i < all.size() && (int)s.size() < want; i++) s.insert(all[i]);
		about = vf::fmt("3-letter strings with asl hash = %d mod 256", res);
		break;
	}
	case 3: {
		s.insert("");
		// a few keys start with (or consist of) bytes >= 0x80: key order is the order of strcmp, i.e. of unsigned bytes
		static const char* hi[] = {"\xc3\xa9t\xc3\xa9", "\x80", "\xff\xfe", "\xe2\x82\xac-euro-key-long-enough-for-the-heap", "z\xc3\xa9", "\x7f", "\xc3\xa9"};
		for (int i = 0; i < 7 && (int)s.size() < want; i++) if (r.chance(0.7)) s.insert(hi[i]);
		for (int i = 0; (int)s.size() < want; i++) s.insert(vf::fmt(i % 3 == 0 ? "k%d" : i % 3 == 1 ? "%d" : "key-number-%d-long-enough-for-the-heap", i));
		about = "mixed short/long strings incl. the empty string and keys starting with bytes >= 0x80";
		break;
	}
	default: {
		std::vector<std::string> a, b;
		std::string x, y;
		uni_make(r, want / 2 + 1, a, x, c, depth + 1);
		uni_make(r, want / 2 + 1, b, y, c, depth + 1);
		s.insert(a.begin(), a.end());
		s.insert(b.begin(), b.end());
		about = "mix of [" + x + "] and [" + y + "]";
		break;
	}
	}
	u.assign(s.begin(), s.end());
	shuffle_vec(r, u);
}

// ------------------------------------------------------------------ family-specific helpers
template<class C, class K> static inline bool remove_ord(C& c, const K& k) { return c.remove(k); }

// keys of the bucket of `key`, in chain order, from the public enumeration and the public binOf()
template<class C, class K> static void chain_of(const C& c, const K& key, std::vector<K>& out)
{
	int b = c.binOf(key);
	for (typename C::Enumerator e = c.all(); e; ++e)
		if (c.binOf(~e) == b) out.push_back(~e);
}

template<class C> static inline int nbuckets(const C& c) { return c.a.length() - (int)ASL_HMAP_SKIP; }
// the documented growth rule, used only to steer histories across it; growth itself is observed through nbuckets()
static inline int grow_threshold(int nb) { return (nb + (int)ASL_HMAP_SKIP) * 7 / 8; }

template<class C, bool ORD> struct Fresh;
template<class C> struct Fresh<C, true>
{
	static C* make(vf::Rng&, vf::Ctx&) { return new C(); }
};
template<class C> struct Fresh<C, false>
{
	static C* make(vf::Rng& r, vf::Ctx& c, int force = -1)
	{
		static const int N[] = {1, 2, 3, 4, 8, 16, 50, 64, 256, 300};
		int k = force >= 0 ? force : (r.chance(0.45) ? -1 : (int)r.below(10));
		if (k < 0) { c.count("table.default-256"); return new C(); }
		c.count("table.sized-ctor");
		return new C(N[k % 10]);
	}
};

// ------------------------------------------------------------------ lock-step history engine for maps
template<class C, class K, class V, bool ORD> struct Engine
{
	typedef typename TT<K>::M MK;
	typedef typename TT<V>::M MV;
	typedef std::map<MK, MV> Model;
	typedef std::integral_constant<bool, ORD> OrdTag;
	struct Slot
	{
		std::unique_ptr<C> c;
		Model m;
	};
	enum { NS = 3 };

	vf::Ctx& c;
	vf::Rng& r;
	const char* fam;
	bool headok;
	std::vector<MK> uni;
	Slot s[NS];
	std::string last;
	uint64_t hh;
	int n_ins, n_rem, n_enum2, bulkmax;

	Engine(vf::Ctx& c_, const char* fam_, bool headok_) : c(c_), r(c_.rng), fam(fam_), headok(headok_), hh(vf::fnv(fam_)), n_ins(0), n_rem(0), n_enum2(0), bulkmax(60) {}

	void bad(const char* shape, const std::string& detail) { c.fail(std::string(fam) + "." + last + "/" + shape, detail); }
	static std::string sk(const MK& k) { return TT<K>::show(k); }
	static std::string sv(const MV& v) { return TT<V>::show(v); }

	// ---- observation
	int buckets(const C& cc, std::true_type) { return 0; }
	int buckets(const C& cc, std::false_type) { return nbuckets(cc); }
	int buckets(const C& cc) { return buckets(cc, OrdTag()); }

	void probe(const C& cc, const Model& m, const MK& k)
	{
		K kk = TT<K>::mk(k);
		typename Model::const_iterator it = m.find(k);
		bool has = cc.has(kk);
		const V* p = cc.find(kk);
		if (it == m.end()) {
			if (has) bad("has-phantom", "has(" + sk(k) + ") is true for a key that is not in the map");
			if (p) bad("find-phantom", "find(" + sk(k) + ") found a key that is not in the map");
		} else {
			if (!has) bad("has-missing", "has(" + sk(k) + ") is false for a present key");
			if (!p) bad("find-missing", "find(" + sk(k) + ") is null for a present key");
			if (TT<V>::un(*p) != it->second) bad("find-stale-value", "find(" + sk(k) + ") -> " + sv(TT<V>::un(*p)) + ", latest value " + sv(it->second));
		}
	}

	void light(Slot& sl)
	{
		if (sl.c->length() != (int)sl.m.size()) bad("length", vf::fmt("length()=%d, distinct keys=%d", sl.c->length(), (int)sl.m.size()));
		for (int i = 0; i < 3; i++) probe(*sl.c, sl.m, uni[r.below((uint32_t)uni.size())]);
	}

	void collect(C& cc, int api, std::vector<std::pair<MK, MV> >& seen)
	{
		switch (api) {
		case 0:
			foreach2(K & k, V & v, cc) seen.push_back(std::make_pair(TT<K>::un(k), TT<V>::un(v)));
			c.count("enum.foreach2");
			break;
		case 1:
			for (typename C::Enumerator e = cc.all(); e; ++e) seen.push_back(std::make_pair(TT<K>::un(~e), TT<V>::un(*e)));
			c.count("enum.Enumerator");
			break;
		default:
			for (auto& e : cc) seen.push_back(std::make_pair(TT<K>::un(e.key), TT<V>::un(e.value)));
			c.count("enum.range-for");
			break;
		}
	}

	void full(Slot& sl, int api)
	{
		C& cc = *sl.c;
		const Model& m = sl.m;
		if (cc.length() != (int)m.size()) bad("length", vf::fmt("length()=%d, distinct keys=%d", cc.length(), (int)m.size()));
		std::vector<std::pair<MK, MV> > seen;
		collect(cc, api, seen);
		if (ORD)
			for (size_t i = 1; i < seen.size(); i++)
				if (!(seen[i - 1].first < seen[i].first)) bad("enum-order", "enumeration not strictly ascending: " + sk(seen[i - 1].first) + " before " + sk(seen[i].first));
		std::map<MK, int> cnt;
		for (size_t i = 0; i < seen.size(); i++) {
			typename Model::const_iterator it = m.find(seen[i].first);
			if (it == m.end()) bad("enum-phantom", "enumeration visits " + sk(seen[i].first) + " which is not in the map");
			if (++cnt[seen[i].first] > 1) bad("enum-duplicate", "enumeration visits " + sk(seen[i].first) + " twice");
			if (it->second != seen[i].second) bad("enum-value", "enumeration gives " + sk(seen[i].first) + " -> " + sv(seen[i].second) + ", latest value " + sv(it->second));
		}
		if (seen.size() != m.size())
			for (typename Model::const_iterator it = m.begin(); it != m.end(); ++it)
				if (!cnt.count(it->first)) bad("enum-missing", vf::fmt("enumeration visits %d of %d entries; never visits ", (int)seen.size(), (int)m.size()) + sk(it->first));
		if (seen.size() >= 2) n_enum2++;
		c.count("check.full-enumeration");
	}

	void keys_check(Slot& sl, std::true_type)
	{
		Array<K> ks = sl.c->keys();
		if (ks.length() != (int)sl.m.size()) bad("keys-count", vf::fmt("keys() has %d items, map has %d", ks.length(), (int)sl.m.size()));
		int i = 0;
		for (typename Model::const_iterator it = sl.m.begin(); it != sl.m.end(); ++it, ++i)
			if (TT<K>::un(ks[i]) != it->first) bad("keys-content", vf::fmt("keys()[%d] = ", i) + sk(TT<K>::un(ks[i])) + ", expected " + sk(it->first));
		c.count("op.keys");
	}
	void keys_check(Slot&, std::false_type) {}

	// ---- key choice
	const MK& any_key() { return uni[r.below((uint32_t)uni.size())]; }
	MK present_key(Slot& sl)
	{
		typename Model::const_iterator it = sl.m.lower_bound(any_key());
		if (it == sl.m.end()) it = sl.m.begin();
		return it->first;
	}
	MK pick(Slot& sl, double p_present)
	{
		if (!sl.m.empty() && r.chance(p_present)) return present_key(sl);
		for (int i = 0; i < 6; i++) {
			const MK& k = any_key();
			if (!sl.m.count(k)) return k;
		}
		return any_key();
	}

	void note_growth(Slot& sl, int nb0)
	{
		int nb1 = buckets(*sl.c);
		if (nb1 != nb0) c.count(vf::fmt("grow:%d->%d", nb0, nb1).c_str());
	}

	// ---- mutations
	void put(Slot& sl, const MK& k, const MV& v, int how, bool log = true)
	{
		int nb0 = buckets(*sl.c);
		bool was = sl.m.count(k) != 0;
		K kk = TT<K>::mk(k);
		V vv = TT<V>::mk(v);
		if (how == 0) {
			last = "put";
			if (log) c.op("[" + sk(k) + "]=" + sv(v));
			(*sl.c)[kk] = vv;
		} else if (how == 1) {
			last = "set";
			if (log) c.op("set(" + sk(k) + "," + sv(v) + ")");
			sl.c->set(kk, vv);
		} else {
			last = "touch";
			if (log) c.op("r=[" + sk(k) + "]; r=" + sv(v));
			V& ref = (*sl.c)[kk];
			if (was) {
				if (TT<V>::un(ref) != sl.m[k]) bad("stale-value", "operator[](" + sk(k) + ") -> " + sv(TT<V>::un(ref)) + ", latest value " + sv(sl.m[k]));
			} else
				c.count("touch.created-entry");  // the value of a never-assigned entry is not stated: not judged
			ref = vv;
		}
		sl.m[k] = v;
		if (!was) n_ins++;
		c.count(was ? "op.overwrite" : "op.insert");
		hh = TT<K>::h(k, vf::mix(hh, 10 + how));
		note_growth(sl, nb0);
	}

	void remove_one(Slot& sl, MK k, std::true_type, int)
	{
		bool present = sl.m.count(k) != 0;
		last = present ? "remove-present" : "remove-absent";
		c.op("remove(" + sk(k) + ")");
		bool ret = remove_ord(*sl.c, TT<K>::mk(k));
		if (ret != present) bad("return", vf::fmt("remove() returned %d for a key that was %s", (int)ret, present ? "present" : "absent"));
		sl.m.erase(k);
		if (present) n_rem++;
		c.count(present ? "op.remove-present" : "op.remove-absent");
		hh = TT<K>::h(k, vf::mix(hh, 20));
	}

	// hash families: classify the position of the key in its chain from the public enumeration
	void remove_one(Slot& sl, MK k, std::false_type, int wantpos)
	{
		K kk = TT<K>::mk(k);
		std::vector<K> ch;
		chain_of(*sl.c, kk, ch);
		int pos = -1, n = (int)ch.size();
		if (wantpos >= 0 && n >= 2) {  // directed: 0 first, 1 middle, 2 last
			pos = wantpos == 0 ? 0 : wantpos == 2 ? n - 1 : (n >= 3 ? 1 + (int)r.below((uint32_t)(n - 2)) : n - 1);
			kk = ch[pos];
			k = TT<K>::un(kk);
		} else
			for (int i = 0; i < n; i++)
				if (ch[i] == kk) pos = i;
		if (pos == 0 && n > 1 && !headok) {  // stratum A never removes a chain head that has successors
			c.count("remove.head-avoided(stratum A)");
			pos = n - 1;
			kk = ch[pos];
			k = TT<K>::un(kk);
		}
		bool present = sl.m.count(k) != 0;
		const char* where = pos < 0 ? (n ? "absent-nonempty-bucket" : "absent-empty-bucket") : n == 1 ? "only" : pos == 0 ? "first" : pos == n - 1 ? "last" : "middle";
		last = std::string("remove-") + (pos < 0 ? "absent" : where);
		c.op(vf::fmt("remove(%s){%s of chain of %d}", sk(k).c_str(), where, n));
		c.count((std::string("remove.") + where).c_str());
		if (pos >= 0 && n >= 2) c.count(vf::fmt("remove.chainlen>=%d", n >= 64 ? 64 : n >= 16 ? 16 : n >= 4 ? 4 : 2).c_str());
		sl.c->remove(kk);
		sl.m.erase(k);
		if (present) n_rem++;
		hh = TT<K>::h(k, vf::mix(hh, 20));
		if (sl.c->length() != (int)sl.m.size()) bad("length", vf::fmt("length()=%d, distinct keys=%d", sl.c->length(), (int)sl.m.size()));
		for (int i = 0; i < n; i++) probe(*sl.c, sl.m, TT<K>::un(ch[i]));  // the rest of the chain must survive
	}
	void remove_one(Slot& sl, const MK& k, int wantpos = -1) { remove_one(sl, k, OrdTag(), wantpos); }

	// directed removal at a chain position (hash families): pick a chain with >= 2 nodes
	void remove_pos(Slot& sl, std::false_type)
	{
		std::map<int, std::vector<K> > chains;
		for (typename C::Enumerator e = sl.c->all(); e; ++e) chains[sl.c->binOf(~e)].push_back(~e);
		std::vector<const std::vector<K>*> multi;
		for (typename std::map<int, std::vector<K> >::const_iterator it = chains.begin(); it != chains.end(); ++it)
			if (it->second.size() >= 2) multi.push_back(&it->second);
		if (multi.empty()) { c.count("remove_pos.no-chain>=2"); return; }
		const std::vector<K>& ch = *multi[r.below((uint32_t)multi.size())];
		int want = headok ? (int)r.below(3) : 1 + (int)r.below(2);
		if (headok && r.chance(0.4)) want = 0;
		remove_one(sl, TT<K>::un(ch[0]), want);
	}
	void remove_pos(Slot& sl, std::true_type)
	{
		if (!sl.m.empty()) remove_one(sl, r.chance(0.5) ? sl.m.begin()->first : sl.m.rbegin()->first);  // first / last of the ordered array
	}

	void add_from(Slot& dst, Slot& src, std::true_type)
	{
		last = "add";
		c.op(vf::fmt("s%d.add(s%d){%d+%d entries}", (int)(&dst - s), (int)(&src - s), (int)dst.m.size(), (int)src.m.size()));
		dst.c->add(*src.c);
		for (typename Model::const_iterator it = src.m.begin(); it != src.m.end(); ++it) dst.m[it->first] = it->second;
		c.count(&dst == &src ? "op.add-self" : "op.add");
	}
	void add_from(Slot&, Slot&, std::false_type) {}

	void eq_slots(Slot& a, Slot& b, std::true_type)
	{
		last = "eq";
		bool want = a.m == b.m;
		if ((*a.c == *b.c) != want) bad(want ? "false-for-equal" : "true-for-unequal", "operator== between two history containers");
		if ((*a.c != *b.c) == want) bad(want ? "ne-true-for-equal" : "ne-false-for-unequal", "operator!= between two history containers");
		c.count(want ? "op.eq-equal" : "op.eq-unequal");
	}
	void eq_slots(Slot&, Slot&, std::false_type) {}  // hash families: see modes eq / eq_order

	void copy_handle(Slot& sl)
	{
		last = "copy-handle";
		c.op("copy handle");
		std::unique_ptr<C> h2(new C(*sl.c));
		if (h2->length() != (int)sl.m.size()) bad("length", "length() through a copied handle");
		for (int i = 0; i < 3; i++) probe(*h2, sl.m, any_key());
		if (!sl.m.empty()) {  // overwrite through the copy (no insertion while two handles are live: that is C01's subject)
			MK k = present_key(sl);
			MV v = Gen<V>::val(r);
			V* p = h2->find(TT<K>::mk(k));
			if (!p) bad("find-missing", "find(" + sk(k) + ") through a copied handle");
			*p = TT<V>::mk(v);
			sl.m[k] = v;
			probe(*sl.c, sl.m, k);
		}
		if (r.chance(0.5)) { C* orig = sl.c.release(); sl.c.reset(h2.release()); h2.reset(orig); c.count("copy.keep-copy-drop-original"); }
		else c.count("copy.drop-copy");
	}

	void clone_into(Slot& dst, Slot& src)
	{
		last = "clone";
		c.op(vf::fmt("s%d = s%d.clone(){%d entries}", (int)(&dst - s), (int)(&src - s), (int)src.m.size()));
		if (&dst != &src && r.chance(0.5)) { *dst.c = src.c->clone(); c.count("clone.assigned"); }
		else { C cl = src.c->clone(); dst.c.reset(new C(cl)); c.count("clone.constructed"); }
		Model m = src.m;
		dst.m.swap(m);
		c.count(vf::fmt("clone.size%s", src.m.size() == 0 ? "=0" : src.m.size() < 16 ? "<16" : src.m.size() < 225 ? "<225" : ">=225").c_str());
	}

	// ---- one history
	void run(int nops, int prefill)
	{
		for (int i = 0; i < NS; i++) s[i].c.reset(Fresh<C, ORD>::make(r, c));
		if (prefill > 0) {
			c.op(vf::fmt("prefill s0 with %d keys", prefill));
			for (int i = 0; i < prefill && i < (int)uni.size(); i++) put(s[0], uni[i], Gen<V>::val(r), (int)r.below(2), false);
			last = "prefill";
			full(s[0], 1);
		}
		int untilfull = r.range(4, 20);
		for (int step = 0; step < nops; step++) {
			Slot& sl = s[r.chance(0.7) ? 0 : 1 + r.below(NS - 1)];
			int w = (int)r.below(100);
			if (w < 16) put(sl, pick(sl, 0.3), Gen<V>::val(r), 0);
			else if (w < 23) put(sl, pick(sl, 0.4), Gen<V>::val(r), 1);
			else if (w < 30) put(sl, pick(sl, 0.5), Gen<V>::val(r), 2);
			else if (w < 37) {
				MK k = pick(sl, 0.5);
				MV d = Gen<V>::val(r);
				last = "get";
				c.op("get(" + sk(k) + ")");
				V dv = TT<V>::mk(d);
				const C& cc = *sl.c;
				const V& got = cc.get(TT<K>::mk(k), dv);
				MV want = sl.m.count(k) ? sl.m[k] : d;
				if (TT<V>::un(got) != want) bad(sl.m.count(k) ? "stale-value" : "default-not-returned", "get(" + sk(k) + ") -> " + sv(TT<V>::un(got)) + ", expected " + sv(want));
				c.count("op.get");
			} else if (w < 44) {
				MK k = pick(sl, 0.5);
				last = "find";
				c.op("find/has(" + sk(k) + ")");
				probe(*sl.c, sl.m, k);
				V* p = sl.c->find(TT<K>::mk(k));  // non-const overload
				if ((p != 0) != (sl.m.count(k) != 0)) bad("find-nonconst", "non-const find(" + sk(k) + ") disagrees with the model");
				c.count(p ? "op.find-present" : "op.find-absent");
			} else if (w < 47) {
				if (sl.m.empty()) continue;
				MK k = present_key(sl);  // const operator[] on a present key only (absent: not stated)
				last = "const-index";
				c.op("const[" + sk(k) + "]");
				const C& cc = *sl.c;
				const V& got = cc[TT<K>::mk(k)];
				if (TT<V>::un(got) != sl.m[k]) bad("stale-value", "const operator[](" + sk(k) + ") -> " + sv(TT<V>::un(got)) + ", latest value " + sv(sl.m[k]));
				c.count("op.const-index");
			} else if (w < 59) remove_one(sl, pick(sl, 0.85));
			else if (w < 62) remove_one(sl, pick(sl, 0.0));
			else if (w < 68) remove_pos(sl, OrdTag());
			else if (w < 70) { last = "keys"; keys_check(sl, OrdTag()); }
			else if (w < 71) {
				if (!r.chance(0.35)) continue;
				last = "clear";
				c.op(vf::fmt("clear(){%d entries}", (int)sl.m.size()));
				sl.c->clear();
				sl.m.clear();
				c.count("op.clear");
			} else if (w < 74) clone_into(s[r.below(NS)], sl);
			else if (w < 77) copy_handle(sl);
			else if (w < 80) {
				Slot& o = s[r.below(NS)];
				if (&o == &sl && !r.chance(0.2)) continue;
				add_from(sl, o, OrdTag());
			} else if (w < 87) {  // bulk insert, steered across the next growth threshold when the universe allows
				int m = r.range(2, bulkmax), nb = buckets(*sl.c);
				if (!ORD && r.chance(0.6)) {
					int need = grow_threshold(nb) - (int)sl.m.size() + r.range(1, 4);
					if (need > 0 && need <= 8 * bulkmax && need + (int)sl.m.size() <= (int)uni.size()) m = need;
				}
				last = "bulk-insert";
				c.op(vf::fmt("bulk insert %d keys", m));
				int how = (int)r.below(3);
				size_t at = r.below((uint32_t)uni.size());
				bool fresh_only = r.chance(0.7);
				for (int i = 0, tries = 0; i < m && tries < (int)uni.size(); tries++) {
					const MK& k = uni[(at + tries) % uni.size()];
					if (fresh_only && sl.m.count(k)) continue;
					put(sl, k, Gen<V>::val(r), how, false);
					if (sl.c->length() != (int)sl.m.size()) bad("length", vf::fmt("length()=%d, distinct keys=%d after inserting ", sl.c->length(), (int)sl.m.size()) + sk(k));
					i++;
				}
				last = "bulk-insert";
				c.count("op.bulk-insert");
			} else if (w < 90) {
				int m = r.range(2, bulkmax);
				c.op(vf::fmt("bulk remove up to %d keys", m));
				for (int i = 0; i < m && !sl.m.empty(); i++) remove_one(sl, present_key(sl));
				c.count("op.bulk-remove");
			} else if (w < 91) {
				if (!r.chance(0.5)) continue;
				last = "fresh";
				c.op("drop container, start a fresh one");
				sl.c.reset(Fresh<C, ORD>::make(r, c));
				sl.m.clear();
			} else if (w < 93) eq_slots(sl, s[r.below(NS)], OrdTag());
			else if (w == 95) {
				// assigning a container to itself changes nothing
				last = "self-assignment";
				c.op("m = m");
				C& self = *sl.c;
				*sl.c = self;
				c.count("op.self-assignment");
			}
			else if (w < 95 && !sl.m.empty()) {
				// set(key, value) where value is a reference to an entry of the same map: the stored value is the one the source held before the call
				MK src = present_key(sl), k = pick(sl, 0.3);
				MV v = sl.m[src];
				bool was = sl.m.count(k) != 0;
				last = "set-own-value";
				c.op("set(" + sk(k) + ", value of " + sk(src) + " by reference)");
				const V* pv = sl.c->find(TT<K>::mk(src));
				if (!pv) bad("find-missing", "find(" + sk(src) + ") is null for a present key");
				else {
					int nb0 = buckets(*sl.c);
					sl.c->set(TT<K>::mk(k), *pv);
					sl.m[k] = v;
					if (!was) n_ins++;
					note_growth(sl, nb0);
					c.count("op.set-with-reference-to-own-value");
				}
			}
			else { full(sl, (int)r.below(3)); }
			light(sl);
			if (--untilfull <= 0) {
				for (int i = 0; i < NS; i++) full(s[i], (int)r.below(3));
				untilfull = r.range(5, 25);
			}
			c.count("ops");
		}
		last = "final";
		for (int i = 0; i < NS; i++) {
			full(s[i], i);
			if (i == 0) for (size_t j = 0; j < uni.size() && j < 400; j++) probe(*s[0].c, s[0].m, uni[j]);
			keys_check(s[i], OrdTag());
		}
		if (n_ins >= 1 && n_rem >= 1 && n_enum2 >= 1) c.distinct(hh);
		// all containers are destroyed here; LSan runs at the end of the batch
	}
};

template<class C, class K, class V, bool ORD> static void run_hist(vf::Ctx& c, const char* fam, bool headok, int large_pct)
{
	Engine<C, K, V, ORD> e(c, fam, headok);
	vf::Rng& r = c.rng;
	int prof = (int)r.below(100), want, prefill = 0, nops = r.range(10, 300);
	const char* pn;
	if (prof < large_pct) {  // crosses the second threshold (1793 entries for a 2048-bucket table)
		pn = "large";
		want = r.range(1900, 2500);
		prefill = r.range(1700, 1800);
		e.bulkmax = 30;
		nops = r.range(10, 50);
	} else if (prof < large_pct + 45) {
		pn = "medium";
		want = r.range(240, 620);
		if (r.chance(0.5)) prefill = r.range(150, 224);
		e.bulkmax = 90;
	} else {
		pn = "small";
		want = r.range(3, 40);
		e.bulkmax = 12;
	}
	std::string about;
	uni_make(r, want, e.uni, about, c);
	c.desc(vf::fmt("%s history, %s profile, %d ops, universe of %d keys: %s", fam, pn, nops, (int)e.uni.size(), about.c_str()));
	c.count((std::string("profile.") + pn).c_str());
	c.count((std::string("kind.") + fam).c_str());
	e.run(nops, prefill);
	if (c.want_sample()) c.sample(c.curdesc().substr(0, 1200));
}

static void mode_map_hist(vf::Ctx& c)
{
	int lp = (int)c.opt->param("large_pct", 4);
	switch (c.idx % 5) {
	case 0: run_hist<Map<int, int>, int, int, true>(c, "map<int,int>", true, lp); break;
	case 1: run_hist<Map<int, String>, int, String, true>(c, "map<int,String>", true, lp); break;
	case 2: run_hist<Dic<int>, String, int, true>(c, "dic<int>", true, lp); break;
	case 3: run_hist<Dic<String>, String, String, true>(c, "dic<String>", true, lp); break;
	default: run_hist<Map<String, String>, String, String, true>(c, "map<String,String>", true, lp); break;
	}
}

static void hashmap_hist_kind(vf::Ctx& c, bool headok, int lp)
{
	switch (c.idx % 6) {
	case 0: run_hist<HashMap<int, int>, int, int, false>(c, "hashmap<int,int>", headok, lp); break;
	case 1: run_hist<HashMap<int, String>, int, String, false>(c, "hashmap<int,String>", headok, lp); break;
	case 2: run_hist<HashDic<int>, String, int, false>(c, "hashdic<int>", headok, lp); break;
	case 3: run_hist<HashDic<String>, String, String, false>(c, "hashdic<String>", headok, lp); break;
	case 4: run_hist<HashMap<String, int>, String, int, false>(c, "hashmap<String,int>", headok, lp); break;
	default: run_hist<HashMap<int, int>, int, int, false>(c, "hashmap<int,int>", headok, lp); break;
	}
}

static void mode_hashmap_hist(vf::Ctx& c) { hashmap_hist_kind(c, c.opt->param("headok", 0) != 0, (int)c.opt->param("large_pct", 4)); }

// ------------------------------------------------------------------ Set engine
template<class T> struct SetEngine
{
	typedef typename TT<T>::M MT;
	typedef std::set<MT> Model;
	typedef Set<T> S;
	struct Slot
	{
		std::unique_ptr<S> s;
		Model m;
	};
	enum { NS = 3 };
	vf::Ctx& c;
	vf::Rng& r;
	const char* fam;
	bool headok, eqtrue;
	std::vector<MT> uni;
	Slot sl[NS];
	std::string last;
	uint64_t hh;
	int n_alg, n_rem;

	SetEngine(vf::Ctx& c_, const char* fam_, bool headok_, bool eqtrue_) : c(c_), r(c_.rng), fam(fam_), headok(headok_), eqtrue(eqtrue_), hh(vf::fnv(fam_)), n_alg(0), n_rem(0) {}
	void bad(const char* shape, const std::string& detail) { c.fail(std::string(fam) + "." + last + "/" + shape, detail); }
	static std::string sk(const MT& k) { return TT<T>::show(k); }
	const MT& any_key() { return uni[r.below((uint32_t)uni.size())]; }
	MT member(Slot& x)
	{
		typename Model::const_iterator it = x.m.lower_bound(any_key());
		if (it == x.m.end()) it = x.m.begin();
		return *it;
	}

	void verify(const S& s, const Model& m, int api)
	{
		if (s.length() != (int)m.size()) bad("length", vf::fmt("length()=%d, distinct members=%d", s.length(), (int)m.size()));
		if (s.empty() != m.empty()) bad("empty", "empty() disagrees with the model");
		std::vector<MT> seen;
		switch (api) {
		case 0:
			foreach (const T& x, s) seen.push_back(TT<T>::un(x));
			c.count("enum.foreach");
			break;
		case 1:
			for (typename S::Enumerator e = s.all(); e; ++e) seen.push_back(TT<T>::un(*e));
			c.count("enum.Enumerator");
			break;
		case 2:
			for (auto& x : s) seen.push_back(TT<T>::un(x));
			c.count("enum.range-for");
			break;
		default: {
			Array<T> a = s.array();
			for (int i = 0; i < a.length(); i++) seen.push_back(TT<T>::un(a[i]));
			c.count("enum.array()");
			break;
		}
		}
		std::set<MT> got;
		for (size_t i = 0; i < seen.size(); i++) {
			if (!m.count(seen[i])) bad("enum-phantom", "enumeration visits " + sk(seen[i]) + " which is not a member");
			if (!got.insert(seen[i]).second) bad("enum-duplicate", "enumeration visits " + sk(seen[i]) + " twice");
		}
		for (typename Model::const_iterator it = m.begin(); it != m.end(); ++it) {
			if (!got.count(*it)) bad("enum-missing", vf::fmt("enumeration visits %d of %d members; never visits ", (int)seen.size(), (int)m.size()) + sk(*it));
			if (!s.contains(TT<T>::mk(*it))) bad("contains-missing", "contains(" + sk(*it) + ") is false for a member");
		}
		for (int i = 0; i < 4; i++) {
			const MT& k = any_key();
			if (s.contains(TT<T>::mk(k)) != (m.count(k) != 0)) bad(m.count(k) ? "contains-missing" : "contains-phantom", "contains(" + sk(k) + ")");
			if (s.has(TT<T>::mk(k)) != (m.count(k) != 0)) bad(m.count(k) ? "has-missing" : "has-phantom", "has(" + sk(k) + ")");
		}
		c.count("check.full-enumeration");
	}

	void note_growth(const S& s, int nb0)
	{
		int nb1 = nbuckets(s);
		if (nb1 != nb0) c.count(vf::fmt("grow:%d->%d", nb0, nb1).c_str());
	}

	void insert(Slot& x, const MT& k)
	{
		int nb0 = nbuckets(*x.s);
		*x.s << TT<T>::mk(k);
		x.m.insert(k);
		note_growth(*x.s, nb0);
	}

	void remove(Slot& x, MT k)
	{
		T kk = TT<T>::mk(k);
		std::vector<T> ch;
		chain_of(*x.s, kk, ch);
		int pos = -1, n = (int)ch.size();
		for (int i = 0; i < n; i++)
			if (ch[i] == kk) pos = i;
		if (pos == 0 && n > 1 && !headok) {
			c.count("remove.head-avoided(stratum A)");
			pos = n - 1;
			kk = ch[pos];
			k = TT<T>::un(kk);
		}
		const char* where = pos < 0 ? "absent" : n == 1 ? "only" : pos == 0 ? "first" : pos == n - 1 ? "last" : "middle";
		last = std::string("remove-") + where;
		c.op(vf::fmt("remove %s {%s of chain of %d}", sk(k).c_str(), where, n));
		c.count((std::string("remove.") + where).c_str());
		if (r.chance(0.5)) { T tmp = kk; *x.s >> tmp; }
		else x.s->remove(kk);
		if (x.m.erase(k)) n_rem++;
		if (x.s->length() != (int)x.m.size()) bad("length", vf::fmt("length()=%d, distinct members=%d", x.s->length(), (int)x.m.size()));
		for (int i = 0; i < n; i++) {
			MT o = TT<T>::un(ch[i]);
			if (x.s->contains(ch[i]) != (x.m.count(o) != 0)) bad(x.m.count(o) ? "contains-missing" : "contains-phantom", "contains(" + sk(o) + ") for a key of the same chain");
		}
	}

	void store(Slot& dst, const S& res, const Model& m)
	{
		if (r.chance(0.5)) *dst.s = res;
		else dst.s.reset(new S(res));
		dst.m = m;
	}

	void run(int nops)
	{
		for (int i = 0; i < NS; i++) {
			bool sized = r.chance(0.5);
			static const int N[] = {1, 2, 4, 8, 16, 64, 300};
			if (i == 2 && r.chance(0.4)) {  // Set(const Array<T>&)
				Array<T> a;
				int n = r.range(0, (int)uni.size());
				for (int j = 0; j < n; j++) { const MT& k = any_key(); a << TT<T>::mk(k); sl[i].m.insert(k); }
				sl[i].s.reset(new S(a));
				c.count("ctor.from-array");
			} else {
				sl[i].s.reset(sized ? new S(N[r.below(7)]) : new S());
				int n = r.chance(0.15) ? 0 : r.range(1, (int)uni.size());
				size_t at = r.below((uint32_t)uni.size());
				for (int j = 0; j < n; j++) insert(sl[i], uni[(at + j) % uni.size()]);
			}
			last = "build";
			verify(*sl[i].s, sl[i].m, i);
		}
		for (int step = 0; step < nops; step++) {
			Slot& a = sl[r.below(NS)];
			Slot& b = sl[r.below(NS)];
			Slot& d = sl[r.below(NS)];
			int ia = (int)(&a - sl), ib = (int)(&b - sl), id = (int)(&d - sl);
			int w = (int)r.below(100);
			if (w < 12) {
				MT k = any_key();
				last = "insert";
				c.op(vf::fmt("s%d << %s", ia, sk(k).c_str()));
				insert(a, k);
				c.count("op.insert");
			} else if (w < 22) {
				if (a.m.empty()) continue;
				remove(a, member(a));
			} else if (w < 25) {
				last = "remove-absent";
				MT k = any_key();
				if (a.m.count(k)) continue;
				remove(a, k);
			} else if (w < 33) {
				last = "contains-set";
				c.op(vf::fmt("s%d.contains(s%d)", ia, ib));
				bool want = std::includes(a.m.begin(), a.m.end(), b.m.begin(), b.m.end());
				if (a.s->contains(*b.s) != want) bad(want ? "false-for-subset" : "true-for-non-subset", vf::fmt("contains(Set): sizes %d, %d", (int)a.m.size(), (int)b.m.size()));
				c.count(want ? "op.containsAll-true" : "op.containsAll-false");
			} else if (w < 41) {
				last = "containsAny";
				c.op(vf::fmt("s%d.containsAny(s%d)", ia, ib));
				bool want = false;
				for (typename Model::const_iterator it = b.m.begin(); it != b.m.end(); ++it)
					if (a.m.count(*it)) { want = true; break; }
				if (a.s->containsAny(*b.s) != want) bad(want ? "false-for-overlapping" : "true-for-disjoint", vf::fmt("containsAny: sizes %d, %d", (int)a.m.size(), (int)b.m.size()));
				c.count(want ? "op.containsAny-true" : "op.containsAny-false");
			} else if (w < 74) {
				int which = (w - 41) / 7;  // 0 union, 1 difference, 2 intersection, 3 in(), 4 notIn()
				static const char* nm[] = {"union", "difference", "intersection", "in", "notIn"};
				if (which > 4) which = (int)r.below(3);
				last = nm[which];
				c.op(vf::fmt("s%d = s%d %s s%d {%d,%d members}", id, ia, nm[which], ib, (int)a.m.size(), (int)b.m.size()));
				Model m;
				for (typename Model::const_iterator it = a.m.begin(); it != a.m.end(); ++it) {
					bool inb = b.m.count(*it) != 0;
					if (which == 0 || ((which == 2 || which == 3) && inb) || ((which == 1 || which == 4) && !inb)) m.insert(*it);
				}
				if (which == 0) m.insert(b.m.begin(), b.m.end());
				S res = which == 0 ? *a.s + *b.s : which == 1 ? *a.s - *b.s : which == 2 ? (*a.s & *b.s) : which == 3 ? a.s->in(*b.s) : a.s->notIn(*b.s);
				verify(res, m, (int)r.below(4));
				verify(*a.s, a.m, 1);  // operands unchanged
				verify(*b.s, b.m, 1);
				store(d, res, m);
				n_alg++;
				hh = vf::mix(hh, which * 100 + ia * 10 + ib);
				c.count((std::string("op.") + nm[which]).c_str());
				if (m.empty()) c.count("algebra.empty-result");
			} else if (w < 79) {
				if (&a == &b) continue;
				last = "merge";
				c.op(vf::fmt("s%d << s%d", ia, ib));
				int nb0 = nbuckets(*a.s);
				*a.s << *b.s;
				a.m.insert(b.m.begin(), b.m.end());
				note_growth(*a.s, nb0);
				c.count("op.merge");
			} else if (w < 84) {
				last = "array-roundtrip";
				c.op(vf::fmt("s%d = Set(s%d.array())", id, ia));
				Array<T> arr = a.s->array();
				if (arr.length() != (int)a.m.size()) bad("array-count", vf::fmt("array() has %d items, set has %d members", arr.length(), (int)a.m.size()));
				S res(arr);
				verify(res, a.m, (int)r.below(4));
				Model m = a.m;
				store(d, res, m);
				c.count("op.array-roundtrip");
			} else if (w < 92) {
				last = "eq";
				bool want = a.m == b.m;
				if (want && &a != &b && !eqtrue) { c.count("eq.equal-pair-left-to-mode-eq_order"); continue; }
				c.op(vf::fmt("s%d == s%d", ia, ib));
				if ((*a.s == *b.s) != want) bad(want ? "false-for-equal" : "true-for-unequal", vf::fmt("operator==: sizes %d, %d", (int)a.m.size(), (int)b.m.size()));
				if ((*a.s != *b.s) == want) bad(want ? "ne-true-for-equal" : "ne-false-for-unequal", "operator!=");
				c.count(want ? "op.eq-equal" : "op.eq-unequal");
			} else if (w < 95) {
				last = "dup";
				c.op(vf::fmt("s%d = independent copy of s%d", id, ia));
				S cp(*a.s);
				cp.dup();
				Model m = a.m;
				store(d, cp, m);
				c.count("op.dup");
			} else if (w < 96) {
				last = "clear";
				c.op(vf::fmt("s%d.clear()", ia));
				a.s->clear();
				a.m.clear();
				c.count("op.clear");
			} else {
				last = "check";
				verify(*a.s, a.m, (int)r.below(4));
			}
			for (int i = 0; i < NS; i++)
				if (sl[i].s->length() != (int)sl[i].m.size()) bad("length", vf::fmt("s%d: length()=%d, distinct members=%d", i, sl[i].s->length(), (int)sl[i].m.size()));
			c.count("ops");
		}
		last = "final";
		for (int i = 0; i < NS; i++) verify(*sl[i].s, sl[i].m, i + 1);
		if (n_alg >= 2) c.distinct(hh ^ vf::mix(n_alg, n_rem));
	}
};

template<class T> static void run_set(vf::Ctx& c, const char* fam, bool headok, bool eqtrue)
{
	SetEngine<T> e(c, fam, headok, eqtrue);
	vf::Rng& r = c.rng;
	int prof = (int)r.below(100), want = prof < 55 ? r.range(3, 30) : prof < 90 ? r.range(40, 200) : r.range(240, 500);
	int nops = r.range(10, 120);
	std::string about;
	uni_make(r, want, e.uni, about, c);
	e.hh = vf::mix(e.hh, vf::fnv(about) ^ e.uni.size());
	c.desc(vf::fmt("%s history, %d ops, universe of %d members: %s", fam, nops, (int)e.uni.size(), about.c_str()));
	c.count((std::string("kind.") + fam).c_str());
	e.run(nops);
	if (c.want_sample()) c.sample(c.curdesc().substr(0, 1200));
}

static void mode_set_ops(vf::Ctx& c)
{
	bool headok = c.opt->param("headok", 0) != 0, eqtrue = c.opt->param("eqtrue", 0) != 0;
	if (c.idx % 2 == 0) run_set<int>(c, "set<int>", headok, eqtrue);
	else run_set<String>(c, "set<String>", headok, eqtrue);
}

// stratum B of defect (a): the same generators with chain-head removal allowed and directed
static void mode_remove_chain_head(vf::Ctx& c)
{
	if (c.idx % 5 == 4) {
		if ((c.idx / 5) % 2 == 0) run_set<int>(c, "set<int>", true, false);
		else run_set<String>(c, "set<String>", true, false);
	} else
		hashmap_hist_kind(c, true, (int)c.opt->param("large_pct", 2));
}

// ------------------------------------------------------------------ equality of pairs
template<class C, class K, class V> static inline void ins(C& c, const K& k, const V& v, int how) { if (how) c.set(k, v); else c[k] = v; }
template<class T> static inline void ins(Set<T>& c, const T& k, const int&, int) { c << k; }

template<class C> static inline C* sized(int n, std::true_type) { C* p = new C(); p->reserve(n); return p; }
template<class C> static inline C* sized(int n, std::false_type) { return new C(n); }

template<class C, class K, class V, bool ORD, bool ISSET> struct EqCase
{
	typedef typename TT<K>::M MK;
	typedef typename TT<V>::M MV;
	typedef std::map<MK, MV> Model;
	typedef std::integral_constant<bool, ORD> OrdTag;
	vf::Ctx& c;
	vf::Rng& r;
	const char* fam;
	bool headok;
	std::string pat;

	EqCase(vf::Ctx& c_, const char* fam_, bool headok_) : c(c_), r(c_.rng), fam(fam_), headok(headok_) {}
	void bad(const std::string& shape, const std::string& detail) { c.fail(std::string(fam) + ".eq/" + pat + "-" + shape, detail); }
	static MV one(int*) { return 1; }
	static MV one(std::string*) { return "1"; }
	MV val() { return ISSET ? one((MV*)0) : Gen<V>::val(r); }

	void build(C& x, const Model& m, std::vector<MK> order, bool overwrites)
	{
		for (size_t i = 0; i < order.size(); i++) {
			const MK& k = order[i];
			if (overwrites && !ISSET && r.chance(0.3)) ins(x, TT<K>::mk(k), TT<V>::mk(val()), (int)r.below(2));  // stale value first, overwritten below
			ins(x, TT<K>::mk(k), TT<V>::mk(m.find(k)->second), (int)r.below(2));
		}
	}

	// content check so that an earlier divergence is not mistaken for an equality defect
	void content(const C& x, const Model& m, const char* who)
	{
		if (x.length() != (int)m.size()) bad("precondition-length", vf::fmt("%s: length()=%d, expected %d", who, x.length(), (int)m.size()));
		for (typename Model::const_iterator it = m.begin(); it != m.end(); ++it) {
			const V* p = x.find(TT<K>::mk(it->first));
			if (!p || TT<V>::un(*p) != it->second) bad("precondition-content", std::string(who) + ": entry " + TT<K>::show(it->first) + " missing or stale before the comparison");
		}
	}

	void compare(const C& A, const C& B, const Model& ma, const Model& mb)
	{
		content(A, ma, "A");
		content(B, mb, "B");
		bool want = ma == mb;
		c.op(vf::fmt("A(%d entries, %d buckets) == B(%d entries, %d buckets), models %s", (int)ma.size(), nb(A, OrdTag()), (int)mb.size(), nb(B, OrdTag()), want ? "equal" : "differ"));
		if ((A == B) != want) bad(want ? "false-for-equal" : "true-for-unequal", "A == B");
		if ((B == A) != want) bad(want ? "false-for-equal" : "true-for-unequal", "B == A");
		if ((A != B) == want) bad(want ? "ne-true-for-equal" : "ne-false-for-unequal", "A != B");
		if ((B != A) == want) bad(want ? "ne-true-for-equal" : "ne-false-for-unequal", "B != A");
		c.count(want ? "eq.expected-true" : "eq.expected-false");
		if (nb(A, OrdTag()) != nb(B, OrdTag())) c.count("eq.different-bucket-counts");
	}
	static int nb(const C&, std::true_type) { return 0; }
	static int nb(const C& x, std::false_type) { return nbuckets(x); }

	void remove_safely(C& x, const MK& k, std::true_type) { x.remove(TT<K>::mk(k)); }
	void remove_safely(C& x, const MK& k, std::false_type)
	{
		K kk = TT<K>::mk(k);
		if (!headok) {  // this stratum isolates ==: never remove a chain head that has successors
			std::vector<K> ch;
			chain_of(x, kk, ch);
			if (ch.size() > 1 && ch[0] == kk) { c.inconclusive("eq-shrink-would-remove-chain-head"); throw vf::CaseAbort(); }
		}
		x.remove(kk);
	}

	// pattern ids: 0 order, 1 grown-then-shrunk, 2 different table size, 3 same order, 4 one key differs,
	// 5 one value differs, 6 subset/superset, 7 empties, 8 clone / handle copy, 9 overwrites in different order
	void run(int pattern, const std::vector<MK>& uni, const std::string& about)
	{
		static const char* PN[] = {"order", "grown-then-shrunk", "table-size", "same-order", "key-differs", "value-differs", "subset", "empties", "clone", "overwrites"};
		if (pattern == 5 && ISSET) pattern = 4;
		pat = PN[pattern];
		static const int NN[] = {1, 2, 3, 4, 6, 10, 30, 120, 224, 226, 300};
		int n = NN[r.below(11)];
		if (pattern == 7) n = 0;
		if (n > (int)uni.size() - 2) n = (int)uni.size() - 2;
		Model ma;
		std::vector<MK> keys(uni.begin(), uni.begin() + n), rest(uni.begin() + n, uni.end());
		for (int i = 0; i < n; i++) ma[keys[i]] = val();
		c.desc(vf::fmt("%s pair, pattern %s, %d entries, universe: %s", fam, pat.c_str(), n, about.c_str()));
		c.count((std::string("pattern.") + pat).c_str());
		c.count((std::string("kind.") + fam).c_str());
		int asz = r.chance(0.3) && !ORD ? 1 << r.below(6) : 0;  // A sometimes starts with a small table
		std::unique_ptr<C> A(asz ? sized<C>(asz, OrdTag()) : new C()), B;
		std::vector<MK> oa = keys, ob = keys;
		shuffle_vec(r, oa);
		// pattern key-differs: in half of the pairs the entry whose key differs holds the default value (0 / ""), which a
		// comparison through a defaulting lookup cannot tell from "absent"
		int goneIdx = n > 0 ? (int)r.below((uint32_t)n) : -1;
		if (pattern == 4 && goneIdx >= 0 && !ISSET && r.chance(0.5)) { ma[keys[goneIdx]] = MV(); c.count("eq.key-differs.default-value"); }
		build(*A, ma, oa, false);
		Model mb = ma;
		switch (pattern) {
		case 0:
		case 9:
			shuffle_vec(r, ob);
			if (r.chance(0.3)) std::reverse(ob.begin(), ob.end());
			B.reset(new C());
			build(*B, mb, ob, pattern == 9);
			break;
		case 1: {
			B.reset(!ORD && r.chance(0.5) ? sized<C>(1 << r.below(5), OrdTag()) : new C());
			int extra = (int)r.range(1, 40);
			if (!ORD) extra += std::max(0, grow_threshold(nbuckets_or0(*B)) + 1 - n);
			if (extra > (int)rest.size()) extra = (int)rest.size();
			std::vector<MK> ex(rest.begin(), rest.begin() + extra);
			shuffle_vec(r, ob);
			std::vector<std::pair<MK, bool> > seq;  // insertion sequence: (key, is_extra)
			for (size_t i = 0; i < ob.size(); i++) seq.push_back(std::make_pair(ob[i], false));
			for (size_t i = 0; i < ex.size(); i++) seq.push_back(std::make_pair(ex[i], true));
			if (headok || ORD) shuffle_vec(r, seq);  // otherwise extras come last, so that removing them in reverse never unlinks a chain head with successors
			int nb0 = nb(*B, OrdTag());
			for (size_t i = 0; i < seq.size(); i++)
				ins(*B, TT<K>::mk(seq[i].first), TT<V>::mk(seq[i].second ? val() : mb[seq[i].first]), (int)r.below(2));
			if (nb(*B, OrdTag()) != nb0) c.count("eq.B-grew-before-shrinking");
			std::vector<MK> rmorder;
			for (size_t i = seq.size(); i-- > 0;)
				if (seq[i].second) rmorder.push_back(seq[i].first);
			if (headok || ORD) shuffle_vec(r, rmorder);
			c.op(vf::fmt("B: %d entries + %d extras inserted, extras removed again", n, extra));
			for (size_t i = 0; i < rmorder.size(); i++) remove_safely(*B, rmorder[i], OrdTag());
			break;
		}
		case 2: {
			static const int SZ[] = {1, 2, 8, 64, 512, 1024, 4096};
			int sz = SZ[r.below(7)];
			B.reset(sized<C>(sz, OrdTag()));
			shuffle_vec(r, ob);
			build(*B, mb, ob, false);
			break;
		}
		case 3:  // same insertion order into a table of the same initial size: same layout
			B.reset(asz ? sized<C>(asz, OrdTag()) : new C());
			build(*B, mb, oa, false);
			break;
		case 4: {
			if (n == 0) { c.count("skipped"); return; }
			MK gone = keys[goneIdx], neu = rest[r.below((uint32_t)rest.size())];
			mb[neu] = mb[gone];
			mb.erase(gone);
			ob.clear();
			for (typename Model::const_iterator it = mb.begin(); it != mb.end(); ++it) ob.push_back(it->first);
			shuffle_vec(r, ob);
			B.reset(new C());
			build(*B, mb, ob, false);
			break;
		}
		case 5: {
			if (n == 0) { c.count("skipped"); return; }
			MK k = keys[r.below((uint32_t)n)];
			MV v = val();
			if (v == mb[k]) { c.count("skipped"); return; }
			mb[k] = v;
			shuffle_vec(r, ob);
			B.reset(new C());
			build(*B, mb, ob, false);
			break;
		}
		case 6: {
			if (r.chance(0.5) && n > 0) mb.erase(keys[r.below((uint32_t)n)]);
			else mb[rest[0]] = val();
			ob.clear();
			for (typename Model::const_iterator it = mb.begin(); it != mb.end(); ++it) ob.push_back(it->first);
			shuffle_vec(r, ob);
			B.reset(new C());
			build(*B, mb, ob, false);
			break;
		}
		case 7: {  // A fresh and empty; B filled (possibly grown) and emptied again
			B.reset(new C());
			int k = r.chance(0.5) ? r.range(1, 20) : std::min((int)uni.size(), r.range(226, 300));
			std::vector<MK> in(uni.begin(), uni.begin() + std::min(k, (int)uni.size()));
			for (size_t i = 0; i < in.size(); i++) ins(*B, TT<K>::mk(in[i]), TT<V>::mk(val()), 0);
			if (r.chance(0.5)) B->clear();
			else for (size_t i = in.size(); i-- > 0;) remove_safely(*B, in[i], OrdTag());
			c.op(vf::fmt("B: %d entries inserted and all removed", (int)in.size()));
			break;
		}
		default: {  // clone / handle copy
			if (r.chance(0.5)) { B.reset(new C(*A)); c.count("eq.handle-copy"); }
			else { C cl = clone_of(*A); B.reset(new C(cl)); c.count("eq.clone"); }
			break;
		}
		}
		compare(*A, *B, ma, mb);
		uint64_t h = vf::mix(vf::fnv(fam), pattern * 1000 + n);
		for (size_t i = 0; i < oa.size() && i < 8; i++) h = TT<K>::h(oa[i], h);
		if (n >= 1 || pattern == 7) c.distinct(h);
		if (c.want_sample()) c.sample(c.curdesc().substr(0, 800));
	}
	static int nbuckets_or0(const C& x) { return nb(x, OrdTag()); }
	template<class X> static X clone_of(const X& x) { return cl(x, (X*)0); }
	template<class X> static X cl(const X& x, ...) { return x.clone(); }
	template<class T> static Set<T> cl(const Set<T>& x, Set<T>*) { Set<T> y(x); y.dup(); return y; }

	// Set algebra identities whose two sides are built in different orders
	void identities(const std::vector<MK>& uni, const std::string& about, std::true_type)
	{
		pat = "set-identity";
		c.desc(vf::fmt("%s algebra identities, universe: %s", fam, about.c_str()));
		c.count("pattern.set-identity");
		C A, B;
		std::set<MK> ma, mb;
		int na = r.range(0, (int)uni.size()), nbb = r.range(0, (int)uni.size());
		for (int i = 0; i < na; i++) { const MK& k = uni[r.below((uint32_t)uni.size())]; A << TT<K>::mk(k); ma.insert(k); }
		for (int i = 0; i < nbb; i++) { const MK& k = uni[r.below((uint32_t)uni.size())]; B << TT<K>::mk(k); mb.insert(k); }
		c.op(vf::fmt("A has %d members, B has %d", (int)ma.size(), (int)mb.size()));
		struct L { static void chk(EqCase* e, bool got, bool want, const char* what) { if (got != want) e->bad(want ? "false-for-equal" : "true-for-unequal", what); e->c.count(want ? "eq.expected-true" : "eq.expected-false"); } };
		L::chk(this, (A + B) == (B + A), true, "A+B == B+A");
		L::chk(this, (A & B) == (B & A), true, "A&B == B&A");
		L::chk(this, ((A - B) + (A & B)) == A, true, "(A-B)+(A&B) == A");
		L::chk(this, ((A + B) - B) == (A - B), true, "(A+B)-B == A-B");
		L::chk(this, (A + A) == A, true, "A+A == A");
		L::chk(this, (A & A) == A, true, "A&A == A");
		L::chk(this, C(A.array()) == A, true, "Set(A.array()) == A");
		std::set<MK> u = ma;
		u.insert(mb.begin(), mb.end());
		L::chk(this, (A + B) == A, u == ma, "A+B == A iff B subset of A");
		L::chk(this, (A & B) == A, std::includes(mb.begin(), mb.end(), ma.begin(), ma.end()), "A&B == A iff A subset of B");
		c.distinct(vf::mix(vf::fnv(fam), ma.size() * 7919 + mb.size()) ^ vf::fnv(about));
	}
	void identities(const std::vector<MK>&, const std::string&, std::false_type) {}
};

template<class C, class K, class V, bool ORD, bool ISSET> static void run_eq(vf::Ctx& c, const char* fam, bool order_stratum, bool headok)
{
	typedef typename TT<K>::M MK;
	EqCase<C, K, V, ORD, ISSET> e(c, fam, headok);
	vf::Rng& r = c.rng;
	std::vector<MK> uni;
	std::string about;
	uni_make(r, r.chance(0.5) ? r.range(8, 40) : r.range(330, 700), uni, about, c);
	int pattern;
	if (order_stratum) {
		static const int P[] = {0, 0, 1, 1, 2, 9};
		if (ISSET && r.chance(0.25)) { e.identities(uni, about, std::integral_constant<bool, ISSET>()); return; }
		pattern = P[r.below(6)];
	} else if (ORD) pattern = (int)r.below(10);
	else {
		static const int P[] = {3, 4, 5, 6, 7, 8};
		pattern = P[r.below(6)];
	}
	e.run(pattern, uni, about);
}

static void eq_dispatch(vf::Ctx& c, bool order_stratum, bool headok)
{
	if (!order_stratum) {
		switch (c.idx % 10) {
		case 0: run_eq<Map<int, int>, int, int, true, false>(c, "map<int,int>", false, true); return;
		case 1: run_eq<Dic<String>, String, String, true, false>(c, "dic<String>", false, true); return;
		case 2: run_eq<Map<int, String>, int, String, true, false>(c, "map<int,String>", false, true); return;
		case 3: run_eq<Dic<int>, String, int, true, false>(c, "dic<int>", false, true); return;
		default: break;
		}
	}
	switch (c.idx % 6) {
	case 0: run_eq<HashMap<int, int>, int, int, false, false>(c, "hashmap<int,int>", order_stratum, headok); break;
	case 1: run_eq<HashMap<int, String>, int, String, false, false>(c, "hashmap<int,String>", order_stratum, headok); break;
	case 2: run_eq<HashDic<int>, String, int, false, false>(c, "hashdic<int>", order_stratum, headok); break;
	case 3: run_eq<HashDic<String>, String, String, false, false>(c, "hashdic<String>", order_stratum, headok); break;
	case 4: run_eq<Set<int>, int, int, false, true>(c, "set<int>", order_stratum, headok); break;
	default: run_eq<Set<String>, String, int, false, true>(c, "set<String>", order_stratum, headok); break;
	}
}

static void mode_eq(vf::Ctx& c) { eq_dispatch(c, false, false); }
static void mode_eq_order(vf::Ctx& c) { eq_dispatch(c, true, c.opt->param("headok", 0) != 0); }

// ------------------------------------------------------------------ exhaustive small ordered maps
static std::vector<std::vector<int> > g_seqs;  // all sequences of distinct indices 0..5, length 0..6, by length

static void gen_seqs(std::vector<int>& cur, unsigned used, size_t len)
{
	if (cur.size() == len) { g_seqs.push_back(cur); return; }
	for (int i = 0; i < 6; i++)
		if (!(used & (1u << i))) {
			cur.push_back(i);
			gen_seqs(cur, used | (1u << i), len);
			cur.pop_back();
		}
}

template<class C, class K, class V> struct SmallBlock
{
	typedef typename TT<K>::M MK;
	typedef typename TT<V>::M MV;
	typedef std::map<MK, MV> Model;
	vf::Ctx& c;
	const char* fam;
	std::string op;
	SmallBlock(vf::Ctx& c_, const char* f) : c(c_), fam(f) {}
	void bad(const char* shape, const std::string& detail) { c.fail(std::string(fam) + ".small." + op + "/" + shape, detail); }

	void same(const C& x, const Model& m, const std::string& ctx)
	{
		if (x.length() != (int)m.size()) bad("length", ctx + vf::fmt(": length()=%d, expected %d", x.length(), (int)m.size()));
		typename Model::const_iterator it = m.begin();
		int n = 0;
		for (typename C::Enumerator e = x.all(); e; ++e, ++it, ++n) {
			if (it == m.end()) bad("enum-too-long", ctx);
			if (TT<K>::un(~e) != it->first) bad("enum-order", ctx + ": position " + vf::fmt("%d", n) + " holds " + TT<K>::show(TT<K>::un(~e)) + ", expected " + TT<K>::show(it->first));
			if (TT<V>::un(*e) != it->second) bad("enum-value", ctx + ": value of " + TT<K>::show(it->first));
		}
		if (it != m.end()) bad("enum-too-short", ctx);
	}

	static MV value(int i, int salt, int*) { return 1000 * salt + i + 1; }
	static MV value(int i, int salt, std::string*) { return vf::fmt("value-%d-%d-with-a-heap-payload", salt, i); }
	static MV value(int i, int salt) { return value(i, salt, (MV*)0); }

	// U: 6 keys ascending; P: 13 probes = below, U0, between, U1, ..., U5, above
	void run(const std::vector<MK>& U, const std::vector<MK>& P, const std::vector<int>& seq)
	{
		std::string sd = "insert";
		for (size_t i = 0; i < seq.size(); i++) sd += " " + TT<K>::show(U[seq[i]]);
		c.desc(vf::fmt("%s, %d keys: ", fam, (int)seq.size()) + sd);
		for (int how = 0; how < 3; how++) {
			C m;
			Model mm;
			static const char* HN[] = {"index-assign", "set", "call-operator"};
			for (size_t i = 0; i < seq.size(); i++) {
				op = std::string("build-") + HN[how];
				MK k = U[seq[i]];
				MV v = value(seq[i], 1);
				if (how == 0) m[TT<K>::mk(k)] = TT<V>::mk(v);
				else if (how == 1) m.set(TT<K>::mk(k), TT<V>::mk(v));
				else m(TT<K>::mk(k), TT<V>::mk(v));
				mm[k] = v;
				same(m, mm, sd + vf::fmt(" (after %d insertions)", (int)i + 1));
				for (size_t p = 0; p < P.size(); p++)
					if (m.has(TT<K>::mk(P[p])) != (mm.count(P[p]) != 0)) bad(mm.count(P[p]) ? "has-missing" : "has-phantom", sd + vf::fmt(" (after %d insertions): has(", (int)i + 1) + TT<K>::show(P[p]) + ")");
			}
			for (size_t p = 0; p < P.size(); p++) {
				const MK& pk = P[p];
				K kk = TT<K>::mk(pk);
				bool present = mm.count(pk) != 0;
				std::string ctx = sd + "; key " + TT<K>::show(pk) + vf::fmt(" (probe position %d of 13)", (int)p);
				for (int o = 0; o < 9; o++) {
					C t = m.clone();
					Model tm = mm;
					const C& ct = t;
					switch (o) {
					case 0:
						op = "has";
						if (ct.has(kk) != present) bad(present ? "missing" : "phantom", ctx);
						break;
					case 1: {
						op = "find-const";
						const V* q = ct.find(kk);
						if ((q != 0) != present) bad(present ? "missing" : "phantom", ctx);
						if (q && TT<V>::un(*q) != tm[pk]) bad("stale-value", ctx);
						break;
					}
					case 2: {
						op = "find";
						V* q = t.find(kk);
						if ((q != 0) != present) bad(present ? "missing" : "phantom", ctx);
						if (q) { *q = TT<V>::mk(value(77, 2)); tm[pk] = value(77, 2); }
						break;
					}
					case 3: {
						op = "get";
						V d = TT<V>::mk(value(99, 3));
						const V& g = ct.get(kk, d);
						if (TT<V>::un(g) != (present ? tm[pk] : value(99, 3))) bad(present ? "stale-value" : "default-not-returned", ctx);
						break;
					}
					case 4:
						op = "const-index";
						if (present && TT<V>::un(ct[kk]) != tm[pk]) bad("stale-value", ctx);
						break;
					case 5: {
						op = "index";  // inserts when absent
						V& ref = t[kk];
						if (present && TT<V>::un(ref) != tm[pk]) bad("stale-value", ctx);
						ref = TT<V>::mk(value(55, 4));
						tm[pk] = value(55, 4);
						break;
					}
					case 6:
						op = "set";
						t.set(kk, TT<V>::mk(value(66, 5)));
						tm[pk] = value(66, 5);
						break;
					case 7: {
						op = "remove";
						bool ret = t.remove(kk);
						if (ret != present) bad("return", ctx);
						tm.erase(pk);
						break;
					}
					default: {
						op = "remove-then-reinsert";
						t.remove(kk);
						t[kk] = TT<V>::mk(value(44, 6));
						tm[pk] = value(44, 6);
						break;
					}
					}
					same(t, tm, ctx);
					if (t.has(kk) != (tm.count(pk) != 0)) bad("has-after", ctx);
					op = "clone-independence";
					same(m, mm, ctx);  // the source of the clone is unchanged
				}
				c.evals(9);
			}
		}
	}
};

static void mode_map_small(vf::Ctx& c)
{
	size_t si = (size_t)(c.idx / 4);
	int kind = (int)(c.idx % 4);
	if (si >= g_seqs.size()) return;
	const std::vector<int>& seq = g_seqs[si];
	c.count(vf::fmt("size=%d", (int)seq.size()).c_str());
	if (kind == 0 || kind == 3) {
		std::vector<int> U, P;
		if (kind == 0) for (int i = 0; i < 6; i++) U.push_back(10 + 10 * i);
		else { static const int X[] = {-30, -10, 0, 10, 30, INT_MAX - 1}; U.assign(X, X + 6); }
		P.push_back(kind == 0 ? 5 : INT_MIN);
		for (int i = 0; i < 6; i++) {
			P.push_back(U[i]);
			P.push_back(i < 5 ? U[i] + (U[i + 1] - U[i]) / 2 : INT_MAX);
		}
		if (kind == 0) SmallBlock<Map<int, int>, int, int>(c, "map<int,int>").run(U, P, seq);
		else SmallBlock<Map<int, String>, int, String>(c, "map<int,String>").run(U, P, seq);
	} else {
		static const char* UA[] = {"b", "d", "f", "h", "j", "l"};
		static const char* PA[] = {"a", "b", "c", "d", "e", "f", "g", "h", "i", "j", "k", "l", "m"};
		static const char* UB[] = {"p", "pa", "pab", "pb", "q", "qa"};
		static const char* PB[] = {"o", "p", "p!", "pa", "paa", "pab", "pac", "pb", "pc", "q", "q!", "qa", "r"};
		std::vector<std::string> U(kind == 1 ? UA : UB, (kind == 1 ? UA : UB) + 6), P(kind == 1 ? PA : PB, (kind == 1 ? PA : PB) + 13);
		for (size_t i = 1; i < P.size(); i++)
			if (!(P[i - 1] < P[i])) { c.inconclusive("probe-list-not-sorted"); return; }
		if (kind == 1) SmallBlock<Dic<int>, String, int>(c, "dic<int>").run(U, P, seq);
		else SmallBlock<Dic<String>, String, String>(c, "dic<String>").run(U, P, seq);
	}
	c.distinct(vf::mix(c.idx, 0xC02));
	if (c.want_sample() && seq.size() >= 3) c.sample(c.curdesc() + "; 3 insertion APIs; then 13 lookup keys (below/equal/between/above) x has, find, get, [], set, remove on clones");
}


// ------------------------------------------------------------------ converted clones: Map<K2,T2> -> Map<K,T> / Dic<T>
// The result must be the mathematical map obtained by converting every pair (for keys that collide after conversion the
// pair of the larger source key wins, as with successive set() calls in ascending source order), whatever the conversion
// does to the key order.
template<class K> struct ConvKey;
template<> struct ConvKey<int> { typedef long long M; static long long of(int k) { return k; } static long long of(double k) { return (long long)(int)k; } static long long of(const String& k) { return (long long)(int)k; } static int mk(long long m) { return (int)m; } static long long of_back(int k) { return k; } static std::string show(long long m) { return vf::fmt("%lld", m); } };
template<> struct ConvKey<short> { typedef long long M; static long long of(int k) { return (long long)(short)k; } static short mk(long long m) { return (short)m; } static long long of_back(short k) { return k; } static std::string show(long long m) { return vf::fmt("%lld", m); } };
template<> struct ConvKey<double> { typedef double M; static double of(int k) { return (double)k; } static double mk(double m) { return m; } static double of_back(double k) { return k; } static std::string show(double m) { return vf::fmt("%g", m); } };
template<> struct ConvKey<String> { typedef std::string M; static std::string of(int k) { return vf::fmt("%d", k); } static String mk(const std::string& m) { return String(m.c_str(), (int)m.size()); } static std::string of_back(const String& k) { return std::string(*k, k.length()); } static std::string show(const std::string& m) { return "\"" + m + "\""; } };

template<class SRC, class DST, class K2, class K> static void convert_case(vf::Ctx& c, const char* what, const std::vector<K2>& srckeys)
{
	vf::Rng& r = c.rng;
	typedef typename ConvKey<K>::M MK;
	SRC src;
	std::map<K2, int> ms;
	std::vector<K2> order = srckeys;
	shuffle_vec(r, order);
	for (size_t i = 0; i < order.size(); i++) { int v = r.chance(0.2) ? 0 : (int)r.range(-1000, 1000); src[order[i]] = v; ms[order[i]] = v; }
	std::map<MK, int> want;
	for (typename std::map<K2, int>::iterator it = ms.begin(); it != ms.end(); ++it) want[ConvKey<K>::of(it->first)] = it->second;
	std::string d = vf::fmt("%s from a source with %d keys {", what, (int)ms.size());
	{ int k = 0; for (typename std::map<K2, int>::iterator it = ms.begin(); it != ms.end() && k < 12; ++it, ++k) d += vf::fmt("%g ", (double)it->first); }
	c.desc(d + "}");
	DST dst(src);
	if (dst.length() != (int)want.size()) c.fail("convert.length", vf::fmt("length() = %d, %d distinct converted keys", dst.length(), (int)want.size()));
	// enumeration: every entry exactly once, ascending
	{
		typename std::map<MK, int>::iterator it = want.begin();
		int i = 0;
		bool first = true;
		MK prev = MK();
		foreach2(K& k, const int& v, dst) {
			MK mk = ConvKey<K>::of_back(k);
			if (!first && !(prev < mk)) { c.fail("convert.enumeration-not-ascending", ConvKey<K>::show(prev) + " then " + ConvKey<K>::show(mk)); break; }
			if (it == want.end()) { c.fail("convert.enumeration-too-long", vf::fmt("entry %d", i)); break; }
			if (!(it->first == mk) || it->second != v) { c.fail("convert.enumeration-differs", vf::fmt("entry %d is ", i) + ConvKey<K>::show(mk) + vf::fmt("=%d, expected ", v) + ConvKey<K>::show(it->first) + vf::fmt("=%d", it->second)); break; }
			prev = mk; first = false; ++it; ++i;
		}
	}
	for (typename std::map<MK, int>::iterator it = want.begin(); it != want.end(); ++it) {
		K k = ConvKey<K>::mk(it->first);
		if (!dst.has(k)) c.fail("convert.lookup-misses-present-key", ConvKey<K>::show(it->first));
		else if (dst.get(k, -777777) != it->second) c.fail("convert.lookup-value", ConvKey<K>::show(it->first));
		c.evals(1);
	}
	// the converted map keeps working as a map: remove half of the keys, re-insert, compare with one built by set()
	DST built;
	for (typename std::map<MK, int>::iterator it = want.begin(); it != want.end(); ++it) built.set(ConvKey<K>::mk(it->first), it->second);
	if (!(dst == built)) c.fail("convert.not-equal-to-map-with-same-contents", d);
	int removed = 0;
	for (typename std::map<MK, int>::iterator it = want.begin(); it != want.end();) {
		if (r.chance(0.5)) { dst.remove(ConvKey<K>::mk(it->first)); want.erase(it++); removed++; } else ++it;
	}
	if (dst.length() != (int)want.size()) c.fail("convert.length-after-remove", vf::fmt("length() = %d after removing %d keys, model %d", dst.length(), removed, (int)want.size()));
	for (typename std::map<MK, int>::iterator it = want.begin(); it != want.end(); ++it)
		if (!dst.has(ConvKey<K>::mk(it->first))) { c.fail("convert.lookup-after-remove", ConvKey<K>::show(it->first)); break; }
	c.count((std::string("convert.") + what).c_str());
	c.distinct(vf::mix(vf::fnv(what), vf::fnv(d)));
	if (c.want_sample()) c.sample(d);
}

static void mode_map_convert(vf::Ctx& c)
{
	vf::Rng& r = c.rng;
	int n = r.chance(0.3) ? r.range(0, 3) : r.range(4, 60);
	std::vector<int> ik;
	std::set<int> seen;
	int style = (int)r.below(4);
	for (int tries = 0; (int)ik.size() < n && tries < 20 * n + 20; tries++) {
		int k = style == 0 ? (int)r.range(0, 30) : style == 1 ? (int)r.range(-120, 120) : style == 2 ? (int)r.range(-70000, 70000) : (r.chance(0.5) ? (int)r.range(0, 12) : (int)r.range(32760, 32780) + (r.chance(0.3) ? 65536 : 0));
		if (seen.insert(k).second) ik.push_back(k);
	}
	switch (c.idx % 6) {
	case 0: convert_case<Map<int, int>, Map<String, int>, int, String>(c, "Map<int,int> -> Map<String,int>", ik); break;
	case 1: convert_case<Map<int, int>, Dic<int>, int, String>(c, "Map<int,int> -> Dic<int>", ik); break;
	case 2: convert_case<Map<int, int>, Map<short, int>, int, short>(c, "Map<int,int> -> Map<short,int>", ik); break;
	case 3: convert_case<Map<int, int>, Map<double, int>, int, double>(c, "Map<int,int> -> Map<double,int>", ik); break;
	case 4: {
		std::vector<double> dk;
		std::set<double> sd;
		for (size_t i = 0; i < ik.size(); i++) { double x = ik[i] % 40 + (double)r.below(8) / 8.0; if (sd.insert(x).second) dk.push_back(x); }
		convert_case<Map<double, int>, Map<int, int>, double, int>(c, "Map<double,int> -> Map<int,int>", dk);
		break;
	}
	default: convert_case<Map<int, int>, Map<int, int>, int, int>(c, "Map<int,int> -> Map<int,int> (copy)", ik); break;
	}
}

// ------------------------------------------------------------------ observation only: growth through one of two handles
static void mode_shared_growth(vf::Ctx& c)
{
	int n0 = grow_threshold(256) - 1 - (int)(c.idx % 3);
	c.desc(vf::fmt("HashMap<int,int> h with %d entries; g = h (handle copy); insert 4 new keys through h", n0));
	HashMap<int, int> h;
	std::map<int, int> m;
	for (int i = 0; i < n0; i++) { h[i] = i; m[i] = i; }
	{
		HashMap<int, int> g = h;
		for (int i = 0; i < 4; i++) { h[1000 + i] = i; m[1000 + i] = i; }
		c.count(nbuckets(h) != nbuckets(g) ? "observed.table-grew-under-one-handle" : "observed.no-growth");
		if (g.length() != (int)m.size()) c.fail("hashmap.shared-growth/length-through-other-handle", vf::fmt("g.length()=%d, h.length()=%d, model %d", g.length(), h.length(), (int)m.size()));
		for (std::map<int, int>::iterator it = m.begin(); it != m.end(); ++it)
			if (!g.has(it->first) || !h.has(it->first)) c.fail("hashmap.shared-growth/lookup", vf::fmt("key %d", it->first));
	}
	c.distinct(n0);
}

int main(int argc, char** argv)
{
	build_pools();
	std::vector<int> cur;
	for (size_t len = 0; len <= 6; len++) gen_seqs(cur, 0, len);
	vf::Runner R;
	R.add("map_small", mode_map_small, "exhaustive: all insertion orders of <=6 of 6 keys x 13 lookup positions x 9 operations, 4 map types");
	R.add("map_hist", mode_map_hist, "random histories on Map/Dic in lock-step with std::map");
	R.add("hashmap_hist", mode_hashmap_hist, "random histories on HashMap/HashDic in lock-step with std::map (stratum A: no chain-head removal)");
	R.add("hashmap_remove_chain_head", mode_remove_chain_head, "stratum B: histories that remove the first node of a chain with successors");
	R.add("eq", mode_eq, "pairs compared with ==; Map/Dic all patterns, hash containers: same layout or unequal content");
	R.add("eq_order", mode_eq_order, "stratum B: equal hash containers / sets built in different orders or with different growth");
	R.add("map_convert", mode_map_convert, "key- or value-type converting copies of a Map (order-changing and colliding conversions) against the converted model");
	R.add("set_ops", mode_set_ops, "Set algebra in lock-step with std::set");
	R.add("hashmap_shared_growth", mode_shared_growth, "observation: table growth through one of two handles (not planned)");
	return R.main(argc, argv);
}
