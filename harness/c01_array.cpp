// C01: Array / Stack / Queue against a reference sequence model, over several handles.
// Element types: int (trivially copyable), Counted (construct/destroy accounting by identity),
// String (heap payload -> ASan/LSan see double destroy and leaks).
// Strata (DESIGN.md section 5):
//   hist_*          growth of an array only while it has a single handle          (must be clean)
//   selfref_*       arguments that refer to an element of the same array          (must be clean)
//   shared_growth_* growth through one handle while another handle is live        (known finding)
#include "common/runner.h"
#include <asl/Array.h>
#include <asl/Stack.h>
#include <asl/Queue.h>
#include <asl/String.h>
#include <vector>
#include <algorithm>

using namespace asl;

// ------------------------------------------------------------------ element types
struct Counted
{
	int v;
	unsigned id, magic;
	static std::vector<unsigned char> live;
	static int nlive;
	static const char* err;
	static long nctor, ndtor;
	void reg()
	{
		id = (unsigned)live.size();
		live.push_back(1);
		magic = 0xC0FFEE00u ^ id;
		nlive++;
		nctor++;
	}
	bool islive() const { return magic == (0xC0FFEE00u ^ id) && id < live.size() && live[id]; }
	Counted() : v(-1) { reg(); }
	Counted(int x) : v(x) { reg(); }
	Counted(const Counted& o) : v(o.v)
	{
		if (!o.islive() && !err) err = "copy-constructed from an element that is not alive";
		reg();
	}
	Counted& operator=(const Counted& o)
	{
		if (!islive() && !err) err = "assignment to an element that was never constructed or already destroyed";
		if (!o.islive() && !err) err = "assignment from an element that is not alive";
		v = o.v;
		return *this;
	}
	~Counted()
	{
		if (!islive()) { if (!err) err = "element destroyed twice (or destroyed without construction)"; return; }
		live[id] = 0;
		nlive--;
		ndtor++;
	}
	bool operator==(const Counted& o) const { return v == o.v; }
	bool operator!=(const Counted& o) const { return v != o.v; }
	bool operator<(const Counted& o) const { return v < o.v; }
	static void reset() { live.clear(); nlive = 0; err = 0; }
};
std::vector<unsigned char> Counted::live;
int Counted::nlive = 0;
const char* Counted::err = 0;
long Counted::nctor = 0, Counted::ndtor = 0;

template<class T> struct E;
template<> struct E<int>
{
	static const char* name() { return "int"; }
	static int mk(int v) { return v; }
	static int val(const int& x) { return x; }
	static bool intact(const int&) { return true; }
	static bool hasDefault() { return false; }  // `new (p) int` leaves the value indeterminate
};
template<> struct E<Counted>
{
	static const char* name() { return "Counted"; }
	static Counted mk(int v) { return Counted(v); }
	static int val(const Counted& x) { return x.v; }
	static bool intact(const Counted& x) { return x.islive(); }
	static bool hasDefault() { return true; }
};
template<> struct E<String>
{
	static const char* name() { return "String"; }
	static String mk(int v)
	{
		if (v < 0) return String();
		char b[64];
		int n = snprintf(b, sizeof b, "%d", v);
		if (v & 1) { while (n < 20 + (v % 7)) b[n++] = '#'; b[n] = 0; }  // odd values: heap strings
		return String(b);
	}
	static int val(const String& x) { return x.length() == 0 ? -1 : atoi(*x); }
	static bool intact(const String& x) { return (int)strlen(*x) == x.length() && x == mk(val(x)); }
	static bool hasDefault() { return true; }
};

// ------------------------------------------------------------------ model + lock-step driver
enum { NH = 4 };

template<class T>
struct Driver
{
	vf::Ctx& c;
	int stratum;  // 0 = A (no growth while shared), 1 = B (growth while shared on purpose), 2 = self-reference
	Array<T>* h[NH];
	int ref[NH];                              // handle -> model array index, -1 = no handle
	std::vector<std::vector<int> > arr;       // model arrays
	int crossings;
	uint64_t shape;

	Driver(vf::Ctx& c_, int s) : c(c_), stratum(s), crossings(0), shape(1469598103934665603ULL)
	{
		for (int i = 0; i < NH; i++) { h[i] = 0; ref[i] = -1; }
	}
	~Driver()
	{
		for (int i = 0; i < NH; i++) delete h[i];
	}
	int nrefs(int a) const { int n = 0; for (int i = 0; i < NH; i++) if (ref[i] == a) n++; return n; }
	int newarr(const std::vector<int>& v) { arr.push_back(v); return (int)arr.size() - 1; }
	int freeh() const { for (int i = 0; i < NH; i++) if (ref[i] < 0) return i; return -1; }
	int pickh() { int t[NH], n = 0; for (int i = 0; i < NH; i++) if (ref[i] >= 0) t[n++] = i; return n ? t[c.rng.below(n)] : -1; }
	int rv() { return c.rng.chance(0.8) ? c.rng.range(0, 30) : c.rng.range(0, 100000); }

	void setnew(int k, const Array<T>& a, const std::vector<int>& m)
	{
		delete h[k];
		h[k] = new Array<T>(a);
		ref[k] = newarr(m);
	}

	void verify(const char* after)
	{
		if (Counted::err) c.fail(std::string("counted.") + Counted::err, std::string("after ") + after);
		for (int i = 0; i < NH; i++) {
			if (ref[i] < 0) continue;
			const std::vector<int>& m = arr[ref[i]];
			const Array<T>& a = *h[i];
			if (a.length() != (int)m.size())
				c.fail(std::string("length.after-") + after, vf::fmt("handle %d reports length %d, model %d", i, a.length(), (int)m.size()));
			for (int j = 0; j < (int)m.size(); j++) {
				if (!E<T>::intact(a[j])) c.fail(std::string("element-corrupt.after-") + after, vf::fmt("handle %d element %d is not a live, intact element", i, j));
				if (E<T>::val(a[j]) != m[j])
					c.fail(std::string("content.after-") + after, vf::fmt("handle %d element %d is %d, model %d (length %d)", i, j, E<T>::val(a[j]), m[j], (int)m.size()));
			}
			if (a.rc() != nrefs(ref[i]))
				c.fail(std::string("refcount.after-") + after, vf::fmt("handle %d rc()=%d but %d handles exist", i, a.rc(), nrefs(ref[i])));
			if (a.cap() < a.length()) c.fail("cap-below-length", after);
		}
	}

	// would appending `extra` elements through handle k reallocate?
	bool wouldGrow(int k, int newlen) { return newlen > h[k]->cap(); }
	// stratum policy: may this growing op run?
	bool growthAllowed(int k, int newlen)
	{
		bool shared = nrefs(ref[k]) > 1;
		bool grows = wouldGrow(k, newlen);
		if (grows) { crossings++; c.count(shared ? "growth_while_shared" : "growth_unshared"); }
		if (stratum == 1) return true;
		return !(shared && grows);
	}

	void fillNew(Array<T>& a, std::vector<int>& m, int from)
	{
		// elements created by resize(): default value checked where the type has one, then given known values
		for (int j = from; j < (int)m.size(); j++) {
			if (E<T>::hasDefault() && E<T>::val(a[j]) != -1) c.fail("resize.new-element-not-default", vf::fmt("element %d", j));
			int v = rv();
			a[j] = E<T>::mk(v);
			m[j] = v;
		}
	}

	void step()
	{
		int k = pickh();
		if (k < 0) {  // no handle: create one
			int f = 0;
			int n = c.rng.chance(0.5) ? 0 : c.rng.range(0, 9);
			c.op(vf::fmt("h%d=Array(%d)+fill", f, n));
			{
				Array<T> a(n);
				std::vector<int> m(n, -1);
				fillNew(a, m, 0);
				setnew(f, a, m);
			}
			verify("create");
			return;
		}
		Array<T>& a = *h[k];
		std::vector<int>& m = arr[ref[k]];
		int n = (int)m.size();
		int opn = c.rng.below(40);
		shape = vf::mix(shape, opn);
		char nm[32];
		snprintf(nm, sizeof nm, "op%02d", opn);
		switch (opn) {
		case 0: case 1: case 2: case 3: case 4: case 5: {  // append (weighted: drives growth)
			int cnt = c.rng.chance(0.2) ? c.rng.range(2, 40) : 1;
			for (int r = 0; r < cnt; r++) {
				if (!growthAllowed(k, (int)m.size() + 1)) { c.count("skipped_growth_shared"); break; }
				int v = rv();
				c.op(vf::fmt("h%d<<%d", k, v));
				a << E<T>::mk(v);
				m.push_back(v);
			}
			verify("append");
			break;
		}
		case 6: case 7: {
			if (!growthAllowed(k, n + 1)) break;
			int pos = c.rng.range(0, n), v = rv();
			c.op(vf::fmt("h%d.insert(%d,%d)", k, pos, v));
			a.insert(pos, E<T>::mk(v));
			m.insert(m.begin() + pos, v);
			verify("insert");
			break;
		}
		case 8: case 9: {
			if (!n) break;
			int i = c.rng.range(0, n - 1), cnt = c.rng.chance(0.6) ? 1 : c.rng.range(0, n - i);
			c.op(vf::fmt("h%d.remove(%d,%d)", k, i, cnt));
			a.remove(i, cnt);
			m.erase(m.begin() + i, m.begin() + i + cnt);
			verify("remove");
			break;
		}
		case 10: {
			int v = (n && c.rng.chance(0.7)) ? m[c.rng.below(n)] : rv();
			int i0 = (n && c.rng.chance(0.3)) ? c.rng.range(0, n - 1) : 0;
			c.op(vf::fmt("h%d.removeOne(%d,%d)", k, v, i0));
			bool r = a.removeOne(E<T>::mk(v), i0);
			std::vector<int>::iterator it = std::find(m.begin() + i0, m.end(), v);
			bool mr = it != m.end();
			if (mr) m.erase(it);
			if (r != mr) c.fail("removeOne.result", vf::fmt("returned %d model %d", r, mr));
			verify("removeOne");
			break;
		}
		case 11: {
			int mod = c.rng.range(2, 5), r = c.rng.below(mod);
			c.op(vf::fmt("h%d.removeIf(v%%%d==%d)", k, mod, r));
			a.removeIf([=](const T& x) { return E<T>::val(x) % mod == r; });
			m.erase(std::remove_if(m.begin(), m.end(), [=](int x) { return x % mod == r; }), m.end());
			verify("removeIf");
			break;
		}
		case 12: {
			c.op(vf::fmt("h%d.removeLast()", k));
			a.removeLast();
			if (n) m.pop_back();
			verify("removeLast");
			break;
		}
		case 13: case 14: {
			int t = c.rng.chance(0.5) ? c.rng.range(0, n) : n + c.rng.range(0, c.rng.chance(0.3) ? 200 : 12);
			if (t > n && !growthAllowed(k, t)) break;
			c.op(vf::fmt("h%d.resize(%d)+fill", k, t));
			a.resize(t);
			m.resize(t, -1);
			fillNew(a, m, n);
			verify("resize");
			break;
		}
		case 15: {
			int t = c.rng.range(0, n + (c.rng.chance(0.2) ? 700 : 20));
			if (!growthAllowed(k, t)) break;
			c.op(vf::fmt("h%d.reserve(%d)", k, t));
			a.reserve(t);
			if (a.cap() < t) c.fail("reserve.cap", vf::fmt("cap()=%d after reserve(%d)", a.cap(), t));
			verify("reserve");
			break;
		}
		case 16: {
			if (!c.rng.chance(0.4)) break;
			c.op(vf::fmt("h%d.clear()", k));
			a.clear();
			m.clear();
			verify("clear");
			break;
		}
		case 17: case 18: {
			int w = c.rng.below(4);
			c.op(vf::fmt("h%d.sort[%d]", k, w));
			if (w == 0) { a.sort(); std::sort(m.begin(), m.end(), [](int x, int y) { return E<T>::mk(x) < E<T>::mk(y); }); }
			else if (w == 1) { a.sort([](const T& x, const T& y) { return E<T>::val(y) < E<T>::val(x); }); std::sort(m.begin(), m.end(), [](int x, int y) { return y < x; }); }
			else { bool asc = w == 2; a.sortBy([](const T& x) { return E<T>::val(x); }, asc); if (asc) std::sort(m.begin(), m.end()); else std::sort(m.begin(), m.end(), [](int x, int y) { return y < x; }); }
			verify("sort");
			break;
		}
		case 19: {
			int f = freeh();
			if (f < 0) break;
			c.op(vf::fmt("h%d=h%d.reversed()", f, k));
			std::vector<int> r(m.rbegin(), m.rend());
			setnew(f, a.reversed(), r);
			verify("reversed");
			break;
		}
		case 20: case 21: {
			int f = freeh();
			if (f < 0 || !n) break;
			int i1 = c.rng.range(0, n - 1), i2 = c.rng.range(i1 + 1, n);
			bool omit = c.rng.chance(0.2);
			// an empty slice strictly inside the array (i1 == i2 > 0); slice(0,0) is the documented "to the end" form and is left out
			if (!omit && i1 > 0 && c.rng.chance(0.2)) { i2 = i1; c.count("slice.empty-inside"); }
			c.op(omit ? vf::fmt("h%d=h%d.slice(%d)", f, k, i1) : vf::fmt("h%d=h%d.slice(%d,%d)", f, k, i1, i2));
			std::vector<int> r(m.begin() + i1, omit ? m.end() : m.begin() + i2);
			setnew(f, omit ? a.slice(i1) : a.slice(i1, i2), r);
			verify("slice");
			break;
		}
		case 22: case 23: {
			int f = freeh(), o = pickh();
			if (f < 0) break;
			c.op(vf::fmt("h%d=h%d%sh%d", f, k, opn == 22 ? ".concat " : "|", o));
			std::vector<int> r(m);
			r.insert(r.end(), arr[ref[o]].begin(), arr[ref[o]].end());
			setnew(f, opn == 22 ? a.concat(*h[o]) : (a | *h[o]), r);
			verify("concat");
			break;
		}
		case 24: {
			int o = pickh();
			if (ref[o] == ref[k]) break;  // appending an array to itself: stratum "selfref"
			int nl = n + (int)arr[ref[o]].size();
			if (!growthAllowed(k, nl)) break;
			c.op(vf::fmt("h%d.append(h%d)", k, o));
			a.append(*h[o]);
			std::vector<int> src(arr[ref[o]]);
			m.insert(m.end(), src.begin(), src.end());
			verify("append-array");
			break;
		}
		case 25: {
			int cnt = c.rng.range(0, 10);
			if (!growthAllowed(k, n + cnt)) break;
			std::vector<T> buf;
			std::vector<int> vals;
			for (int j = 0; j < cnt; j++) { int v = rv(); vals.push_back(v); buf.push_back(E<T>::mk(v)); }
			c.op(vf::fmt("h%d.append(p,%d)", k, cnt));
			a.append(buf.data(), cnt);
			m.insert(m.end(), vals.begin(), vals.end());
			verify("append-ptr");
			break;
		}
		case 26: {
			int f = freeh();
			if (f < 0) break;
			int mod = c.rng.range(2, 4);
			c.op(vf::fmt("h%d=h%d.filter(v%%%d==0)", f, k, mod));
			std::vector<int> r;
			for (int j = 0; j < n; j++) if (m[j] % mod == 0) r.push_back(m[j]);
			if (c.rng.chance(0.4)) {
				// a predicate with memory ("the first few matches"): it is asked once per element, in order
				int keep = c.rng.range(0, 3), seen = 0;
				r.clear();
				{ int s2 = 0; for (int j = 0; j < n; j++) if (m[j] % mod == 0 && s2++ < keep) r.push_back(m[j]); }
				c.op(vf::fmt("h%d=h%d.filter(first %d with v%%%d==0)", f, k, keep, mod));
				setnew(f, a.filter([&, mod, keep](const T& x) { return E<T>::val(x) % mod == 0 && seen++ < keep; }), r);
				c.count("filter.stateful-predicate");
				verify("filter-stateful");
				break;
			}
			setnew(f, a.filter([=](const T& x) { return E<T>::val(x) % mod == 0; }), r);
			verify("filter");
			break;
		}
		case 27: {
			int f = freeh();
			if (f < 0) break;
			c.op(vf::fmt("h%d=h%d.map(v+1)", f, k));
			std::vector<int> r;
			for (int j = 0; j < n; j++) r.push_back(m[j] + 1);
			setnew(f, a.map([](const T& x) { return E<T>::mk(E<T>::val(x) + 1); }), r);
			verify("map");
			break;
		}
		case 28: case 29: {
			int f = freeh();
			if (f < 0) break;
			c.op(vf::fmt("h%d=h%d.clone()", f, k));
			std::vector<int> r(m);
			setnew(f, a.clone(), r);
			c.count("clones");
			verify("clone");
			break;
		}
		case 30: {
			c.op(vf::fmt("h%d.dup()", k));
			a.dup();
			if (nrefs(ref[k]) > 1) { std::vector<int> r(m); ref[k] = newarr(r); }
			verify("dup");
			break;
		}
		case 31: case 32: {  // new handle to the same array (copy construction)
			int f = freeh();
			if (f < 0) break;
			c.op(vf::fmt("h%d=Array(h%d)", f, k));
			h[f] = new Array<T>(a);
			ref[f] = ref[k];
			c.count("handle_copies");
			verify("copy-handle");
			break;
		}
		case 33: {  // assign handle
			int o = pickh();
			c.op(vf::fmt("h%d=h%d", o, k));
			*h[o] = a;
			ref[o] = ref[k];
			verify("assign-handle");
			break;
		}
		case 34: case 35: {  // drop a handle
			c.op(vf::fmt("drop h%d", k));
			delete h[k];
			h[k] = 0;
			ref[k] = -1;
			c.count("handle_drops");
			verify("drop-handle");
			break;
		}
		case 36: {  // queries
			int v = (n && c.rng.chance(0.7)) ? m[c.rng.below(n)] : rv();
			int j0 = n ? c.rng.range(0, n) : 0;
			c.op(vf::fmt("h%d.indexOf(%d,%d)/contains/last/==", k, v, j0));
			int r = a.indexOf(E<T>::mk(v), j0);
			std::vector<int>::iterator it = std::find(m.begin() + j0, m.end(), v);
			int mr = it == m.end() ? -1 : (int)(it - m.begin());
			if (r != mr) c.fail("indexOf", vf::fmt("returned %d model %d", r, mr));
			bool has = std::find(m.begin(), m.end(), v) != m.end();
			if (a.contains(E<T>::mk(v)) != has) c.fail("contains", "");
			if (n && E<T>::val(a.last()) != m[n - 1]) c.fail("last", "");
			int o = pickh();
			bool eq = arr[ref[o]] == m;
			if ((a == *h[o]) != eq || (a != *h[o]) == eq) c.fail("equality", vf::fmt("h%d==h%d gave %d model %d", k, o, a == *h[o], eq));
			break;
		}
		case 37: {
			if (!n) break;
			int i = c.rng.below(n), v = rv();
			c.op(vf::fmt("h%d[%d]=%d", k, i, v));
			a[i] = E<T>::mk(v);
			m[i] = v;
			verify("set");
			break;
		}
		case 38: {
			int o = pickh();
			if (ref[o] == ref[k]) break;
			int nl = (int)arr[ref[o]].size();
			if (nl > n && !growthAllowed(k, nl)) break;
			c.op(vf::fmt("h%d.copy(h%d)", k, o));
			a.copy(*h[o]);
			std::vector<int> src(arr[ref[o]]);
			m = src;
			verify("copy");
			break;
		}
		case 39: {
			int cnt = c.rng.range(0, 12);
			if (cnt > n && !growthAllowed(k, cnt)) break;
			std::vector<T> buf;
			std::vector<int> vals;
			for (int j = 0; j < cnt; j++) { int v = rv(); vals.push_back(v); buf.push_back(E<T>::mk(v)); }
			c.op(vf::fmt("h%d.copy(p,%d)", k, cnt));
			a.copy(buf.data(), cnt);
			m = vals;
			verify("copy-ptr");
			break;
		}
		}
	}

	// operations whose argument refers to an element of the same array
	void selfstep()
	{
		int k = pickh();
		if (k < 0 || arr[ref[k]].empty() || c.rng.chance(0.35)) { step(); return; }
		Array<T>& a = *h[k];
		std::vector<int>& m = arr[ref[k]];
		int n = (int)m.size();
		if (nrefs(ref[k]) > 1 && wouldGrow(k, 2 * n + 1)) { step(); return; }  // keep stratum A's rule here too
		int w = c.rng.below(7), i = c.rng.below(n);
		bool atcap = a.length() == a.cap();
		switch (w) {
		case 6:
			c.op(vf::fmt("h%d.copy(h%d) (itself)", k, k));
			c.count("self_copy");
			a.copy(a);
			verify("self-copy");
			break;
		case 5: {
			int cnt = c.rng.range(1, n - i);
			c.op(vf::fmt("h%d.append(&h%d[%d], %d)%s", k, k, i, cnt, atcap ? " (at capacity)" : ""));
			c.count("self_append_pointer_into_own_storage");
			std::vector<int> piece(m.begin() + i, m.begin() + i + cnt);
			a.append(&a[i], cnt);
			m.insert(m.end(), piece.begin(), piece.end());
			verify("self-append-pointer");
			break;
		}
		case 0: case 1:
			c.op(vf::fmt("h%d<<h%d[%d]%s", k, k, i, atcap ? " (at capacity)" : ""));
			c.count(atcap ? "self_append_at_capacity" : "self_append_spare");
			a << a[i];
			m.push_back(m[i]);
			verify("self-append");
			break;
		case 2: {
			int pos = c.rng.range(0, n);
			c.op(vf::fmt("h%d.insert(%d,h%d[%d])%s", k, pos, k, i, atcap ? " (at capacity)" : ""));
			c.count(pos <= i ? "self_insert_before_source" : "self_insert_after_source");
			int v = m[i];
			a.insert(pos, a[i]);
			m.insert(m.begin() + pos, v);
			verify("self-insert");
			break;
		}
		case 3:
			c.op(vf::fmt("h%d.append(h%d) (itself)", k, k));
			c.count("self_append_array");
			a.append(a);
			m.insert(m.end(), m.begin(), m.begin() + n);
			verify("self-append-array");
			break;
		case 4: {
			c.op(vf::fmt("h%d.removeOne(h%d[%d])", k, k, i));
			int v = m[i];
			bool r = a.removeOne(a[i]);
			m.erase(std::find(m.begin(), m.end(), v));
			if (!r) c.fail("self-removeOne.result", "returned false");
			verify("self-removeOne");
			break;
		}
		}
		shape = vf::mix(shape, 100 + w);
	}
};

template<class T>
static void run_hist(vf::Ctx& c, int stratum)
{
	Counted::reset();
	int nops = c.rng.chance(0.15) ? c.rng.range(100, 200) : c.rng.range(5, 80);
	bool nontrivial;
	{
		Driver<T> d(c, stratum);
		for (int i = 0; i < nops; i++) {
			if (stratum == 2) d.selfstep();
			else d.step();
		}
		if (stratum == 1) {
			// make sure the pattern occurs: one more handle, then growth through the first
			int k = d.pickh(), f = d.freeh();
			if (k >= 0 && f >= 0) {
				c.op(vf::fmt("h%d=Array(h%d); grow h%d past capacity", f, k, k));
				d.h[f] = new Array<T>(*d.h[k]);
				d.ref[f] = d.ref[k];
				int target = d.h[k]->cap() + 1;
				while (d.h[k]->length() < target) { *d.h[k] << E<T>::mk(7); d.arr[d.ref[k]].push_back(7); }
				d.verify("shared-growth");
			}
		}
		nontrivial = nops >= 3 && d.crossings >= 1;
		if (nontrivial) c.distinct(vf::mix(d.shape, vf::fnv(E<T>::name())));
		if (c.want_sample()) c.sample(std::string(E<T>::name()) + ": " + c.curdesc().substr(0, 600));
		c.count("ops", nops);
	}
	// all handles dropped: every element must have been destroyed exactly once
	if (Counted::err) c.fail(std::string("counted.") + Counted::err, "at teardown");
	if (Counted::nlive != 0) c.fail("counted.elements-alive-after-last-handle-dropped", vf::fmt("%d elements never destroyed", Counted::nlive));
}

// ------------------------------------------------------------------ Stack / Queue
template<class T>
static void run_sq(vf::Ctx& c)
{
	Counted::reset();
	{
		Stack<T> st;
		Queue<T> q;
		std::vector<int> ms, mq;
		int nops = c.rng.range(10, 150);
		uint64_t shape = 7;
		for (int i = 0; i < nops; i++) {
			int w = c.rng.below(14), v = c.rng.range(0, 999);
			shape = vf::mix(shape, w);
			switch (w) {
			case 0: case 1: case 2: c.op(vf::fmt("push(%d)", v)); st.push(E<T>::mk(v)); ms.push_back(v); break;
			case 3: if (ms.size()) { c.op("pop()"); st.pop(); ms.pop_back(); } break;
			case 4: if (ms.size()) { int k = c.rng.range(0, (int)ms.size()); c.op(vf::fmt("pop(%d)", k)); st.pop(k); ms.resize(ms.size() - k); } break;
			case 5: if (ms.size()) { c.op("popget()"); T x = st.popget(); if (E<T>::val(x) != ms.back()) c.fail("stack.popget", ""); ms.pop_back(); } break;
			case 6: if (ms.size()) { int k = c.rng.below((uint32_t)ms.size()); c.op(vf::fmt("top(%d)", k)); if (E<T>::val(st.top(k)) != ms[ms.size() - 1 - k] || E<T>::val(st.top()) != ms.back()) c.fail("stack.top", ""); } break;
			case 7: if (ms.size()) { c.op("stack>>x"); T x = E<T>::mk(0); st >> x; if (E<T>::val(x) != ms.back()) c.fail("stack.extract", ""); ms.pop_back(); } break;
			case 8: case 9: c.op(vf::fmt("put(%d)", v)); q.put(E<T>::mk(v)); mq.push_back(v); break;
			case 10: if (mq.size()) { c.op("get()"); T x = q.get(); if (E<T>::val(x) != mq.front()) c.fail("queue.get", vf::fmt("got %d want %d", E<T>::val(x), mq.front())); mq.erase(mq.begin()); } break;
			// arguments that are elements of the same container (read after a possible reallocation if unprotected)
			case 12: if (ms.size()) { int k = c.rng.below((uint32_t)ms.size()); c.op(vf::fmt("push(top(%d))", k)); int val = ms[ms.size() - 1 - k]; st.push(st.top(k)); ms.push_back(val); c.count("stack.push-of-own-element"); } break;
			case 13: if (mq.size()) { int k = c.rng.below((uint32_t)mq.size()); c.op(vf::fmt("put(q[%d])", k)); int val = mq[k]; q.put(q[k]); mq.push_back(val); c.count("queue.put-of-own-element"); } break;
			case 11: if (mq.size() >= 2) { c.op("queue>>x>>y"); T x = E<T>::mk(0), y = E<T>::mk(0); q >> x >> y; if (E<T>::val(x) != mq[0] || E<T>::val(y) != mq[1]) c.fail("queue.extract", ""); mq.erase(mq.begin(), mq.begin() + 2); } break;
			}
			if (Counted::err) c.fail(std::string("counted.") + Counted::err, "stack/queue");
			if (st.length() != (int)ms.size() || q.length() != (int)mq.size()) c.fail("stackqueue.length", vf::fmt("stack %d/%d queue %d/%d", st.length(), (int)ms.size(), q.length(), (int)mq.size()));
			for (int j = 0; j < (int)ms.size(); j++) if (E<T>::val(st[j]) != ms[j] || !E<T>::intact(st[j])) c.fail("stack.content", vf::fmt("index %d", j));
			for (int j = 0; j < (int)mq.size(); j++) if (E<T>::val(q[j]) != mq[j] || !E<T>::intact(q[j])) c.fail("queue.content", vf::fmt("index %d", j));
		}
		if (nops >= 10) c.distinct(vf::mix(shape, vf::fnv(E<T>::name())));
		if (c.want_sample()) c.sample(std::string("Stack/Queue<") + E<T>::name() + ">: " + c.curdesc().substr(0, 400));
	}
	if (Counted::err) c.fail(std::string("counted.") + Counted::err, "at teardown");
	if (Counted::nlive != 0) c.fail("counted.elements-alive-after-last-handle-dropped", vf::fmt("%d", Counted::nlive));
}

template<class T> static void hist(vf::Ctx& c) { run_hist<T>(c, 0); }
template<class T> static void shared(vf::Ctx& c) { run_hist<T>(c, 1); }
template<class T> static void selfref(vf::Ctx& c) { run_hist<T>(c, 2); }

// ------------------------------------------------------------------ arrays of a recursive element type: a handle that walks down the tree
struct TreeNode { Counted tag; Array<TreeNode> kids; };

static void run_nested(vf::Ctx& c)
{
	Counted::reset();
	int depth = c.rng.range(2, 7), width = c.rng.range(1, 3);
	c.desc(vf::fmt("Array<Node{tag, Array<Node> kids}> chain of depth %d, width %d: cur = root; then cur = cur[k].kids until the leaves, cur the only owner", depth, width));
	{
		// build bottom-up
		Array<TreeNode> level;
		for (int d = depth; d > 0; d--) {
			Array<TreeNode> up;
			for (int w = 0; w < width; w++) { TreeNode nd; nd.tag = E<Counted>::mk(d * 10 + w); nd.kids = (w == 0) ? level : Array<TreeNode>(); up << nd; }
			level = up;
		}
		Array<TreeNode> cur = level;
		level = Array<TreeNode>();   // cur is now the only owner of the root array
		int d = 1;
		while (cur.length() > 0) {
			if (E<Counted>::val(cur[0].tag) != d * 10 || !E<Counted>::intact(cur[0].tag)) { c.fail("nested.content", vf::fmt("level %d holds tag %d", d, E<Counted>::val(cur[0].tag))); break; }
			c.op(vf::fmt("cur = cur[0].kids (level %d)", d));
			cur = cur[0].kids;   // the source handle lives inside the block cur is about to release
			d++;
		}
		if (d != depth + 1) c.fail("nested.depth", vf::fmt("walked %d levels of %d", d - 1, depth));
	}
	if (Counted::err) c.fail(std::string("counted.") + Counted::err, "nested");
	if (Counted::nlive != 0) c.fail("counted.elements-alive-after-last-handle-dropped", vf::fmt("%d", Counted::nlive));
	c.evals(depth);
	c.distinct(vf::mix((uint64_t)depth * 8 + width, 0xC01));
	if (c.want_sample()) c.sample(c.curdesc());
}

// ------------------------------------------------------------------ allocation failure while growing (ASan build with a small max_allocation_size_mb)
// The job runs with ASAN_OPTIONS=...:max_allocation_size_mb=<limit_mb>:allocator_may_return_null=1, so every malloc/realloc above the
// limit returns null and the library throws std::bad_alloc (ASL_BAD_ALLOC). Judged: the operation that failed changed nothing (length,
// element sequence, element accounting), the capacity the array believes it has is still backed by its block (ASan sees the next writes),
// and the array keeps working - "no operation with in-range arguments reads or writes outside live storage", after a failed growth too.
// The array always holds f(0..n-1), f(i) = (i*31+salt) % 997, so no model storage is needed (a std::vector model would hit the limit itself).
template<class T>
static void run_allocfail(vf::Ctx& c)
{
	Counted::reset();
	Counted::live.reserve(1000000);
	size_t limit = (size_t)c.opt->param("limit_mb", 1) << 20;
	int salt = c.rng.range(0, 996);
	int failures = 0, ops = 0;
	uint64_t shape = 11;
	{
		Array<T> a;
		int n = 0;   // model: a == f(0..n-1)
		struct V {
			static int f(int i, int salt) { return (int)(((long long)i * 31 + salt) % 997); }
		};
		auto verify = [&](const char* after, bool full) {
			if (a.length() != n) c.fail(std::string("allocfail.length.") + after, vf::fmt("length()=%d, model %d", a.length(), n));
			if (a.cap() < a.length()) c.fail("cap-below-length", after);
			int step = full ? 1 : (n / 257 + 1);
			for (int i = 0; i < n; i += step) if (E<T>::val(a[i]) != V::f(i, salt) || !E<T>::intact(a[i])) c.fail(std::string("allocfail.element.") + after, vf::fmt("index %d holds %d, model %d", i, E<T>::val(a[i]), V::f(i, salt)));
			for (int i = n > 64 ? n - 64 : 0; i < n; i++) if (E<T>::val(a[i]) != V::f(i, salt) || !E<T>::intact(a[i])) c.fail(std::string("allocfail.element.") + after, vf::fmt("index %d holds %d, model %d", i, E<T>::val(a[i]), V::f(i, salt)));
			if (Counted::err) c.fail(std::string("counted.") + Counted::err, after);
		};
		int start = c.rng.below(3);
		shape = vf::mix(shape, start);
		if (start == 1) { int r = c.rng.range(1, 5000); c.op(vf::fmt("reserve(%d)", r)); a.reserve(r); }
		else if (start == 2) { int r = c.rng.range(1, 5000); c.op(vf::fmt("resize(%d) and assign", r)); a.resize(r); for (int i = 0; i < r; i++) a[i] = E<T>::mk(V::f(i, salt)); n = r; }
		c.desc(vf::fmt("Array<%s>: grow by single appends until an allocation above %zu bytes fails, then keep using the array", E<T>::name(), limit));
		// grow until the first failure (bounded: the block can never get past the limit)
		size_t maxn = limit / sizeof(T) + 16;
		bool failed = false;
		while (!failed && (size_t)n <= maxn) {
			try { a << E<T>::mk(V::f(n, salt)); n++; }
			catch (std::bad_alloc&) { failed = true; failures++; c.count("allocfail.append-failed-at-capacity"); c.op(vf::fmt("append at length %d = cap %d: bad_alloc", n, a.cap())); }
		}
		if (!failed) { c.inconclusive("no-allocation-failure-injected"); return; }
		int capAtFail = a.cap();
		verify("after-failed-append", true);
		int nsteps = c.rng.range(4, 14);
		for (int st = 0; st < nsteps; st++) {
			int w = c.rng.below(10);
			shape = vf::mix(shape, w);
			ops++;
			try {
				switch (w) {
				case 0: case 1: c.op("append"); a << E<T>::mk(V::f(n, salt)); n++; c.count("allocfail.append-succeeded"); break;
				case 2: { int k = c.rng.range(0, n); c.op(vf::fmt("insert(%d, x)", k)); a.insert(k, E<T>::mk(12345)); a.remove(k); c.count("allocfail.insert-succeeded"); } break;
				case 3: { int k = c.rng.range(1, 40); if (k > n) k = n; c.op(vf::fmt("remove the last %d, append %d", k, k)); if (c.rng.chance(0.5)) a.resize(n - k); else a.remove(n - k, k); n -= k; verify("after-shrink", false);
				          for (int i = 0; i < k; i++) { a << E<T>::mk(V::f(n, salt)); n++; } c.count("allocfail.refill-into-spare-capacity"); } break;
				case 4: { int r = a.cap() + c.rng.range(1, 1000); c.op(vf::fmt("reserve(%d)", r)); a.reserve(r); c.count("allocfail.reserve-succeeded"); } break;
				case 5: { int r = n + c.rng.range(1, 3) ; if (r <= a.cap()) r = a.cap() + 1; c.op(vf::fmt("resize(%d)", r)); a.resize(r); for (int i = n; i < r; i++) a[i] = E<T>::mk(V::f(i, salt)); n = r; c.count("allocfail.resize-succeeded"); } break;
				case 6: { c.op("b = a.clone()"); Array<T> b = a.clone(); if (b.length() != n) c.fail("allocfail.clone.length", ""); for (int i = 0; i < n; i += n / 97 + 1) if (E<T>::val(b[i]) != V::f(i, salt)) c.fail("allocfail.clone.element", vf::fmt("index %d", i)); c.count("allocfail.clone-succeeded"); } break;
				case 7: { c.op("b = a | a"); Array<T> b = a | a; if (b.length() != 2 * n) c.fail("allocfail.concat.length", ""); c.count("allocfail.concat-succeeded"); } break;
				case 8: { c.op("a.append(a)"); int n0 = n; a.append(a); n = 2 * n0; c.count("allocfail.self-append-succeeded"); a.resize(n0); n = n0; } break;
				case 9: { c.op("h = a (second handle), dropped"); Array<T> h = a; if (h.length() != n) c.fail("allocfail.handle.length", ""); } break;
				}
			}
			catch (std::bad_alloc&) {
				failures++;
				static const char* W[] = {"append", "append", "insert", "refill", "reserve", "resize", "clone", "concat", "self-append", "handle"};
				c.count((std::string("allocfail.bad_alloc-in-") + W[w]).c_str());
				if (w == 5 || w == 8) { /* resize/append(a) may fail in reserve(): nothing changed */ }
			}
			verify("after-step", false);
		}
		verify("at-end", true);
		c.count(start == 0 ? "allocfail.first-failure-on-the-doubling-chain-from-empty" : start == 1 ? "allocfail.first-failure-after-reserve(r)-then-doubling" : "allocfail.first-failure-after-resize(r)-then-doubling");
		c.evals((uint64_t)ops);
		c.distinct(vf::mix(vf::mix(shape, (uint64_t)capAtFail), vf::fnv(E<T>::name())));
		if (c.want_sample()) c.sample(vf::fmt("Array<%s>: first bad_alloc at length=cap=%d, %d allocation failures in the case, final length %d: ", E<T>::name(), capAtFail, failures, n) + c.curdesc().substr(0, 400));
	}
	if (Counted::err) c.fail(std::string("counted.") + Counted::err, "at teardown");
	if (Counted::nlive != 0) c.fail("counted.elements-alive-after-last-handle-dropped", vf::fmt("%d elements never destroyed", Counted::nlive));
}

int main(int argc, char** argv)
{
	vf::Runner R;
	R.add("nested", run_nested, "recursive element type: a sole-owner handle assigned from a handle stored inside its own block");
	R.add("hist_int", hist<int>, "stratum A histories, int elements");
	R.add("hist_counted", hist<Counted>, "stratum A histories, counted elements");
	R.add("hist_string", hist<String>, "stratum A histories, String elements");
	R.add("selfref_int", selfref<int>, "arguments referring to elements of the same array");
	R.add("selfref_counted", selfref<Counted>, "");
	R.add("selfref_string", selfref<String>, "");
	R.add("shared_growth_int", shared<int>, "stratum B: growth while another handle is live (known finding)");
	R.add("shared_growth_string", shared<String>, "");
	R.add("allocfail_int", run_allocfail<int>, "growth whose allocation fails (small ASan allocation limit): the array stays consistent and usable");
	R.add("allocfail_counted", run_allocfail<Counted>, "");
	R.add("allocfail_string", run_allocfail<String>, "");
	R.add("sq_int", run_sq<int>, "Stack and Queue");
	R.add("sq_counted", run_sq<Counted>, "");
	R.add("sq_string", run_sq<String>, "");
	return R.main(argc, argv);
}
