// C07: Xml::decode is total and memory-safe on any bytes and returns null or a tree whose children all point back
// to their container; decode(encode(tree)) preserves tags, attributes, child order and text up to merging of
// adjacent text nodes and dropping of whitespace-only text (compact always, indented for sole-child text).
//
// Oracles: the generator's own DOM model compared through the public accessors only (tag(), attribs(), children(),
// child(i), numChildren(), isText(), text(), parent(), operator==), ASan/UBSan/LSan, the runner's watchdog.
// Two genuine defects are isolated in their own modes so that every other mode stays clean on the unrepaired tree:
//   surplus : "</>" while only the parser's seeded root is open (the root is popped, a wild pointer is used)
//   deep    : nesting of 10^5 and more (the tree is destroyed recursively, inside decode when the document is rejected)
#include "common/runner.h"
#include <asl/Xml.h>
#include <asl/TextFile.h>
#include <map>
#include <vector>
#include <mutex>
#include <atomic>
#include <thread>
#include <algorithm>

using namespace asl;

static std::string scratchDir;

// ---------------------------------------------------------------- model
struct Node
{
	bool text;
	std::string s;  // tag, or the text
	std::map<std::string, std::string> at;
	std::vector<Node> kids;
	Node() : text(false) {}
};

static std::string str(const String& s) { return std::string(*s, (size_t)s.length()); }
static String S(const std::string& s) { return String(s.c_str(), (int)s.size()); }

static bool isXmlWs(char c) { return c == ' ' || c == '\t' || c == '\r' || c == '\n'; }
static bool wsOnly(const std::string& s)
{
	for (size_t i = 0; i < s.size(); i++) if (!isXmlWs(s[i])) return false;
	return true;
}

// merge adjacent text nodes, then drop whitespace-only (incl. empty) text
static void normalise(Node& n, int* merges = 0, int* drops = 0)
{
	std::vector<Node> out;
	for (size_t i = 0; i < n.kids.size(); i++) {
		Node& k = n.kids[i];
		if (k.text && !out.empty() && out.back().text) { out.back().s += k.s; if (merges) ++*merges; }
		else out.push_back(k);
	}
	n.kids.clear();
	for (size_t i = 0; i < out.size(); i++) {
		if (out[i].text && wsOnly(out[i].s)) { if (drops) ++*drops; continue; }
		n.kids.push_back(out[i]);
	}
	for (size_t i = 0; i < n.kids.size(); i++) if (!n.kids[i].text) normalise(n.kids[i], merges, drops);
}

static void render(const Node& n, std::string& o, size_t lim = 6000)
{
	if (o.size() > lim) return;
	if (n.text) { o += "T'" + vf::vis(n.s, 200) + "'"; return; }
	o += "<" + vf::vis(n.s, 80);
	for (std::map<std::string, std::string>::const_iterator it = n.at.begin(); it != n.at.end(); ++it) o += " " + vf::vis(it->first, 80) + "='" + vf::vis(it->second, 200) + "'";
	o += ">[";
	for (size_t i = 0; i < n.kids.size(); i++) { if (i) o += ","; render(n.kids[i], o, lim); }
	o += "]";
}

static void canon(const Node& n, std::string& o)  // unambiguous bytes for hashing
{
	o += n.text ? 'T' : 'E';
	o += vf::fmt("%d:", (int)n.s.size()) + n.s;
	for (std::map<std::string, std::string>::const_iterator it = n.at.begin(); it != n.at.end(); ++it) o += vf::fmt("@%d:%d:", (int)it->first.size(), (int)it->second.size()) + it->first + it->second;
	o += vf::fmt("[%d", (int)n.kids.size());
	for (size_t i = 0; i < n.kids.size(); i++) canon(n.kids[i], o);
}

static int countNodes(const Node& n) { int k = 1; for (size_t i = 0; i < n.kids.size(); i++) k += countNodes(n.kids[i]); return k; }
static int depthOf(const Node& n) { int d = 0; for (size_t i = 0; i < n.kids.size(); i++) d = std::max(d, depthOf(n.kids[i])); return d + 1; }

// well-formed name in the sense of the property: [A-Za-z_:][A-Za-z0-9_.:-]* where non-ASCII characters (valid UTF-8) also count as name characters
static bool validUtf8(const std::string& s)
{
	size_t i = 0, n = s.size();
	while (i < n) {
		unsigned char c = (unsigned char)s[i];
		int k = c < 0x80 ? 0 : (c >= 0xc2 && c <= 0xdf) ? 1 : (c >= 0xe0 && c <= 0xef) ? 2 : (c >= 0xf0 && c <= 0xf4) ? 3 : -1;
		if (k < 0 || i + (size_t)k >= n) return false;
		for (int j = 1; j <= k; j++) if (((unsigned char)s[i + j] & 0xc0) != 0x80) return false;
		i += (size_t)k + 1;
	}
	return true;
}
static bool wellFormedName(const std::string& s)
{
	if (s.empty() || !validUtf8(s)) return false;
	for (size_t i = 0; i < s.size(); i++) {
		unsigned char c = (unsigned char)s[i];
		if (c >= 0x80) continue;
		bool start = (c >= 'A' && c <= 'Z') || (c >= 'a' && c <= 'z') || c == '_' || c == ':';
		bool rest = start || (c >= '0' && c <= '9') || c == '.' || c == '-';
		if (i == 0 ? !start : !rest) return false;
	}
	return true;
}
static bool namesWellFormed(const Node& n)
{
	if (n.text) return true;
	if (!wellFormedName(n.s)) return false;
	for (std::map<std::string, std::string>::const_iterator it = n.at.begin(); it != n.at.end(); ++it) if (!wellFormedName(it->first)) return false;
	for (size_t i = 0; i < n.kids.size(); i++) if (!namesWellFormed(n.kids[i])) return false;
	return true;
}

// ---------------------------------------------------------------- observation through the public accessors
struct WalkStats
{
	long elems, texts, adjText;
	int maxdepth;
	WalkStats() : elems(0), texts(0), adjText(0), maxdepth(0) {}
};

// Every element and text node below `root`: child.parent() must be the element that contains it. Iterative (explicit
// stack), so that the harness itself never recurses on a hostile tree. The root of a decoded tree has no container: its parent()
// is the null Xml the API documents, so walking up from any node ends at the root after exactly its depth.
static void walkParents(vf::Ctx& c, const Xml& root, const char* src, WalkStats& ws)
{
	std::vector<std::pair<Xml, int> > st;
	st.push_back(std::make_pair(root, 1));
	{
		Xml rp = root.parent();
		if (!rp.isnull()) c.fail(std::string("parents.") + src + ".root-parent-not-null", "parent() of the element returned by decode is not the null element");
		c.count("root_parent_queried");
	}
	while (!st.empty()) {
		Xml e = st.back().first;
		int d = st.back().second;
		st.pop_back();
		ws.elems++;
		if (ws.elems % 5 == 1) {   // walk up to the root
			int up = 0;
			for (Xml a = e; !a.isnull() && up <= d + 1; a = a.parent()) up++;
			if (up != d) c.fail(std::string("parents.") + src + ".walk-up-length", vf::fmt("walking parent() up from an element at depth %d took %d steps", d, up));
			c.count("walked_up_to_root");
		}
		if (d > ws.maxdepth) ws.maxdepth = d;
		int n = e.numChildren();
		if (e.children().length() != n) c.fail(std::string("accessors.") + src + ".children-length-vs-numChildren", vf::fmt("children().length()=%d numChildren()=%d", e.children().length(), n));
		bool prevText = false;
		for (int i = 0; i < n; i++) {
			const Xml& k = e.child(i);
			if (k.isnull()) c.fail(std::string("parents.") + src + ".null-child-handle", vf::fmt("child %d of <%s> at depth %d", i, vf::vis(str(e.tag()), 60).c_str(), d));
			bool t = k.isText();
			Xml par = k.parent();
			if (!(par == e)) {
				c.fail(std::string("parents.") + src + (t ? ".text-node" : ".element") + (par.isnull() ? "-parent-null" : "-parent-is-another-node"),
				       vf::fmt("child %d (%s '%s') of <%s> at depth %d: parent() is %s", i, t ? "text" : "element", vf::vis(str(t ? k.text() : k.tag()), 60).c_str(),
				               vf::vis(str(e.tag()), 60).c_str(), d, par.isnull() ? "null" : "a different node"));
			}
			if (t) { ws.texts++; if (prevText) ws.adjText++; }
			else st.push_back(std::make_pair(k, d + 1));
			prevText = t;
		}
	}
}

static void fromXml(const Xml& e, Node& n)
{
	n.text = e.isText();
	if (n.text) { n.s = str(e.text()); return; }
	n.s = str(e.tag());
	const Map<>& at = e.attribs();
	foreach2(String& k, String& v, at) n.at[str(k)] = str(v);
	const Array<Xml>& ch = e.children();
	n.kids.resize((size_t)e.numChildren());
	for (int i = 0; i < e.numChildren(); i++) fromXml((i & 1) ? ch[i] : e.child(i), n.kids[i]);
}

static const char* valueClass(const std::string& v, bool attr)
{
	bool tcl = false, cr = false, ctl = false, hi = false;
	for (size_t i = 0; i < v.size(); i++) {
		unsigned char ch = (unsigned char)v[i];
		if (ch == '\t' || ch == '\n' || ch == '\r') tcl = true;
		if (ch == '\r') cr = true;
		else if (ch < 0x20 && !isXmlWs((char)ch)) ctl = true;
		else if (ch == 0x7f) ctl = true;
		else if (ch >= 0x80) hi = true;
	}
	if (attr && tcl) return ".value-has-tab-cr-lf";
	if (!attr && cr) return ".text-has-cr";
	if (ctl) return attr ? ".value-has-control-bytes" : ".text-has-control-bytes";
	if (hi) return attr ? ".value-has-non-ascii" : ".text-has-non-ascii";
	return "";
}

// both already normalised; `a` is what was expected, `b` what was observed
static void compareTrees(vf::Ctx& c, const std::string& pre, const Node& a, const Node& b, const std::string& path)
{
	if (a.text != b.text) c.fail(pre + ".child-kind", path + ": expected " + (a.text ? "text" : "element") + " '" + vf::vis(a.s, 80) + "', got " + (b.text ? "text" : "element") + " '" + vf::vis(b.s, 80) + "'");
	if (a.text) {
		if (a.s != b.s) c.fail(pre + ".text" + valueClass(a.s, false), path + ": expected '" + vf::vis(a.s, 300) + "' got '" + vf::vis(b.s, 300) + "'");
		return;
	}
	if (a.s != b.s) c.fail(pre + ".tag", path + ": expected '" + vf::vis(a.s, 80) + "' got '" + vf::vis(b.s, 80) + "'");
	std::string here = path + "/" + vf::vis(a.s, 40);
	for (std::map<std::string, std::string>::const_iterator it = a.at.begin(); it != a.at.end(); ++it) {
		std::map<std::string, std::string>::const_iterator jt = b.at.find(it->first);
		if (jt == b.at.end()) c.fail(pre + ".attr-missing" + valueClass(it->second, true), here + ": attribute '" + vf::vis(it->first, 80) + "' is gone");
		if (jt->second != it->second) c.fail(pre + ".attr" + valueClass(it->second, true), here + " @" + vf::vis(it->first, 80) + ": expected '" + vf::vis(it->second, 300) + "' got '" + vf::vis(jt->second, 300) + "'");
	}
	if (a.at.size() != b.at.size()) c.fail(pre + ".attr-extra", here + vf::fmt(": %d attributes expected, %d found", (int)a.at.size(), (int)b.at.size()));
	if (a.kids.size() != b.kids.size()) {
		std::string ra, rb;
		render(a, ra, 600);
		render(b, rb, 600);
		c.fail(pre + ".child-count", here + vf::fmt(": %d children expected, %d found; expected %s got %s", (int)a.kids.size(), (int)b.kids.size(), ra.c_str(), rb.c_str()));
	}
	for (size_t i = 0; i < a.kids.size(); i++) compareTrees(c, pre, a.kids[i], b.kids[i], here + vf::fmt("[%d]", (int)i));
}

// ---------------------------------------------------------------- generators: names and values
static const char* const UTF[] = {"\xc3\xa9", "\xc3\xb1", "\xce\xa9", "\xd0\x96", "\xe6\x97\xa5", "\xe2\x82\xac", "\xf0\x9d\x84\x9e", "\xc2\xa0", "\xef\xbb\xbf", "\xe2\x80\xa8"};
static const int NUTF = 10;
// name characters that are not ASCII (letters of several scripts, 2-4 byte sequences)
static const char* const UTFNAME[] = {"\xc3\xa9", "\xc3\xb1", "\xce\xa9", "\xd0\x96", "\xe6\x97\xa5", "\xe3\x81\x82", "\xf0\x90\x90\x80"};
static const int NUTFNAME = 7;

static std::string genName(vf::Rng& r, bool nonascii)
{
	static const char st[] = "ABCXYZabcdefgnpqrstxyz_:";
	static const char re[] = "ABCXYZabcdefgnpqrstxyz_:0123456789.-";
	std::string s;
	int len = r.chance(0.1) ? r.range(8, 40) : r.range(1, 6);
	for (int i = 0; i < len; i++) {
		if (nonascii && r.chance(0.2)) s += UTFNAME[r.below(NUTFNAME)];
		else if (i == 0) s += st[r.below(sizeof(st) - 1)];
		else s += re[r.below(sizeof(re) - 1)];
	}
	return s;
}

// arbitrary value (no NUL): markup characters, quotes, whitespace, control bytes, UTF-8, stray high bytes, markup-looking tokens
static std::string genValue(vf::Rng& r, bool tabcrlf)
{
	static const char* const toks[] = {"&amp;", "&#65;", "&#x41;", "]]>", "<!--", "-->", "<?", "?>", "<![CDATA[", "&", "&#", ";", "</", "/>", "</>", "&lt;", "<a>", "</a>", "=\"", "''", "\"\"", "&;", "&#x;"};
	std::string s;
	int len = r.chance(0.08) ? r.range(19, 300) : r.chance(0.1) ? 0 : r.range(1, 14);
	int flavour = r.below(6);  // 0: mostly plain, 1: markup heavy, 2: whitespace heavy, 3: bytes, 4/5: mixed
	for (int i = 0; i < len; i++) {
		int k = r.below(100);
		if (flavour == 0) k = k < 80 ? 99 : r.below(100);
		if (flavour == 1 && k >= 40) k = r.below(30);
		if (flavour == 2 && k >= 50) k = 30 + r.below(12);
		if (flavour == 3 && k >= 50) k = 42 + r.below(28);
		if (k < 20) s += "&<>\"'"[r.below(5)];
		else if (k < 30) s += toks[r.below(sizeof(toks) / sizeof(toks[0]))];
		else if (k < 36) s += ' ';
		else if (k < 42) s += tabcrlf ? "\t\r\n"[r.below(3)] : ' ';
		else if (k < 50) { char ch; do ch = (char)r.range(1, 31); while (ch == '\t' || ch == '\r' || ch == '\n'); s += r.chance(0.1) ? (char)0x7f : ch; }
		else if (k < 62) s += UTF[r.below(NUTF)];
		else if (k < 70) s += (char)r.range(0x80, 0xff);
		else s += (char)r.range(0x21, 0x7e);
	}
	return s;
}

static std::string genText(vf::Rng& r)
{
	if (r.chance(0.12)) {  // whitespace-only text (is dropped)
		std::string s;
		int n = r.range(1, 5);
		for (int i = 0; i < n; i++) s += " \t\r\n"[r.below(4)];
		return s;
	}
	return genValue(r, true);
}

// ---------------------------------------------------------------- generator: DOM trees
struct TreeGen
{
	vf::Rng& r;
	int target, budget, maxd;  // maxd: depth bound of the whole tree, text nodes included
	bool sole, nonascii, tabcrlf;
	TreeGen(vf::Rng& rr) : r(rr), target(1), budget(30), maxd(12), sole(false), nonascii(false), tabcrlf(true) {}

	Node textNode() { Node t; t.text = true; t.s = genText(r); return t; }

	// `spine` elements must reach the target depth
	Node elem(int depth, bool spine)
	{
		Node n;
		n.s = genName(r, nonascii);
		budget--;
		int na = r.chance(0.45) ? 0 : r.chance(0.8) ? r.range(1, 3) : r.range(4, 9);
		for (int i = 0; i < na; i++) n.at[genName(r, nonascii)] = genValue(r, tabcrlf);
		bool canDescend = depth < target;
		if (!canDescend || (!spine && (budget <= 0 || r.chance(0.35)))) {  // leaf: empty, or text
			int k = r.below(4);
			if (k == 0 || depth >= maxd) return n;
			if (k < 3 || sole) { n.kids.push_back(textNode()); return n; }
			int nt = r.range(2, 3);  // several adjacent text nodes
			for (int i = 0; i < nt; i++) n.kids.push_back(textNode());
			return n;
		}
		int nk = spine ? r.range(1, 4) : r.range(1, 5);
		int spineAt = spine ? (int)r.below(nk) : -1;
		for (int i = 0; i < nk; i++) {
			if (!sole && i != spineAt && r.chance(0.4)) { n.kids.push_back(textNode()); if (r.chance(0.2)) n.kids.push_back(textNode()); continue; }
			if (i != spineAt && budget <= 0) continue;
			n.kids.push_back(elem(depth + 1, i == spineAt));
			if (!sole && r.chance(0.25)) n.kids.push_back(textNode());
		}
		return n;
	}
};

// build the library tree through the public API, choosing among the equivalent ways of saying the same thing
static Xml buildXml(vf::Rng& r, const Node& n, std::map<std::string, int>& api)
{
	Map<> attrs;
	for (std::map<std::string, std::string>::const_iterator it = n.at.begin(); it != n.at.end(); ++it) attrs[S(it->first)] = S(it->second);
	bool soleText = n.kids.size() == 1 && n.kids[0].text;
	int how = r.below(soleText ? 6 : 3);
	bool kidsDone = false;
	Xml e;
	switch (how) {
	case 0: e = Xml(S(n.s)); for (std::map<std::string, std::string>::const_iterator it = n.at.begin(); it != n.at.end(); ++it) e.setAttr(S(it->first), S(it->second)); api["ctor(tag)+setAttr"]++; break;
	case 1: e = Xml(S(n.s), attrs); api["ctor(tag,attrs)"]++; break;
	case 2: e = Xml(S(n.s)); for (std::map<std::string, std::string>::const_iterator it = n.at.begin(); it != n.at.end(); ++it) e.attribs()[S(it->first)] = S(it->second); api["attribs()[k]=v"]++; break;
	case 3: e = Xml(S(n.s), attrs, S(n.kids[0].s)); kidsDone = true; api["ctor(tag,attrs,text)"]++; break;
	case 4: if (n.at.empty()) { e = Xml(S(n.s), S(n.kids[0].s)); api["ctor(tag,text)"]++; } else { e = Xml(S(n.s), attrs); e.put(S(n.kids[0].s)); api["put(text)"]++; } kidsDone = true; break;
	default: e = Xml(S(n.s), attrs); e << S(n.kids[0].s); kidsDone = true; api["<<String"]++; break;
	}
	if (!kidsDone) {
		for (size_t i = 0; i < n.kids.size(); i++) {
			const Node& k = n.kids[i];
			if (k.text) {
				if (r.chance(0.5)) { e << XmlText(S(k.s)); api["<<XmlText"]++; }
				else { e << S(k.s); api["<<String"]++; }  // appends to a preceding text node: same tree up to merging
			}
			else { e << buildXml(r, k, api); api["<<Xml"]++; }
		}
	}
	return e;
}

// ---------------------------------------------------------------- the judgement applied to any input of Xml::decode
struct Judged
{
	bool null;
	WalkStats ws;
	Judged() : null(true) {}
};

static void countDepth(vf::Ctx& c, const char* what, int d)
{
	const char* b = d <= 1 ? "1" : d <= 2 ? "2" : d <= 4 ? "3-4" : d <= 8 ? "5-8" : d <= 12 ? "9-12" : d <= 100 ? "13-100" : d <= 2000 ? "101-2000" : ">2000";
	c.count((std::string(what) + "_depth_" + b).c_str());
}

// decode one exact-size input; null, or a tree that passes the parent walk and can be encoded again (and the encoding
// decodes to the same tree when its names are well-formed in the property's sense)
static Judged judgeOne(vf::Ctx& c, const std::string& in, const char* src, bool reencode)
{
	Judged j;
	Xml x = Xml::decode(S(in));
	if (x.isnull()) c.fail(std::string("total.") + src + ".null-handle-returned", "decode returned a handle without a node (neither a null element nor a tree)");
	if (!x) {
		c.count("decode_null");
		if (x.isText()) c.count("decode_returned_text_node(recorded)");
		return j;
	}
	j.null = false;
	c.count("decode_tree");
	walkParents(c, x, src, j.ws);
	c.count("walk_elements", (uint64_t)j.ws.elems);
	c.count("walk_text_nodes", (uint64_t)j.ws.texts);
	if (j.ws.adjText) c.count("decoded_adjacent_text_nodes", (uint64_t)j.ws.adjText);
	countDepth(c, "decoded", j.ws.maxdepth);
	if (!reencode) return j;
	String e1 = Xml::encode(x, false);
	String e2 = Xml::encode(x, true);
	if ((int)strlen(*e1) != e1.length() || e1.length() == 0) c.fail(std::string("total.") + src + ".encode-compact-of-decoded-tree", vf::fmt("length()=%d strlen=%d", e1.length(), (int)strlen(*e1)));
	if ((int)strlen(*e2) != e2.length() || e2.length() == 0) c.fail(std::string("total.") + src + ".encode-indented-of-decoded-tree", vf::fmt("length()=%d strlen=%d", e2.length(), (int)strlen(*e2)));
	c.count("reencoded");
	Node m1;
	fromXml(x, m1);
	bool judgeEq = namesWellFormed(m1);
	int merges = 0, drops = 0;
	normalise(m1, &merges, &drops);
	if (merges) c.count("redecode_text_merges", (uint64_t)merges);
	Xml y = Xml::decode(String(*e1, e1.length()));
	if (!y) {
		if (judgeEq) c.fail(std::string("redecode.") + src + ".null-result", "compact encoding of a decoded tree does not decode: '" + vf::vis(str(e1), 600) + "'");
		c.count("redecode_unjudged_names");
		return j;
	}
	WalkStats w2;
	walkParents(c, y, "redecoded", w2);
	if (judgeEq) {
		Node m2;
		fromXml(y, m2);
		normalise(m2);
		compareTrees(c, std::string("redecode.") + src, m1, m2, "");
		c.count("redecode_equal");
	}
	else c.count("redecode_unjudged_names");
	// the indented output is decoded as well (totality + parents only: its text is in general not sole-child text)
	Xml z = Xml::decode(String(*e2, e2.length()));
	if (!!z) { WalkStats w3; walkParents(c, z, "redecoded-indented", w3); }
	return j;
}

// Inputs of >= 19 bytes sit flush against the end of their heap block. Shorter ones are stored inline, where ASan
// cannot see an over-read: they are run as they are and again padded with leading whitespace to 19 bytes.
static Judged judge(vf::Ctx& c, const std::string& in, const char* src, bool reencode = true)
{
	if (in.size() >= 19) return judgeOne(c, in, src, reencode);
	judgeOne(c, in, src, reencode);
	c.evals(1);
	return judgeOne(c, std::string(19 - in.size(), " \n\t\r"[in.size() % 4]) + in, src, reencode);
}

// ---------------------------------------------------------------- generator: documents as text
struct DocGen
{
	vf::Rng& r;
	bool tame;  // only constructs the decoder is known to accept (to obtain large accepted trees)
	int maxdepth, budget;
	std::string out, reg;
	std::map<std::string, int> lex;
	DocGen(vf::Rng& rr, bool t) : r(rr), tame(t), maxdepth(rr.range(1, 9)), budget(rr.range(1, 36)) {}

	void emit(const std::string& s, char g) { out += s; reg.append(s.size(), g); }
	std::string ws(bool required)
	{
		std::string s;
		int n = required ? r.range(1, 2) : (r.chance(0.25) ? r.range(1, 2) : 0);
		for (int i = 0; i < n; i++) s += " \t\r\n"[r.chance(0.6) ? 0 : r.below(4)];
		return s;
	}
	std::string name() { return genName(r, r.chance(0.2)); }
	std::string plain(int maxlen, const char* excl)
	{
		std::string s;
		int n = r.range(0, maxlen);
		for (int i = 0; i < n; i++) {
			char ch;
			int k = r.below(20);
			if (k < 13) ch = (char)r.range(0x20, 0x7e);
			else if (k < 15) ch = " \t\r\n"[r.below(4)];
			else if (k < 16) ch = (char)r.range(1, 31);
			else if (k < 18) { const char* u = UTF[r.below(NUTF)]; if (!strpbrk(u, excl)) { s += u; } continue; }
			else ch = (char)r.range(0x80, 0xff);
			if (strchr(excl, ch)) continue;
			s += ch;
		}
		return s;
	}
	void comment()
	{
		lex["comment"]++;
		std::string body = plain(12, "-");
		if (r.chance(0.3)) body += "<a b='1'>&amp;</a>";
		if (r.chance(0.2)) body += " - ";
		if (!tame && r.chance(0.15)) { body += "--"; lex["comment_with_double_dash"]++; }
		emit("<!--" + body + "-->", 'c');
	}
	void pi()
	{
		lex["pi"]++;
		std::string target = name();
		if (tame) { target = std::string(1, "abcxyzPQ"[r.below(8)]) + target; }
		else if (r.chance(0.15)) { target = r.chance(0.5) ? "" : "1x"; lex["pi_bad_target"]++; }
		emit("<?" + target + (r.chance(0.8) ? " " + plain(14, "?") : "") + (r.chance(0.2) ? " a=\"<b>\"" : "") + "?>", 'p');
	}
	void xmldecl()
	{
		lex["xmldecl"]++;
		std::string s = "<?xml version=\"1.0\"";
		if (r.chance(0.5)) s += " encoding=\"UTF-8\"";
		if (r.chance(0.2)) s += " standalone='yes'";
		if (!tame && r.chance(0.1)) { emit(s, 'd'); lex["xmldecl_unterminated"]++; return; }
		emit(s + ws(false) + "?>", 'd');
	}
	void doctype()
	{
		lex["doctype"]++;
		std::string s = "<!DOCTYPE" + ws(true) + name();
		if (r.chance(0.3)) s += " SYSTEM \"" + plain(10, "\"<>") + "\"";
		else if (r.chance(0.15)) s += " PUBLIC '-//X//Y' \"u.dtd\"";
		if (r.chance(0.7)) {
			lex["doctype_internal_subset"]++;
			s += ws(false) + "[";
			int n = r.range(0, 5);
			for (int i = 0; i < n; i++) {
				s += ws(false);
				switch (r.below(8)) {
				case 0: s += "<!ENTITY " + name() + " \"" + plain(8, "\"<>&%") + "\">"; break;
				case 1: s += "<!ENTITY " + name() + " \"<" + name() + "><b/>x</" + "e>\">"; lex["doctype_nested_angles"]++; break;
				case 2: s += "<!ELEMENT " + name() + " (a|b)*>"; break;
				case 3: s += "<!ATTLIST " + name() + " " + name() + " CDATA #IMPLIED>"; break;
				case 4: s += "<!-- " + plain(6, "-<>") + " -->"; lex["doctype_comment"]++; break;
				case 5: s += "<?" + std::string("pi ") + plain(5, "?<>") + "?>"; break;
				case 6: s += "%" + name() + ";"; break;
				default:
					if (!tame) { s += r.chance(0.5) ? "<!ENTITY gt \">\">" : "<!ENTITY lt '<'>"; lex["doctype_unbalanced_angle_in_quotes"]++; }
					else { s += "<!NOTATION n SYSTEM \"x\">"; }
					break;
				}
			}
			s += ws(false) + "]";
		}
		emit(s + ws(false) + ">", 'D');
	}
	void cdata()
	{
		lex["cdata"]++;
		std::string body = plain(10, "]");
		if (r.chance(0.4)) { body += "<x>&amp;</x>"; lex["cdata_with_markup"]++; }
		if (r.chance(0.2)) body += "]]";
		if (r.chance(0.2)) body += "] ]>";
		emit("<![CDATA[" + body + "]]>", 'C');
	}
	void ref()
	{
		int k = r.below(tame ? 12 : 20);
		std::string s;
		switch (k) {
		case 0: s = "&amp;"; lex["ref_amp"]++; break;
		case 1: s = "&lt;"; lex["ref_lt"]++; break;
		case 2: s = "&gt;"; lex["ref_gt"]++; break;
		case 3: s = "&quot;"; lex["ref_quot"]++; break;
		case 4: s = "&apos;"; lex["ref_apos"]++; break;
		case 5: s = "&" + name() + ";"; lex["ref_unknown_entity"]++; break;
		case 6: case 7: s = vf::fmt("&#%d;", r.chance(0.5) ? r.range(1, 127) : r.chance(0.5) ? r.range(128, 0xffff) : r.range(0x10000, 0x10ffff)); lex["ref_decimal"]++; break;
		case 8: case 9: s = vf::fmt(r.chance(0.5) ? "&#x%x;" : "&#x%X;", r.chance(0.5) ? r.range(1, 127) : r.chance(0.5) ? r.range(128, 0xffff) : r.range(0x10000, 0x10ffff)); lex["ref_hex"]++; break;
		case 10: { static const char* const h[] = {"&#99999999999;", "&#4294967296;", "&#2147483648;", "&#xFFFFFFFFFF;", "&#x110000;", "&#1114112;", "&#x7fffffff;", "&#xffffffff;", "&#18446744073709551616;", "&#xD800;", "&#0;", "&#x0;", "&#00000000000000000000065;"}; s = h[r.below(13)]; lex["ref_huge_or_out_of_range"]++; break; }
		case 11: { static const char* const h[] = {"&#-1;", "&#-65;", "&#x-41;", "&#-2147483648;", "&#-256;", "&#+65;"}; s = h[r.below(6)]; lex["ref_negative"]++; break; }
		case 12: case 13: { static const char* const h[] = {"&#;", "&#x;", "&;", "&#X41;", "&# 65;", "&#x 41;", "&#6 5;", "&#65x;", "&#xZZ;"}; s = h[r.below(9)]; lex["ref_empty_or_malformed"]++; break; }
		case 14: case 15: { static const char* const h[] = {"&#65", "&#x41", "&amp", "&", "&#", "&#x", "&lt"}; s = h[r.below(7)]; lex["ref_unterminated"]++; break; }
		case 16: { int n = r.range(20, 90); s = "&" + std::string((size_t)n, (char)('a' + r.below(26))) + ";"; lex["ref_long_name"]++; break; }
		case 17: { int n = r.range(20, 60); s = "&#" + std::string((size_t)n, (char)('0' + r.below(10))) + ";"; lex["ref_long_number"]++; break; }
		default: s = "&amp;&amp;&#38;#38;"; lex["ref_amp"]++; break;
		}
		emit(s, 'r');
	}
	void text()
	{
		lex["text"]++;
		emit(plain(r.chance(0.1) ? 60 : 10, "<&"), 'x');
		if (!tame && r.chance(0.08)) { emit("]]>", 'x'); lex["text_with_cdata_end"]++; }
	}
	void attr()
	{
		emit(ws(true), 't');
		if (!tame && r.chance(0.04)) { emit(name(), 'n'); lex["attr_without_value"]++; return; }
		emit(name(), 'n');
		emit(ws(false) + "=" + ws(false), 'n');
		if (!tame && r.chance(0.04)) { emit(plain(5, " \t\r\n<>&\"'/="), 'v'); lex["attr_unquoted"]++; return; }
		bool dq = r.chance(0.55);
		lex[dq ? "attr_double_quoted" : "attr_single_quoted"]++;
		emit(dq ? "\"" : "'", 'v');
		int n = r.range(0, 3);
		for (int i = 0; i < n; i++) {
			if (r.chance(0.3)) ref();
			else emit(plain(8, dq ? (tame ? "\"&<" : "\"&") : (tame ? "'&<" : "'&")), 'v');
		}
		emit(dq ? "\"" : "'", 'v');
	}
	void element(int depth)
	{
		budget--;
		std::string nm = name();
		emit("<" + nm, 't');
		int na = r.chance(0.4) ? 0 : r.range(1, 4);
		for (int i = 0; i < na; i++) attr();
		if (!tame && na && r.chance(0.05)) { attr(); lex["attrs_possibly_duplicate"]++; }
		emit(ws(false), 't');
		if (depth >= maxdepth || budget <= 0 || r.chance(0.25)) {
			if (r.chance(0.7)) { emit("/>", 't'); lex["self_closing"]++; return; }
			emit(">", 't');
			if (r.chance(0.6)) text();
			lex["empty_or_text_only_element"]++;
		}
		else {
			emit(">", 't');
			int n = r.range(1, 6);
			for (int i = 0; i < n; i++) {
				int k = r.below(tame ? 16 : 18);
				if (k < 5) text();
				else if (k < 10) element(depth + 1);
				else if (k < 12) comment();
				else if (k < 13) pi();
				else if (k < 16) ref();
				else cdata();
			}
		}
		if (!tame && r.chance(0.03)) { lex["end_tag_missing"]++; return; }
		if (!tame && r.chance(0.03)) { emit("</" + name() + ">", 'e'); lex["end_tag_mismatched"]++; return; }
		if (!tame && r.chance(0.06)) { emit("</" + nm + ws(true) + ">", 'e'); lex["end_tag_with_space"]++; return; }
		emit("</" + nm + ">", 'e');
	}
	void misc()
	{
		int n = r.range(0, 2);
		for (int i = 0; i < n; i++) {
			int k = r.below(3);
			if (k == 0) comment();
			else if (k == 1) pi();
			else emit(ws(true), 'w');
		}
	}
	void document()
	{
		if (!tame && r.chance(0.05)) { emit("\xef\xbb\xbf", 'w'); lex["bom"]++; }
		if (r.chance(0.5)) xmldecl();
		misc();
		if (r.chance(0.4)) { doctype(); misc(); }
		element(1);
		misc();
		if (!tame && r.chance(0.04)) { element(1); lex["second_root"]++; }
	}
	void flush(vf::Ctx& c)
	{
		for (std::map<std::string, int>::iterator it = lex.begin(); it != lex.end(); ++it) c.count(("lex_" + it->first).c_str(), (uint64_t)it->second);
	}
};

static std::string mutate(vf::Rng& r, std::string s, const std::string& other, std::map<std::string, int>& ops)
{
	static const char* const toks[] = {"</>", "</a>", "<!--", "-->", "]]>", "<![CDATA[", "<?", "?>", "&#", "&#x;", "&#;", "&", ";", "<", ">", "/>", "\"", "'", "=", "<!DOCTYPE", "<!", "[", "]",
	                                   "<a", "</", "&#x110000;", "&#-1;", "&#99999999999;", "\xff", "\x01", "<?xml", "--", "<a>", "<a/>", "<!ENTITY", "&amp;", " ", "\n", "<a b=\"", "<a b='", "/", "!", "?", "<!-"};
	int nm = r.range(1, 4);
	for (int i = 0; i < nm; i++) {
		int w = r.below(9);
		size_t n = s.size();
		size_t pos = n ? r.below((uint32_t)n) : 0;
		switch (w) {
		case 0: s.resize(pos); ops["mut_truncate"]++; break;
		case 1: if (n) s.erase(pos, (size_t)r.range(1, 6)); ops["mut_delete"]++; break;
		case 2: if (n) { size_t len = (size_t)r.range(1, 16); s.insert(pos, s.substr(pos, len)); } ops["mut_duplicate"]++; break;
		case 3: if (other.size()) { size_t a = r.below((uint32_t)other.size()); s.insert(pos, other.substr(a, (size_t)r.range(1, 40))); } ops["mut_splice"]++; break;
		case 4: if (n) s[pos] = (char)(s[pos] ^ (1 << r.below(8))); ops["mut_bitflip"]++; break;
		case 5: if (n) s[pos] = (char)r.range(1, 255); ops["mut_byte"]++; break;
		default: s.insert(pos, toks[r.below(sizeof(toks) / sizeof(toks[0]))]); ops["mut_token"]++; break;
		}
	}
	return s;
}

// The byte sequence "</>" is necessary for the surplus-end-tag defect (the end-tag name must be empty to match the
// seeded root): the clean modes break every occurrence with a space; mode `surplus` keeps them.
static int neutralise(std::string& s)
{
	int n = 0;
	size_t p = 0;
	while ((p = s.find("</>", p)) != std::string::npos) { s.insert(p + 2, " "); n++; p += 3; }
	return n;
}

static void flushOps(vf::Ctx& c, std::map<std::string, int>& ops)
{
	for (std::map<std::string, int>::iterator it = ops.begin(); it != ops.end(); ++it) c.count(it->first.c_str(), (uint64_t)it->second);
}

// ================================================================ modes
// ---------------------------------------------------------------- roundtrip
static void m_roundtrip(vf::Ctx& c)
{
	TreeGen g(c.rng);
	long maxd = c.opt->param("maxdepth", 12);
	g.maxd = (int)maxd;
	g.target = c.idx % 5 == 0 ? (int)maxd : c.rng.range(1, (int)maxd);
	g.budget = c.rng.chance(0.1) ? c.rng.range(60, 200) : c.rng.range(1, 40);
	g.sole = c.rng.chance(0.4);
	g.nonascii = c.rng.chance(0.35);
	g.tabcrlf = c.rng.chance(0.6);
	Node m = g.elem(1, true);
	std::string d;
	render(m, d);
	c.desc(std::string(g.sole ? "sole-text " : "mixed ") + "tree: " + d);
	std::map<std::string, int> api;
	Xml x = buildXml(c.rng, m, api);
	flushOps(c, api);
	int nodes = countNodes(m), depth = depthOf(m);
	countDepth(c, "model", depth);
	c.count(g.sole ? "trees_sole_text" : "trees_mixed_content");
	if (g.nonascii) c.count("trees_with_non_ascii_names");
	Node mn = m;
	int merges = 0, drops = 0;
	normalise(mn, &merges, &drops);
	if (merges) c.count("model_text_merges", (uint64_t)merges);
	if (drops) c.count("model_whitespace_only_text_dropped", (uint64_t)drops);

	for (int mode = 0; mode < (g.sole ? 2 : 1); mode++) {
		const char* pre = mode ? "roundtrip.indented" : "roundtrip.compact";
		c.op(mode ? "encode(indented)" : "encode(compact)");
		String enc = Xml::encode(x, mode == 1);
		if ((int)strlen(*enc) != enc.length()) c.fail(std::string(pre) + ".encoding-has-embedded-nul-or-bad-length", vf::fmt("length()=%d strlen=%d", enc.length(), (int)strlen(*enc)));
		std::string es = str(enc);
		if (es.size() < 19) es = std::string(19 - es.size(), ' ') + es;
		c.op("decode '" + vf::vis(es, 1500) + "'");
		Xml y = Xml::decode(S(es));
		if (!y) c.fail(std::string(pre) + ".null-result", "the library's own output is rejected");
		WalkStats ws;
		walkParents(c, y, mode ? "roundtrip-indented" : "roundtrip-compact", ws);
		c.count("walk_elements", (uint64_t)ws.elems);
		c.count("walk_text_nodes", (uint64_t)ws.texts);
		Node o;
		fromXml(y, o);
		normalise(o);
		compareTrees(c, pre, mn, o, "");
		c.count(mode ? "roundtrips_indented_ok" : "roundtrips_compact_ok");
		c.evals(mode);
	}
	// through a file (Xml::write emits a declaration and the indented form): recorded, not judged - the statement is about encode/decode
	if (g.sole && c.idx % 16 == 3 && !scratchDir.empty()) {
		std::string path = scratchDir + vf::fmt("/rt_%d_%llu.xml", (int)getpid(), (unsigned long long)c.idx);
		bool same = false;
		if (Xml::write(x, S(path))) {
			Xml y = Xml::read(S(path));
			if (!!y) { Node o; fromXml(y, o); normalise(o); std::string a, b; canon(mn, a); canon(o, b); same = a == b; }
		}
		unlink(path.c_str());
		c.count(same ? "file_write_read_same(recorded)" : "file_write_read_differs(recorded)");
	}
	bool special = d.find_first_of("&<>\"'") != std::string::npos;
	if (nodes >= 3 || special) { std::string cn; canon(m, cn); c.distinct(vf::fnv(cn)); }
	if (c.want_sample()) c.sample((g.sole ? "sole-text tree " : "mixed tree ") + d.substr(0, 500));
}

// ---------------------------------------------------------------- parents
static void m_parents(vf::Ctx& c)
{
	int kind = (int)c.rng.below(10);
	std::string text;
	const char* src;
	std::map<std::string, int> ops;
	if (kind < 5) {  // documents the decoder accepts: big trees
		DocGen g(c.rng, true);
		if (c.rng.chance(0.2)) { g.budget = c.rng.range(40, 300); g.maxdepth = c.rng.range(4, 40); }
		g.document();
		g.flush(c);
		text = g.out;
		src = "generated";
	}
	else if (kind < 7) {  // lightly mutated
		DocGen g(c.rng, c.rng.chance(0.7));
		g.document();
		DocGen g2(c.rng, true);
		g2.document();
		text = mutate(c.rng, g.out, g2.out, ops);
		src = "mutated";
	}
	else {  // round-trip outputs of random DOM trees
		TreeGen g(c.rng);
		g.target = c.rng.range(1, 12);
		g.budget = c.rng.range(1, 60);
		g.sole = c.rng.chance(0.5);
		g.nonascii = c.rng.chance(0.3);
		Node m = g.elem(1, true);
		std::map<std::string, int> api;
		Xml x = buildXml(c.rng, m, api);
		text = str(Xml::encode(x, g.sole && c.rng.chance(0.5)));
		src = "roundtrip-output";
	}
	c.count("neutralised_empty_end_tags", (uint64_t)neutralise(text));
	flushOps(c, ops);
	c.desc(std::string(src) + " document: " + vf::vis(text, 3000));
	Judged j = judge(c, text, src);
	c.count((std::string("source_") + src + (j.null ? "_null" : "_tree")).c_str());
	if (!j.null && j.ws.elems + j.ws.texts >= 2) c.distinct(vf::fnv(text));
	if (!j.null && c.want_sample()) c.sample(vf::vis(text, 300));
}

// ---------------------------------------------------------------- total
static std::string genHostileInput(vf::Ctx& c, std::map<std::string, int>& ops)
{
	std::string text;
	int kind = (int)c.rng.below(20);
	if (kind < 4) {  // generated, unmutated, all lexical situations
		DocGen g(c.rng, false);
		g.document();
		g.flush(c);
		text = g.out;
		c.count("input_generated_document");
	}
	else if (kind < 14) {
		DocGen g(c.rng, c.rng.chance(0.4));
		g.document();
		g.flush(c);
		DocGen g2(c.rng, false);
		g2.document();
		text = mutate(c.rng, g.out, g2.out, ops);
		c.count("input_mutated_document");
	}
	else if (kind < 18) {  // markup alphabet soup
		static const char* const a[] = {"<", ">", "/", "!", "?", "-", "[", "]", "&", "#", "x", ";", "=", "\"", "'", " ", "a", "b", ":", "1", "\n", "\t", "<a", "</a", "<!--", "-->", "<![CDATA[", "]]>", "<?a", "?>", "<!DOCTYPE a", "\xc3\xa9", "\xff", "\x01", "&#", "&#x"};
		int n = c.rng.range(0, 60);
		for (int i = 0; i < n; i++) text += a[c.rng.below(sizeof(a) / sizeof(a[0]))];
		c.count("input_markup_soup");
	}
	else {  // raw bytes; some with NULs
		int n = c.rng.chance(0.2) ? c.rng.range(200, 2000) : c.rng.range(0, 200);
		bool nul = c.rng.chance(0.15);
		for (int i = 0; i < n; i++) text += (char)c.rng.range(nul ? 0 : 1, 255);
		if (c.rng.chance(0.3)) text = "<?xml" + text;
		c.count(nul ? "input_raw_bytes_with_nul" : "input_raw_bytes");
	}
	return text;
}

static void m_total(vf::Ctx& c)
{
	std::map<std::string, int> ops;
	std::string text = genHostileInput(c, ops);
	c.count("neutralised_empty_end_tags", (uint64_t)neutralise(text));
	flushOps(c, ops);
	c.desc("input (" + std::to_string(text.size()) + " bytes): " + vf::vis(text, 3000));
	judge(c, text, "input");
	if (text.find_first_of("<&") != std::string::npos) c.distinct(vf::fnv(text));
	if (c.want_sample()) c.sample(vf::vis(text, 200));
}

// ---------------------------------------------------------------- trunc: every prefix
static void m_trunc(vf::Ctx& c)
{
	size_t maxlen = (size_t)c.opt->param("maxlen", 300);
	std::string text, reg;
	bool regions = false;
	std::map<std::string, int> ops;
	for (int tries = 0; tries < 8; tries++) {
		DocGen g(c.rng, c.rng.chance(0.5));
		g.budget = c.rng.range(1, 8 - tries > 1 ? 8 - tries : 1);
		g.maxdepth = c.rng.range(1, 5);
		g.document();
		if (g.out.size() > maxlen && tries < 7) continue;
		text = g.out;
		reg = g.reg;
		g.flush(c);
		break;
	}
	if (c.rng.chance(0.3)) {
		DocGen g2(c.rng, false);
		g2.document();
		text = mutate(c.rng, text, g2.out, ops);
		c.count("docs_mutated_before_truncation");
	}
	else regions = true;
	if (text.size() > maxlen) { text.resize(maxlen); if (reg.size() > maxlen) reg.resize(maxlen); c.count("docs_cut_to_maxlen"); }
	if (neutralise(text)) regions = false;
	flushOps(c, ops);
	size_t n = text.size();
	int trees = 0;
	for (size_t p = 0; p <= n; p++) {
		std::string pre = text.substr(0, p);
		c.desc(vf::fmt("prefix of length %d of (%d bytes): ", (int)p, (int)n) + vf::vis(text, 2000));
		Judged j = judge(c, pre, "truncated", p % 4 == 0 || p + 8 >= n);
		if (!j.null) trees++;
		c.evals(1);
		c.count("truncation_offsets");
		if (regions && p < n) {
			const char* rn = "other";
			switch (reg[p]) {  // the region the first missing byte belonged to
			case 't': rn = "start_tag"; break;
			case 'n': rn = "attr_name_or_equals"; break;
			case 'v': rn = "attr_value"; break;
			case 'e': rn = "end_tag"; break;
			case 'c': rn = "comment"; break;
			case 'p': rn = "pi"; break;
			case 'd': rn = "xmldecl"; break;
			case 'D': rn = "doctype"; break;
			case 'C': rn = "cdata"; break;
			case 'r': rn = "reference"; break;
			case 'x': rn = "text"; break;
			case 'w': rn = "prolog_space"; break;
			}
			c.count((std::string("cut_in_") + rn).c_str());
		}
	}
	c.count("prefixes_decoded_to_a_tree", (uint64_t)trees);
	if (n >= 19) c.distinct(vf::fnv(text));
	if (c.want_sample()) c.sample(vf::vis(text, 300));
}

// ---------------------------------------------------------------- decode_mt: the first decodes of a process, in several threads at once
// Each case runs in a freshly forked process (batch=1), so these are the first calls of Xml::decode there. Every thread works on
// its own texts and trees (beyond the stated quantifier, which has no schedules; lazily initialised process-wide tables fail here).
static void m_decode_mt(vf::Ctx& c)
{
	int T = c.rng.range(2, 6), rounds = 25;
	uint64_t seed = c.rng.next();
	c.desc(vf::fmt("%d threads released together, each decoding %d documents with entities and character references, first use of the parser in this process", T, rounds));
	std::atomic<int> go(0), bad(0);
	std::mutex mu;
	std::string why;
	std::vector<std::thread> th;
	for (int t = 0; t < T; t++)
		th.emplace_back([&, t]() {
			vf::Rng r(vf::mix(seed, t));
			while (!go.load()) {}
			for (int k = 0; k < rounds; k++) {
				static const char* ENT[] = {"&amp;", "&lt;", "&gt;", "&quot;", "&apos;", "&#65;", "&#x42;"};
				static const char* VAL[] = {"&", "<", ">", "\"", "'", "A", "B"};
				std::string text, want, att, wantAtt;
				int n = r.range(1, 8);
				for (int i = 0; i < n; i++) { int e = (int)r.below(7); text += ENT[e]; want += VAL[e]; text += (char)('a' + r.below(26)); want += text[text.size() - 1]; }
				n = r.range(0, 5);
				for (int i = 0; i < n; i++) { int e = (int)r.below(7); att += ENT[e]; wantAtt += VAL[e]; }
				std::string doc = "<r a=\"" + att + "\"><t>" + text + "</t></r>";
				Xml x = Xml::decode(String(doc.c_str(), (int)doc.size()));
				std::string got = x ? std::string(*x("t").text()) : std::string("<null>");
				std::string gotAtt = x ? std::string(*x["a"]) : std::string("<null>");
				if (got != want || gotAtt != wantAtt) { bad++; std::lock_guard<std::mutex> l(mu); if (why.empty()) why = vf::fmt("thread %d document %d '%s': text '%s' (expected '%s'), attribute '%s' (expected '%s')", t, k, vf::vis(doc, 120).c_str(), vf::vis(got, 60).c_str(), vf::vis(want, 60).c_str(), vf::vis(gotAtt, 40).c_str(), vf::vis(wantAtt, 40).c_str()); }
			}
		});
	go = 1;
	for (auto& x : th) x.join();
	if (bad) c.fail("decode-mt.value-differs", vf::fmt("%d wrong; ", (int)bad) + why);
	c.evals((uint64_t)T * rounds);
	c.distinct(seed);
	if (c.want_sample()) c.sample(c.curdesc());
}

// ---------------------------------------------------------------- surplus: "</>" with only the seeded root open (isolated defect)
static void m_surplus(vf::Ctx& c)
{
	std::string text;
	std::map<std::string, int> ops;
	int form = c.idx < 12 ? (int)c.idx : (int)c.rng.below(12);
	DocGen g(c.rng, true);
	g.budget = c.rng.range(1, 10);
	g.document();
	switch (form) {
	case 0: text = "</>"; break;
	case 1: text = g.out + "</>"; break;
	case 2: text = "</>" + g.out; break;
	case 3: text = "<a/></>"; break;
	case 4: text = "<a></a></></>"; break;
	case 5: text = "<!-- c --></>" + g.out; break;
	case 6: text = "<?xml version=\"1.0\"?></><a/>"; break;
	case 7: text = g.out + " text </>" + (c.rng.chance(0.5) ? "<b/>" : ""); break;
	case 8: { text = g.out; int n = c.rng.range(1, 5); for (int i = 0; i < n; i++) text += "</>"; break; }
	case 9: { text = g.out; size_t p = c.rng.below((uint32_t)text.size() + 1); text.insert(p, "</>"); break; }  // anywhere: nested, in a comment, in a value
	case 10: { DocGen g2(c.rng, false); g2.document(); text = mutate(c.rng, g.out, g2.out, ops) + "</>"; break; }
	default: { std::string t = g.out; size_t p = t.find('>'); text = (p == std::string::npos ? t : t.substr(0, p + 1)) + "</>"; break; }  // "<root ...></>": one element open, must be a plain mismatch
	}
	flushOps(c, ops);
	c.count(vf::fmt("form_%d", form).c_str());
	c.desc("input with empty end tag(s): " + vf::vis(text, 3000));
	Judged j = judge(c, text, "surplus-end-tag");
	c.count(j.null ? "surplus_result_null" : "surplus_result_tree");
	c.distinct(vf::fnv(text));
	if (c.want_sample()) c.sample(vf::vis(text, 200));
}

// ---------------------------------------------------------------- deep: nesting far beyond the round-trip bound (isolated defect)
static void m_deep(vf::Ctx& c)
{
	static const int depths[] = {200, 600, 1000, 1900, 3000, 10000, 30000, 100000, 300000};
	int nd = (int)c.opt->param("ndepths", 9);
	int d = depths[c.idx % nd];
	int form = (int)(c.idx / nd) % 6;
	std::string text;
	if (form == 0) { for (int i = 0; i < d; i++) text += "<a>"; }  // never closed
	else if (form == 1) { for (int i = 0; i < d; i++) text += "<a>"; for (int i = 0; i < d; i++) text += "</a>"; }
	else if (form == 2) { for (int i = 0; i < d; i++) text += "<a>"; for (int i = 0; i < d; i++) text += "</a>"; text += "<>"; }  // built, then rejected: destroyed inside decode
	else if (form == 3) { for (int i = 0; i < d; i++) text += "<b k=\"v\">t"; text += "<c/>"; for (int i = 0; i < d; i++) text += "</b>"; }
	else if (form == 4) { for (int i = 0; i < d; i++) text += "<a>"; text += "x"; for (int i = 0; i < d - 1; i++) text += "</a>"; }  // root left open
	else { for (int i = 0; i < d; i++) text += (i & 1) ? "<\xc3\xa9 a='1'>" : "<e>"; for (int i = d - 1; i >= 0; i--) text += (i & 1) ? "</\xc3\xa9>" : "</e>"; }
	c.desc(vf::fmt("nesting depth %d form %d (%d bytes)", d, form, (int)text.size()));
	{
		Judged j = judge(c, text, "deep", false);
		c.count(j.null ? "deep_result_null" : "deep_result_tree");
		if (!j.null) c.count(vf::fmt("deep_tree_of_depth_%d", j.ws.maxdepth).c_str());
	}
	c.distinct((uint64_t)d * 8 + form);
	if (c.want_sample()) c.sample(c.curdesc());
}

int main(int argc, char** argv)
{
	vf::Runner R;
	R.add("roundtrip", m_roundtrip, "random DOM trees to depth 12: decode(encode(t)) equals t up to text merging / whitespace-only text; compact, and indented for sole-child text");
	R.add("parents", m_parents, "parent links of every node below the root of whatever decode returns (generated, mutated, round-trip outputs)");
	R.add("total", m_total, "generated/mutated documents, markup soup and raw bytes: terminates, no memory error, null or a walkable, re-encodable tree");
	R.add("trunc", m_trunc, "every prefix of generated documents up to ~300 bytes");
	R.add("decode_mt", m_decode_mt, "first decodes of a fresh process in several threads at once");
	R.add("surplus", m_surplus, "isolated defect: empty end tag '</>' while only the parser's seeded root is open");
	R.add("deep", m_deep, "isolated defect: nesting of 200..300000 levels");
	R.setup = [](const vf::Options& o) {
		scratchDir = o.out + "/files";
		mkdir(scratchDir.c_str(), 0777);
	};
	return R.main(argc, argv);
}
