// C08: UTF-8/16/32 conversions lossless on valid text and safe on any bytes; count()/chars()/iteration agree;
// case mapping never longer than its input; equalsNocase <=> equality of lower-cased forms; ASCII = C locale.
//
// Oracle: the small reference encoder/decoder below (enc8/enc16/dec8/dec16). It is itself validated offline
// against python3 `codecs` by the plan's post= function on the records dumped with --param dump=N.
// Memory clause: every asl String under test is a heap String of length >= 19 built with String(const char*, int)
// (allocation = len+1 bytes, so the terminator is the last byte of the block); raw `const char*` / `const wchar_t*` /
// `const int*` inputs and all output buffers are exact-size malloc blocks.
#include "common/runner.h"
#include <asl/String.h>
#include <asl/Array.h>
#include <ctype.h>
#include <wchar.h>
#include <locale.h>

using namespace asl;

typedef std::vector<uint32_t> U32;
typedef std::vector<uint16_t> U16;

// ------------------------------------------------------------------ reference codec (the oracle)
static int enc8(uint32_t c, unsigned char* o)
{
	if (c < 0x80) { o[0] = (unsigned char)c; return 1; }
	if (c < 0x800) { o[0] = (unsigned char)(0xC0 | (c >> 6)); o[1] = (unsigned char)(0x80 | (c & 0x3F)); return 2; }
	if (c < 0x10000) { o[0] = (unsigned char)(0xE0 | (c >> 12)); o[1] = (unsigned char)(0x80 | ((c >> 6) & 0x3F)); o[2] = (unsigned char)(0x80 | (c & 0x3F)); return 3; }
	o[0] = (unsigned char)(0xF0 | (c >> 18)); o[1] = (unsigned char)(0x80 | ((c >> 12) & 0x3F));
	o[2] = (unsigned char)(0x80 | ((c >> 6) & 0x3F)); o[3] = (unsigned char)(0x80 | (c & 0x3F));
	return 4;
}
static int enc16(uint32_t c, uint16_t* o)
{
	if (c < 0x10000) { o[0] = (uint16_t)c; return 1; }
	c -= 0x10000;
	o[0] = (uint16_t)(0xD800 + (c >> 10)); o[1] = (uint16_t)(0xDC00 + (c & 0x3FF));
	return 2;
}
// strict UTF-8 decoder (Unicode table 3-7): bytes consumed, or 0 if no well-formed sequence starts at s
static int dec8(const unsigned char* s, size_t n, uint32_t& cp)
{
	if (!n) return 0;
	unsigned b = s[0];
	if (b < 0x80) { cp = b; return 1; }
	int len; uint32_t lo;
	if (b >= 0xC2 && b <= 0xDF) { len = 2; cp = b & 0x1F; lo = 0x80; }
	else if (b >= 0xE0 && b <= 0xEF) { len = 3; cp = b & 0x0F; lo = 0x800; }
	else if (b >= 0xF0 && b <= 0xF4) { len = 4; cp = b & 0x07; lo = 0x10000; }
	else return 0;
	if (n < (size_t)len) return 0;
	for (int i = 1; i < len; i++) { if ((s[i] & 0xC0) != 0x80) return 0; cp = (cp << 6) | (s[i] & 0x3F); }
	if (cp < lo || cp > 0x10FFFF || (cp >= 0xD800 && cp <= 0xDFFF)) return 0;
	return len;
}
static int dec16(const uint16_t* s, size_t n, uint32_t& cp)
{
	if (!n) return 0;
	if (s[0] < 0xD800 || s[0] > 0xDFFF) { cp = s[0]; return 1; }
	if (s[0] >= 0xDC00 || n < 2 || s[1] < 0xDC00 || s[1] > 0xDFFF) return 0;
	cp = 0x10000 + (((uint32_t)s[0] - 0xD800) << 10) + (s[1] - 0xDC00);
	return 2;
}
static std::string enc8s(const U32& v)
{
	std::string s;
	unsigned char b[4];
	for (size_t i = 0; i < v.size(); i++) s.append((const char*)b, enc8(v[i], b));
	return s;
}
static U16 enc16s(const U32& v)
{
	U16 s;
	uint16_t b[2];
	for (size_t i = 0; i < v.size(); i++) { int n = enc16(v[i], b); s.insert(s.end(), b, b + n); }
	return s;
}
static bool decode_all(const std::string& s, U32& out)
{
	out.clear();
	size_t i = 0;
	while (i < s.size()) {
		uint32_t cp;
		int n = dec8((const unsigned char*)s.data() + i, s.size() - i, cp);
		if (!n || cp == 0) return false;
		out.push_back(cp);
		i += n;
	}
	return true;
}
static bool wellformed(const char* p, int n) { U32 t; return decode_all(std::string(p, n), t); }
static bool is_scalar(uint32_t c) { return c >= 1 && c <= 0x10FFFF && !(c >= 0xD800 && c <= 0xDFFF); }

// ------------------------------------------------------------------ helpers
static const std::string PAD = "Pad-Prefix_19bytes:";  // 19 ASCII bytes: pad + anything = heap String of exactly len+1 bytes
static U32 PADCPS;
static FILE* recf = 0;
static long AVOID = 0;  // bit0: do not call count() on strings ending in a 2-byte lead; bit1: do not judge length()==strlen of case maps on ill-formed input

struct Buf
{
	void* p;
	size_t n;
	explicit Buf(size_t n_) : p(malloc(n_ ? n_ : 1)), n(n_) { if (!p) throw std::bad_alloc(); memset(p, 0x5A, n_ ? n_ : 1); }
	~Buf() { free(p); }
	char* c() { return (char*)p; }
	int* i() { return (int*)p; }
	wchar_t* w() { return (wchar_t*)p; }
private:
	Buf(const Buf&);
	void operator=(const Buf&);
};
struct CStr  // exact malloc(len+1) copy of a byte string
{
	Buf b;
	explicit CStr(const std::string& s) : b(s.size() + 1) { memcpy(b.p, s.data(), s.size()); b.c()[s.size()] = 0; }
	const char* p() { return b.c(); }
};

static String exact(const std::string& s) { return String(s.data(), (int)s.size()); }
static bool same(const String& a, const std::string& b) { return a.length() == (int)b.size() && memcmp(*a, b.data(), b.size()) == 0 && (*a)[b.size()] == 0; }
static bool same(const String& a, const String& b) { return a.length() == b.length() && memcmp(*a, *b, a.length() + 1) == 0; }
static bool lenok(const String& a) { return a.length() >= 0 && (int)strlen(*a) == a.length(); }
static std::string hx(const String& a) { return vf::hex(*a, a.length() < 64 ? a.length() : 64); }
static std::string cpstr(const U32& v, size_t maxn = 24)
{
	std::string s;
	for (size_t i = 0; i < v.size() && i < maxn; i++) s += vf::fmt(i ? " U+%04X" : "U+%04X", v[i]);
	if (v.size() > maxn) s += vf::fmt(" ..+%d", (int)(v.size() - maxn));
	return s;
}
static U32 cat(const U32& a, const U32& b) { U32 r(a); r.insert(r.end(), b.begin(), b.end()); return r; }

// boundary scalars: both sides of every encoding-length boundary, surrogate gap, plane edges, case-table cut-over
static const uint32_t BOUND[] = {0x1, 0x41, 0x5A, 0x61, 0x7A, 0x7E, 0x7F, 0x80, 0x81, 0xB5, 0xDF, 0xE9, 0xFF, 0x100, 0x130, 0x131, 0x17F, 0x3A3, 0x3C2,
                                 0x586, 0x587, 0x588, 0x5A2, 0x5A3, 0x7FE, 0x7FF, 0x800, 0x801, 0xFFF, 0x1000, 0x20AC, 0xD7FF, 0xE000, 0xFEFF, 0xFFFD,
                                 0xFFFE, 0xFFFF, 0x10000, 0x10001, 0x1F600, 0xFFFFF, 0x100000, 0x10FFFE, 0x10FFFF};
static const int NBOUND = sizeof(BOUND) / sizeof(BOUND[0]);
static bool near_boundary(uint32_t cp)
{
	for (int i = 0; i < NBOUND; i++) if (cp + 2 >= BOUND[i] && cp <= BOUND[i] + 2) return true;
	return false;
}

#define FAILF(key, ...) c.fail(key, vf::fmt(__VA_ARGS__))

// iterate with range-for; returns number of code points, compares with `want` if given
static int iterate(const String& s, const U32* want, bool& equal, int cap)
{
	int n = 0;
	equal = true;
	for (int code : s) {
		if (want && (n >= (int)want->size() || (uint32_t)code != (*want)[n])) equal = false;
		if (++n > cap) break;
	}
	if (want && n != (int)want->size()) equal = false;
	return n;
}

// eq(a,b) <=> lower(a)==lower(b)
static bool nocase_agrees(const String& a, const String& b, bool& eq)
{
	eq = a.equalsNocase(b);
	bool eqr = b.equalsNocase(a);
	String la = a.toLowerCase(), lb = b.toLowerCase();
	bool m = same(la, lb);
	return eq == m && eqr == m;
}

// ------------------------------------------------------------------ well-formed text: everything judged
static void check_valid(vf::Ctx& c, const U32& cps)
{
	const int k = (int)cps.size();
	const std::string u8 = enc8s(cps);
	const U16 u16 = enc16s(cps);
	const int nb = (int)u8.size(), nu = (int)u16.size();
	c.desc("scalars [" + cpstr(cps) + "]");

	{   // UTF-32 -> UTF-8, exact input and output blocks
		Buf in((k + 1) * sizeof(int));
		for (int i = 0; i < k; i++) in.i()[i] = (int)cps[i];
		in.i()[k] = 0;
		Buf out(nb + 1);
		int r = utf32toUtf8(in.i(), out.c(), k > 0 ? k : 1);
		if (r != nb || memcmp(out.p, u8.c_str(), nb + 1) != 0) FAILF("valid.utf32toUtf8", "returned %d, bytes %s; reference %d, %s", r, vf::hex(out.p, nb + 1).c_str(), nb, vf::hex(u8).c_str());
	}
	{   // UTF-8 -> UTF-32
		CStr in(u8);
		Buf out((k + 1) * sizeof(int));
		int r = utf8toUtf32(in.p(), out.i(), k > 0 ? k : 1);
		bool ok = r == k && out.i()[k] == 0;
		for (int i = 0; ok && i < k; i++) ok = (uint32_t)out.i()[i] == cps[i];
		if (!ok) FAILF("valid.utf8toUtf32", "returned %d (reference %d) or wrong values: first %s", r, k, vf::hex(out.p, 4).c_str());
	}
	{   // UTF-8 -> UTF-16 -> UTF-8 (16-bit units stored one per wchar_t)
		CStr in(u8);
		Buf w((nu + 1) * sizeof(wchar_t));
		int r = utf8toUtf16(in.p(), w.w(), nb > 0 ? nb : 1);
		bool ok = r == nu && w.w()[nu] == 0;
		for (int i = 0; ok && i < nu; i++) ok = (uint32_t)w.w()[i] == u16[i];
		if (!ok) FAILF("valid.utf8toUtf16", "returned %d units (reference %d) or wrong unit values", r, nu);
		Buf back(nb + 1);
		int r2 = utf16toUtf8(w.w(), back.c(), nu > 0 ? nu : 1);
		if (r2 != nb || memcmp(back.p, u8.c_str(), nb + 1) != 0) FAILF("valid.utf16toUtf8", "returned %d, bytes %s; reference %d, %s", r2, vf::hex(back.p, nb + 1).c_str(), nb, vf::hex(u8).c_str());
		String fromw(w.w());
		if (!same(fromw, u8)) FAILF("valid.String(wchar_t*)", "got %s (length %d), reference %s", hx(fromw).c_str(), fromw.length(), vf::hex(u8).c_str());
		Array<wchar_t> wa(nu);
		for (int i = 0; i < nu; i++) wa[i] = (wchar_t)u16[i];
		String froma(wa);
		if (!same(froma, u8)) FAILF("valid.String(Array<wchar_t>)", "got %s (length %d), reference %s", hx(froma).c_str(), froma.length(), vf::hex(u8).c_str());
	}
	if (k >= 2) {   // a binding limit: only the first n characters are converted, into blocks of exactly the size n characters can need
		int lims[3] = {1, k / 2, k - 1};
		for (int li = 0; li < 3; li++) {
			int n = lims[li];
			if (n < 1 || (li > 0 && n == lims[li - 1])) continue;
			U32 head(cps.begin(), cps.begin() + n);
			const std::string h8 = enc8s(head);
			const U16 h16 = enc16s(head);
			{
				CStr in(u8);
				Buf w((2 * n + 1) * sizeof(wchar_t));
				int r = utf8toUtf16(in.p(), w.w(), n);
				bool ok = r == (int)h16.size() && w.w()[r] == 0;
				for (int i = 0; ok && i < r; i++) ok = (uint32_t)w.w()[i] == h16[i];
				if (!ok) FAILF("valid.limit.utf8toUtf16", "limit %d of %d characters: returned %d units, the first %d characters need %d", n, k, r, n, (int)h16.size());
			}
			{
				CStr in(u8);
				Buf out((n + 1) * sizeof(int));
				int r = utf8toUtf32(in.p(), out.i(), n);
				bool ok = r == n && out.i()[n] == 0;
				for (int i = 0; ok && i < n; i++) ok = (uint32_t)out.i()[i] == cps[i];
				if (!ok) FAILF("valid.limit.utf8toUtf32", "limit %d of %d characters: returned %d", n, k, r);
			}
			{
				Buf in((nu + 1) * sizeof(wchar_t));
				for (int i = 0; i < nu; i++) in.w()[i] = (wchar_t)u16[i];
				in.w()[nu] = 0;
				Buf out(4 * n + 1);
				int r = utf16toUtf8(in.w(), out.c(), n);
				if (r != (int)h8.size() || memcmp(out.p, h8.c_str(), h8.size() + 1) != 0) FAILF("valid.limit.utf16toUtf8", "limit %d of %d characters: returned %d bytes, the first %d characters need %d", n, k, r, n, (int)h8.size());
			}
			{
				Buf in((k + 1) * sizeof(int));
				for (int i = 0; i < k; i++) in.i()[i] = (int)cps[i];
				in.i()[k] = 0;
				Buf out(4 * n + 1);
				int r = utf32toUtf8(in.i(), out.c(), n);
				if (r != (int)h8.size() || memcmp(out.p, h8.c_str(), h8.size() + 1) != 0) FAILF("valid.limit.utf32toUtf8", "limit %d of %d characters: returned %d bytes, the first %d characters need %d", n, k, r, n, (int)h8.size());
			}
			c.count("valid.binding-limit-conversions", 4);
		}
	}
	{   // fromCodes / fromCode
		Array<int> codes(k);
		for (int i = 0; i < k; i++) codes[i] = (int)cps[i];
		String f = String::fromCodes(codes);
		if (!same(f, u8)) FAILF("valid.fromCodes", "got %s (length %d), reference %s", hx(f).c_str(), f.length(), vf::hex(u8).c_str());
		if (k == 1) {
			String g = String::fromCode((int)cps[0]);
			if (!same(g, u8)) FAILF("valid.fromCode", "got %s (length %d), reference %s", hx(g).c_str(), g.length(), vf::hex(u8).c_str());
		}
	}
	// String-level: unpadded (small-string paths) and padded (heap block of exactly len+1 bytes)
	for (int padded = 0; padded < 2; padded++) {
		const std::string full = padded ? PAD + u8 : u8;
		const U32 want = padded ? cat(PADCPS, cps) : cps;
		U16 want16 = enc16s(want);
		const int kk = (int)want.size();
		String s = exact(full);
		int cnt = s.count();
		Array<int> ch = s.chars();
		bool eqv;
		int it = iterate(s, &want, eqv, kk + 8);
		bool chok = ch.length() == kk;
		for (int i = 0; chok && i < kk; i++) chok = (uint32_t)ch[i] == want[i];
		if (!chok) FAILF("valid.chars", "chars() has %d elements (reference %d) or wrong values", ch.length(), kk);
		if (cnt != kk) FAILF("valid.count", "count()=%d but chars().length()=%d, reference %d", cnt, ch.length(), kk);
		if (it != kk || !eqv) FAILF("valid.iteration", "range-for visited %d code points (reference %d)%s", it, kk, eqv ? "" : " with different values");
		if (k <= 3 || padded) {
			int n2 = 0;
			bool ok2 = true;
			foreach (int code, s) { if (n2 < kk && (uint32_t)code != want[n2]) ok2 = false; if (++n2 > kk + 8) break; }
			if (n2 != kk || !ok2) FAILF("valid.foreach", "foreach visited %d code points (reference %d)", n2, kk);
		}
		{   // wide conversion through the scratch area inside the String buffer
			String t = s;
			const wchar_t* w = t.dataw();
			size_t wl = wcslen(w);
			bool ok = wl == want16.size();
			for (size_t i = 0; ok && i < wl; i++) ok = (uint32_t)w[i] == want16[i];
			if (!ok) FAILF("valid.dataw", "wide string has %d units (reference %d) or wrong unit values", (int)wl, (int)want16.size());
			if (!same(t, full)) FAILF("valid.dataw.clobbered", "UTF-8 text changed by dataw(): %s", hx(t).c_str());
			String back(w);
			if (!same(back, full)) FAILF("valid.dataw.back", "String(dataw()) = %s, reference %s", hx(back).c_str(), vf::hex(full).c_str());
			if (s.wlength() != (int)want16.size()) FAILF("valid.wlength", "wlength()=%d reference %d", s.wlength(), (int)want16.size());
		}
		if (padded) {
			// SafeString wide hand-over (fixW): write UTF-16 units into the scratch area, get UTF-8 back
			String name;
			{
				SafeString ss(name, nu > 0 ? nu : 1);
				wchar_t* w = ss;
				for (int i = 0; i < nu; i++) w[i] = (wchar_t)u16[i];
				w[nu] = 0;
			}
			if (!same(name, u8)) FAILF("valid.SafeString.wide", "got %s (length %d), reference %s", hx(name).c_str(), name.length(), vf::hex(u8).c_str());
			// case mapping and case-insensitive comparison on well-formed text
			String up = s.toUpperCase(), lo = s.toLowerCase();
			if (up.length() > s.length() || lo.length() > s.length())
				FAILF("valid.case.longer-than-input", "input %d bytes, upper %d, lower %d", s.length(), up.length(), lo.length());
			if (!lenok(up) || !lenok(lo)) FAILF("valid.case.length-vs-strlen", "upper length()=%d strlen=%d, lower length()=%d strlen=%d", up.length(), (int)strlen(*up), lo.length(), (int)strlen(*lo));
			// the images themselves are only operands of a judged comparison when they are well-formed text
			const bool upwf = wellformed(*up, up.length()), lowf = wellformed(*lo, lo.length());
			if (!upwf || !lowf) c.count("wellformed_text_with_illformed_case_image(recorded)");
			bool e;
			if (!nocase_agrees(s, s, e) || !e) FAILF("valid.nocase.self", "equalsNocase(s,s)=%d", (int)e);
			if (upwf && !nocase_agrees(s, up, e)) FAILF("valid.nocase.vs-lower", "equalsNocase(s, s.toUpperCase())=%d but the lower-cased forms compare %s", (int)e, e ? "different" : "equal");
			if (lowf && !nocase_agrees(s, lo, e)) FAILF("valid.nocase.vs-lower", "equalsNocase(s, s.toLowerCase())=%d but the lower-cased forms compare %s", (int)e, e ? "different" : "equal");
			if (upwf && lowf && !nocase_agrees(up, lo, e)) FAILF("valid.nocase.vs-lower", "equalsNocase(upper, lower)=%d but the lower-cased forms compare %s", (int)e, e ? "different" : "equal");
			if (up.length() != s.length() || lo.length() != s.length() || memcmp(*up + 19, *s + 19, nb) || memcmp(*lo + 19, *s + 19, nb)) c.count("valid_texts_changed_by_a_case_map");
		}
	}
}

// mode scalars: case = block of `blk` consecutive scalar values; step>1 keeps every step-th value plus everything near a boundary
static void mode_scalars(vf::Ctx& c)
{
	long blk = c.opt->param("blk", 256), step = c.opt->param("step", 1), dump = c.opt->param("dump", 0);
	uint32_t first = (uint32_t)(c.idx * blk);
	U32 one(1);
	uint64_t n = 0, skipped = 0, n8[4] = {0, 0, 0, 0};
	for (uint32_t cp = first; cp < first + blk; cp++) {
		if (!is_scalar(cp)) continue;
		if (dump && recf && (cp % dump == 0 || near_boundary(cp))) {
			unsigned char b[4];
			uint16_t w[2];
			int n8 = enc8(cp, b), n16 = enc16(cp, w);
			uint32_t d8 = 0, d16 = 0;
			int m8 = dec8(b, n8, d8), m16 = dec16(w, n16, d16);
			std::string h16;
			for (int i = 0; i < n16; i++) h16 += vf::fmt("%04x", w[i]);
			fprintf(recf, "E %u %s %s %d %u %d %u .\n", cp, vf::hex(b, n8).c_str(), h16.c_str(), m8, d8, m16, d16);
		}
		if (step > 1 && (cp % step) != (uint32_t)(c.idx % step) && !near_boundary(cp)) { skipped++; continue; }
		one[0] = cp;
		check_valid(c, one);
		n++;
		n8[cp < 0x80 ? 0 : cp < 0x800 ? 1 : cp < 0x10000 ? 2 : 3]++;
		if (cp >= 0x80) c.distinct(cp);
	}
	if (n) c.evals(n - 1);
	c.count("scalars_checked", n);
	c.count("scalars_skipped_by_step", skipped);
	static const char* N8[4] = {"scalars_1byte", "scalars_2byte", "scalars_3byte", "scalars_4byte"};
	for (int i = 0; i < 4; i++) if (n8[i]) c.count(N8[i], n8[i]);
	if (c.want_sample() && n) c.sample(vf::fmt("all %llu scalar values of U+%04X..U+%04X%s: utf32toUtf8, utf8toUtf32, utf8toUtf16, utf16toUtf8, String(wchar_t*), fromCode(s), chars, count, range-for, foreach, dataw, SafeString, case maps, equalsNocase",
	                                           (unsigned long long)n, first, (unsigned)(first + blk - 1), step > 1 ? " selected by step" : ""));
}

// mode pairs: all ordered pairs (and pair+pair) over the boundary set
static void mode_pairs(vf::Ctx& c)
{
	int i = (int)(c.idx / NBOUND), j = (int)(c.idx % NBOUND);
	if (i >= NBOUND) return;
	U32 v(2);
	v[0] = BOUND[i]; v[1] = BOUND[j];
	check_valid(c, v);
	U32 v3(3);  // the pair embedded between two copies of a third boundary value chosen from the index
	v3[0] = BOUND[(i + j) % NBOUND]; v3[1] = BOUND[i]; v3[2] = BOUND[j];
	check_valid(c, v3);
	c.evals(1);
	c.distinct(((uint64_t)BOUND[i] << 32) | BOUND[j]);
	c.count(vf::fmt("pair_%dbyte_then_%dbyte", (int)enc8s(U32(1, BOUND[i])).size(), (int)enc8s(U32(1, BOUND[j])).size()).c_str());
	if (c.want_sample()) c.sample("pair " + cpstr(v) + " and triple " + cpstr(v3));
}

static uint32_t random_scalar(vf::Rng& r)
{
	for (;;) {
		uint32_t cp;
		switch (r.below(8)) {
		case 0: case 1: cp = BOUND[r.below(NBOUND)]; break;
		case 2: case 3: cp = 1 + r.below(1499); break;
		case 4: cp = 1 + r.below(0x7F); break;
		case 5: cp = 0x800 + r.below(0xF800); break;
		case 6: cp = 0x10000 + r.below(0x100000); break;
		default: cp = 0x80 + r.below(0x780); break;
		}
		if (is_scalar(cp)) return cp;
	}
}

// mode seqs: random well-formed sequences of length 0..maxlen; everything judged, plus equalsNocase against a case-perturbed copy
static void mode_seqs(vf::Ctx& c)
{
	int maxlen = (int)c.opt->param("maxlen", 200);
	int len = c.rng.chance(0.3) ? c.rng.range(0, 8) : c.rng.range(0, maxlen);
	U32 v(len);
	for (int i = 0; i < len; i++) v[i] = random_scalar(c.rng);
	check_valid(c, v);
	// perturbed copy: some characters replaced by asl's own upper/lower image, sometimes one replaced by a neighbour
	U32 w(v);
	for (int i = 0; i < len; i++) {
		if (!c.rng.chance(0.4)) continue;
		String one = String::fromCode((int)v[i]);
		Array<int> img = (c.rng.chance(0.5) ? one.toUpperCase() : one.toLowerCase()).chars();
		if (img.length() == 1 && is_scalar((uint32_t)img[0])) w[i] = (uint32_t)img[0];
	}
	int kind = c.rng.below(4);
	if (kind == 0 && len) { int p = c.rng.below(len); uint32_t x = w[p] + 1; if (is_scalar(x)) w[p] = x; }
	if (kind == 1 && len) w.pop_back();
	if (kind == 2) w.push_back(random_scalar(c.rng));
	String a = exact(PAD + enc8s(v)), b = exact(PAD + enc8s(w));
	c.desc("equalsNocase([" + cpstr(v, 60) + "], [" + cpstr(w, 60) + "])");
	bool e;
	if (!nocase_agrees(a, b, e)) FAILF("valid.nocase.vs-lower", "equalsNocase=%d but the lower-cased forms compare %s", (int)e, e ? "different" : "equal");
	c.count(e ? "seqs_nocase_equal" : "seqs_nocase_different");
	c.evals(1);
	int nb = 0;
	for (int i = 0; i < len; i++) nb += v[i] >= 0x80;
	if (nb) c.distinct(vf::fnv(enc8s(v)));
	c.count("seq_code_points", len);
	if (c.want_sample() && len > 3 && len < 12) c.sample("sequence " + cpstr(v) + " vs case-perturbed " + cpstr(w));
}

// mode casemap: idx 0 = ASCII vs C locale; idx>=1: code point idx x {self, upper, lower, neighbours} (allpairs=1: x all code points below `lim`)
static void mode_casemap(vf::Ctx& c)
{
	long lim = c.opt->param("lim", 1500), allpairs = c.opt->param("allpairs", 0);
	if (c.idx == 0) {
		std::string all;
		for (int ch = 1; ch < 128; ch++) {
			std::string t = PAD + (char)ch;
			c.desc(vf::fmt("ASCII 0x%02x case maps vs C-locale toupper/tolower", ch));
			String s = exact(t), up = s.toUpperCase(), lo = s.toLowerCase();
			std::string ru = t, rl = t;
			for (size_t i = 0; i < t.size(); i++) { ru[i] = (char)toupper((unsigned char)t[i]); rl[i] = (char)tolower((unsigned char)t[i]); }
			if (!same(up, ru)) FAILF("ascii.upper", "toUpperCase gave %s, C locale %s", hx(up).c_str(), vf::hex(ru).c_str());
			if (!same(lo, rl)) FAILF("ascii.lower", "toLowerCase gave %s, C locale %s", hx(lo).c_str(), vf::hex(rl).c_str());
			String single = String((char)ch);
			if (single.toUpperCase().length() != 1 || single.toUpperCase()[0] != (char)toupper(ch)) FAILF("ascii.upper", "single char 0x%02x -> %s", ch, hx(single.toUpperCase()).c_str());
			if (single.toLowerCase().length() != 1 || single.toLowerCase()[0] != (char)tolower(ch)) FAILF("ascii.lower", "single char 0x%02x -> %s", ch, hx(single.toLowerCase()).c_str());
			all += (char)ch;
			c.count("ascii_chars_checked");
		}
		c.desc("all ASCII 1..127 in one string");
		String s = exact(all), up = s.toUpperCase(), lo = s.toLowerCase();
		std::string ru = all, rl = all;
		for (size_t i = 0; i < all.size(); i++) { ru[i] = (char)toupper((unsigned char)all[i]); rl[i] = (char)tolower((unsigned char)all[i]); }
		if (!same(up, ru)) FAILF("ascii.upper", "toUpperCase of the whole ASCII range differs from the C locale: %s", hx(up).c_str());
		if (!same(lo, rl)) FAILF("ascii.lower", "toLowerCase of the whole ASCII range differs from the C locale: %s", hx(lo).c_str());
		for (int a = 1; a < 128; a++)
			for (int b = 1; b < 128; b++) {
				String x = exact(PAD + (char)a), y = exact(PAD + (char)b);
				bool want = tolower(a) == tolower(b);
				if (x.equalsNocase(y) != want) { c.desc(vf::fmt("equalsNocase(0x%02x, 0x%02x)", a, b)); FAILF("ascii.nocase", "got %d, C locale says %d", (int)!want, (int)want); }
			}
		c.evals(127 * 127 + 127);
		c.distinct(0);
		c.sample("ASCII 1..127: toUpperCase/toLowerCase vs toupper/tolower (C locale), equalsNocase on all 127x127 pairs");
		return;
	}
	uint32_t cp = (uint32_t)c.idx;
	if ((long)cp >= lim) return;
	String a = exact(PAD + enc8s(U32(1, cp)));
	String up = a.toUpperCase(), lo = a.toLowerCase();
	if (memcmp(*up, "PAD-PREFIX_19BYTES:", 19) || memcmp(*lo, "pad-prefix_19bytes:", 19)) FAILF("ascii.pad", "case map of the ASCII pad is wrong: %s / %s", hx(up).c_str(), hx(lo).c_str());
	a = exact(std::string("pad-prefix_19bytes:") + enc8s(U32(1, cp)));  // lower-case pad, so that only the code point under test can change
	up = exact(std::string("pad-prefix_19bytes:") + std::string(*up + 19));
	std::vector<String> others;
	others.push_back(a);
	{
		String cand[4] = {up, lo, up.toLowerCase(), lo.toUpperCase()};
		for (int i = 0; i < 4; i++) {
			if (wellformed(*cand[i], cand[i].length())) others.push_back(cand[i]);
			else c.count("wellformed_text_with_illformed_case_image(recorded)");
		}
	}
	static const int D[] = {-1, 1, -32, 32, 48, -48, 80, -80, 1, 1414, 1415, 1416};
	for (size_t i = 0; i < sizeof(D) / sizeof(D[0]); i++) {
		long o = (long)cp + D[i];
		if (i >= 9) o = D[i];
		if (o >= 1 && is_scalar((uint32_t)o)) others.push_back(exact(PAD + enc8s(U32(1, (uint32_t)o))));
	}
	if (allpairs) for (uint32_t o = 1; o < (uint32_t)lim; o++) others.push_back(exact(PAD + enc8s(U32(1, o))));
	int neq = 0;
	for (size_t i = 0; i < others.size(); i++) {
		bool e;
		if (!nocase_agrees(a, others[i], e)) {
			c.desc(vf::fmt("equalsNocase(pad+U+%04X, %s)", cp, hx(others[i]).substr(38).c_str()));
			FAILF("valid.nocase.vs-lower", "equalsNocase=%d but the lower-cased forms compare %s", (int)e, e ? "different" : "equal");
		}
		neq += e;
	}
	if (up.length() > a.length() || lo.length() > a.length()) { c.desc(vf::fmt("case maps of U+%04X", cp)); FAILF("valid.case.longer-than-input", "input %d, upper %d, lower %d", a.length(), up.length(), lo.length()); }
	c.evals(others.size() - 1);
	c.count("nocase_pairs_judged", others.size());
	c.count("nocase_pairs_equal", neq);
	if (!same(up, a)) c.count("codepoints_changed_by_toUpperCase");
	if (!same(lo, a)) c.count("codepoints_changed_by_toLowerCase");
	c.distinct(cp);
	if (c.want_sample() && cp > 0xC0) c.sample(vf::fmt("U+%04X vs itself, its upper/lower images %s/%s, neighbours%s: equalsNocase <=> equal toLowerCase", cp, hx(up).substr(38).c_str(), hx(lo).substr(38).c_str(), allpairs ? " and every code point below the limit" : ""));
}

// ------------------------------------------------------------------ arbitrary bytes
struct BytesTally { uint64_t n, wf, count_ne_chars, iter_ne_chars, nocase_ne_lower, embedded_nul, count_skipped, illformed_image; };

static void check_bytes(vf::Ctx& c, const std::string& t, const std::string& partner_t, BytesTally& T)
{
	const std::string full = PAD + t;
	const int len = (int)full.size();
	c.desc("bytes " + vf::hex(t) + " appended to the 19-byte ASCII pad (heap String of exactly len+1 bytes)");
	U32 ref;
	const bool wf = decode_all(t, ref);
	const U32 want = wf ? cat(PADCPS, ref) : U32();
	const bool ends2 = !t.empty() && ((unsigned char)t[t.size() - 1] & 0xE0) == 0xC0;
	T.n++;
	T.wf += wf;
	String s = exact(full);

	int cnt = -1;
	if ((AVOID & 1) && ends2) T.count_skipped++;
	else cnt = s.count();
	Array<int> ch = s.chars();
	bool eqv;
	int it = iterate(s, wf ? &want : 0, eqv, len + 8);
	if (cnt > len || ch.length() > len || it > len) FAILF("bytes.more-characters-than-bytes", "count()=%d chars().length()=%d iteration=%d on %d bytes", cnt, ch.length(), it, len);
	if (wf) {
		bool ok = ch.length() == (int)want.size();
		for (int i = 0; ok && i < ch.length(); i++) ok = (uint32_t)ch[i] == want[i];
		if (!ok) FAILF("valid.chars", "well-formed input: chars() has %d elements, reference %d, or values differ", ch.length(), (int)want.size());
		if (cnt != (int)want.size()) FAILF("valid.count", "well-formed input: count()=%d reference %d", cnt, (int)want.size());
		if (!eqv) FAILF("valid.iteration", "well-formed input: range-for visited %d code points, reference %d, or values differ", it, (int)want.size());
	} else {
		if (cnt >= 0 && cnt != ch.length()) T.count_ne_chars++;
		if (it != ch.length()) T.iter_ne_chars++;
	}

	CStr in(full);
	Buf o32((len + 1) * sizeof(int));
	int r32 = utf8toUtf32(in.p(), o32.i(), len);
	if (r32 < 0 || r32 > len || o32.i()[r32] != 0) FAILF("bytes.utf8toUtf32.result", "returned %d for %d bytes or result not terminated", r32, len);
	Buf o16((len + 1) * sizeof(wchar_t));
	int r16 = utf8toUtf16(in.p(), o16.w(), len);
	if (r16 < 0 || r16 > len || o16.w()[r16] != 0) FAILF("bytes.utf8toUtf16.result", "returned %d for %d bytes or result not terminated", r16, len);
	{
		Buf b8(4 * r32 + 1);
		int q = utf32toUtf8(o32.i(), b8.c(), r32 > 0 ? r32 : 1);
		if (q < 0 || q > 4 * r32 || b8.c()[q] != 0) FAILF("bytes.utf32toUtf8.result", "returned %d for %d code points or result not terminated", q, r32);
		if (wf && (q != len || memcmp(b8.p, full.data(), len) != 0)) FAILF("valid.utf8-32-8", "well-formed input did not survive UTF-8 -> UTF-32 -> UTF-8: %s", vf::hex(b8.p, q).c_str());
	}
	{
		Buf w2((r16 + 1) * sizeof(wchar_t));
		memcpy(w2.p, o16.p, (r16 + 1) * sizeof(wchar_t));
		Buf b8(3 * r16 + 1);
		int q = utf16toUtf8(w2.w(), b8.c(), r16 > 0 ? r16 : 1);
		if (q < 0 || q > 3 * r16 || b8.c()[q] != 0) FAILF("bytes.utf16toUtf8.result", "returned %d for %d units or result not terminated", q, r16);
		if (wf && (q != len || memcmp(b8.p, full.data(), len) != 0)) FAILF("valid.utf8-16-8", "well-formed input did not survive UTF-8 -> UTF-16 -> UTF-8: %s", vf::hex(b8.p, q).c_str());
		String fw(w2.w());
		if (!lenok(fw)) FAILF("bytes.String(wchar_t*).length-vs-strlen", "length()=%d strlen=%d", fw.length(), (int)strlen(*fw));
	}
	{
		String t2 = s;
		const wchar_t* w = t2.dataw();
		size_t wl = wcslen(w);
		if (wl > (size_t)len) FAILF("bytes.dataw.result", "%d units for %d bytes", (int)wl, len);
		if (!same(t2, full)) FAILF("bytes.dataw.clobbered", "UTF-8 text changed by dataw(): %s", hx(t2).c_str());
		String back(w);
		if (!lenok(back)) FAILF("bytes.String(wchar_t*).length-vs-strlen", "length()=%d strlen=%d", back.length(), (int)strlen(*back));
		if (wf && !same(back, full)) FAILF("valid.dataw.back", "well-formed input: String(dataw()) = %s", hx(back).c_str());
	}

	String up = s.toUpperCase(), lo = s.toLowerCase();
	if (up.length() > len || lo.length() > len) FAILF("bytes.case.longer-than-input", "input %d bytes, toUpperCase %d, toLowerCase %d", len, up.length(), lo.length());
	if (!lenok(up) || !lenok(lo)) {
		T.embedded_nul++;
		if (wf || !(AVOID & 2))
			FAILF(wf ? "valid.case.length-vs-strlen" : "bytes.case.length-vs-strlen", "toUpperCase: length()=%d strlen=%d; toLowerCase: length()=%d strlen=%d (input %d bytes)", up.length(), (int)strlen(*up),
			      lo.length(), (int)strlen(*lo), len);
	}
	String p = exact(PAD + partner_t);
	U32 pref;
	const bool pwf = decode_all(partner_t, pref);
	const String* others[4] = {&s, &up, &lo, &p};
	const bool owf[4] = {wf, wf && wellformed(*up, up.length()), wf && wellformed(*lo, lo.length()), pwf};
	if (wf && (!owf[1] || !owf[2])) T.illformed_image++;
	for (int i = 0; i < 4; i++) {
		bool e;
		bool agree = nocase_agrees(s, *others[i], e);
		if (i == 0 && !e) FAILF(wf ? "valid.nocase.self" : "bytes.nocase.self", "equalsNocase(s, s) is false");
		if (agree) continue;
		if (wf && owf[i]) FAILF("valid.nocase.vs-lower", "well-formed input, partner %d (0=self 1=upper 2=lower 3=%s): equalsNocase=%d but the lower-cased forms compare %s", i, vf::hex(partner_t).c_str(), (int)e, e ? "different" : "equal");
		T.nocase_ne_lower++;
	}
}

static void tally(vf::Ctx& c, const BytesTally& T)
{
	c.count("byte_strings", T.n);
	c.count("byte_strings_wellformed", T.wf);
	c.count("byte_strings_illformed", T.n - T.wf);
	c.count("illformed_count_ne_chars(recorded)", T.count_ne_chars);
	c.count("illformed_iteration_ne_chars(recorded)", T.iter_ne_chars);
	c.count("illformed_nocase_ne_lower_equality(recorded)", T.nocase_ne_lower);
	c.count("case_map_output_with_embedded_NUL", T.embedded_nul);
	if (T.illformed_image) c.count("wellformed_text_with_illformed_case_image(recorded)", T.illformed_image);
	if (T.count_skipped) c.count("count()_skipped_trailing_2byte_lead(avoid)", T.count_skipped);
	if (T.n) c.evals(T.n - 1);
}

static void dump_decode(const std::string& t)
{
	if (!recf) return;
	U32 ref;
	bool wf = decode_all(t, ref);
	std::string cps = "-";
	if (wf && ref.size()) { cps.clear(); for (size_t i = 0; i < ref.size(); i++) cps += vf::fmt(i ? ",%u" : "%u", ref[i]); }
	fprintf(recf, "D %s %d %s .\n", t.empty() ? "-" : vf::hex(t).c_str(), (int)wf, cps.c_str());
}

// mode bytes: all NUL-free byte strings of length <= 3. idx 0: lengths 0 and 1; 1..255: length 2 with first byte idx;
// 256..: length 3 with the first two bytes given by idx
static void mode_bytes(vf::Ctx& c)
{
	long dump = c.opt->param("dump", 0);
	BytesTally T = {0, 0, 0, 0, 0, 0, 0, 0};
	std::string prefix, partner = "\xC3\xA9";
	std::vector<std::string> items;
	if (c.idx == 0) items.push_back("");
	else if (c.idx < 256) prefix = std::string(1, (char)c.idx);
	else {
		uint64_t k = c.idx - 256;
		if (k >= 255 * 255) return;
		prefix = std::string(1, (char)(k / 255 + 1)) + std::string(1, (char)(k % 255 + 1));
	}
	for (int b = 1; b < 256; b++) items.push_back(prefix + (char)b);
	for (size_t i = 0; i < items.size(); i++) {
		if (dump && ((c.idx * 255 + i) % dump == 0)) dump_decode(items[i]);
		check_bytes(c, items[i], partner, T);
		partner = items[i];
	}
	tally(c, T);
	c.count(vf::fmt("strings_of_length_%d", (int)prefix.size() + 1).c_str(), 255);
	if (c.idx == 0) c.count("strings_of_length_0", 1);
	c.distinct(c.idx + 1);
	if (c.want_sample()) c.sample(vf::fmt("all %d byte strings %s**, each after the ASCII pad: count, chars, range-for, utf8toUtf32/16 and back, dataw, String(wchar_t*), toUpperCase, toLowerCase, equalsNocase x4", (int)items.size(), vf::hex(prefix).c_str()));
}

static const unsigned char ALPHA[] = {0x7F, 0x80, 0xBF, 0xC0, 0xC2, 0xDF, 0xE0, 0xEF, 0xF0, 0xF4, 0xF7, 0xF8, 0xFF, 0x41, 0x61};
static const int NALPHA = sizeof(ALPHA);

// mode alpha: all strings of length <= maxlen over the boundary alphabet; case = 256 consecutive strings in length-major order
static void mode_alpha(vf::Ctx& c)
{
	int maxlen = (int)c.opt->param("maxlen", 4);
	long dump = c.opt->param("dump", 0);
	uint64_t total = 0, p = 1;
	for (int l = 0; l <= maxlen; l++) { total += p; p *= NALPHA; }
	BytesTally T = {0, 0, 0, 0, 0, 0, 0, 0};
	std::string partner = "A\xC2";
	for (uint64_t g = c.idx * 256; g < c.idx * 256 + 256 && g < total; g++) {
		uint64_t r = g, q = 1;
		int l = 0;
		while (r >= q) { r -= q; q *= NALPHA; l++; }
		std::string t(l, 0);
		for (int i = l - 1; i >= 0; i--) { t[i] = (char)ALPHA[r % NALPHA]; r /= NALPHA; }
		if (dump && g % dump == 0) dump_decode(t);
		check_bytes(c, t, partner, T);
		c.distinct(vf::fnv(t));
		partner = t;
		c.count(vf::fmt("alphabet_strings_of_length_%d", l).c_str());
	}
	tally(c, T);
	if (c.want_sample()) c.sample("256 consecutive strings over {7F 80 BF C0 C2 DF E0 EF F0 F4 F7 F8 FF 41 61} ending at " + vf::hex(partner));
}

static std::string random_bytes(vf::Rng& r, int maxlen)
{
	std::string s;
	int kind = r.below(5);
	if (kind == 0) { int n = r.range(6, maxlen); for (int i = 0; i < n; i++) s += (char)ALPHA[r.below(NALPHA)]; }
	else if (kind == 1) { int n = r.range(4, maxlen); for (int i = 0; i < n; i++) s += (char)r.range(1, 255); }
	else {
		int n = r.range(1, maxlen / 2);
		U32 v(n);
		for (int i = 0; i < n; i++) v[i] = random_scalar(r);
		s = enc8s(v);
		int nm = kind == 2 ? 0 : r.range(1, 4);
		for (int m = 0; m < nm && s.size(); m++) {
			size_t pos = r.below((uint32_t)s.size());
			switch (r.below(5)) {
			case 0: s[pos] = (char)ALPHA[r.below(NALPHA)]; break;
			case 1: s.erase(pos, 1); break;
			case 2: s.insert(pos, 1, (char)ALPHA[r.below(NALPHA)]); break;
			case 3: s.resize(pos); break;
			default: s[pos] = (char)r.range(1, 255); break;
			}
		}
		if (kind == 4) {  // truncated sequence at the very end
			unsigned char b[4];
			int l = enc8(random_scalar(r), b);
			if (l > 1) s.append((const char*)b, r.range(1, l - 1));
		}
	}
	return s;
}

// mode rand: random longer byte strings (alphabet soup, uniform bytes, mutated/truncated well-formed text)
static void mode_rand(vf::Ctx& c)
{
	int maxlen = (int)c.opt->param("maxlen", 300), per = (int)c.opt->param("per", 8);
	long dump = c.opt->param("dump", 0);
	BytesTally T = {0, 0, 0, 0, 0, 0, 0, 0};
	std::string partner = random_bytes(c.rng, 12);
	for (int i = 0; i < per; i++) {
		std::string t = random_bytes(c.rng, c.rng.chance(0.5) ? 24 : maxlen);
		if (dump && i == 0 && c.idx % dump == 0) dump_decode(t);
		check_bytes(c, t, partner, T);
		c.distinct(vf::fnv(t));
		partner = t;
		c.count("random_bytes_total", t.size());
	}
	tally(c, T);
	if (c.want_sample()) c.sample("e.g. " + vf::hex(partner.substr(0, 80)));
}

// mode units: all sequences of length <= 4 over a boundary alphabet of 16-bit units (lone and paired surrogates) through utf16toUtf8 / String(wchar_t*)
static void mode_units(vf::Ctx& c)
{
	static const uint16_t UA[] = {0x41, 0x7F, 0x80, 0x7FF, 0x800, 0xD7FF, 0xD800, 0xDBFF, 0xDC00, 0xDFFF, 0xE000, 0xFFFF};
	const int NU = sizeof(UA) / sizeof(UA[0]);
	uint64_t total = 1 + NU + NU * NU + NU * NU * NU + NU * NU * NU * NU;
	uint64_t nwf = 0, nill = 0;
	for (uint64_t g = c.idx * 64; g < c.idx * 64 + 64 && g < total; g++) {
		uint64_t r = g, q = 1;
		int l = 0;
		while (r >= q) { r -= q; q *= NU; l++; }
		U16 u(l);
		for (int i = l - 1; i >= 0; i--) { u[i] = UA[r % NU]; r /= NU; }
		std::string h;
		for (int i = 0; i < l; i++) h += vf::fmt("%04x ", u[i]);
		c.desc("UTF-16 units " + h);
		U32 ref;
		bool wf = true;
		for (int i = 0; i < l;) { uint32_t cp; int n = dec16(&u[0] + i, l - i, cp); if (!n) { wf = false; break; } ref.push_back(cp); i += n; }
		Buf w((l + 1) * sizeof(wchar_t));
		for (int i = 0; i < l; i++) w.w()[i] = (wchar_t)u[i];
		w.w()[l] = 0;
		Buf out(3 * l + 1);
		int q8 = utf16toUtf8(w.w(), out.c(), l > 0 ? l : 1);
		if (q8 < 0 || q8 > 3 * l || out.c()[q8] != 0) FAILF("units.utf16toUtf8.result", "returned %d for %d units or result not terminated", q8, l);
		String s(w.w());
		if (!lenok(s)) FAILF("units.String(wchar_t*).length-vs-strlen", "length()=%d strlen=%d", s.length(), (int)strlen(*s));
		if (wf) {
			std::string u8 = enc8s(ref);
			if (q8 != (int)u8.size() || memcmp(out.p, u8.data(), q8) != 0) FAILF("valid.utf16toUtf8", "got %s reference %s", vf::hex(out.p, q8).c_str(), vf::hex(u8).c_str());
			if (!same(s, u8)) FAILF("valid.String(wchar_t*)", "got %s reference %s", hx(s).c_str(), vf::hex(u8).c_str());
			nwf++;
		} else nill++;
		c.distinct(vf::fnv(h));
	}
	if (c.idx == 0) {  // recorded, not judged: wchar_t is 32 bits here, asl treats each wchar_t as one UTF-16 unit
		wchar_t native[2] = {(wchar_t)0x1F600, 0};
		String s(native);
		unsigned char b[4];
		int n = enc8(0x1F600, b);
		if (!(s.length() == n && memcmp(*s, b, n) == 0)) c.count("native_UTF32_wchar_above_FFFF_misconverted(recorded)");
	}
	c.count("unit_sequences_wellformed", nwf);
	c.count("unit_sequences_illformed", nill);
	if (nwf + nill) c.evals(nwf + nill - 1);
	if (c.want_sample()) c.sample("64 consecutive sequences over the 16-bit units {41 7F 80 7FF 800 D7FF D800 DBFF DC00 DFFF E000 FFFF}");
}

// mode trunc: stratum B for the truncated-sequence findings. One function on one string per case, the string ending in a
// truncated multi-byte sequence (lead alone, lead + 1 continuation, lead + 2 continuations).
static const char* TRUNC_FN[] = {"count", "chars", "range-for", "utf8toUtf32", "utf8toUtf16", "dataw", "toUpperCase", "toLowerCase", "equalsNocase", "wlength"};
static const int NTRUNC_FN = sizeof(TRUNC_FN) / sizeof(TRUNC_FN[0]);
static std::vector<std::string> trunc_tails()
{
	std::vector<std::string> v;
	for (int b = 0xC0; b <= 0xDF; b++) v.push_back(std::string(1, (char)b));
	for (int b = 0xE0; b <= 0xEF; b++) { v.push_back(std::string(1, (char)b)); v.push_back(std::string(1, (char)b) + "\xA0"); }
	for (int b = 0xF0; b <= 0xF7; b++) { v.push_back(std::string(1, (char)b)); v.push_back(std::string(1, (char)b) + "\x90"); v.push_back(std::string(1, (char)b) + "\x90\x80"); }
	return v;
}
static void mode_trunc(vf::Ctx& c)
{
	static const std::vector<std::string> tails = trunc_tails();
	static const char* bodies[] = {"", "a", "\xC3\xA9", "\xE2\x82\xAC\xF0\x9F\x98\x80"};
	uint64_t i = c.idx;
	int f = (int)(i % NTRUNC_FN); i /= NTRUNC_FN;
	int t = (int)(i % tails.size()); i /= tails.size();
	if (i >= 4) return;
	std::string body = std::string(bodies[i]) + tails[t];
	std::string full = PAD + body;
	int len = (int)full.size();
	c.desc(std::string(TRUNC_FN[f]) + " on the pad + " + vf::hex(body) + " (ends in a truncated sequence)");
	String s = exact(full);
	switch (f) {
	case 0: { int n = s.count(); if (n > len) FAILF("trunc.count", "%d", n); break; }
	case 1: { Array<int> a = s.chars(); if (a.length() > len) FAILF("trunc.chars", "%d", a.length()); break; }
	case 2: { bool e; int n = iterate(s, 0, e, len + 8); if (n > len) FAILF("trunc.iteration", "%d", n); break; }
	case 3: { CStr in(full); Buf o((len + 1) * sizeof(int)); int r = utf8toUtf32(in.p(), o.i(), len); if (r > len) FAILF("trunc.utf8toUtf32", "%d", r); break; }
	case 4: { CStr in(full); Buf o((len + 1) * sizeof(wchar_t)); int r = utf8toUtf16(in.p(), o.w(), len); if (r > len) FAILF("trunc.utf8toUtf16", "%d", r); break; }
	case 5: { const wchar_t* w = s.dataw(); if (wcslen(w) > (size_t)len) FAILF("trunc.dataw", "too long"); break; }
	case 6: { String u = s.toUpperCase(); if (u.length() > len) FAILF("trunc.case.longer-than-input", "%d > %d", u.length(), len); if (!lenok(u)) { if (AVOID & 2) { c.count("case_map_embedded_nul_on_illformed_input(recorded)"); break; } } if (!lenok(u)) FAILF("trunc.toUpperCase.length-vs-strlen", "length()=%d strlen=%d: the output contains a NUL byte", u.length(), (int)strlen(*u)); break; }
	case 7: { String u = s.toLowerCase(); if (u.length() > len) FAILF("trunc.case.longer-than-input", "%d > %d", u.length(), len); if (!lenok(u)) { if (AVOID & 2) { c.count("case_map_embedded_nul_on_illformed_input(recorded)"); break; } } if (!lenok(u)) FAILF("trunc.toLowerCase.length-vs-strlen", "length()=%d strlen=%d: the output contains a NUL byte", u.length(), (int)strlen(*u)); break; }
	case 8: { String o = exact(PAD + "zz"); bool a = s.equalsNocase(s), b = s.equalsNocase(o), d = o.equalsNocase(s); if (!a || b || d) c.count("trunc_equalsNocase_unexpected(recorded)"); break; }
	default: { int n = s.wlength(); if (n > len) FAILF("trunc.wlength", "%d", n); break; }
	}
	c.count((std::string("trunc_") + TRUNC_FN[f]).c_str());
	c.distinct(vf::fnv(body) + f);
	if (c.want_sample() && t % 7 == 0) c.sample(c.curdesc());
}

int main(int argc, char** argv)
{
	setlocale(LC_ALL, "C");
	for (size_t i = 0; i < PAD.size(); i++) PADCPS.push_back((unsigned char)PAD[i]);
	vf::Runner R;
	R.add("scalars", mode_scalars, "blocks of Unicode scalar values through every conversion (exhaustive with cases = 0x110000/blk)");
	R.add("pairs", mode_pairs, "all ordered pairs over the boundary set");
	R.add("seqs", mode_seqs, "random well-formed sequences");
	R.add("casemap", mode_casemap, "ASCII vs C locale; equalsNocase <=> lower equality on code points below lim");
	R.add("bytes", mode_bytes, "all NUL-free byte strings of length <= 3 (cases = 256 for <= 2, 65281 for <= 3)");
	R.add("alpha", mode_alpha, "all strings of length <= maxlen over the boundary alphabet");
	R.add("rand", mode_rand, "random longer byte strings");
	R.add("units", mode_units, "sequences of 16-bit units incl. lone surrogates through utf16toUtf8");
	R.add("trunc", mode_trunc, "strings ending in a truncated sequence, one function per case (stratum B)");
	R.setup = [](const vf::Options& o) {
		AVOID = o.param("avoid", 0);
		if (o.param("dump", 0)) {
			recf = fopen((o.out + "/records.txt").c_str(), "w");
			if (recf) setvbuf(recf, 0, _IOLBF, 1 << 16);
		}
	};
	return R.main(argc, argv);
}
