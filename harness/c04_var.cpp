// C04: Var against a tagged-tree model with reference semantics for arrays/objects.
// Strata:  hist         no growth of a container that two Vars refer to directly, no assignment whose source
//                       lives inside the target's own value                                  (must be clean)
//          selfassign   additionally `a = a[i]`, `a = a["k"]`, `a[i] = a[i][j]`, `a << a[i]`  (must be clean)
//          shared_growth  growth of a container through one Var while another refers to it   (known finding, see C01)
#include "common/runner.h"
#include <asl/Var.h>
#include <memory>
#include <map>
#include <set>
#include <vector>
#include <string>
#include <math.h>
#include <limits.h>

using namespace asl;

enum MT { M_NONE, M_NUL, M_BOOL, M_INT, M_NUMBER, M_FLOAT, M_STRING, M_ARRAY, M_OBJ };

struct Val;
typedef std::vector<Val> VArr;
typedef std::map<std::string, Val> VObj;
struct Val
{
	MT t;
	double d;
	bool b;
	std::string s;
	std::shared_ptr<VArr> a;
	std::shared_ptr<VObj> o;
	Val() : t(M_NONE), d(0), b(false) {}
	const void* cont() const { return t == M_ARRAY ? (const void*)a.get() : t == M_OBJ ? (const void*)o.get() : 0; }
};

static bool hasNone(const Val& v, int depth = 0)
{
	if (v.t == M_NONE) return true;
	if (depth > 8) return false;
	if (v.t == M_ARRAY) for (auto& x : *v.a) if (hasNone(x, depth + 1)) return true;
	if (v.t == M_OBJ) for (auto& kv : *v.o) if (hasNone(kv.second, depth + 1)) return true;
	return false;
}

static bool isnum(MT t) { return t == M_INT || t == M_NUMBER || t == M_FLOAT; }

static bool modelEq(const Val& x, const Val& y)
{
	if (isnum(x.t) || isnum(y.t)) return isnum(x.t) && isnum(y.t) && x.d == y.d;
	if (x.t != y.t) return false;
	switch (x.t) {
	case M_NUL: return true;
	case M_BOOL: return x.b == y.b;
	case M_STRING: return x.s == y.s;
	case M_ARRAY:
		if (x.a->size() != y.a->size()) return false;
		for (size_t i = 0; i < x.a->size(); i++) if (!modelEq((*x.a)[i], (*y.a)[i])) return false;
		return true;
	case M_OBJ: {
		if (x.o->size() != y.o->size()) return false;
		VObj::const_iterator i = x.o->begin(), j = y.o->begin();
		for (; i != x.o->end(); ++i, ++j) if (i->first != j->first || !modelEq(i->second, j->second)) return false;
		return true;
	}
	default: return false;
	}
}

static std::string render(const Val& v, bool inner = false)
{
	char b[64];
	switch (v.t) {
	case M_NONE: return "?";
	case M_NUL: return "null";
	case M_BOOL: return v.b ? "true" : "false";
	case M_INT: snprintf(b, sizeof b, "%i", (int)v.d); return b;
	case M_NUMBER: snprintf(b, sizeof b, "%.15g", v.d); return b;
	case M_FLOAT: snprintf(b, sizeof b, "%.7g", v.d); return b;
	case M_STRING: return v.s;
	case M_ARRAY: {
		std::string r = "[";
		for (size_t i = 0; i < v.a->size(); i++) { if (i) r += ","; r += render((*v.a)[i], true); }
		return r + "]";
	}
	case M_OBJ: {
		std::string r = "{";
		bool first = true;
		for (auto& kv : *v.o) { if (!first) r += ","; first = false; r += kv.first + "=" + render(kv.second, true); }
		return r + "}";
	}
	}
	return "";
}

static Val deepcopy(const Val& v)
{
	Val r = v;
	if (v.t == M_ARRAY) { r.a.reset(new VArr); for (auto& x : *v.a) r.a->push_back(deepcopy(x)); }
	if (v.t == M_OBJ) { r.o.reset(new VObj); for (auto& kv : *v.o) (*r.o)[kv.first] = deepcopy(kv.second); }
	return r;
}

static void reach(const Val& v, std::set<const void*>& out)
{
	const void* c = v.cont();
	if (!c || out.count(c)) return;
	out.insert(c);
	if (v.t == M_ARRAY) for (auto& x : *v.a) reach(x, out);
	if (v.t == M_OBJ) for (auto& kv : *v.o) reach(kv.second, out);
}

enum { NS = 5 };

struct Step { bool key; int i; std::string k; };
struct Place
{
	int slot;
	std::vector<Step> path;
	std::string str() const
	{
		std::string s = vf::fmt("v%d", slot);
		for (auto& p : path) s += p.key ? "[\"" + p.k + "\"]" : vf::fmt("[%d]", p.i);
		return s;
	}
};

struct D
{
	vf::Ctx& c;
	int stratum;  // 0 hist, 1 shared growth, 2 selfassign
	Var* v[NS];
	Val m[NS];
	uint64_t shape;
	int interesting;

	D(vf::Ctx& c_, int s) : c(c_), stratum(s), shape(99), interesting(0) { for (int i = 0; i < NS; i++) v[i] = new Var; }
	~D() { for (int i = 0; i < NS; i++) delete v[i]; }

	// ---- navigation
	Val* mAt(const Place& p)
	{
		Val* x = &m[p.slot];
		for (auto& s : p.path) x = s.key ? &(*x->o)[s.k] : &(*x->a)[s.i];
		return x;
	}
	Var* vAt(const Place& p)
	{
		Var* x = v[p.slot];
		for (auto& s : p.path) x = s.key ? &(*x)[String(s.k.c_str())] : &(*x)[s.i];  // only existing indices/keys: no auto-creation
		return x;
	}
	std::vector<const void*> holders(const Place& p)
	{
		std::vector<const void*> h;
		Val* x = &m[p.slot];
		for (auto& s : p.path) { h.push_back(x->cont()); x = s.key ? &(*x->o)[s.k] : &(*x->a)[s.i]; }
		return h;
	}
	Place pick(int maxdepth = 2)
	{
		Place p;
		p.slot = c.rng.below(NS);
		Val* x = &m[p.slot];
		for (int d = 0; d < maxdepth; d++) {
			if (x->t == M_ARRAY && x->a->size() && c.rng.chance(0.55)) { Step s; s.key = false; s.i = c.rng.below((uint32_t)x->a->size()); p.path.push_back(s); x = &(*x->a)[s.i]; }
			else if (x->t == M_OBJ && x->o->size() && c.rng.chance(0.55)) {
				Step s; s.key = true;
				VObj::iterator it = x->o->begin();
				std::advance(it, c.rng.below((uint32_t)x->o->size()));
				s.k = it->first; s.i = 0;
				p.path.push_back(s);
				x = &it->second;
			}
			else break;
		}
		return p;
	}
	int refcount(const void* cont)
	{
		int n = 0;
		std::set<const void*> seen;
		std::vector<const Val*> todo;
		for (int i = 0; i < NS; i++) todo.push_back(&m[i]);
		while (todo.size()) {
			const Val* x = todo.back();
			todo.pop_back();
			const void* cc = x->cont();
			if (!cc) continue;
			if (cc == cont) n++;
			if (seen.count(cc)) continue;
			seen.insert(cc);
			if (x->t == M_ARRAY) for (auto& e : *x->a) todo.push_back(&e);
			else for (auto& kv : *x->o) todo.push_back(&kv.second);
		}
		return n;
	}
	// may container `x` (model) / `var` (asl) grow to newlen elements under this stratum's policy?
	bool growOK(const Val& x, const Var& var, int newlen)
	{
		int cap = x.t == M_ARRAY ? var.array().cap() : var.object().kv().cap();
		bool grows = newlen > cap, shared = refcount(x.cont()) > 1;
		if (grows) { interesting++; c.count(shared ? "growth_while_shared" : "growth_unshared"); }
		if (stratum == 1) return true;
		return !(grows && shared);
	}

	// ---- literals
	std::string rstr()
	{
		static const int lens[] = {0, 1, 3, 6, 7, 7, 8, 8, 9, 12, 20};
		int n = lens[c.rng.below(sizeof(lens) / sizeof(lens[0]))];
		std::string s;
		for (int i = 0; i < n; i++) s += (char)('a' + c.rng.below(26));
		return s;
	}
	std::string rkey() { static const char* k[] = {"a", "b", "c", "key", "x1", "longerkey"}; return k[c.rng.below(6)]; }

	// assign a random scalar to *var / *mv through one of the API forms
	void scalar(Var* var, Val* mv, const std::string& where)
	{
		int w = c.rng.below(15);
		Val r;
		switch (w) {
		case 14: {  // long / unsigned long: 64-bit on this platform, every value must come back (small ones as INT like int/unsigned)
			static const long SB[] = {0L, -1L, 2147483647L, 2147483648L, -2147483648L, -2147483649L, 4294967296L, 5000000000L, -5000000000L, 9007199254740992L};
			if (c.rng.chance(0.25)) {   // ULong incl. values above the signed 64-bit range
				static const ULong UB[] = {0ULL, 1ULL, 4294967296ULL, 9223372036854775807ULL, 9223372036854775808ULL, 18446744073709551615ULL, 12345678901234567890ULL};
				ULong x = UB[c.rng.below(7)];
				c.op(vf::fmt("%s=ULong %llu", where.c_str(), (unsigned long long)x));
				if (c.rng.chance(0.5)) *var = x; else *var = Var(x);
				r.t = M_NUMBER; r.d = (double)x;
			} else if (c.rng.chance(0.5)) {
				long x = c.rng.chance(0.5) ? SB[c.rng.below(10)] : (long)c.rng.range(-1000, 1000);
				c.op(vf::fmt("%s=long %ld", where.c_str(), x));
				if (c.rng.chance(0.5)) *var = x; else *var = Var(x);
				r.t = x >= -2147483647L - 1 && x <= 2147483647L ? M_INT : M_NUMBER; r.d = (double)x;
			} else {
				unsigned long x = c.rng.chance(0.5) ? (unsigned long)(SB[c.rng.below(10)] < 0 ? 3000000000L : SB[c.rng.below(10)] < 0 ? 7 : 0) + (unsigned long)c.rng.below(3) * 2147483647UL + (c.rng.chance(0.3) ? 6000000000UL : 0UL) : (unsigned long)c.rng.below(1000);
				c.op(vf::fmt("%s=unsigned long %lu", where.c_str(), x));
				if (c.rng.chance(0.5)) *var = x; else *var = Var(x);
				r.t = x <= 2147483647UL ? M_INT : M_NUMBER; r.d = (double)x;
			}
			break;
		}
		case 0: { int x = c.rng.chance(0.2) ? (c.rng.chance(0.5) ? INT_MIN : INT_MAX) : c.rng.range(-1000, 1000); c.op(vf::fmt("%s=int %d", where.c_str(), x)); if (c.rng.chance(0.5)) *var = x; else *var = Var(x); r.t = M_INT; r.d = x; break; }
		case 1: { static const unsigned UB[] = {0u, 1u, 2147483646u, 2147483647u, 2147483648u, 2147483649u, 4294967294u, 4294967295u};
		          unsigned x = c.rng.chance(0.35) ? UB[c.rng.below(8)] : c.rng.chance(0.5) ? (unsigned)c.rng.below(1000) : 2147483648u + c.rng.below(1000000); c.op(vf::fmt("%s=unsigned %u", where.c_str(), x)); if (c.rng.chance(0.5)) *var = x; else *var = Var(x); r.t = x < 2147483648u ? M_INT : M_NUMBER; r.d = x; break; }
		case 2: { static const Long LB[] = {2147483647LL, 2147483648LL, 2147483649LL, -2147483647LL, -2147483648LL, -2147483649LL, 4294967295LL, 4294967296LL, 9007199254740992LL, -9007199254740992LL, 0LL};
		          Long x = c.rng.chance(0.3) ? LB[c.rng.below(11)] : (Long)(c.rng.next() >> c.rng.range(1, 40)) * (c.rng.chance(0.5) ? -1 : 1); c.op(vf::fmt("%s=Long %lld", where.c_str(), (long long)x)); if (c.rng.chance(0.5)) *var = x; else *var = Var(x); r.t = M_NUMBER; r.d = (double)x; break; }
		case 3: { float x = (float)(c.rng.unit() * 200 - 100); if (c.rng.chance(0.3)) x = (float)c.rng.range(-5, 5); c.op(vf::fmt("%s=float %.9g", where.c_str(), x)); if (c.rng.chance(0.5)) *var = x; else *var = Var(x); r.t = M_FLOAT; r.d = x; break; }
		case 4: case 5: { double x = c.rng.chance(0.3) ? (double)c.rng.range(-5, 5) : (c.rng.unit() - 0.5) * pow(10.0, c.rng.range(-5, 12)); c.op(vf::fmt("%s=double %.17g", where.c_str(), x)); if (c.rng.chance(0.5)) *var = x; else *var = Var(x); r.t = M_NUMBER; r.d = x; break; }
		case 6: { bool x = c.rng.chance(0.5); c.op(vf::fmt("%s=bool %d", where.c_str(), x)); if (c.rng.chance(0.5)) *var = x; else *var = Var(x); r.t = M_BOOL; r.b = x; break; }
		case 7: { c.op(where + "=NUL"); if (c.rng.chance(0.5)) *var = Var::NUL; else *var = Var(Var::NUL); r.t = M_NUL; break; }
		default: {
			if (c.rng.chance(0.06)) {   // the empty string built from its type tag
				c.op(where + "=Var(Var::STRING)");
				*var = Var(Var::STRING);
				r.t = M_STRING; r.s = "";
				c.count("var.constructed-from-type-tag-STRING");
				break;
			}
			std::string s = rstr();
			int form = c.rng.below(4);
			c.op(vf::fmt("%s=str[%d] '%s'", where.c_str(), form, s.c_str()));
			if (form == 0) *var = s.c_str();
			else if (form == 1) *var = String(s.c_str());
			else if (form == 2) *var = Var(s.c_str());
			else *var = Var(String(s.c_str()));
			r.t = M_STRING; r.s = s;
			break;
		}
		}
		*mv = r;
	}

	// ---- verification through the public API
	void cmp(const Var& x, const Val& mv, const std::string& path, int depth = 0)
	{
		static const Var::Type TT[] = {Var::NONE, Var::NUL, Var::BOOL, Var::INT, Var::NUMBER, Var::FLOAT, Var::STRING, Var::ARRAY, Var::OBJ};
		if (x.type() != TT[mv.t]) c.fail("type", vf::fmt("%s: type() is %d, model kind %d", path.c_str(), (int)x.type(), (int)mv.t));
		if (!x.is(TT[mv.t])) c.fail("is", path);
		if (x.ok() != (mv.t != M_NONE)) c.fail("ok", path);
		switch (mv.t) {
		case M_BOOL: if ((bool)x != mv.b) c.fail("value.bool", path); break;
		case M_INT: if (mv.d >= 0 && (unsigned)x != (unsigned)mv.d) c.fail("value.int-as-unsigned", path);
			if ((Long)x != (Long)mv.d) c.fail("value.int-as-Long", path);
			if ((int)x != (int)mv.d || (double)x != mv.d || !x.is(Var::NUMBER)) c.fail("value.int", vf::fmt("%s: %d vs %d", path.c_str(), (int)x, (int)mv.d)); break;
		case M_NUMBER: {
			double dd = (double)x;
			if (!x.is(Var::NUMBER)) c.fail("is.double-is-a-number", path);
			if (memcmp(&dd, &mv.d, 8) != 0) c.fail("value.double", vf::fmt("%s: %.17g vs %.17g", path.c_str(), dd, mv.d));
			if (fabs(mv.d) < 2e9 && (int)x != (int)mv.d) c.fail("value.double-as-int", path);
			// the other integer accessors, for whole numbers inside their ranges
			if (mv.d >= 0 && mv.d <= 4294967295.0 && mv.d == floor(mv.d) && (unsigned)x != (unsigned)mv.d) c.fail("value.double-as-unsigned", vf::fmt("%s: (unsigned) gives %u, value %.0f", path.c_str(), (unsigned)x, mv.d));
			if (fabs(mv.d) < 9e15 && mv.d == floor(mv.d) && (Long)x != (Long)mv.d) c.fail("value.double-as-Long", vf::fmt("%s: (Long) gives %lld, value %.0f", path.c_str(), (long long)(Long)x, mv.d));
			break;
		}
		case M_FLOAT: if ((float)x != (float)mv.d || (double)x != mv.d) c.fail("value.float", path);
			if (!x.is(Var::NUMBER)) c.fail("is.float-is-a-number", path);
			break;
		case M_STRING: {
			if (strcmp(*x, mv.s.c_str()) != 0) c.fail("value.string", vf::fmt("%s: '%s' vs '%s'", path.c_str(), *x, mv.s.c_str()));
			String s = x;
			if (s.length() != (int)mv.s.size() || strcmp(*s, mv.s.c_str()) != 0) c.fail("value.string-conversion", path);
			if (x.length() != (int)mv.s.size()) c.fail("length.string", vf::fmt("%s: %d vs %d", path.c_str(), x.length(), (int)mv.s.size()));
			break;
		}
		case M_ARRAY: {
			if (x.length() != (int)mv.a->size()) c.fail("length.array", vf::fmt("%s: %d vs %d", path.c_str(), x.length(), (int)mv.a->size()));
			if (depth < 6) for (int i = 0; i < (int)mv.a->size(); i++) cmp(x[i], (*mv.a)[i], path + vf::fmt("[%d]", i), depth + 1);
			break;
		}
		case M_OBJ: {
			if (x.length() != (int)mv.o->size()) c.fail("length.object", vf::fmt("%s: %d vs %d", path.c_str(), x.length(), (int)mv.o->size()));
			Dic<Var> o = x.object();
			VObj::const_iterator it = mv.o->begin();
			foreach2(String& k, Var& val, o) {
				(void)val;
				if (it == mv.o->end() || it->first != *k) c.fail("object.keys", vf::fmt("%s: enumeration gave key '%s'", path.c_str(), *k));
				++it;
			}
			if (it != mv.o->end()) c.fail("object.keys", path + ": enumeration ended early");
			if (depth < 6) for (auto& kv : *mv.o) {
				if (!x.has(String(kv.first.c_str()))) c.fail("object.has", path + "." + kv.first);
				cmp(x[String(kv.first.c_str())], kv.second, path + "." + kv.first, depth + 1);
			}
			break;
		}
		default: break;
		}
	}
	void verify(const char* after)
	{
		for (int i = 0; i < NS; i++) {
			try { cmp(*v[i], m[i], vf::fmt("v%d", i)); }
			catch (vf::CaseAbort&) { throw; }
		}
		(void)after;
	}
	void verifyFull()
	{
		verify("full");
		for (int i = 0; i < NS; i++) {
			String s = v[i]->toString();
			std::string want = render(m[i]);
			if ((int)strlen(*s) != s.length() || want != *s) c.fail("toString", vf::fmt("v%d: '%s' vs model '%s'", i, *s, want.c_str()));
			for (int j = 0; j < NS; j++) {
				if (hasNone(m[i]) || hasNone(m[j])) { c.count("eq_skipped_none"); continue; }
				bool want = modelEq(m[i], m[j]);
				bool got = *v[i] == *v[j], ne = *v[i] != *v[j];
				c.count(want ? "eq_true" : "eq_false");
				if (got != want || ne == want) c.fail(want ? "equality.equal-values-compare-unequal" : "equality.different-values-compare-equal",
				                                      vf::fmt("v%d==v%d gave %d, model %d: %s vs %s", i, j, got, want, render(m[i]).substr(0, 200).c_str(), render(m[j]).substr(0, 200).c_str()));
			}
		}
	}

	// would `dst = src` create a cycle, or read a source that lives inside dst's own value?
	bool cycle(const Place& dst, const Val& srcv)
	{
		std::set<const void*> r;
		reach(srcv, r);
		for (const void* h : holders(dst)) if (r.count(h)) return true;
		return false;
	}
	bool srcInsideDst(const Place& dst, const Place& src)
	{
		std::set<const void*> r;
		reach(*mAt(dst), r);
		for (const void* h : holders(src)) if (r.count(h)) return true;
		return false;
	}

	void step()
	{
		int w = c.rng.below(30);
		shape = vf::mix(shape, w);
		switch (w) {
		case 0: case 1: case 2: {  // place = scalar
			Place p = pick();
			scalar(vAt(p), mAt(p), p.str());
			break;
		}
		case 3: case 4: case 5: case 6: {  // dst = src
			Place dst = pick(), src = pick();
			Val sv = *mAt(src);
			if (cycle(dst, sv)) { c.count("skipped_cycle"); break; }
			bool inside = srcInsideDst(dst, src);
			if (inside && stratum != 2) { c.count("skipped_source_inside_target"); break; }
			if (stratum == 2 && !inside && c.rng.chance(0.5)) break;
			if (inside) { interesting++; c.count("assign_from_own_element"); }
			c.op(dst.str() + "=" + src.str());
			Var* d = vAt(dst);
			Var* s = vAt(src);
			*d = *s;
			*mAt(dst) = sv;
			break;
		}
		case 7: {  // copy-construct then move into a slot
			Place src = pick();
			int k = c.rng.below(NS);
			Place dst; dst.slot = k;
			if (srcInsideDst(dst, src) && stratum != 2) break;
			c.op(vf::fmt("v%d=Var(%s) [copy-constructed]", k, src.str().c_str()));
			Var* nv = new Var(*vAt(src));
			Val sv = *mAt(src);
			delete v[k];
			v[k] = nv;
			m[k] = sv;
			break;
		}
		case 8: case 9: case 10: {  // place[i] with auto-creation, then assign a scalar
			Place p = pick();
			Val* mv = mAt(p);
			Var* var = vAt(p);
			if (mv->t != M_NONE && mv->t != M_ARRAY) break;
			int len = mv->t == M_ARRAY ? (int)mv->a->size() : 0;
			int i = c.rng.chance(0.6) && len ? c.rng.below(len) : len + c.rng.below(3);
			if (mv->t == M_ARRAY && i >= len && !growOK(*mv, *var, i + 1)) { c.count("skipped_growth_shared"); break; }
			if (mv->t == M_NONE) { mv->t = M_ARRAY; mv->a.reset(new VArr); }
			if (i >= (int)mv->a->size()) mv->a->resize(i + 1);
			std::string where = p.str() + vf::fmt("[%d]", i);
			Var& e = (*var)[i];
			scalar(&e, &(*mv->a)[i], where);
			break;
		}
		case 11: case 12: case 13: {  // place["k"] with auto-creation
			Place p = pick(1);
			Val* mv = mAt(p);
			Var* var = vAt(p);
			if (mv->t != M_NONE && mv->t != M_OBJ) break;
			std::string k = rkey();
			bool isnew = mv->t == M_NONE || !mv->o->count(k);
			if (mv->t == M_OBJ && isnew && !growOK(*mv, *var, (int)mv->o->size() + 1)) { c.count("skipped_growth_shared"); break; }
			if (mv->t == M_NONE) { mv->t = M_OBJ; mv->o.reset(new VObj); }
			std::string where = p.str() + "[\"" + k + "\"]";
			Var& e = c.rng.chance(0.5) ? (*var)[k.c_str()] : (*var)[String(k.c_str())];
			Val& me = (*mv->o)[k];
			if (c.rng.chance(0.15)) { c.op(where + " (touch only)"); break; }  // auto-created NONE member stays
			scalar(&e, &me, where);
			break;
		}
		case 14: case 15: case 16: {  // append
			Place p = pick();
			Val* mv = mAt(p);
			Var* var = vAt(p);
			if (mv->t != M_NONE && mv->t != M_ARRAY) break;
			if (mv->t == M_ARRAY && !growOK(*mv, *var, (int)mv->a->size() + 1)) { c.count("skipped_growth_shared"); break; }
			Val x;
			if (c.rng.chance(0.6)) {
				Var tmp;
				scalar(&tmp, &x, p.str() + "<<tmp");
				*var << tmp;
			} else {
				Place src = pick();
				x = *mAt(src);
				std::set<const void*> r;
				reach(x, r);
				bool cyc = mAt(src) == mv;
				if (mv->t == M_ARRAY && r.count(mv->cont())) cyc = true;
				for (const void* h : holders(p)) if (r.count(h)) cyc = true;
				if (cyc) { c.count("skipped_cycle"); break; }
				bool own = false;
				if (mv->t == M_ARRAY) {
					std::set<const void*> mine;
					reach(*mv, mine);
					for (const void* h : holders(src)) if (mine.count(h)) own = true;
				}
				if (own && stratum != 2) { c.count("skipped_source_inside_target"); break; }
				if (own) { interesting++; c.count("append_own_element"); }
				c.op(p.str() + "<<" + src.str());
				*var << *vAt(src);
			}
			if (mv->t == M_NONE) { mv->t = M_ARRAY; mv->a.reset(new VArr); }
			mv->a->push_back(x);
			break;
		}
		case 17: {  // removeAt
			Place p = pick();
			Val* mv = mAt(p);
			if (mv->t != M_ARRAY || mv->a->empty()) break;
			int n = (int)mv->a->size(), i = c.rng.below(n), cnt = c.rng.range(1, n - i);
			if (c.rng.chance(0.15)) {
				// a range that is not inside the array (e.g. the -1 of a failed search) removes nothing
				int w = (int)c.rng.below(5);
				int bi = w == 0 ? -1 : w == 1 ? n : w == 2 ? n + c.rng.range(1, 5) : w == 3 ? -c.rng.range(2, 9) : i;
				int bn = w == 4 ? n - i + c.rng.range(1, 4) : c.rng.range(1, 3);
				c.op(vf::fmt("%s.removeAt(%d,%d) [outside an array of %d]", p.str().c_str(), bi, bn, n));
				vAt(p)->removeAt(bi, bn);
				c.count("removeAt.outside-the-array");
				break;
			}
			c.op(vf::fmt("%s.removeAt(%d,%d)", p.str().c_str(), i, cnt));
			vAt(p)->removeAt(i, cnt);
			mv->a->erase(mv->a->begin() + i, mv->a->begin() + i + cnt);
			break;
		}
		case 18: {  // remove key
			Place p = pick();
			Val* mv = mAt(p);
			if (mv->t != M_OBJ) break;
			std::string k = rkey();
			c.op(vf::fmt("%s.remove(\"%s\")", p.str().c_str(), k.c_str()));
			vAt(p)->remove(String(k.c_str()));
			mv->o->erase(k);
			break;
		}
		case 19: {  // clear
			Place p = pick();
			Val* mv = mAt(p);
			if ((mv->t != M_ARRAY && mv->t != M_OBJ) || !c.rng.chance(0.5)) break;
			c.op(p.str() + ".clear()");
			vAt(p)->clear();
			if (mv->t == M_ARRAY) mv->a->clear(); else mv->o->clear();
			break;
		}
		case 20: {  // resize
			Place p = pick();
			Val* mv = mAt(p);
			Var* var = vAt(p);
			if (mv->t != M_NONE && mv->t != M_ARRAY) break;
			int len = mv->t == M_ARRAY ? (int)mv->a->size() : 0;
			int n = c.rng.range(0, len + 4);
			if (mv->t == M_ARRAY && n > len && !growOK(*mv, *var, n)) break;
			c.op(vf::fmt("%s.resize(%d)", p.str().c_str(), n));
			var->resize(n);
			if (mv->t == M_NONE) { mv->t = M_ARRAY; mv->a.reset(new VArr); }
			mv->a->resize(n);
			break;
		}
		case 21: {  // extend
			Place p = pick(1), src = pick();
			Val* mv = mAt(p);
			Val sv = *mAt(src);
			if ((mv->t != M_NONE && mv->t != M_OBJ) || sv.t != M_OBJ) break;
			if (cycle(p, sv) || srcInsideDst(p, src)) break;
			if (mv->t == M_OBJ && sv.o.get() == mv->o.get()) break;
			if (mv->t == M_OBJ) {
				std::set<const void*> r;
				reach(sv, r);
				if (r.count(mv->cont())) break;
				int nnew = 0;
				for (auto& kv : *sv.o) if (kv.second.t != M_NONE && !mv->o->count(kv.first)) nnew++;
				if (nnew && !growOK(*mv, *vAt(p), (int)mv->o->size() + nnew)) break;
			}
			c.op(p.str() + ".extend(" + src.str() + ")");
			vAt(p)->extend(*vAt(src));
			if (mv->t == M_NONE) { mv->t = M_OBJ; mv->o.reset(new VObj); }
			for (auto& kv : *sv.o) if (kv.second.t != M_NONE) (*mv->o)[kv.first] = kv.second;
			break;
		}
		case 22: case 23: {  // clone into a slot
			Place src = pick();
			int k = c.rng.below(NS);
			Place dst; dst.slot = k;
			if (srcInsideDst(dst, src) && stratum != 2) break;
			c.op(vf::fmt("v%d=%s.clone()", k, src.str().c_str()));
			Val sv = deepcopy(*mAt(src));
			*v[k] = vAt(src)->clone();
			m[k] = sv;
			c.count("clones");
			break;
		}
		case 24: {  // drop
			int k = c.rng.below(NS);
			c.op(vf::fmt("v%d=Var()", k));
			*v[k] = Var();
			m[k] = Val();
			break;
		}
		case 25: {  // build from typed containers
			int k = c.rng.below(NS), n = c.rng.range(0, 6);
			Val r;
			if (c.rng.chance(0.25)) {
				// an object literal of three members in any key order, a key possibly given twice (the later value counts)
				std::string kk[3] = {rkey(), rkey(), rkey()};
				int rep = c.rng.below(5);
				if (rep == 0) kk[2] = kk[1]; else if (rep == 1) kk[2] = kk[0]; else if (rep == 2) kk[1] = kk[0];
				int x[3] = {c.rng.range(-50, 50), c.rng.range(-50, 50), c.rng.range(-50, 50)};
				r.t = M_OBJ; r.o.reset(new VObj);
				for (int i = 0; i < 3; i++) { Val e; e.t = M_INT; e.d = x[i]; (*r.o)[kk[i]] = e; }
				c.op(vf::fmt("v%d=Var{{\"%s\",%d},{\"%s\",%d},{\"%s\",%d}}", k, kk[0].c_str(), x[0], kk[1].c_str(), x[1], kk[2].c_str(), x[2]));
				Var x0 = x[0], x1 = x[1], x2 = x[2];
				if (c.rng.chance(0.5)) *v[k] = Var{{kk[0].c_str(), x0}, {kk[1].c_str(), x1}, {kk[2].c_str(), x2}};
				else *v[k] = {{kk[0].c_str(), x0}, {kk[1].c_str(), x1}, {kk[2].c_str(), x2}};
				c.count(rep <= 2 ? "object-literal.with-a-repeated-key" : "object-literal.distinct-keys");
			} else if (c.rng.chance(0.5)) {
				Array<int> a;
				r.t = M_ARRAY; r.a.reset(new VArr);
				for (int i = 0; i < n; i++) { int x = c.rng.range(-50, 50); a << x; Val e; e.t = M_INT; e.d = x; r.a->push_back(e); }
				c.op(vf::fmt("v%d=Array<int>(%d)", k, n));
				if (c.rng.chance(0.5)) *v[k] = a; else *v[k] = Var(a);
			} else {
				Dic<String> dd;
				r.t = M_OBJ; r.o.reset(new VObj);
				for (int i = 0; i < n; i++) { std::string kk = rkey(), s = rstr(); dd[kk.c_str()] = s.c_str(); Val e; e.t = M_STRING; e.s = s; (*r.o)[kk] = e; }
				c.op(vf::fmt("v%d=Dic<String>(%d)", k, n));
				*v[k] = Var(dd);
			}
			m[k] = r;
			break;
		}
		default: {  // full verification incl. equality over all pairs and toString
			verifyFull();
			return;
		}
		}
		verify("op");
	}
};

static void run(vf::Ctx& c, int stratum)
{
	int nops = c.rng.chance(0.2) ? c.rng.range(80, 160) : c.rng.range(8, 60);
	{
		D d(c, stratum);
		for (int i = 0; i < nops; i++) d.step();
		if (stratum == 1) {
			// make the pattern occur: two Vars on one array, growth through one of them
			c.op("v0=array of 3; v1=v0; v0<<... past capacity");
			*d.v[0] = Var();
			d.m[0] = Val();
			Var& a = *d.v[0];
			a << 1 << 2 << 3;
			*d.v[1] = a;
			int cap = a.array().cap();
			for (int i = 0; i <= cap; i++) a << i;
			int n = d.v[1]->length();
			volatile int keep = n;
			(void)keep;
			for (int i = 0; i < n; i++) { volatile int x = (int)(*d.v[1])[i]; (void)x; }
		} else d.verifyFull();
		if (nops >= 8 && d.interesting) c.distinct(d.shape);
		else if (nops >= 20) c.distinct(d.shape);
		c.count("ops", nops);
		if (c.want_sample()) c.sample(c.curdesc().substr(0, 700));
	}
}

static void mode_hist(vf::Ctx& c) { run(c, 0); }
static void mode_shared(vf::Ctx& c) { run(c, 1); }
static void mode_self(vf::Ctx& c) { run(c, 2); }

// equality lattice on constructed pairs (numbers across INT/NUMBER/FLOAT, strings across the 7/8 boundary, containers)
static void mode_eq(vf::Ctx& c)
{
	D d(c, 0);
	for (int rep = 0; rep < 30; rep++) {
		for (int k = 0; k < NS; k++) {
			Place p; p.slot = k;
			int w = c.rng.below(6);
			Val r;
			// every third lattice uses neighbouring numbers around 2^24 and 2^31, where an int, a float and a double that look alike differ
			static const int BI[] = {16777215, 16777216, 16777217, 16777218, 33554433, 2147483647, -16777217, -2147483647 - 1};
			static const double BD[] = {16777216.0, 16777217.0, 16777218.0, 33554433.0, 2147483647.0, 2147483648.0, -16777217.0, -2147483648.0, 4294967296.0};
			static const float BF[] = {16777216.0f, 16777218.0f, 33554432.0f, 2147483648.0f, -16777216.0f, -2147483648.0f};
			bool big = rep % 3 == 2;
			if (big && w == 5 && c.rng.chance(0.7)) w = (int)c.rng.below(3);
			if (big && w == 3 && c.rng.chance(0.7)) w = (int)c.rng.below(3);
			if (w == 0) { int x = big ? BI[c.rng.below(8)] : c.rng.range(-3, 3); *d.v[k] = x; r.t = M_INT; r.d = x; }
			else if (w == 1) { double x = big ? BD[c.rng.below(9)] : c.rng.range(-3, 3) + (c.rng.chance(0.3) ? 0.5 : 0); *d.v[k] = x; r.t = M_NUMBER; r.d = x; }
			else if (w == 2) { float x = big ? BF[c.rng.below(6)] : (float)c.rng.range(-3, 3) + (c.rng.chance(0.3) ? 0.5f : 0); *d.v[k] = x; r.t = M_FLOAT; r.d = x; }
			else if (w == 3) { static const char* S[] = {"", "abcdefg", "abcdefgh", "abcdef", "abcdefg", "abcdefgh", "1", "true"}; const char* s = S[c.rng.below(8)]; if (c.rng.chance(0.5)) *d.v[k] = s; else { *d.v[k] = "a much longer string first"; *d.v[k] = s; } r.t = M_STRING; r.s = s; }
			else if (w == 4) { bool x = c.rng.chance(0.5); *d.v[k] = x; r.t = M_BOOL; r.b = x; }
			else { *d.v[k] = Var::NUL; r.t = M_NUL; }
			d.m[k] = r;
		}
		// wrap two of them in containers
		int a = c.rng.below(NS), b = c.rng.below(NS);
		Var arr; arr << *d.v[a] << *d.v[b];
		Val ma; ma.t = M_ARRAY; ma.a.reset(new VArr); ma.a->push_back(d.m[a]); ma.a->push_back(d.m[b]);
		int k = c.rng.below(NS);
		*d.v[k] = arr; d.m[k] = ma;
		c.desc(vf::fmt("eq lattice: %s | %s | %s | %s | %s", render(d.m[0]).c_str(), render(d.m[1]).c_str(), render(d.m[2]).c_str(), render(d.m[3]).c_str(), render(d.m[4]).c_str()));
		d.verifyFull();
		c.distinct(vf::fnv(c.curdesc()));
		c.evals(1);
	}
	if (c.want_sample()) c.sample(c.curdesc());
}

int main(int argc, char** argv)
{
	vf::Runner R;
	R.add("hist", mode_hist, "stratum A histories");
	R.add("selfassign", mode_self, "assignments/appends whose source lives inside the target");
	R.add("shared_growth", mode_shared, "stratum B (known finding)");
	R.add("eq", mode_eq, "equality lattice");
	return R.main(argc, argv);
}
