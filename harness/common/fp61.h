// Exact scalar over the prime field F_p, p = 2^61-1, shaped so that asl's numeric templates
// (Matrix4_, Matrix3_, Matrix_, solve, Quaternion_) instantiate over it.
//
//  * + - * / unary -, compound forms, == != < > <= >= (order of the canonical representative,
//    meaningless algebraically, only there so that "max < fabs(x)" compiles and is a strict total order)
//  * constructors from int / long long / unsigned long long / float / double. A finite double m*2^e is
//    mapped EXACTLY to m * 2^e in the field (0.5 is the inverse of 2), so formulas with dyadic constants
//    keep their algebraic meaning
//  * fabs(x) = x * Fp61::absmul  (absmul != 0 chosen per case by the harness): an injective map that fixes 0,
//    so that partial pivoting ("largest fabs") picks an arbitrary non-zero candidate
//  * sqrt(x): a square root when x is a quadratic residue (p = 3 mod 4), else 0 and Fp61::sqrt_fail++
//  * division by zero yields 0 and Fp61::div_zero++ (the harness looks at the counter)
#pragma once
#include <stdint.h>
#include <math.h>

struct Fp61
{
	static const uint64_t P = 0x1fffffffffffffffULL;  // 2^61-1
	uint64_t v;                                        // canonical, 0 <= v < P

	static uint64_t& absmul_ref() { static uint64_t k = 1; return k; }
	static uint64_t& div_zero_ref() { static uint64_t n = 0; return n; }
	static uint64_t& sqrt_fail_ref() { static uint64_t n = 0; return n; }
	static uint64_t& fabs_calls_ref() { static uint64_t n = 0; return n; }

	static inline uint64_t red(uint64_t x) { x = (x & P) + (x >> 61); return x >= P ? x - P : x; }
	static inline uint64_t mulmod(uint64_t a, uint64_t b)
	{
		unsigned __int128 t = (unsigned __int128)a * b;  // < 2^122
		uint64_t lo = (uint64_t)t & P, hi = (uint64_t)(t >> 61);
		uint64_t s = lo + hi;  // < 2^62
		s = (s & P) + (s >> 61);
		return s >= P ? s - P : s;
	}
	static inline uint64_t powmod(uint64_t a, uint64_t e)
	{
		uint64_t r = 1;
		while (e) { if (e & 1) r = mulmod(r, a); a = mulmod(a, a); e >>= 1; }
		return r;
	}
	static inline uint64_t invmod(uint64_t a) { return powmod(a, P - 2); }

	Fp61() : v(0) {}
	Fp61(int x) : v(x >= 0 ? red((uint64_t)x) : neg(red((uint64_t)(-(long long)x)))) {}
	Fp61(long long x) : v(x >= 0 ? red((uint64_t)x) : neg(red((uint64_t)0 - (uint64_t)x))) {}
	Fp61(unsigned long long x) : v(red(red((uint64_t)x))) {}
	Fp61(double d) : v(from_double(d)) {}
	Fp61(float f) : v(from_double((double)f)) {}
	static Fp61 raw(uint64_t x) { Fp61 r; r.v = red(red(x)); return r; }

	static inline uint64_t neg(uint64_t x) { return x ? P - x : 0; }
	static uint64_t from_double(double d)
	{
		if (d == 0 || d != d || isinf(d)) return 0;
		bool ng = d < 0;
		if (ng) d = -d;
		int e;
		double m = frexp(d, &e);              // d = m * 2^e, 0.5 <= m < 1
		uint64_t mi = (uint64_t)ldexp(m, 53);  // exact 53-bit integer
		e -= 53;
		uint64_t r = red(mi);
		// 2 has order 61 modulo 2^61-1
		int k = ((e % 61) + 61) % 61;
		r = mulmod(r, (uint64_t)1 << k);
		return ng ? neg(r) : r;
	}

	Fp61 operator+(const Fp61& b) const { Fp61 r; uint64_t s = v + b.v; r.v = s >= P ? s - P : s; return r; }
	Fp61 operator-(const Fp61& b) const { Fp61 r; r.v = v >= b.v ? v - b.v : v + P - b.v; return r; }
	Fp61 operator*(const Fp61& b) const { Fp61 r; r.v = mulmod(v, b.v); return r; }
	Fp61 operator/(const Fp61& b) const
	{
		Fp61 r;
		if (b.v == 0) { div_zero_ref()++; return r; }
		r.v = mulmod(v, invmod(b.v));
		return r;
	}
	Fp61 operator-() const { Fp61 r; r.v = neg(v); return r; }
	Fp61 operator+() const { return *this; }
	Fp61& operator+=(const Fp61& b) { return *this = *this + b; }
	Fp61& operator-=(const Fp61& b) { return *this = *this - b; }
	Fp61& operator*=(const Fp61& b) { return *this = *this * b; }
	Fp61& operator/=(const Fp61& b) { return *this = *this / b; }
	bool operator==(const Fp61& b) const { return v == b.v; }
	bool operator!=(const Fp61& b) const { return v != b.v; }
	bool operator<(const Fp61& b) const { return v < b.v; }
	bool operator>(const Fp61& b) const { return v > b.v; }
	bool operator<=(const Fp61& b) const { return v <= b.v; }
	bool operator>=(const Fp61& b) const { return v >= b.v; }
	bool zero() const { return v == 0; }
};

// mixed forms with the literal types that appear in asl's formulas (int and floating constants)
#define FP61_MIXED(OP, RET)                                                                        \
	inline RET operator OP(int a, const Fp61& b) { return Fp61(a) OP b; }                            \
	inline RET operator OP(const Fp61& a, int b) { return a OP Fp61(b); }                            \
	inline RET operator OP(double a, const Fp61& b) { return Fp61(a) OP b; }                         \
	inline RET operator OP(const Fp61& a, double b) { return a OP Fp61(b); }                         \
	inline RET operator OP(float a, const Fp61& b) { return Fp61(a) OP b; }                          \
	inline RET operator OP(const Fp61& a, float b) { return a OP Fp61(b); }
FP61_MIXED(+, Fp61)
FP61_MIXED(-, Fp61)
FP61_MIXED(*, Fp61)
FP61_MIXED(/, Fp61)
FP61_MIXED(==, bool)
FP61_MIXED(!=, bool)
FP61_MIXED(<, bool)
FP61_MIXED(>, bool)
FP61_MIXED(<=, bool)
FP61_MIXED(>=, bool)
#undef FP61_MIXED

inline Fp61 fabs(const Fp61& x)
{
	Fp61::fabs_calls_ref()++;
	Fp61 r;
	r.v = Fp61::mulmod(x.v, Fp61::absmul_ref());
	return r;
}
inline Fp61 abs(const Fp61& x) { return fabs(x); }

inline Fp61 sqrt(const Fp61& x)
{
	Fp61 r;
	if (x.v == 0) return r;
	uint64_t s = Fp61::powmod(x.v, (Fp61::P + 1) / 4);
	if (Fp61::mulmod(s, s) != x.v) { Fp61::sqrt_fail_ref()++; return r; }
	r.v = s;
	return r;
}
