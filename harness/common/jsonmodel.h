// Shared by C05/C06: a JSON-like value model (JV), random tree generation, conversion to asl::Var,
// a structural comparer that uses only Var's accessors, a typed dump format for the offline python
// oracle, and a text-first generator of RFC 8259 / XDL documents with a per-byte lexical tag map.
#pragma once
#include "runner.h"
#include <asl/Var.h>
#include <asl/JSON.h>
#include <asl/Xdl.h>
#include <string>
#include <vector>
#include <map>
#include <math.h>
#include <float.h>
#include <limits.h>

namespace jm {

struct JV
{
	enum K { Z, B, I, D, F, S, A, O } k;
	bool b;
	int i;
	double d;
	float f;
	std::string s;
	std::vector<JV> a;
	std::vector<std::pair<std::string, JV> > o;  // unique keys
	JV() : k(Z), b(false), i(0), d(0), f(0) {}
	static JV mk(K k) { JV v; v.k = k; return v; }
};

// ---------------------------------------------------------------- typed dump (for python)
// ["z"] ["b",true] ["i",n] ["d","hexfloat"] ["f","hexfloat"] ["s","hexbytes"] ["a",...] ["o",["hexkey",v],...]
inline void dumpJV(const JV& v, std::string& out)
{
	char b[64];
	switch (v.k) {
	case JV::Z: out += "[\"z\"]"; break;
	case JV::B: out += v.b ? "[\"b\",true]" : "[\"b\",false]"; break;
	case JV::I: snprintf(b, sizeof b, "[\"i\",%d]", v.i); out += b; break;
	case JV::D: snprintf(b, sizeof b, "[\"d\",\"%a\"]", v.d); out += b; break;
	case JV::F: snprintf(b, sizeof b, "[\"f\",\"%a\"]", (double)v.f); out += b; break;
	case JV::S: out += "[\"s\",\"" + vf::hex(v.s) + "\"]"; break;
	case JV::A:
		out += "[\"a\"";
		for (size_t i = 0; i < v.a.size(); i++) { out += ","; dumpJV(v.a[i], out); }
		out += "]";
		break;
	case JV::O:
		out += "[\"o\"";
		for (size_t i = 0; i < v.o.size(); i++) { out += ",[\"" + vf::hex(v.o[i].first) + "\","; dumpJV(v.o[i].second, out); out += "]"; }
		out += "]";
		break;
	}
}

// typed dump of what an asl Var holds, through its public accessors only
inline void dumpVar(const asl::Var& v, std::string& out, int depth = 0)
{
	char b[64];
	switch (v.type()) {
	case asl::Var::NONE: out += "[\"none\"]"; break;
	case asl::Var::NUL: out += "[\"z\"]"; break;
	case asl::Var::BOOL: out += (bool)v ? "[\"b\",true]" : "[\"b\",false]"; break;
	case asl::Var::INT: snprintf(b, sizeof b, "[\"i\",%d]", (int)v); out += b; break;
	case asl::Var::NUMBER: snprintf(b, sizeof b, "[\"d\",\"%a\"]", (double)v); out += b; break;
	case asl::Var::FLOAT: snprintf(b, sizeof b, "[\"f\",\"%a\"]", (double)(float)v); out += b; break;
	case asl::Var::STRING: out += "[\"s\",\"" + vf::hex(*v, strlen(*v)) + "\"]"; break;
	case asl::Var::ARRAY:
		out += "[\"a\"";
		for (int i = 0; i < v.length(); i++) { out += ","; dumpVar(v[i], out, depth + 1); }
		out += "]";
		break;
	case asl::Var::OBJ: {
		out += "[\"o\"";
		asl::Dic<asl::Var> o = v.object();
		foreach2(asl::String& k, asl::Var& x, o) { out += ",[\"" + vf::hex(*k, k.length()) + "\","; dumpVar(x, out, depth + 1); out += "]"; }
		out += "]";
		break;
	}
	default: out += "[\"?\"]";
	}
}

// ---------------------------------------------------------------- JV -> Var
inline asl::Var toVar(const JV& v)
{
	switch (v.k) {
	case JV::Z: return asl::Var(asl::Var::NUL);
	case JV::B: return asl::Var(v.b);
	case JV::I: return asl::Var(v.i);
	case JV::D: return asl::Var(v.d);
	case JV::F: return asl::Var(v.f);
	case JV::S: return asl::Var(asl::String(v.s.c_str(), (int)v.s.size()));
	case JV::A: {
		asl::Var r(asl::Var::ARRAY);
		for (size_t i = 0; i < v.a.size(); i++) r << toVar(v.a[i]);
		return r;
	}
	case JV::O: {
		asl::Var r(asl::Var::OBJ);
		for (size_t i = 0; i < v.o.size(); i++) r[asl::String(v.o[i].first.c_str(), (int)v.o[i].first.size())] = toVar(v.o[i].second);
		return r;
	}
	}
	return asl::Var();
}

// ---------------------------------------------------------------- structural comparer (numbers numerically)
// mode: 0 = decoded document vs model (ints may come back as INT or NUMBER, doubles bit-for-bit when non-zero,
//           floats equal as float)
inline bool same(const asl::Var& v, const JV& m, std::string& why, const std::string& path = "$")
{
	switch (m.k) {
	case JV::Z: if (v.type() != asl::Var::NUL) { why = path + ": expected null, type " + std::to_string((int)v.type()); return false; } return true;
	case JV::B: if (v.type() != asl::Var::BOOL || (bool)v != m.b) { why = path + ": bool"; return false; } return true;
	case JV::I:
		if (!v.is(asl::Var::NUMBER) || (double)v != (double)m.i) { why = path + vf::fmt(": int %d came back as %.17g (type %d)", m.i, (double)v, (int)v.type()); return false; }
		return true;
	case JV::D: {
		if (!v.is(asl::Var::NUMBER)) { why = path + ": number expected, type " + std::to_string((int)v.type()); return false; }
		double x = (double)v;
		if (m.d == 0) { if (x != 0) { why = path + ": zero"; return false; } return true; }
		if (memcmp(&x, &m.d, 8) != 0) { why = path + vf::fmt(": double %.17g (%a) came back as %.17g (%a)", m.d, m.d, x, x); return false; }
		return true;
	}
	case JV::F: {
		if (!v.is(asl::Var::NUMBER)) { why = path + ": number expected"; return false; }
		float x = (float)(double)v;
		if (m.f == 0) { if (x != 0) { why = path + ": zero float"; return false; } return true; }
		if (memcmp(&x, &m.f, 4) != 0) { why = path + vf::fmt(": float %.9g came back as %.9g", m.f, x); return false; }
		return true;
	}
	case JV::S:
		if (v.type() != asl::Var::STRING) { why = path + ": string expected, type " + std::to_string((int)v.type()); return false; }
		if (m.s != *v) { why = path + ": string '" + vf::vis(m.s, 80) + "' came back as '" + vf::vis(*v, strlen(*v), 80) + "'"; return false; }
		return true;
	case JV::A:
		if (v.type() != asl::Var::ARRAY) { why = path + ": array expected, type " + std::to_string((int)v.type()); return false; }
		if (v.length() != (int)m.a.size()) { why = path + vf::fmt(": array length %d, expected %d", v.length(), (int)m.a.size()); return false; }
		for (size_t i = 0; i < m.a.size(); i++) if (!same(v[(int)i], m.a[i], why, path + vf::fmt("[%d]", (int)i))) return false;
		return true;
	case JV::O:
		if (v.type() != asl::Var::OBJ) { why = path + ": object expected, type " + std::to_string((int)v.type()); return false; }
		if (v.length() != (int)m.o.size()) { why = path + vf::fmt(": object with %d keys, expected %d", v.length(), (int)m.o.size()); return false; }
		for (size_t i = 0; i < m.o.size(); i++) {
			asl::String k(m.o[i].first.c_str(), (int)m.o[i].first.size());
			if (!v.has(k)) { why = path + ": key '" + vf::vis(m.o[i].first, 60) + "' missing"; return false; }
			if (!same(v[k], m.o[i].second, why, path + "." + vf::vis(m.o[i].first, 30))) return false;
		}
		return true;
	}
	return false;
}

// ---------------------------------------------------------------- random value trees (C05)
struct TreeOpt
{
	int maxdepth, maxkids;
	bool idkeys;     // object keys restricted to identifiers (XDL)
	bool utf8valid;  // strings are valid UTF-8 (needed for the independent-parser clause)
	mutable int budget;  // remaining nodes; when exhausted only scalars are generated
	TreeOpt() : maxdepth(5), maxkids(8), idkeys(false), utf8valid(true), budget(400) {}
};

inline void appendUtf8(std::string& s, unsigned cp)
{
	if (cp < 0x80) s += (char)cp;
	else if (cp < 0x800) { s += (char)(0xC0 | (cp >> 6)); s += (char)(0x80 | (cp & 63)); }
	else if (cp < 0x10000) { s += (char)(0xE0 | (cp >> 12)); s += (char)(0x80 | ((cp >> 6) & 63)); s += (char)(0x80 | (cp & 63)); }
	else { s += (char)(0xF0 | (cp >> 18)); s += (char)(0x80 | ((cp >> 12) & 63)); s += (char)(0x80 | ((cp >> 6) & 63)); s += (char)(0x80 | (cp & 63)); }
}

inline unsigned randScalar(vf::Rng& r)
{
	static const unsigned edges[] = {0x7f, 0x80, 0x7ff, 0x800, 0xd7ff, 0xe000, 0xfffd, 0xffff, 0x10000, 0x10ffff, 0xe9, 0x20ac, 0x1f600, 0xfeff, 0xfeff};
	if (r.chance(0.4)) return edges[r.below(sizeof(edges) / sizeof(edges[0]))];
	unsigned cp;
	do { cp = 1 + r.below(r.chance(0.5) ? 0x2fff : 0x10ffff); } while (cp >= 0xd800 && cp < 0xe000);
	return cp;
}

inline std::string randString(vf::Rng& r, bool utf8valid, bool ident)
{
	std::string s;
	if (ident) {
		static const char first[] = "abcdefghijklmnopqrstuvwxyzABCDEFGHIJKLMNOPQRSTUVWXYZ_";
		static const char rest[] = "abcdefghijklmnopqrstuvwxyzABCDEFGHIJKLMNOPQRSTUVWXYZ_0123456789";
		int n = r.range(1, r.chance(0.2) ? 20 : 6);
		s += first[r.below(sizeof(first) - 1)];
		for (int i = 1; i < n; i++) s += rest[r.below(sizeof(rest) - 1)];
		return s;
	}
	static const int lens[] = {0, 1, 2, 5, 7, 8, 15, 16, 30, 100};
	int n = lens[r.below(10)];
	if (r.chance(0.02)) n = r.range(200, 3000);
	int style = r.below(5);
	for (int i = 0; i < n; i++) {
		switch (style) {
		case 0: s += (char)r.range(0x20, 0x7e); break;                       // printable ASCII incl " \ /
		case 1: s += (char)r.range(1, 0x7f); break;                          // every control character, DEL
		case 2: { static const char h[] = "\"\\/\b\f\n\r\t\x01\x1f\x7f u0041\\u"; s += h[r.below(sizeof(h) - 1)]; break; }
		case 3: appendUtf8(s, randScalar(r)); break;                          // valid multi-byte UTF-8
		default: if (utf8valid) appendUtf8(s, r.chance(0.5) ? randScalar(r) : (unsigned)r.range(1, 0x7f)); else s += (char)r.range(1, 255); break;
		}
	}
	return s;
}

inline double randDouble(vf::Rng& r)
{
	static const double specials[] = {0.0, -0.0, 1.0, -1.0, 0.1, 0.5, DBL_MAX, -DBL_MAX, DBL_MIN, 4.9406564584124654e-324, -4.9406564584124654e-324, 1e9, 1e10, 999999999.0,
	                                  1000000000.0, 2147483647.0, 2147483648.0, -2147483648.0, -2147483649.0, 9007199254740992.0, 9007199254740993.0, 1e15, 1e16, 1e17,
	                                  1e21, 1e22, 1e23, 123456789012.0, 0.30000000000000004, 1.7976931348623157e308, 2.2250738585072011e-308, 5e-324, 1e-7, 123456.789};
	int w = r.below(10);
	if (w < 2) return specials[r.below(sizeof(specials) / sizeof(specials[0]))];
	if (w < 6) {  // random bit pattern, finite
		for (;;) { uint64_t u = r.next(); double d; memcpy(&d, &u, 8); if (isfinite(d)) return d; }
	}
	if (w < 7) { uint64_t u = r.next() & 0x800fffffffffffffULL; double d; memcpy(&d, &u, 8); return d; }  // denormals
	if (w < 8) return (double)(int64_t)(r.next() >> r.range(1, 40)) * (r.chance(0.5) ? -1 : 1);             // integral doubles
	return (r.unit() - 0.5) * pow(10.0, r.range(-12, 12));
}

inline float randFloat(vf::Rng& r)
{
	static const float specials[] = {0.0f, 1.0f, -1.0f, 0.1f, FLT_MAX, -FLT_MAX, FLT_MIN, 1.4e-45f, 16777216.0f, 16777217.0f, 3.14159274f, 1e9f, 1e10f, 0.333333343f};
	int w = r.below(10);
	if (w < 2) return specials[r.below(sizeof(specials) / sizeof(specials[0]))];
	if (w < 7) { for (;;) { uint32_t u = (uint32_t)r.next(); float f; memcpy(&f, &u, 4); if (isfinite(f)) return f; } }
	return (float)((r.unit() - 0.5) * pow(10.0, r.range(-6, 6)));
}

inline int randInt(vf::Rng& r)
{
	static const int specials[] = {0, 1, -1, INT_MAX, INT_MIN, INT_MIN + 1, 999999999, 1000000000, -999999999, -1000000000, 2147483646, 10, 100, 99, -10};
	if (r.chance(0.3)) return specials[r.below(sizeof(specials) / sizeof(specials[0]))];
	if (r.chance(0.5)) return r.range(-1000, 1000);
	return (int)(uint32_t)r.next();
}

inline JV randTree(vf::Rng& r, const TreeOpt& o, int depth = 0)
{
	JV v;
	o.budget--;
	int w = r.below((depth >= o.maxdepth || o.budget <= 0) ? 7 : 10);
	if (depth == 0 && r.chance(0.7)) w = 7 + r.below(3);
	switch (w) {
	case 0: v.k = JV::Z; break;
	case 1: v.k = JV::B; v.b = r.chance(0.5); break;
	case 2: v.k = JV::I; v.i = randInt(r); break;
	case 3: case 4: v.k = JV::D; v.d = randDouble(r); break;
	case 5: v.k = JV::F; v.f = randFloat(r); break;
	case 6: v.k = JV::S; v.s = randString(r, o.utf8valid, false); break;
	case 7: case 8: {
		v.k = JV::A;
		int n = r.chance(0.1) ? r.range(11, 40) : r.range(0, o.maxkids);
		bool homog = r.chance(0.4);
		JV first;
		for (int i = 0; i < n; i++) {
			JV e = randTree(r, o, depth + 1);
			if (homog && i > 0 && e.k != first.k && first.k < JV::A) { e = first; if (e.k == JV::I) e.i = randInt(r); else if (e.k == JV::D) e.d = randDouble(r); else if (e.k == JV::S) e.s = randString(r, o.utf8valid, false); }
			if (i == 0) first = e;
			v.a.push_back(e);
		}
		break;
	}
	default: {
		v.k = JV::O;
		int n = r.range(0, o.maxkids);
		std::map<std::string, int> seen;
		for (int i = 0; i < n; i++) {
			std::string k = randString(r, o.utf8valid, o.idkeys);
			if (!o.idkeys && k.empty() && r.chance(0.7)) k = "k";
			if (seen.count(k)) continue;
			seen[k] = 1;
			v.o.push_back(std::make_pair(k, randTree(r, o, depth + 1)));
		}
		break;
	}
	}
	return v;
}

inline uint64_t shapeHash(const JV& v, uint64_t h = 17)
{
	h = vf::mix(h, (uint64_t)v.k);
	switch (v.k) {
	case JV::B: return vf::mix(h, v.b);
	case JV::I: return vf::mix(h, (uint64_t)(uint32_t)v.i);
	case JV::D: { uint64_t u; memcpy(&u, &v.d, 8); return vf::mix(h, u); }
	case JV::F: { uint32_t u; memcpy(&u, &v.f, 4); return vf::mix(h, u); }
	case JV::S: return vf::mix(h, vf::fnv(v.s));
	case JV::A: for (auto& e : v.a) h = shapeHash(e, h); return h;
	case JV::O: for (auto& kv : v.o) { h = vf::mix(h, vf::fnv(kv.first)); h = shapeHash(kv.second, h); } return h;
	default: return h;
	}
}

inline int countNodes(const JV& v)
{
	int n = 1;
	for (auto& e : v.a) n += countNodes(e);
	for (auto& kv : v.o) n += countNodes(kv.second);
	return n;
}

// ---------------------------------------------------------------- text-first document generator (C06, C05 chunk clause)
// Produces a document text together with the value it denotes and a per-byte tag of the lexical situation.
enum Tag { T_WS = 'w', T_PUNCT = 'p', T_STR = 's', T_ESC = 'e', T_U1 = '1', T_U2 = '2', T_U3 = '3', T_U4 = '4', T_SURR = 'S', T_INT = 'i', T_FRAC = 'f',
           T_EXP = 'x', T_LIT = 'l', T_KEY = 'k', T_COMMENT = 'c', T_QUOTE = 'q' };

struct DocGen
{
	vf::Rng& r;
	bool xdl;
	int maxdepth, maxkids;
	std::string text, tags;
	long rootClose;  // offset of the final closing character of a root array/object/string, -1 otherwise
	DocGen(vf::Rng& r_, bool xdl_ = false) : r(r_), xdl(xdl_), maxdepth(6), maxkids(6), rootClose(-1) {}

	void put(const std::string& s, char tag) { text += s; tags.append(s.size(), tag); }
	void put(char ch, char tag) { text += ch; tags += tag; }
	void ws(bool allowNewline = true)
	{
		int n = r.chance(0.6) ? 0 : r.range(1, 3);
		for (int i = 0; i < n; i++) {
			int w = r.below(xdl ? 12 : 4);
			if (w == 0) put(' ', T_WS);
			else if (w == 1) put('\t', T_WS);
			else if (w == 2) { if (allowNewline) put('\n', T_WS); else put(' ', T_WS); }
			else if (w == 3) { if (allowNewline) put('\r', T_WS); else put(' ', T_WS); }
			else if (w == 4) { put("/* c*m //m */", T_COMMENT); }
			else if (w == 5) { if (allowNewline) put("// line comment ] } \"\n", T_COMMENT); else put("/**/", T_COMMENT); }
			else put(' ', T_WS);
		}
	}
	void hex4(unsigned u, bool surrogateSecond)
	{
		static const char* H = "0123456789abcdef", *HU = "0123456789ABCDEF";
		const char* h = r.chance(0.5) ? H : HU;
		put('\\', surrogateSecond ? T_SURR : T_ESC);
		put('u', T_ESC);
		put(h[(u >> 12) & 15], T_U1); put(h[(u >> 8) & 15], T_U2); put(h[(u >> 4) & 15], T_U3); put(h[u & 15], T_U4);
	}
	std::string str(bool key)
	{
		std::string val;
		char tg = key ? T_KEY : T_STR;
		put('"', T_QUOTE);
		static const int lens[] = {0, 1, 2, 3, 5, 8, 13, 30};
		int n = lens[r.below(8)];
		for (int i = 0; i < n; i++) {
			int w = r.below(14);
			if (w < 5) { char ch; do ch = (char)r.range(0x20, 0x7f); while (ch == '"' || ch == '\\'); put(ch, tg); val += ch; }
			else if (w == 5) { put('/', tg); val += '/'; }
			else if (w == 6) { unsigned cp = randScalar(r); if (cp < 0x80) cp = 0xe9; std::string u; appendUtf8(u, cp); put(u, tg); val += u; }
			else if (w == 7) { static const char e[] = "\"\\/bfnrt"; static const char v[] = "\"\\/\b\f\n\r\t"; int k = r.below(8); put('\\', T_ESC); put(e[k], T_ESC); val += v[k]; }
			else if (w < 11) {
				unsigned cp = r.chance(0.5) ? (unsigned)r.range(1, 0x7f) : randScalar(r);
				if (cp >= 0x10000) { unsigned c = cp - 0x10000; hex4(0xd800 + (c >> 10), false); hex4(0xdc00 + (c & 0x3ff), true); }
				else hex4(cp, false);
				appendUtf8(val, cp);
			}
			else { char ch = "aZ09 _-.:,[]{}"[r.below(14)]; put(ch, tg); val += ch; }
		}
		put('"', T_QUOTE);
		return val;
	}
	JV number()
	{
		std::string t;
		bool isint = true;
		if (r.chance(0.12)) {
			// integer literals around the int32 / 9-10 digit boundaries, where a decoder switches between int and double paths
			static const char* edge[] = {"2147483647", "2147483648", "2147483649", "2147483650", "2200000000", "2500000000", "2999999999", "3000000000", "4294967295", "4294967296",
			                             "1999999999", "1000000000", "999999999", "9999999999", "10000000000", "2147483646", "21474836470", "214748364", "9007199254740993",
			                             "18446744073709551615", "18446744073709551616", "123456789012345678901234567890"};
			if (r.chance(0.5)) t += '-';
			t += edge[r.below(sizeof(edge) / sizeof(edge[0]))];
		}
		else {
		if (r.chance(0.4)) t += '-';
		if (r.chance(0.25)) t += '0';
		else { int n = r.chance(0.15) ? r.range(10, 25) : r.range(1, 9); t += (char)('1' + r.below(9)); for (int i = 1; i < n; i++) t += (char)('0' + r.below(10)); }
		}
		size_t ip = t.size();
		size_t fp = ip;
		if (r.chance(0.45)) { isint = false; t += '.'; int n = r.range(1, r.chance(0.2) ? 20 : 6); for (int i = 0; i < n; i++) t += (char)('0' + r.below(10)); fp = t.size(); }
		if (r.chance(0.3)) {
			isint = false;
			t += r.chance(0.5) ? 'e' : 'E';
			if (r.chance(0.6)) t += r.chance(0.5) ? '+' : '-';
			int n = r.chance(0.9) ? r.range(1, 2) : 3;
			for (int i = 0; i < n; i++) t += (char)('0' + r.below(10));
		}
		for (size_t i = 0; i < t.size(); i++) put(t[i], i < ip ? T_INT : i < fp ? T_FRAC : T_EXP);
		JV v;
		double d = strtod(t.c_str(), 0);
		if (isint && t.size() <= 9 + (t[0] == '-')) { v.k = JV::I; v.i = atoi(t.c_str()); }
		else { v.k = JV::D; v.d = d; }   // any other integer literal: judged by its exact numeric value
		return v;
	}
	std::string ident()
	{
		std::string s = randString(r, true, true);
		if (s == "Y" || s == "N" || s == "true" || s == "false" || s == "null") s += "_";
		put(s, T_KEY);
		return s;
	}
	JV value(int depth)
	{
		JV v;
		int w = r.below(depth >= maxdepth ? 6 : 10);
		if (depth == 0) w = r.chance(0.85) ? 6 + r.below(4) : r.below(6);
		if (w == 0) { put("null", T_LIT); v.k = JV::Z; }
		else if (w == 1) { v.k = JV::B; v.b = r.chance(0.5); if (xdl && r.chance(0.5)) put(v.b ? "Y" : "N", T_LIT); else put(v.b ? "true" : "false", T_LIT); }
		else if (w < 4) v = number();
		else if (w < 6) { v.k = JV::S; v.s = str(false); }
		else if (w < 8) {
			v.k = JV::A;
			put('[', T_PUNCT);
			ws();
			int n = r.range(0, maxkids);
			for (int i = 0; i < n; i++) {
				if (i) { sep(); }
				v.a.push_back(value(depth + 1));
				ws();
			}
			if (depth == 0) rootClose = (long)text.size();
			put(']', T_PUNCT);
		}
		else {
			v.k = JV::O;
			if (xdl && r.chance(0.3)) { std::string cls = ident(); JV cv; cv.k = JV::S; cv.s = cls; v.o.push_back(std::make_pair(std::string(ASL_XDLCLASS), cv)); ws(); }
			put('{', T_PUNCT);
			ws();
			int n = r.range(0, maxkids);
			for (int i = 0; i < n; i++) {
				if (i) { sep(); }
				std::string k;
				if (xdl && r.chance(0.7)) k = ident(); else k = str(true);
				if (xdl) { if (r.chance(0.3)) put(' ', T_WS); put(r.chance(0.7) ? '=' : ':', T_PUNCT); }
				else { ws(); put(':', T_PUNCT); }
				ws();
				JV e = value(depth + 1);
				bool dup = false;
				for (size_t j = 0; j < v.o.size(); j++) if (v.o[j].first == k) { v.o[j].second = e; dup = true; }  // duplicate key: last one wins
				if (!dup) v.o.push_back(std::make_pair(k, e));
				ws();
			}
			if (depth == 0) rootClose = (long)text.size();
			put('}', T_PUNCT);
		}
		return v;
	}
	void sep()
	{
		if (xdl && r.chance(0.3)) { put('\n', T_WS); ws(); }  // XDL: a newline can separate items
		else { put(',', T_PUNCT); ws(); }
	}
	JV document()
	{
		ws();
		size_t start = text.size();
		JV v = value(0);
		if (v.k == JV::S) rootClose = (long)text.size() - 1;
		(void)start;
		ws();
		return v;
	}
};

} // namespace jm
