// Harness side of the ASL_VERIF schedule points (DESIGN.md section 3).
//   OFF     points do nothing
//   JITTER  with probability p a point sleeps / yields; the decision is a pure function of (seed, point id,
//           per-thread point counter, thread index), so a run is replayable up to OS scheduling
//   SERIAL  only the thread holding the token runs between points; at each point with more than one runnable
//           thread the next thread is taken from a choice prefix (systematic depth-first replay) and index 0
//           (keep running the current thread) beyond it. Threads take part only after sched::enter(tid).
// All modes record an event trace (thread, point id) whose hash identifies the interleaving that was executed.
#pragma once
#include <stdint.h>
#include <vector>
#include <mutex>
#include <condition_variable>
#include <atomic>
#include <thread>
#include <time.h>
#include <sched.h>
#include <pthread.h>

namespace sched {

enum Mode { OFF, JITTER, SERIAL };

struct Decision { int choice, alternatives; };

struct G
{
	std::atomic<int> mode;
	// jitter
	std::atomic<uint64_t> seed;
	std::atomic<uint64_t> probq;  // probability scaled to 2^53 (atomic: threads of an earlier case may still pass points)
	std::atomic<int> max_us;
	std::atomic<uint32_t> pointMask;  // which point ids may be delayed (bit i = id i); 0 = all
	std::atomic<int> nextIndex;
	// serial
	std::mutex mu;
	std::condition_variable cv;
	int current;
	std::vector<char> alive;
	std::vector<int> prefix;
	size_t step;
	std::vector<Decision> trace;
	// event trace (all modes), bounded
	std::atomic<uint64_t> nevents;
	std::atomic<uint64_t> ehash;
	std::atomic<uint64_t> ndelays;
	G() : mode(OFF), seed(1), probq(0), max_us(0), pointMask(0), nextIndex(0), current(-1), step(0), nevents(0), ehash(0), ndelays(0) {}
};

inline G& g() { static G x; return x; }

static thread_local int t_serial = -1;   // serial-mode thread id (registered threads only)
static thread_local int t_index = -1;    // jitter-mode thread index
static thread_local uint64_t t_count = 0;

inline uint64_t mix64(uint64_t a, uint64_t b)
{
	uint64_t x = a * 0x9e3779b97f4a7c15ULL ^ (b + 0x7f4a7c15ULL + (a << 6) + (a >> 2));
	x ^= x >> 30; x *= 0xbf58476d1ce4e5b9ULL; x ^= x >> 27; x *= 0x94d049bb133111ebULL; x ^= x >> 31;
	return x;
}

inline void reset_trace() { g().nevents = 0; g().ehash = 0; g().ndelays = 0; }

inline void off() { g().mode = OFF; }

inline void new_thread_epoch() { t_index = -1; }

inline void jitter(uint64_t seed, double prob, int max_us, uint32_t pointMask = 0)
{
	G& s = g();
	t_index = -1;
	s.seed = seed; s.probq = (uint64_t)(prob * 9007199254740992.0); s.max_us = max_us; s.pointMask = pointMask; s.nextIndex = 0;
	reset_trace();
	s.mode = JITTER;
}

// ---- serial mode
inline int choose_locked(G& s, int self)
{
	int R[64], n = 0;
	if (self >= 0 && self < (int)s.alive.size() && s.alive[self]) R[n++] = self;   // index 0 = keep running
	for (int t = 0; t < (int)s.alive.size() && n < 64; t++) if (s.alive[t] && t != self) R[n++] = t;
	if (n == 0) return -1;
	if (n == 1) return R[0];
	int idx = s.step < s.prefix.size() ? s.prefix[s.step] : 0;
	if (idx >= n) idx = n - 1;
	Decision d = {idx, n};
	s.trace.push_back(d);
	s.step++;
	return R[idx];
}

inline void serial_begin(int nthreads, const std::vector<int>& prefix)
{
	G& s = g();
	std::lock_guard<std::mutex> l(s.mu);
	s.alive.assign(nthreads, 1);
	s.prefix = prefix;
	s.step = 0;
	s.trace.clear();
	s.current = -2;
	reset_trace();
	s.mode = SERIAL;
}

inline void serial_go()  // called by the controlling thread once the workers have been created
{
	G& s = g();
	std::lock_guard<std::mutex> l(s.mu);
	s.current = choose_locked(s, -1);
	s.cv.notify_all();
}

inline void enter(int tid)
{
	G& s = g();
	t_serial = tid;
	if (s.mode != SERIAL) return;
	std::unique_lock<std::mutex> l(s.mu);
	s.cv.wait(l, [&] { return s.current == tid; });
}

inline void leave()
{
	G& s = g();
	if (s.mode != SERIAL || t_serial < 0) { t_serial = -1; return; }
	std::unique_lock<std::mutex> l(s.mu);
	s.alive[t_serial] = 0;
	s.current = choose_locked(s, -1);
	t_serial = -1;
	s.cv.notify_all();
}

inline std::vector<Decision> serial_end()
{
	G& s = g();
	std::lock_guard<std::mutex> l(s.mu);
	s.mode = OFF;
	return s.trace;
}

// next prefix in depth-first order, empty + done=true when the space is exhausted
inline bool next_prefix(const std::vector<Decision>& trace, std::vector<int>& prefix)
{
	int i = (int)trace.size() - 1;
	while (i >= 0 && trace[i].choice + 1 >= trace[i].alternatives) i--;
	if (i < 0) return false;
	prefix.clear();
	for (int k = 0; k < i; k++) prefix.push_back(trace[k].choice);
	prefix.push_back(trace[i].choice + 1);
	return true;
}

inline void point(int id, const volatile void* obj)
{
	G& s = g();
	int m = s.mode;
	if (m == OFF) return;
	(void)obj;
	if (m == SERIAL) {
		if (t_serial < 0) return;
		std::unique_lock<std::mutex> l(s.mu);
		s.ehash = mix64(s.ehash, (uint64_t)t_serial * 64 + id);
		s.nevents++;
		int next = choose_locked(s, t_serial);
		if (next != t_serial) {
			int me = t_serial;
			s.current = next;
			s.cv.notify_all();
			s.cv.wait(l, [&] { return s.current == me; });
		}
		return;
	}
	// JITTER
	if (t_index < 0) { t_index = s.nextIndex++; t_count = 0; }
	uint64_t k = ++t_count;
	s.nevents++;
	{   // order-dependent hash of the observed (thread, point) sequence = which interleaving of hook events happened
		uint64_t old = s.ehash.load(), nw;
		do nw = mix64(old, (uint64_t)t_index * 64 + id); while (!s.ehash.compare_exchange_weak(old, nw));
	}
	uint32_t pm = s.pointMask.load();
	if (pm && !(pm & (1u << id))) return;
	uint64_t h = mix64(mix64(s.seed.load(), (uint64_t)id * 1000003 + t_index), k);
	if ((h >> 11) >= s.probq.load()) return;
	s.ndelays++;
	uint64_t h2 = mix64(h, 77);
	int mu = s.max_us.load();
	int us = mu > 0 ? (int)(h2 % (uint64_t)(mu + 1)) : 0;
	if (us < 2) sched_yield();
	else {
		struct timespec ts = {0, (long)us * 1000L};
		nanosleep(&ts, 0);
	}
}

} // namespace sched

namespace sched { static void (*extra_hook)(int, const volatile void*) = 0; }   // optional observer (e.g. C14's accept log)

extern "C" void asl_verif_point(int id, const volatile void* obj)
{
	if (sched::extra_hook) sched::extra_hook(id, obj);
	sched::point(id, obj);
}
