// Runner shared by all harnesses: seeded cases, fork isolation, write-ahead case
// descriptions, oracle-failure records, counters, distinct-case hashes, watchdog.
//
// A harness defines modes; a mode maps a case index to one execution of real asl
// code plus its oracle. Every case is a pure function of (seed, mode, index), so a
// witness is replayable from three values:  <bin> --mode M --seed S --only I
//
// Exit status of the harness process: 0 = ran (anomalies, if any, are in the
// result files, the driver decides), 2 = the harness itself failed.
#pragma once
#include <stdint.h>
#include <stdio.h>
#include <stdlib.h>
#include <string.h>
#include <stdarg.h>
#include <string>
#include <vector>
#include <map>
#include <unordered_set>
#include <functional>
#include <unistd.h>
#include <fcntl.h>
#include <signal.h>
#include <sys/prctl.h>
#include <errno.h>
#include <time.h>
#include <sys/mman.h>
#include <sys/wait.h>
#include <sys/stat.h>
#include <sys/time.h>
#include <sys/resource.h>

#if defined(__SANITIZE_ADDRESS__)
extern "C" int __lsan_do_recoverable_leak_check();
#define VF_HAVE_LSAN 1
#endif

namespace vf {

// ---------------------------------------------------------------- PRNG
static inline uint64_t splitmix(uint64_t& x)
{
	uint64_t z = (x += 0x9e3779b97f4a7c15ULL);
	z = (z ^ (z >> 30)) * 0xbf58476d1ce4e5b9ULL;
	z = (z ^ (z >> 27)) * 0x94d049bb133111ebULL;
	return z ^ (z >> 31);
}

static inline uint64_t mix(uint64_t a, uint64_t b)
{
	uint64_t x = a * 0x9e3779b97f4a7c15ULL ^ (b + 0x7f4a7c15ULL + (a << 6) + (a >> 2));
	return splitmix(x);
}

struct Rng
{
	uint64_t s[4];
	Rng(uint64_t seed = 1) { reseed(seed); }
	void reseed(uint64_t seed)
	{
		for (int i = 0; i < 4; i++) s[i] = splitmix(seed);
	}
	static inline uint64_t rotl(uint64_t x, int k) { return (x << k) | (x >> (64 - k)); }
	uint64_t next()
	{
		uint64_t r = rotl(s[1] * 5, 7) * 9, t = s[1] << 17;
		s[2] ^= s[0]; s[3] ^= s[1]; s[1] ^= s[2]; s[0] ^= s[3]; s[2] ^= t; s[3] = rotl(s[3], 45);
		return r;
	}
	uint32_t below(uint32_t n) { return n ? (uint32_t)((next() >> 11) % n) : 0; }
	int range(int a, int b) { return a + (int)below((uint32_t)(b - a + 1)); }  // inclusive
	bool chance(double p) { return unit() < p; }
	double unit() { return (next() >> 11) * (1.0 / 9007199254740992.0); }
	template<class T> const T& pick(const std::vector<T>& v) { return v[below((uint32_t)v.size())]; }
};

static inline uint64_t fnv(const void* p, size_t n, uint64_t h = 1469598103934665603ULL)
{
	const unsigned char* b = (const unsigned char*)p;
	for (size_t i = 0; i < n; i++) { h ^= b[i]; h *= 1099511628211ULL; }
	return h;
}
static inline uint64_t fnv(const std::string& s, uint64_t h = 1469598103934665603ULL) { return fnv(s.data(), s.size(), h); }

// ---------------------------------------------------------------- text helpers
static inline std::string jstr(const std::string& s)
{
	std::string o = "\"";
	char b[8];
	for (size_t i = 0; i < s.size(); i++) {
		unsigned char c = (unsigned char)s[i];
		if (c == '"') o += "\\\"";
		else if (c == '\\') o += "\\\\";
		else if (c == '\n') o += "\\n";
		else if (c < 0x20 || c >= 0x7f) { snprintf(b, sizeof b, "\\u%04x", c); o += b; }
		else o += (char)c;
	}
	return o + "\"";
}

static inline std::string hex(const void* p, size_t n)
{
	static const char* d = "0123456789abcdef";
	std::string o;
	o.reserve(n * 2);
	const unsigned char* b = (const unsigned char*)p;
	for (size_t i = 0; i < n; i++) { o += d[b[i] >> 4]; o += d[b[i] & 15]; }
	return o;
}
static inline std::string hex(const std::string& s) { return hex(s.data(), s.size()); }

// printable rendering of bytes: ASCII kept, others as \xNN (for descriptions)
static inline std::string vis(const void* p, size_t n, size_t maxn = 400)
{
	std::string o;
	const unsigned char* b = (const unsigned char*)p;
	char t[8];
	for (size_t i = 0; i < n && i < maxn; i++) {
		if (b[i] >= 0x20 && b[i] < 0x7f && b[i] != '\\') o += (char)b[i];
		else { snprintf(t, sizeof t, "\\x%02x", b[i]); o += t; }
	}
	if (n > maxn) { snprintf(t, sizeof t, "..+%d", (int)(n - maxn)); o += t; }
	return o;
}
static inline std::string vis(const std::string& s, size_t maxn = 400) { return vis(s.data(), s.size(), maxn); }

static inline std::string fmt(const char* f, ...)
{
	char buf[4096];
	va_list ap;
	va_start(ap, f);
	int n = vsnprintf(buf, sizeof buf, f, ap);
	va_end(ap);
	if (n < 0) return "";
	if ((size_t)n < sizeof buf) return std::string(buf, n);
	std::string s(n + 1, 0);
	va_start(ap, f);
	vsnprintf(&s[0], n + 1, f, ap);
	va_end(ap);
	s.resize(n);
	return s;
}

static inline double now()
{
	struct timespec ts;
	clock_gettime(CLOCK_MONOTONIC, &ts);
	return ts.tv_sec + ts.tv_nsec * 1e-9;
}

// ---------------------------------------------------------------- shared state
enum { NCOUNTERS = 192, NAMELEN = 56, HCAP = 1 << 18, DESC_CAP = 1 << 20, NSAMPLES = 6, SAMPLE_CAP = 1500 };

struct Shared
{
	volatile uint64_t cur;        // index of the case being executed (write-ahead)
	volatile uint64_t started;    // cases started in this process tree
	volatile uint64_t done;       // cases completed
	volatile uint64_t evals;      // evaluations (>= done; block cases add more)
	volatile uint64_t nontrivial; // cases flagged non-trivial (with repeats)
	volatile uint64_t inconclusive;
	volatile uint64_t nanoms;
	volatile uint64_t next;       // next index to run (child updates after each case)
	volatile int in_case;
	char cnames[NCOUNTERS][NAMELEN];
	uint64_t counters[NCOUNTERS];
	volatile uint64_t nhashes;
	uint64_t hashes[HCAP];
	volatile int nsamples;
	char samples[NSAMPLES][SAMPLE_CAP];
	volatile uint32_t desc_len;
	char desc[DESC_CAP];
};

struct CaseAbort {};  // thrown by fail() to leave the case

struct Options
{
	std::string mode, out = ".", tier = "quick";
	uint64_t seed = 1, cases = 100, only = (uint64_t)-1;
	int shard = 0, nshards = 1, batch = 400, case_timeout = 40, max_anoms = 60;
	bool nofork = false, verbose = false, leakcheck = true;
	std::map<std::string, std::string> params;
	long param(const char* k, long def) const
	{
		auto it = params.find(k);
		return it == params.end() ? def : atol(it->second.c_str());
	}
	std::string sparam(const char* k, const char* def) const
	{
		auto it = params.find(k);
		return it == params.end() ? def : it->second;
	}
};

class Runner;

struct Ctx
{
	Runner* R;
	Shared* sh;
	const Options* opt;
	Rng rng;
	uint64_t idx;
	std::unordered_set<uint64_t>* seen;

	// --- description of the current case (write-ahead: visible to the parent if we die)
	void desc(const std::string& s)
	{
		size_t n = s.size() < DESC_CAP - 1 ? s.size() : DESC_CAP - 1;
		memcpy(sh->desc, s.data(), n);
		sh->desc_len = (uint32_t)n;
	}
	void op(const std::string& s)
	{
		size_t n = sh->desc_len;
		if (n + s.size() + 2 >= DESC_CAP) return;
		if (n) sh->desc[n++] = ';', sh->desc[n++] = ' ';
		memcpy(sh->desc + n, s.data(), s.size());
		sh->desc_len = (uint32_t)(n + s.size());
	}
	std::string curdesc() const { return std::string(sh->desc, sh->desc_len); }

	void count(const char* name, uint64_t n = 1)
	{
		for (int i = 0; i < NCOUNTERS; i++) {
			if (!sh->cnames[i][0]) { strncpy(sh->cnames[i], name, NAMELEN - 1); sh->counters[i] += n; return; }
			if (!strncmp(sh->cnames[i], name, NAMELEN - 1)) { sh->counters[i] += n; return; }
		}
	}
	void evals(uint64_t n) { sh->evals += n; }  // extra evaluations inside a block case
	// flag the case (or a sub-case) as non-trivial with a canonical hash
	void distinct(uint64_t h)
	{
		sh->nontrivial++;
		h = mix(h, fnv(opt->mode));
		if (seen->insert(h).second && sh->nhashes < HCAP) sh->hashes[sh->nhashes++] = h;
	}
	void sample(const std::string& s)
	{
		int k = sh->nsamples;
		if (k >= NSAMPLES) return;
		strncpy(sh->samples[k], s.c_str(), SAMPLE_CAP - 1);
		sh->nsamples = k + 1;
	}
	bool want_sample() const { return sh->nsamples < NSAMPLES; }
	void inconclusive(const char* why) { sh->inconclusive++; count((std::string("inconclusive:") + why).c_str()); }

	// oracle mismatch: record and leave the case
	void fail(const std::string& key, const std::string& detail);
	void check(bool ok, const char* key, const std::string& detail) { if (!ok) fail(key, detail); }
	// oracle mismatch that is recorded while the case goes on (at most once per key and case)
	std::vector<std::string> reported;
	void report(const std::string& key, const std::string& detail);
	// oracle mismatch after which the process cannot go on (e.g. a library thread is spinning): record, mark the case done, leave the process
	void fail_exit(const std::string& key, const std::string& detail);
};

typedef std::function<void(Ctx&)> CaseFn;

struct Mode
{
	std::string name;
	CaseFn fn;
	std::string about;
};

class Runner
{
public:
	Options opt;
	Shared* sh = 0;
	std::vector<Mode> modes;
	int anom_fd = -1;
	std::string errpath;
	std::function<void(const Options&)> setup;  // runs once in the parent before forking (e.g. temp dirs)

	void add(const char* name, CaseFn fn, const char* about = "") { modes.push_back(Mode{name, fn, about}); }

	void write_anom(const std::string& kind, const std::string& key, const std::string& detail, uint64_t idx,
	                const std::string& desc, const std::string& extra = "")
	{
		sh->nanoms++;
		std::string line = "{\"kind\":" + jstr(kind) + ",\"key\":" + jstr(key) + ",\"detail\":" + jstr(detail.substr(0, 6000)) +
		                   ",\"mode\":" + jstr(opt.mode) + ",\"seed\":" + std::to_string(opt.seed) + ",\"idx\":" + std::to_string(idx) +
		                   ",\"desc\":" + jstr(desc.substr(0, 20000)) + extra + "}\n";
		ssize_t r = write(anom_fd, line.data(), line.size());
		(void)r;
	}

	static std::string slurp(const std::string& path, size_t maxn = 200000)
	{
		std::string s;
		FILE* f = fopen(path.c_str(), "rb");
		if (!f) return s;
		char buf[8192];
		size_t n;
		while ((n = fread(buf, 1, sizeof buf, f)) > 0 && s.size() < maxn) s.append(buf, n);
		fclose(f);
		return s;
	}

	static volatile sig_atomic_t& sigpipe_cell() { static volatile sig_atomic_t n = 0; return n; }
	static int sigpipe_count() { return (int)sigpipe_cell(); }
	static void sigpipe_handler(int) { sigpipe_cell() = sigpipe_cell() + 1; }

	void run_one(const Mode& m, uint64_t idx, std::unordered_set<uint64_t>& seen)
	{
		Ctx c;
		c.R = this; c.sh = sh; c.opt = &opt; c.idx = idx; c.seen = &seen;
		c.rng.reseed(mix(mix(opt.seed, fnv(opt.mode)), idx));
		sh->cur = idx;
		sh->desc_len = 0;
		sh->started++;
		sh->in_case = 1;
		int sigpipes0 = sigpipe_count();
		try { m.fn(c); }
		catch (CaseAbort&) {}
		catch (std::bad_alloc&) { c.count("bad_alloc"); }
		// the harnesses' own socket writes use MSG_NOSIGNAL, so a SIGPIPE can only come from a write inside the library:
		// with the default disposition it would have killed the whole process (server and every other connection)
		try { if (sigpipe_count() != sigpipes0) c.fail("sigpipe-raised-by-library-write", fmt("%d SIGPIPE signals during the case (the process would have been killed)", sigpipe_count() - sigpipes0)); }
		catch (CaseAbort&) {}
		sh->in_case = 0;
		sh->done++;
		sh->evals++;
	}

	// child body: run cases from `from`, at most opt.batch of them
	void child(const Mode& m, uint64_t from)
	{
		std::unordered_set<uint64_t> seen;
		for (uint64_t k = 0; k < sh->nhashes; k++) seen.insert(sh->hashes[k]);
		int n = 0;
		for (uint64_t i = from; i < opt.cases; i += opt.nshards) {
			run_one(m, i, seen);
			sh->next = i + opt.nshards;
			if (sh->nanoms >= (uint64_t)opt.max_anoms) break;
			if (++n >= opt.batch) break;
		}
#ifdef VF_HAVE_LSAN
		if (opt.leakcheck) {
			sh->in_case = 2;
			if (__lsan_do_recoverable_leak_check()) _exit(23);
		}
#endif
		fflush(0);
		_exit(0);
	}

	int main(int argc, char** argv)
	{
		for (int i = 1; i < argc; i++) {
			std::string a = argv[i];
			auto val = [&]() -> std::string { return i + 1 < argc ? argv[++i] : ""; };
			if (a == "--mode") opt.mode = val();
			else if (a == "--seed") opt.seed = strtoull(val().c_str(), 0, 10);
			else if (a == "--cases") opt.cases = strtoull(val().c_str(), 0, 10);
			else if (a == "--only") opt.only = strtoull(val().c_str(), 0, 10);
			else if (a == "--out") opt.out = val();
			else if (a == "--tier") opt.tier = val();
			else if (a == "--batch") opt.batch = atoi(val().c_str());
			else if (a == "--case-timeout") opt.case_timeout = atoi(val().c_str());
			else if (a == "--max-anoms") opt.max_anoms = atoi(val().c_str());
			else if (a == "--nofork") opt.nofork = true;
			else if (a == "--no-leakcheck") opt.leakcheck = false;
			else if (a == "-v") opt.verbose = true;
			else if (a == "--shard") { std::string v = val(); sscanf(v.c_str(), "%d/%d", &opt.shard, &opt.nshards); }
			else if (a == "--param") { std::string v = val(); size_t e = v.find('='); if (e != std::string::npos) opt.params[v.substr(0, e)] = v.substr(e + 1); }
			else if (a == "--list") { for (auto& m : modes) printf("%s\t%s\n", m.name.c_str(), m.about.c_str()); return 0; }
			else { fprintf(stderr, "unknown argument %s\n", a.c_str()); return 2; }
		}
		const Mode* m = 0;
		for (auto& x : modes) if (x.name == opt.mode) m = &x;
		if (!m) { fprintf(stderr, "unknown mode '%s'\n", opt.mode.c_str()); return 2; }
		if (opt.nshards < 1 || opt.shard < 0 || opt.shard >= opt.nshards) return 2;
		mkdir(opt.out.c_str(), 0777);

		sh = (Shared*)mmap(0, sizeof(Shared), PROT_READ | PROT_WRITE, MAP_SHARED | MAP_ANONYMOUS, -1, 0);
		if (sh == MAP_FAILED) { perror("mmap"); return 2; }
		memset((void*)sh, 0, sizeof(Shared));
		std::string anpath = opt.out + "/anoms.jsonl";
		anom_fd = open(anpath.c_str(), O_WRONLY | O_CREAT | O_TRUNC | O_APPEND, 0666);
		if (anom_fd < 0) { perror("anoms"); return 2; }
		errpath = opt.out + "/child.err";
		signal(SIGPIPE, sigpipe_handler);   // counted, not ignored: see run_one
		double t0 = now();
		if (setup) setup(opt);

		if (opt.only != (uint64_t)-1) {
			// replay of one case, in-process, stderr left alone so reports are visible
			std::unordered_set<uint64_t> seen;
			run_one(*m, opt.only, seen);
			printf("replayed mode=%s seed=%llu idx=%llu anomalies=%llu\n  case: %s\n", opt.mode.c_str(), (unsigned long long)opt.seed,
			       (unsigned long long)opt.only, (unsigned long long)sh->nanoms, std::string(sh->desc, sh->desc_len).substr(0, 3000).c_str());
			std::string an = slurp(anpath);
			if (an.size()) printf("%s", an.c_str());
			return sh->nanoms ? 1 : 0;
		}

		uint64_t next = opt.shard;
		int retried_hang = 0, hangs = 0;
		bool truncated = false;
		while (next < opt.cases) {
			if (sh->nanoms >= (uint64_t)opt.max_anoms) { truncated = true; break; }
			if (hangs >= 3) { truncated = true; break; }   // each confirmed hang costs 3 x case_timeout: a tree that loops for ever must not keep the check busy for hours
			if (opt.nofork) {
				std::unordered_set<uint64_t> seen;
				for (uint64_t i = next; i < opt.cases; i += opt.nshards) run_one(*m, i, seen);
				break;
			}
			sh->next = next;
			sh->cur = next;
			sh->in_case = 0;
			fflush(0);
			pid_t pid = fork();
			if (pid < 0) { perror("fork"); return 2; }
			if (pid == 0) {
				prctl(PR_SET_PDEATHSIG, SIGKILL);   // a case that loops for ever must not outlive a runner that was killed
				int fd = open(errpath.c_str(), O_WRONLY | O_CREAT | O_TRUNC, 0666);
				if (fd >= 0) { dup2(fd, 2); close(fd); }
				child(*m, next);
			}
			// parent: wait with watchdog
			int status = 0;
			uint64_t last_started = sh->started;
			double last_change = now();
			bool hung = false;
			for (;;) {
				pid_t r = waitpid(pid, &status, WNOHANG);
				if (r == pid) break;
				if (r < 0 && errno != EINTR) { perror("waitpid"); return 2; }
				usleep(2000);
				if (sh->started != last_started) { last_started = sh->started; last_change = now(); }
				else if (now() - last_change > opt.case_timeout * (retried_hang ? 2 : 1)) {
					hung = true;
					kill(pid, SIGKILL);
					waitpid(pid, &status, 0);
					break;
				}
			}
			if (hung) {
				uint64_t at = sh->cur;
				if (sh->in_case == 2) {  // stuck in the leak check, not in a case: machinery problem
					sh->inconclusive++;
					next = sh->next;
					continue;
				}
				if (!retried_hang) { retried_hang = 1; next = at; continue; }  // one re-run in a fresh process
				retried_hang = 0;
				hangs++;
				write_anom("hang", "hang", fmt("case did not finish within %d s twice", opt.case_timeout * 2), at,
				           std::string(sh->desc, sh->desc_len));
				next = at + opt.nshards;
				continue;
			}
			if (retried_hang) { retried_hang = 0; sh->inconclusive++; }
			if (WIFEXITED(status) && WEXITSTATUS(status) == 0) { next = sh->next; continue; }
			std::string rep = slurp(errpath);
			if (WIFEXITED(status) && WEXITSTATUS(status) == 23 && sh->in_case == 2) {
				write_anom("leak", "", rep, sh->cur, fmt("batch ending at case %llu", (unsigned long long)sh->cur),
				           fmt(",\"batch_from\":%llu", (unsigned long long)next));
				next = sh->next;
				continue;
			}
			if (WIFEXITED(status) && WEXITSTATUS(status) == 66) {  // TSan reports, process completed its batch
				write_anom("tsan", "", rep, sh->cur, std::string(sh->desc, sh->desc_len), fmt(",\"batch_from\":%llu", (unsigned long long)next));
				next = sh->in_case ? sh->cur + opt.nshards : sh->next;
				continue;
			}
			// died inside a case
			std::string how = WIFSIGNALED(status) ? fmt("signal %d", WTERMSIG(status)) : fmt("exit %d", WEXITSTATUS(status));
			write_anom("crash", "", rep, sh->cur, std::string(sh->desc, sh->desc_len), ",\"how\":" + jstr(how));
			if (sh->in_case) { sh->done++; sh->evals++; sh->in_case = 0; next = sh->cur + opt.nshards; }
			else next = sh->next > next ? sh->next : next + opt.nshards;
		}

		// result
		std::string hp = opt.out + "/hashes.bin";
		FILE* hf = fopen(hp.c_str(), "wb");
		if (hf) { fwrite((void*)sh->hashes, 8, sh->nhashes, hf); fclose(hf); }
		std::string js = "{";
		js += "\"mode\":" + jstr(opt.mode) + ",\"seed\":" + std::to_string(opt.seed) + ",\"shard\":" + std::to_string(opt.shard) +
		      ",\"nshards\":" + std::to_string(opt.nshards) + ",\"cases\":" + std::to_string(opt.cases) +
		      ",\"done\":" + std::to_string(sh->done) + ",\"evaluations\":" + std::to_string(sh->evals) +
		      ",\"nontrivial\":" + std::to_string(sh->nontrivial) + ",\"nhashes\":" + std::to_string(sh->nhashes) +
		      ",\"hash_cap\":" + std::to_string((int)HCAP) + ",\"inconclusive\":" + std::to_string(sh->inconclusive) +
		      ",\"anomalies\":" + std::to_string(sh->nanoms) + ",\"truncated\":" + (truncated ? "true" : "false") +
		      ",\"wall_s\":" + fmt("%.3f", now() - t0) + ",\"counters\":{";
		bool first = true;
		for (int i = 0; i < NCOUNTERS && sh->cnames[i][0]; i++) {
			if (!first) js += ",";
			first = false;
			js += jstr(sh->cnames[i]) + ":" + std::to_string(sh->counters[i]);
		}
		js += "},\"samples\":[";
		for (int i = 0; i < sh->nsamples; i++) { if (i) js += ","; js += jstr(sh->samples[i]); }
		js += "]}\n";
		std::string rp = opt.out + "/result.json";
		FILE* rf = fopen(rp.c_str(), "wb");
		if (!rf) { perror("result"); return 2; }
		fwrite(js.data(), 1, js.size(), rf);
		fclose(rf);
		if (opt.verbose) printf("%s", js.c_str());
		return 0;
	}
};

inline void Ctx::report(const std::string& key, const std::string& detail)
{
	for (size_t i = 0; i < reported.size(); i++) if (reported[i] == key) return;
	reported.push_back(key);
	R->write_anom("oracle", key, detail, idx, curdesc());
}

inline void Ctx::fail_exit(const std::string& key, const std::string& detail)
{
	R->write_anom("oracle", key, detail, idx, curdesc());
	sh->in_case = 0;
	sh->done++;
	sh->evals++;
	sh->next = idx + opt->nshards;
	fflush(0);
	_exit(0);
}

inline void Ctx::fail(const std::string& key, const std::string& detail)
{
	R->write_anom("oracle", key, detail, idx, curdesc());
	throw CaseAbort();
}

} // namespace vf
