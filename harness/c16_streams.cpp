// C16: endian-aware binary streams (StreamBuffer/StreamBufferReader, File << >>, Socket << >>).
//
// Oracle: a reference serializer that assembles every value byte by byte from its integer bit
// pattern (most significant byte first for BIG, least significant first for LITTLE, host order
// measured at run time for NATIVE). Values are built arithmetically from the bit pattern and
// compared with memcmp, so NaN payloads, -0.0 and min/max integers are checked bit for bit.
//   clause 1: bytes produced == concatenation of sizeof(T) bytes per scalar, length*sizeof(T) per
//             array (asl writes no length prefix and no string terminator; neither does the model)
//   clause 2: reading the same types in the same order with the same byte orders gives the originals
//   clause 3: setEndian in mid-stream: the reference applies each order only to later items
//
// On a byte mismatch the harness writes every item of the sequence alone (same stream class, the order
// that was in force) to name the item that is wrong on its own: key write.<kind>.<ORDER>.<short|long|content>;
// if every item alone is right the divergence depends on the history: key write.in-sequence.<shape>.
// Socket: sequences that cause few sends are also run without threads (write, close, read); the others
// with the writer and the reader running concurrently.
//
// Source immutability: every value, string and Array<T> handed to operator<< must still hold its original
// bit pattern afterwards (compared with memcmp against an independent copy built element by element from the
// bit patterns): key write.<kind>.<ORDER>.source-modified. Array objects stay alive for the whole sequence and
// some of them are written again later (items "again#j"), in the same and in the other byte order, so that a
// source damaged by an earlier write also shows in the bytes produced.
// Mode socket_frag: the reference bytes are sent through the raw descriptor by a writer thread in small pieces
// (1..7 bytes, cuts placed inside multi-byte values) with pauses of 100 us..2 ms, so that Socket >> T sees short
// reads; every value read back must equal the original, the bytes after the object read into must be untouched
// (key read.<kind>.<ORDER>.wrote-past-object) and the stream must end exactly after the last item.
//
// Strata: asl's Array<T> operator<< has a fast path for the not-swapped (host) byte order. Stratum A
// (modes buffer/file/socket) never sends a non-empty array of multi-byte elements down that path;
// stratum B (modes *_hostorder_arrays) always does, at least once per sequence.
#include "common/runner.h"
#include <pthread.h>
#include <signal.h>
#include <thread>
#include <atomic>
#include <memory>
#include <type_traits>
#include <sys/socket.h>
#include <sys/ioctl.h>
#include <time.h>
#include <asl/StreamBuffer.h>
#include <asl/File.h>
#include <asl/Socket.h>

using namespace asl;

enum Kind { K_I8, K_U8, K_CH, K_I16, K_U16, K_I32, K_U32, K_I64, K_U64, K_F32, K_F64, K_BOOL, NSCALAR,
            K_STR = NSCALAR, K_CSTR, K_LSTR, K_ARR, K_END, NKIND };
static const char* KNAME[NKIND] = {"i8", "u8", "char", "i16", "u16", "i32", "u32", "i64", "u64", "f32", "f64", "bool",
                                   "string", "cstring", "lstring", "array", "setEndian"};
static const int KSIZE[NSCALAR] = {1, 1, 1, 2, 2, 4, 4, 8, 8, 4, 8, 1};
enum Ord { O_BIG, O_LITTLE, O_NATIVE, NORD };
static const char* ONAME[NORD] = {"BIG", "LITTLE", "NATIVE"};
static Endian asl_endian(int o) { return o == O_BIG ? ENDIAN_BIG : o == O_LITTLE ? ENDIAN_LITTLE : ENDIAN_NATIVE; }

static bool host_is_little()
{
	const uint32_t probe = 0x01020304u;
	unsigned char b[4];
	memcpy(b, &probe, 4);
	return b[0] == 4;
}
// does the value go out most significant byte first under the named order?
static bool msb_first(int ord) { return ord == O_BIG || (ord == O_NATIVE && !host_is_little()); }
// does the named order differ from the host's (the case in which asl swaps)?
static bool swapped(int ord) { return msb_first(ord) == host_is_little(); }

struct Item
{
	int kind, elem, ord;           // elem: element kind for arrays; ord: new order for setEndian
	uint64_t bits;                 // scalar bit pattern (low KSIZE bytes significant)
	std::vector<uint64_t> arr;     // array element bit patterns
	std::string s;                 // string bytes (no NUL inside)
	int in_force;                  // order in force when this item is written (model)
	int src;                       // arrays: -1 = a new Array object; j >= 0 = the Array object made for item j is written again
	int pieces;                    // K_STR: 0 = one String; n > 0 = written as an Array<String> of n strings whose concatenation is s
	size_t off, len;               // position of its bytes in the reference stream
	Item() : kind(0), elem(0), ord(0), bits(0), in_force(0), src(-1), pieces(0), off(0), len(0) {}
};

struct Seq
{
	int init;                      // order set explicitly before the first item
	std::vector<Item> items;
	std::string ref;               // reference bytes
};

// ---------------------------------------------------------------- values from bit patterns (arithmetic, no byte layout involved)
template <class T>
static typename std::enable_if<std::is_integral<T>::value && !std::is_same<T, bool>::value, T>::type make(uint64_t b)
{
	typedef typename std::make_unsigned<T>::type U;
	return (T)(U)b;
}
template <class T>
static typename std::enable_if<std::is_same<T, bool>::value, T>::type make(uint64_t b) { return (b & 1) != 0; }
template <class T>
static typename std::enable_if<std::is_same<T, float>::value, T>::type make(uint64_t b)
{
	uint32_t u = (uint32_t)b;
	float f;
	memcpy(&f, &u, 4);
	return f;
}
template <class T>
static typename std::enable_if<std::is_same<T, double>::value, T>::type make(uint64_t b)
{
	double f;
	memcpy(&f, &b, 8);
	return f;
}

#define C16_SCALARS(X) \
	X(K_I8, signed char) X(K_U8, byte) X(K_CH, char) X(K_I16, short) X(K_U16, unsigned short) X(K_I32, int) X(K_U32, unsigned) \
	X(K_I64, Long) X(K_U64, ULong) X(K_F32, float) X(K_F64, double) X(K_BOOL, bool)

// ---------------------------------------------------------------- reference serializer
static void ref_scalar(std::string& out, uint64_t bits, int kind, int ord)
{
	int n = KSIZE[kind];
	if (kind == K_BOOL) bits &= 1;
	for (int k = 0; k < n; k++) {
		int shift = msb_first(ord) ? 8 * (n - 1 - k) : 8 * k;
		out += (char)(unsigned char)((bits >> shift) & 0xff);
	}
}

static void build_reference(Seq& q)
{
	int cur = q.init;
	q.ref.clear();
	for (size_t i = 0; i < q.items.size(); i++) {
		Item& it = q.items[i];
		it.in_force = cur;
		it.off = q.ref.size();
		switch (it.kind) {
		case K_END: cur = it.ord; break;
		case K_STR: case K_CSTR: q.ref += it.s; break;
		case K_LSTR: ref_scalar(q.ref, (uint64_t)it.s.size(), K_I32, cur); q.ref += it.s; break;   // written as << int(length) << String
		case K_ARR: for (size_t k = 0; k < it.arr.size(); k++) ref_scalar(q.ref, it.arr[k], it.elem, cur); break;
		default: ref_scalar(q.ref, it.bits, it.kind, cur);
		}
		it.len = q.ref.size() - it.off;
	}
}

// ---------------------------------------------------------------- generator
static uint64_t gen_bits(vf::Rng& r, int k)
{
	int sz = KSIZE[k];
	uint64_t mask = sz == 8 ? ~0ULL : ((1ULL << (8 * sz)) - 1);
	if (k == K_BOOL) return r.below(2);
	int sel = (int)r.below(16);
	uint64_t v = r.next();
	if (sel < 8) return v & mask;
	if (k == K_F32 || k == K_F64) {
		int mant = k == K_F32 ? 23 : 52, ebits = k == K_F32 ? 8 : 11;
		uint64_t sign = (v >> 63) << (mant + ebits), emax = ((1ULL << ebits) - 1) << mant, mmask = (1ULL << mant) - 1;
		switch (sel) {
		case 8: return sign;                                               // +-0
		case 9: return sign | emax;                                        // +-inf
		case 10: case 11: return sign | emax | ((v & mmask) ? (v & mmask) : 1);   // NaN, random payload, quiet or signalling
		case 12: return sign | emax | 1;                                   // signalling NaN, smallest payload
		case 13: return sign | ((v & mmask) ? (v & mmask) : 1);            // denormal
		case 14: return sign | (emax - (1ULL << mant)) | mmask;            // largest finite
		default: return sign | (((1ULL << (ebits - 1)) - 1) << mant);      // +-1.0
		}
	}
	switch (sel) {
	case 8: v = 0; break;
	case 9: v = ~0ULL; break;
	case 10: v = 1ULL << (8 * sz - 1); break;            // minimum of the signed type
	case 11: v = (1ULL << (8 * sz - 1)) - 1; break;      // maximum of the signed type
	case 12: v = 1; break;
	case 13: v = 0x0102030405060708ULL >> (8 * (8 - sz)); break;
	case 14: v = 0xff; break;
	default: v = 0xffULL << (8 * (sz - 1)); break;
	}
	return v & mask;
}

static std::string gen_text(vf::Rng& r)
{
	int sel = (int)r.below(20), n;
	if (sel < 2) n = 0;
	else if (sel < 10) n = r.range(1, 15);
	else if (sel < 17) n = r.range(16, 40);
	else n = r.range(41, 300);
	std::string s((size_t)n, 'x');
	for (int i = 0; i < n; i++) s[i] = (char)r.range(1, 255);
	return s;
}

static int gen_len(vf::Rng& r)
{
	int sel = (int)r.below(25);
	if (sel < 2) return 0;
	if (sel < 4) return 1;
	if (sel < 6) return 100;
	return r.range(2, 99);
}

static bool is_trigger(const Item& it, int cur) { return it.kind == K_ARR && KSIZE[it.elem] > 1 && !it.arr.empty() && !swapped(cur); }

static void gen_seq(vf::Ctx& c, Seq& q, int stratum)
{
	vf::Rng& r = c.rng;
	static const int ONEBYTE[4] = {K_I8, K_U8, K_CH, K_BOOL};
	int maxn = stratum ? 62 : 64, n;
	int sel = (int)r.below(20);
	if (sel == 0) n = r.range(0, 2);
	else if (sel < 3) n = maxn;
	else n = r.range(3, maxn);
	q.init = (int)r.below(NORD);
	q.items.clear();
	int cur = q.init, triggers = 0;
	std::vector<int> arrays;       // indices of the array items so far
	while ((int)q.items.size() < n) {
		Item it;
		int w = (int)r.below(100);
		if (w < 52) { it.kind = (int)r.below(NSCALAR); it.bits = gen_bits(r, it.kind); }
		else if (w < 60 && !arrays.empty()) {
			// the Array object of an earlier item is written again, under the order in force or after a switch
			int j = arrays[r.below(arrays.size())];
			int room = n - (int)q.items.size();
			it = q.items[(size_t)j];
			it.src = q.items[(size_t)j].src >= 0 ? q.items[(size_t)j].src : j;
			if (room >= 2 && r.chance(0.5)) {
				Item e;
				e.kind = K_END;
				e.ord = (int)r.below(NORD);
				q.items.push_back(e);
				cur = e.ord;
				room--;
			}
			if (stratum == 0 && is_trigger(it, cur)) {
				// stratum A: keep non-empty multi-byte arrays off the host-order path
				if (room < 2) continue;
				Item e;
				e.kind = K_END;
				e.ord = host_is_little() ? O_BIG : O_LITTLE;
				q.items.push_back(e);
				cur = e.ord;
			}
		}
		else if (w < 75) {
			it.kind = K_ARR;
			it.elem = (int)r.below(NSCALAR);
			int len = gen_len(r);
			if (stratum == 0 && KSIZE[it.elem] > 1 && len > 0 && !swapped(cur)) {
				// stratum A: keep non-empty multi-byte arrays off the host-order path
				int how = (int)r.below(3);
				if (how == 0 && (int)q.items.size() + 2 <= n) {
					Item e;
					e.kind = K_END;
					e.ord = host_is_little() ? O_BIG : O_LITTLE;
					q.items.push_back(e);
					cur = e.ord;
				}
				else if (how == 1) len = 0;
				else it.elem = ONEBYTE[r.below(4)];
			}
			it.arr.resize((size_t)len);
			for (int k = 0; k < len; k++) it.arr[k] = gen_bits(r, it.elem);
		}
		else if (w < 85) {
			it.kind = K_STR + (int)r.below(3); it.s = gen_text(r);
			// a String carries its length: binary content with zero bytes is a string value too (not for the const char* form)
			if (it.kind != K_CSTR && it.s.size() && r.chance(0.2)) { int k = r.range(1, 3); for (int j = 0; j < k; j++) it.s[r.below((uint32_t)it.s.size())] = 0; }
			// an array of strings is an array of "these" too: its bytes are the strings' bytes one after the other
			if (it.kind == K_STR && r.chance(0.2)) it.pieces = r.range(1, 4);
		}
		else { it.kind = K_END; it.ord = (int)r.below(NORD); }
		if (it.kind == K_END) cur = it.ord;
		if (is_trigger(it, cur)) triggers++;
		if (it.kind == K_ARR) arrays.push_back((int)q.items.size());
		q.items.push_back(it);
	}
	if (stratum == 1 && !triggers) {
		if (swapped(cur)) {
			Item e;
			e.kind = K_END;
			e.ord = r.chance(0.5) ? O_NATIVE : (host_is_little() ? O_LITTLE : O_BIG);
			q.items.push_back(e);
			cur = e.ord;
		}
		static const int MULTI[8] = {K_I16, K_U16, K_I32, K_U32, K_I64, K_U64, K_F32, K_F64};
		Item it;
		it.kind = K_ARR;
		it.elem = MULTI[r.below(8)];
		int len = gen_len(r);
		if (len == 0) len = r.range(1, 100);
		it.arr.resize((size_t)len);
		for (int k = 0; k < len; k++) it.arr[k] = gen_bits(r, it.elem);
		q.items.push_back(it);
	}
	build_reference(q);
}

static std::string describe(const Seq& q)
{
	std::string d = std::string("order=") + ONAME[q.init];
	for (size_t i = 0; i < q.items.size(); i++) {
		const Item& it = q.items[i];
		d += "; ";
		if (it.kind == K_END) d += std::string("setEndian(") + ONAME[it.ord] + ")";
		else if (it.kind == K_ARR && it.src >= 0) d += vf::fmt("again#%d:Array<%s>[%d]", it.src, KNAME[it.elem], (int)it.arr.size());
		else if (it.kind == K_ARR) d += vf::fmt("#%d:Array<%s>[%d]", (int)i, KNAME[it.elem], (int)it.arr.size());
		else if (it.kind == K_STR && it.pieces) d += vf::fmt("Array<String>[%d](%d bytes)", it.pieces, (int)it.s.size());
		else if (it.kind >= K_STR) d += vf::fmt("%s[%d]", KNAME[it.kind], (int)it.s.size());
		else d += vf::fmt("%s=0x%llx", KNAME[it.kind], (unsigned long long)it.bits);
	}
	return d;
}

// counters, non-triviality, distinct hash (returns true and the hash when the sequence is non-trivial)
static bool account(vf::Ctx& c, const Seq& q, uint64_t& hash)
{
	uint64_t kinds[NKIND] = {0}, arrs[NSCALAR] = {0}, under[NORD] = {0}, init[NORD] = {0};
	uint64_t eff = 0, len0 = 0, len1 = 0, len100 = 0, hostpath = 0, swappath = 0, specials = 0;
	uint64_t again = 0, again_same = 0, again_other = 0, again_multibyte_after_swapped = 0;
	std::vector<int> last_msb(q.items.size(), -1), was_swapped(q.items.size(), 0);   // per Array object (index of its first item)
	bool multibyte_scalar = false;
	std::string sig;
	sig += (char)q.init;
	init[q.init]++;
	int last_eff = -1;
	for (size_t i = 0; i < q.items.size(); i++) {
		const Item& it = q.items[i];
		kinds[it.kind]++;
		if (it.kind == K_STR && it.pieces) c.count(swapped(it.in_force) ? "array_of.String.other-endian-order" : "array_of.String.native-order");
		sig += (char)it.kind;
		if (it.kind == K_END) { sig += (char)(64 + it.ord); continue; }
		under[it.in_force]++;
		int e = msb_first(it.in_force) ? 1 : 0;
		if (last_eff >= 0 && e != last_eff) eff++;
		last_eff = e;
		if (it.kind == K_ARR) {
			sig += (char)(32 + it.elem);
			arrs[it.elem]++;
			size_t n = it.arr.size();
			if (n == 0) len0++;
			if (n == 1) len1++;
			if (n == 100) len100++;
			if (swapped(it.in_force)) swappath++; else hostpath++;
			if (is_trigger(it, it.in_force)) c.count("arrays_multibyte_on_hostorder_path");
			size_t root = it.src >= 0 ? (size_t)it.src : i;
			if (it.src >= 0) {
				sig += 'R';
				again++;
				if (last_msb[root] == e) again_same++; else again_other++;
				if (was_swapped[root] && KSIZE[it.elem] > 1 && n) again_multibyte_after_swapped++;
			}
			last_msb[root] = e;
			if (swapped(it.in_force)) was_swapped[root] = 1;
		}
		else if (it.kind < NSCALAR) {
			if (KSIZE[it.kind] > 1) multibyte_scalar = true;
			if (it.kind == K_F32 || it.kind == K_F64) {
				int mant = it.kind == K_F32 ? 23 : 52, eb = it.kind == K_F32 ? 8 : 11;
				uint64_t ex = (it.bits >> mant) & ((1ULL << eb) - 1), m = it.bits & ((1ULL << mant) - 1);
				if (ex == (1ULL << eb) - 1 && m) specials++;
			}
		}
	}
	for (int k = 0; k < NKIND; k++) if (kinds[k]) c.count((std::string("item.") + KNAME[k]).c_str(), kinds[k]);
	for (int k = 0; k < NSCALAR; k++) if (arrs[k]) c.count((std::string("array_of.") + KNAME[k]).c_str(), arrs[k]);
	for (int k = 0; k < NORD; k++) if (under[k]) c.count((std::string("values_under.") + ONAME[k]).c_str(), under[k]);
	for (int k = 0; k < NORD; k++) if (init[k]) c.count((std::string("initial_order.") + ONAME[k]).c_str(), init[k]);
	if (kinds[K_END]) c.count("endian_switches", kinds[K_END]);
	if (eff) c.count("effective_order_changes_between_values", eff);
	if (len0) c.count("array_len_0", len0);
	if (len1) c.count("array_len_1", len1);
	if (len100) c.count("array_len_100", len100);
	if (hostpath) c.count("arrays_on_hostorder_path", hostpath);
	if (swappath) c.count("arrays_on_swapped_path", swappath);
	if (specials) c.count("nan_scalars", specials);
	if (again) c.count("array_objects_written_again", again);
	if (again_same) c.count("array_written_again_same_effective_order", again_same);
	if (again_other) c.count("array_written_again_other_effective_order", again_other);
	if (again_multibyte_after_swapped) c.count("multibyte_array_written_again_after_swapped_write", again_multibyte_after_swapped);
	c.count("reference_bytes", q.ref.size());
	if (q.items.size() == 64) c.count("sequences_of_64_items");
	hash = vf::fnv(sig);
	if (q.items.size() >= 3 && multibyte_scalar) return true;
	c.count("trivial_sequences");
	return false;
}

// ---------------------------------------------------------------- writing through asl (same code for the three stream classes)
struct Mismatch
{
	bool bad;
	std::string key, detail;
	Mismatch() : bad(false) {}
	void set(const std::string& k, const std::string& d) { if (!bad) { bad = true; key = k; detail = d; } }
};

// what the writer saw of the objects it handed to operator<< (filled in the writing thread, read after it has finished)
struct SrcLog
{
	Mismatch mm;
	uint64_t scalars, arrays, strings;
	SrcLog() : scalars(0), arrays(0), strings(0) {}
};

struct HolderBase { virtual ~HolderBase() {} };
template <class T>
struct Holder : HolderBase
{
	Array<T> a;                        // the object given to operator<<, alive until the sequence is finished
	std::vector<unsigned char> orig;   // independent copy of the element bit patterns
};
typedef std::vector<std::unique_ptr<HolderBase> > Holders;

template <class W, class T>
static void put_scalar(W& w, const Item& it, size_t idx, SrcLog& sl)
{
	T x = make<T>(it.bits);
	const T keep = make<T>(it.bits);
	w << x;
	sl.scalars++;
	if (memcmp(&x, &keep, sizeof(T)) != 0)
		sl.mm.set(vf::fmt("write.%s.%s.source-modified", KNAME[it.kind], ONAME[it.in_force]),
		          vf::fmt("item %d (%s, order %s): the variable given to operator<< holds %s afterwards, it held %s", (int)idx, KNAME[it.kind], ONAME[it.in_force],
		                  vf::hex(&x, sizeof(T)).c_str(), vf::hex(&keep, sizeof(T)).c_str()));
}

template <class W, class T>
static void put_array(W& w, const Item& it, size_t idx, Holders& hs, SrcLog& sl)
{
	const std::vector<uint64_t>& v = it.arr;
	Holder<T>* h;
	if (it.src >= 0) h = static_cast<Holder<T>*>(hs[(size_t)it.src].get());   // same element type and contents by construction
	else {
		h = new Holder<T>;
		hs[idx].reset(h);
		h->a.resize((int)v.size());
		h->orig.resize(v.size() * sizeof(T));
		for (size_t i = 0; i < v.size(); i++) {
			T x = make<T>(v[i]), y = make<T>(v[i]);
			memcpy(&h->a[(int)i], &x, sizeof(T));
			memcpy(&h->orig[i * sizeof(T)], &y, sizeof(T));
		}
	}
	bool clean_before = h->a.length() == (int)v.size() && (v.empty() || memcmp(h->a.data(), &h->orig[0], h->orig.size()) == 0);
	w << h->a;
	sl.arrays++;
	if (!clean_before) return;   // already reported when it happened; the object is written as it is
	if (h->a.length() != (int)v.size()) {
		sl.mm.set(vf::fmt("write.array.%s.source-modified", ONAME[it.in_force]),
		          vf::fmt("item %d (Array<%s>[%d], order %s): the array given to operator<< has length %d afterwards", (int)idx, KNAME[it.elem], (int)v.size(),
		                  ONAME[it.in_force], h->a.length()));
		return;
	}
	if (v.empty() || memcmp(h->a.data(), &h->orig[0], h->orig.size()) == 0) return;
	size_t k = 0;
	while (memcmp(&h->a[(int)k], &h->orig[k * sizeof(T)], sizeof(T)) == 0) k++;
	sl.mm.set(vf::fmt("write.array.%s.source-modified", ONAME[it.in_force]),
	          vf::fmt("item %d (%sArray<%s>[%d], order %s): after operator<< element %d of the caller's array holds %s (object bytes), it held %s", (int)idx,
	                  it.src >= 0 ? "written again: " : "", KNAME[it.elem], (int)v.size(), ONAME[it.in_force], (int)k, vf::hex(&h->a[(int)k], sizeof(T)).c_str(),
	                  vf::hex(&h->orig[k * sizeof(T)], sizeof(T)).c_str()));
}

static void string_unchanged(const String& s, const Item& it, size_t idx, SrcLog& sl)
{
	sl.strings++;
	if (s.length() != (int)it.s.size() || memcmp(*s, it.s.data(), it.s.size()) != 0)
		sl.mm.set(vf::fmt("write.%s.%s.source-modified", KNAME[it.kind], ONAME[it.in_force]),
		          vf::fmt("item %d (%s[%d], order %s): the String given to operator<< has length %d and differs from the original afterwards", (int)idx,
		                  KNAME[it.kind], (int)it.s.size(), ONAME[it.in_force], s.length()));
}

template <class W>
static void write_all(W& w, const Seq& q, SrcLog& sl)
{
	Holders hs(q.items.size());
	for (size_t i = 0; i < q.items.size(); i++) {
		const Item& it = q.items[i];
		switch (it.kind) {
#define X(K, T) case K: put_scalar<W, T>(w, it, i, sl); break;
			C16_SCALARS(X)
#undef X
		case K_STR:
			if (it.pieces > 0) {
				Array<String> a;
				size_t n = it.s.size(), per = n / (size_t)it.pieces;
				for (int k = 0; k < it.pieces; k++) {
					size_t from = (size_t)k * per, to = k + 1 == it.pieces ? n : from + per;
					a << String(it.s.c_str() + from, (int)(to - from));
				}
				w << a;
				std::string back;
				for (int k = 0; k < a.length(); k++) back.append(*a[k], (size_t)a[k].length());
				sl.strings++;
				if (a.length() != it.pieces || back != it.s)
					sl.mm.set(vf::fmt("write.Array<String>.%s.source-modified", ONAME[it.in_force]), vf::fmt("item %d: the Array<String> given to operator<< differs from the original afterwards", (int)i));
				break;
			}
			{ String s(it.s.c_str(), (int)it.s.size()); w << s; string_unchanged(s, it, i, sl); break; }
		case K_CSTR: {
			std::string copy(it.s);
			const char* p = copy.c_str();
			w << p;
			sl.strings++;
			if (copy != it.s)
				sl.mm.set(vf::fmt("write.cstring.%s.source-modified", ONAME[it.in_force]), vf::fmt("item %d (cstring[%d]): the characters given to operator<< changed", (int)i, (int)it.s.size()));
			break;
		}
		case K_LSTR: { String s(it.s.c_str(), (int)it.s.size()); int n = (int)it.s.size(); w << n << s; string_unchanged(s, it, i, sl); break; }
		case K_END: w.setEndian(asl_endian(it.ord)); break;
		case K_ARR:
			switch (it.elem) {
#define X(K, T) case K: put_array<W, T>(w, it, i, hs, sl); break;
				C16_SCALARS(X)
#undef X
			}
			break;
		}
	}
}

// ---------------------------------------------------------------- reading back through asl
static std::string raw_read(StreamBufferReader& r, int n)
{
	if (n > r.length()) n = r.length();
	ByteArray a = r.read(n);
	return std::string((const char*)a.data(), (size_t)a.length());
}
static std::string raw_read(File& f, int n)
{
	std::string s((size_t)n, '\xA5');
	int k = n ? f.read(&s[0], n) : 0;
	s.resize((size_t)(k < 0 ? 0 : k));
	return s;
}
static std::string raw_read(Socket& s, int n)
{
	if (n == 0) return std::string();
	static unsigned flip = 0;
	if (++flip % 3 == 0) {   // the ByteArray-returning form: blocks until exactly n bytes have arrived
		ByteArray a = s.read(n);
		return std::string((const char*)a.data(), (size_t)a.length());
	}
	String t = s.readString(n);
	return std::string(*t, (size_t)t.length());
}

// length-prefixed string: File and Socket have operator>>(String&) that reads an int32 length first
static std::string read_lstr(StreamBufferReader& r)   // the reader class has no String extraction: int, then the bytes
{
	int n = -1;
	r >> n;
	if (n < 0 || n > r.length()) return std::string("<bad length>");
	return raw_read(r, n);
}
static std::string read_lstr(File& f) { String x; f >> x; return std::string(*x, (size_t)x.length()); }
static std::string read_lstr(Socket& s) { String x; s >> x; return std::string(*x, (size_t)x.length()); }

static std::string read_text(StreamBufferReader& r, bool lp, const std::string& want) { return lp ? read_lstr(r) : raw_read(r, (int)want.size()); }
static std::string read_text(File& f, bool lp, const std::string& want) { return lp ? read_lstr(f) : raw_read(f, (int)want.size()); }
static std::string read_text(Socket& s, bool lp, const std::string& want)
{
	// Socket::readString() returns text (it ends at the first zero byte): binary string content is read back as plain bytes
	if (want.find('\0') == std::string::npos) return lp ? read_lstr(s) : raw_read(s, (int)want.size());
	int n = (int)want.size();
	if (lp) { n = -1; s >> n; if (n < 0 || n > (1 << 20)) return std::string("<bad length>"); }
	std::string b((size_t)n, '\xA5');
	int k = n ? s.read(&b[0], n) : 0;
	b.resize((size_t)(k < 0 ? 0 : k));
	return b;
}

// the object read into sits between guard bytes: an extraction that stores more than sizeof(T) bytes is named as such
// (overruns longer than the guard leave the enclosing object and are ASan's business)
enum { GUARD = 16 };
template <class T>
struct Guarded
{
	unsigned char before[GUARD];
	T x;
	unsigned char after[GUARD];
};

template <class R, class T>
static int get_scalar(R& r, uint64_t bits, std::string& got)   // 0 = right, 1 = wrong value, 2 = bytes outside the object were written
{
	Guarded<T> g;
	T want = make<T>(bits);
	memset((void*)&g, 0xA5, sizeof g);
	r >> g.x;
	int past = 0;
	for (int i = 0; i < GUARD; i++) if (g.before[i] != 0xA5 || g.after[i] != 0xA5) past++;
	if (past) {
		got = vf::fmt("%d guard bytes around the %d-byte object were overwritten; bytes after it: %s; object bytes %s, want %s", past, (int)sizeof(T),
		              vf::hex(g.after, GUARD).c_str(), vf::hex(&g.x, sizeof(T)).c_str(), vf::hex(&want, sizeof(T)).c_str());
		return 2;
	}
	if (memcmp(&g.x, &want, sizeof(T)) == 0) return 0;
	got = vf::hex(&g.x, sizeof(T)) + " (object bytes), want " + vf::hex(&want, sizeof(T));
	return 1;
}

template <class R>
static int get_kind(R& r, int kind, uint64_t bits, std::string& got)
{
	switch (kind) {
#define X(K, T) case K: return get_scalar<R, T>(r, bits, got);
		C16_SCALARS(X)
#undef X
	}
	return 1;
}
static const char* READ_SHAPE[3] = {"", "value", "wrote-past-object"};

template <class R>
static void read_all(R& r, const Seq& q, Mismatch& mm)
{
	for (size_t i = 0; i < q.items.size() && !mm.bad; i++) {
		const Item& it = q.items[i];
		std::string got;
		const char* on = ONAME[it.in_force];
		if (it.kind == K_END) r.setEndian(asl_endian(it.ord));
		else if (it.kind < NSCALAR) {
			int bad = get_kind(r, it.kind, it.bits, got);
			if (bad)
				mm.set(vf::fmt("read.%s.%s.%s", KNAME[it.kind], on, READ_SHAPE[bad]), vf::fmt("item %d (%s, order %s): read back %s", (int)i, KNAME[it.kind], on, got.c_str()));
		}
		else if (it.kind == K_ARR) {
			for (size_t k = 0; k < it.arr.size(); k++) {
				int bad = get_kind(r, it.elem, it.arr[k], got);
				if (bad) {
					mm.set(vf::fmt("read.array.%s.%s", on, READ_SHAPE[bad]), vf::fmt("item %d (Array<%s>[%d], order %s): element %d read back %s", (int)i, KNAME[it.elem],
					                                                  (int)it.arr.size(), on, (int)k, got.c_str()));
					break;
				}
			}
		}
		else {
			got = read_text(r, it.kind == K_LSTR, it.s);
			if (got != it.s)
				mm.set(vf::fmt("read.%s.%s.value", KNAME[it.kind], on), vf::fmt("item %d (%s[%d], order %s): read back %d bytes '%s', want '%s'", (int)i, KNAME[it.kind],
				                                                         (int)it.s.size(), on, (int)got.size(), vf::vis(got, 80).c_str(), vf::vis(it.s, 80).c_str()));
		}
	}
}

// ---------------------------------------------------------------- producing bytes through each stream class
enum Backend { B_BUFFER, B_FILE, B_SOCKET };
static const char* BNAME[3] = {"StreamBuffer", "File", "Socket"};

static void produce_buffer(const Seq& q, bool by_ctor, std::string& got, ByteArray* keep, SrcLog& sl)
{
	StreamBuffer b(by_ctor ? asl_endian(q.init) : ENDIAN_LITTLE);
	if (!by_ctor) b.setEndian(asl_endian(q.init));
	write_all(b, q, sl);
	got.assign((const char*)b.data(), (size_t)b.length());
	if (keep) *keep = *b;   // shares the buffer's block
}

static bool slurp_posix(const std::string& path, std::string& out)
{
	int fd = open(path.c_str(), O_RDONLY);
	if (fd < 0) return false;
	char buf[65536];
	out.clear();
	for (;;) {
		ssize_t k = read(fd, buf, sizeof buf);
		if (k > 0) out.append(buf, (size_t)k);
		else if (k < 0 && errno == EINTR) continue;
		else break;
	}
	close(fd);
	return true;
}

static const char* produce_file(const std::string& spath, const Seq& q, bool open_in_ctor, std::string& got, SrcLog& sl)   // returns 0 or why it could not run
{
	String path(spath.c_str());
	if (open_in_ctor) {
		File f(path, File::WRITE);
		if (!f) return "file-open-write";
		f.setEndian(asl_endian(q.init));
		write_all(f, q, sl);
		f.close();
	}
	else {
		File f(path);
		f.setEndian(asl_endian(q.init));   // the order is a property of the object, set before opening
		if (!f.open(File::WRITE)) return "file-open-write";
		write_all(f, q, sl);
		// closed by the destructor
	}
	return slurp_posix(spath, got) ? 0 : "posix-open";
}

// number of send() calls the sequence causes (asl sends every scalar, and every element of an array on the swapped path, separately)
static size_t count_sends(const Seq& q)
{
	size_t n = 0;
	for (size_t i = 0; i < q.items.size(); i++) {
		const Item& it = q.items[i];
		if (it.kind == K_END) continue;
		n += it.kind == K_ARR && swapped(it.in_force) ? it.arr.size() : it.kind == K_LSTR ? 2 : 1;
	}
	return n;
}
// few small sends fit in the socketpair's buffer: such a sequence is also run without threads (write everything, close, then read)
static bool fits_in_socket_buffer(const Seq& q) { return count_sends(q) <= 64 && q.ref.size() <= 60000; }

static void drain_fd(int rfd, std::string* gp)
{
	char buf[65536];
	for (;;) {
		ssize_t k = ::read(rfd, buf, sizeof buf);
		if (k > 0) gp->append(buf, (size_t)k);
		else if (k < 0 && errno == EINTR) continue;
		else break;
	}
}

static void socket_writer(int wfd, const Seq* qp, SrcLog* sl)
{
	Socket w(wfd);
	w.setEndian(asl_endian(qp->init));
	write_all(w, *qp, *sl);
	w.close();
}

static const char* produce_socket(const Seq& q, bool threaded, std::string& got, SrcLog& sl)
{
	int fd[2];
	if (socketpair(AF_UNIX, SOCK_STREAM, 0, fd) != 0) return "socketpair";
	int rfd = fd[1];
	got.clear();
	std::string* gp = &got;
	if (threaded || !fits_in_socket_buffer(q)) {
		std::thread cap([rfd, gp]() { drain_fd(rfd, gp); });
		socket_writer(fd[0], &q, &sl);
		cap.join();
	}
	else {
		socket_writer(fd[0], &q, &sl);
		drain_fd(rfd, gp);
	}
	::close(rfd);
	return 0;
}

static const char* produce(int backend, vf::Ctx& c, const Seq& q, bool variant, std::string& got, SrcLog& sl, ByteArray* keep = 0)
{
	switch (backend) {
	case B_BUFFER: produce_buffer(q, variant, got, keep, sl); return 0;
	case B_FILE: return produce_file(c.opt->out + "/c16_stream.bin", q, variant, got, sl);
	default: return produce_socket(q, variant, got, sl);
	}
}

// the objects given to operator<< must be unchanged; reported while the case goes on, so that the produced bytes are judged as well
static void check_sources(vf::Ctx& c, int backend, const SrcLog& sl)
{
	c.count("source_objects_compared_after_write", sl.scalars + sl.arrays + sl.strings);
	c.count("source_arrays_compared_after_write", sl.arrays);
	if (sl.mm.bad) c.report(sl.mm.key, std::string(BNAME[backend]) + ": " + sl.mm.detail);
}

// ---------------------------------------------------------------- byte comparison against the reference
static std::string item_text(const Item& it)
{
	return it.kind == K_ARR ? vf::fmt("Array<%s>[%d]", KNAME[it.elem], (int)it.arr.size())
	       : it.kind >= K_STR ? vf::fmt("%s[%d]", KNAME[it.kind], (int)it.s.size()) : vf::fmt("%s=0x%llx", KNAME[it.kind], (unsigned long long)it.bits);
}
static const char* shape_of(size_t got, size_t ref) { return got < ref ? "short" : got > ref ? "long" : "content"; }
static std::string hexcut(const std::string& s, size_t n = 64) { return vf::hex(s.data(), s.size() < n ? s.size() : n) + (s.size() > n ? ".." : ""); }

static void check_bytes(vf::Ctx& c, int backend, const Seq& q, const std::string& got)
{
	const std::string& ref = q.ref;
	if (got == ref) return;
	const char* where = BNAME[backend];
	// locate: write every item alone, in the order that was in force for it, through the same stream class
	for (size_t i = 0; i < q.items.size(); i++) {
		const Item& it = q.items[i];
		if (it.kind == K_END) continue;
		Seq one;
		one.init = it.in_force;
		one.items.push_back(it);
		one.items[0].src = -1;
		build_reference(one);
		std::string g;
		SrcLog alone;
		if (produce(backend, c, one, true, g, alone)) continue;
		if (g == one.ref) continue;
		c.fail(vf::fmt("write.%s.%s.%s", KNAME[it.kind], ONAME[it.in_force], shape_of(g.size(), one.ref.size())),
		       vf::fmt("%s: the sequence produced %d bytes, the reference has %d. Item %d = %s in order %s, written alone, produces %d bytes %s; reference: %d bytes %s",
		               where, (int)got.size(), (int)ref.size(), (int)i, item_text(it).c_str(), ONAME[it.in_force], (int)g.size(), hexcut(g).c_str(),
		               (int)one.ref.size(), hexcut(one.ref).c_str()));
	}
	// every item is right on its own: the divergence depends on the history (e.g. a byte-order switch)
	size_t n = got.size() < ref.size() ? got.size() : ref.size(), d = 0;
	while (d < n && got[d] == ref[d]) d++;
	int at = -1;
	for (size_t i = 0; i < q.items.size(); i++)
		if (q.items[i].kind != K_END && q.items[i].len && q.items[i].off <= d) at = (int)i;
	c.fail(vf::fmt("write.in-sequence.%s", shape_of(got.size(), ref.size())),
	       vf::fmt("%s: %d bytes produced, reference has %d; every item alone is right; first difference at offset %d (item %d%s%s)", where, (int)got.size(),
	               (int)ref.size(), (int)d, at, at >= 0 ? " = " : "", at >= 0 ? item_text(q.items[(size_t)at]).c_str() : ""));
}

// ---------------------------------------------------------------- backend: StreamBuffer + StreamBufferReader
static void run_buffer(vf::Ctx& c, const Seq& q)
{
	std::string got;
	bool by_ctor = c.rng.chance(0.5), reader_by_ctor = c.rng.chance(0.5), reader_raw = c.rng.chance(0.5);
	c.op(vf::fmt("StreamBuffer(%s) <<", by_ctor ? "order in constructor" : "setEndian"));
	ByteArray content;
	SrcLog sl;
	produce(B_BUFFER, c, q, by_ctor, got, sl, &content);
	check_sources(c, B_BUFFER, sl);
	check_bytes(c, B_BUFFER, q, got);
	if (sl.mm.bad) return;

	Mismatch mm;
	c.op(vf::fmt("StreamBufferReader(%s, %s) >>", reader_raw ? "exact malloc copy" : "ByteArray", reader_by_ctor ? "order in constructor" : "setEndian"));
	if (reader_raw) {
		byte* p = (byte*)malloc(got.size() ? got.size() : 1);
		if (!p) { c.inconclusive("malloc"); return; }
		memcpy(p, got.data(), got.size());
		{
			StreamBufferReader rd(p, (int)got.size(), reader_by_ctor ? asl_endian(q.init) : ENDIAN_LITTLE);
			if (!reader_by_ctor) rd.setEndian(asl_endian(q.init));
			read_all(rd, q, mm);
			if (!mm.bad && rd.ptr() != rd.end()) mm.set("read.consumed", vf::fmt("%d bytes left after reading every item back", rd.length()));
		}
		free(p);
	}
	else {
		StreamBufferReader rd(content, reader_by_ctor ? asl_endian(q.init) : ENDIAN_LITTLE);
		if (!reader_by_ctor) rd.setEndian(asl_endian(q.init));
		read_all(rd, q, mm);
		if (!mm.bad && rd.ptr() != rd.end()) mm.set("read.consumed", vf::fmt("%d bytes left after reading every item back", rd.length()));
	}
	if (mm.bad) c.fail(mm.key, "StreamBufferReader: " + mm.detail);
	// 8-bit values that are bytes of the buffer itself, appended across its growth boundaries
	if (c.rng.chance(0.1)) {
		StreamBuffer b;
		std::string m;
		int n = c.rng.range(20, 300);
		for (int i = 0; i < n; i++) {
			if (m.size() && c.rng.chance(0.4)) { size_t k = c.rng.below((uint32_t)m.size()); char v = m[k]; if (c.rng.chance(0.5)) b << b[(int)k]; else b << (char&)b[(int)k]; m += v; }
			else if (m.size() && c.rng.chance(0.15)) {
				// a run of the buffer's own bytes: write(own pointer, n) and << (the buffer as a ByteArray), also across a growth boundary
				size_t k = c.rng.below((uint32_t)m.size()), len = 1 + c.rng.below((uint32_t)(m.size() - k));
				std::string run = m.substr(k, len);
				if (c.rng.chance(0.6)) { ByteArray& self = b; b.write(self.data() + k, (int)len); c.count("buffer.self_run_written_with_write(ptr,n)"); m += run; }
				else { ByteArray& self = b; b << self; c.count("buffer.self_written_with_<<"); m += std::string(m); }
			}
			else { byte v = (byte)c.rng.below(256); b << v; m += (char)v; }
			if (m.size() > 60000) break;
		}
		ByteArray& ba = b;
		if (ba.length() != (int)m.size() || memcmp(ba.data(), m.data(), m.size()) != 0) c.fail("write.byte-of-own-buffer", vf::fmt("%d appends, a third of them bytes of the buffer itself: content differs from the model", n));
		c.count("buffer.self_byte_histories");
	}
}

// ---------------------------------------------------------------- backend: File
struct Unlinker
{
	std::string path;
	~Unlinker() { unlink(path.c_str()); }
};

static void run_file(vf::Ctx& c, const Seq& q)
{
	Unlinker ul;
	ul.path = c.opt->out + "/c16_stream.bin";
	String path(ul.path.c_str());
	bool open_in_ctor = c.rng.chance(0.5);
	c.op("File(WRITE) << ; POSIX read");
	std::string got;
	SrcLog sl;
	const char* why = produce(B_FILE, c, q, open_in_ctor, got, sl);
	if (why) { c.inconclusive(why); return; }
	check_sources(c, B_FILE, sl);
	check_bytes(c, B_FILE, q, got);
	if (sl.mm.bad) return;

	c.op("File(READ) >>");
	Mismatch mm;
	{
		File f(path, File::READ);
		if (!f) { c.inconclusive("file-open-read"); return; }
		f.setEndian(asl_endian(q.init));
		read_all(f, q, mm);
		if (!mm.bad && f.position() != (Long)q.ref.size())
			mm.set("read.consumed", vf::fmt("file position %lld after reading every item back, file has %d bytes", (long long)f.position(), (int)q.ref.size()));
	}
	if (mm.bad) c.fail(mm.key, "File: " + mm.detail);
	// a value written over an existing one through File::RW lands where the file pointer is and nowhere else
	if (!mm.bad && got.size() >= 4 && c.rng.chance(0.25)) {
		size_t pos = c.rng.below((uint32_t)(got.size() - 3));
		c.op(vf::fmt("File(RW) seek(%d) << int (big-endian)", (int)pos));
		{
			File f(path, File::RW);
			if (!f) { c.inconclusive("file-open-rw"); return; }
			f.setEndian(ENDIAN_BIG);
			f.seek((Long)pos);
			f << (int)0x11223344;
		}
		std::string want = got, now;
		want[pos] = 0x11; want[pos + 1] = 0x22; want[pos + 2] = 0x33; want[pos + 3] = 0x44;
		{ FILE* fp = fopen(ul.path.c_str(), "rb"); if (fp) { char buf[65536]; size_t n; while ((n = fread(buf, 1, sizeof buf, fp)) > 0) now.append(buf, n); fclose(fp); } }
		if (now != want) c.fail("write.rw-overwrite", vf::fmt("file of %d bytes, 4 bytes written at offset %d through File::RW: file now has %d bytes%s", (int)got.size(), (int)pos, (int)now.size(), now.size() == want.size() ? ", content differs" : ""));
		c.count("file.rw_overwrites");
	}
}

// ---------------------------------------------------------------- backend: Socket over an AF_UNIX socketpair
static void run_socket(vf::Ctx& c, const Seq& q)
{
	// pass 1: asl writes, the bytes are captured from the raw descriptor of the peer
	bool threaded = !fits_in_socket_buffer(q) || c.rng.chance(0.3);
	c.count(threaded ? "socket_cases_writer_and_reader_concurrent" : "socket_cases_write_close_then_read");
	c.op(threaded ? "Socket(fd) << ; raw read on the peer in a thread" : "Socket(fd) << ; close ; raw read on the peer");
	std::string got;
	SrcLog sl;
	const char* why = produce(B_SOCKET, c, q, threaded, got, sl);
	if (why) { c.inconclusive(why); return; }
	check_sources(c, B_SOCKET, sl);
	check_bytes(c, B_SOCKET, q, got);
	if (sl.mm.bad) return;

	// pass 2: asl writes (in a thread unless the payload fits in the socket buffer), asl reads on the peer
	int fd[2];
	if (socketpair(AF_UNIX, SOCK_STREAM, 0, fd) != 0) { c.inconclusive("socketpair"); return; }
	c.op(threaded ? "Socket(fd) << in a thread ; Socket(fd) >> on the peer" : "Socket(fd) << ; close ; Socket(fd) >> on the peer");
	Mismatch mm;
	SrcLog sl2, *slp = &sl2;
	{
		int wfd = fd[0];
		const Seq* qp = &q;
		std::thread wr;
		if (threaded) wr = std::thread([wfd, qp, slp]() { socket_writer(wfd, qp, slp); });
		else socket_writer(wfd, qp, slp);
		{
			Socket r(fd[1]);
			r.setEndian(asl_endian(q.init));
			read_all(r, q, mm);
			if (mm.bad) r.close();   // unblocks the writer if it is still sending
			if (wr.joinable()) wr.join();
			if (!mm.bad) {
				char ch;
				ssize_t k = ::recv(r.handle(), &ch, 1, MSG_DONTWAIT);
				if (k != 0) mm.set("read.consumed", k > 0 ? "bytes left on the socket after reading every item back" : vf::fmt("recv after the writer closed: errno %d", errno));
			}
		}
	}
	check_sources(c, B_SOCKET, sl2);
	if (mm.bad) c.fail(mm.key, "Socket: " + mm.detail);
}

// ---------------------------------------------------------------- Socket read-back with fragmented delivery
// The reference bytes go through the raw descriptor in pieces; after some pieces the writer waits until the reader has
// taken every byte sent so far (FIONREAD on the reader's descriptor is 0) and then pauses. When such a cut lies inside a
// multi-byte value the reader's ::read() for that value has returned fewer bytes than asked for: a forced short read.
struct Piece
{
	size_t off, len;
	unsigned pause_us;     // 0 = send the next piece at once
	int vsize, k;          // the cut after this piece lies k bytes into a value of vsize bytes (k = 0: on a value boundary)
	Piece() : off(0), len(0), pause_us(0), vsize(1), k(0) {}
};

struct FragStats
{
	uint64_t pieces, pauses, forced, forced_size[9], forced_after_1, forced_before_last, not_drained, send_failed;
	FragStats() { memset(this, 0, sizeof *this); }
};

static const char* FRAG_TAG[4] = {"pieces_1_to_7", "pieces_1_to_7_some_8_to_64", "cuts_inside_values_only", "pieces_1_to_3"};
static const char* FRAG_STYLE[4] = {"pieces of 1..7 bytes", "pieces of 1..7 bytes, some of 8..64", "cuts inside values only, the tail arrives with what follows", "pieces of 1..3 bytes"};

static void frag_plan(vf::Rng& r, const Seq& q, int style, std::vector<Piece>& plan)
{
	const size_t N = q.ref.size();
	std::vector<uint32_t> vstart(N + 1, 0);
	std::vector<unsigned char> vsize(N + 1, 1), forced(N + 1, 0);
	std::vector<std::pair<size_t, int> > values;   // multi-byte values: offset, size
	for (size_t i = 0; i < q.items.size(); i++) {
		const Item& it = q.items[i];
		int sz = 1;
		size_t from = it.off, to = it.off;
		if (it.kind < NSCALAR) { sz = KSIZE[it.kind]; to = it.off + it.len; }
		else if (it.kind == K_ARR) { sz = KSIZE[it.elem]; to = it.off + it.len; }
		else if (it.kind == K_LSTR) { sz = 4; to = it.off + 4; }
		if (sz > 1)
			for (size_t p = from; p < to; p += (size_t)sz) {
				values.push_back(std::make_pair(p, sz));
				for (int b = 0; b < sz; b++) { vstart[p + (size_t)b] = (uint32_t)p; vsize[p + (size_t)b] = (unsigned char)sz; }
			}
	}
	// cuts placed inside multi-byte values: after the first byte, before the last one, or anywhere inside
	double pin = style == 2 ? 0.6 : 0.35;
	for (size_t v = 0; v < values.size(); v++) {
		if (!r.chance(pin)) continue;
		int sz = values[v].second, how = (int)r.below(5);
		int k = how < 2 ? 1 : how == 2 ? sz - 1 : r.range(1, sz - 1);
		forced[values[v].first + (size_t)k] = 1;
		if (sz == 8 && r.chance(0.3)) forced[values[v].first + (size_t)r.range(1, 7)] = 1;
	}
	plan.clear();
	size_t pos = 0;
	while (pos < N) {
		size_t len;
		switch (style) {
		case 0: len = (size_t)r.range(1, 7); break;
		case 1: len = r.chance(0.8) ? (size_t)r.range(1, 7) : (size_t)r.range(8, 64); break;
		case 2: len = N; break;
		default: len = (size_t)r.range(1, 3); break;
		}
		size_t end = pos + len < N ? pos + len : N;
		for (size_t p = pos + 1; p < end; p++) if (forced[p]) { end = p; break; }
		Piece pc;
		pc.off = pos;
		pc.len = end - pos;
		if (end < N && vsize[end] > 1 && vstart[end] < end) { pc.vsize = vsize[end]; pc.k = (int)(end - vstart[end]); }
		plan.push_back(pc);
		pos = end;
	}
	// pauses: at most 24 after cuts inside values, at most 8 elsewhere
	std::vector<size_t> in, out;
	for (size_t i = 0; i + 1 < plan.size(); i++) (plan[i].k ? in : out).push_back(i);
	for (int pass = 0; pass < 2; pass++) {
		std::vector<size_t>& v = pass ? out : in;
		size_t want = pass ? 8 : 24;
		for (size_t i = 0; i < want && i < v.size(); i++) {
			size_t j = i + (size_t)r.below(v.size() - i);
			std::swap(v[i], v[j]);
			int sel = (int)r.below(10);
			plan[v[i]].pause_us = (unsigned)(sel < 6 ? r.range(100, 300) : sel < 9 ? r.range(300, 1000) : r.range(1000, 2000));
		}
	}
}

static double now_s()
{
	struct timespec ts;
	clock_gettime(CLOCK_MONOTONIC, &ts);
	return (double)ts.tv_sec + 1e-9 * (double)ts.tv_nsec;
}

static void frag_writer(int wfd, int rfd, const std::string* ref, const std::vector<Piece>* plan, FragStats* st, std::atomic<bool>* stop)
{
	for (size_t i = 0; i < plan->size() && !stop->load(); i++) {
		const Piece& pc = (*plan)[i];
		size_t sent = 0;
		while (sent < pc.len) {
			ssize_t k = ::send(wfd, ref->data() + pc.off + sent, pc.len - sent, MSG_NOSIGNAL);
			if (k > 0) sent += (size_t)k;
			else if (k < 0 && errno == EINTR) continue;
			else break;
		}
		if (sent < pc.len) { st->send_failed++; break; }
		st->pieces++;
		if (!pc.pause_us) continue;
		bool drained = false;
		double deadline = now_s() + 0.25;
		while (!stop->load()) {
			int n = -1;
			if (ioctl(rfd, FIONREAD, &n) != 0) break;
			if (n == 0) { drained = true; break; }
			if (now_s() > deadline) break;
			usleep(20);
		}
		usleep(pc.pause_us);
		st->pauses++;
		if (!drained) { st->not_drained++; continue; }
		if (pc.k) {
			st->forced++;
			st->forced_size[pc.vsize]++;
			if (pc.k == 1) st->forced_after_1++;
			if (pc.k == pc.vsize - 1) st->forced_before_last++;
		}
	}
	::close(wfd);
}

static void run_socket_frag(vf::Ctx& c, const Seq& q, bool nontrivial, uint64_t hash)
{
	int style = (int)c.rng.below(4);
	std::vector<Piece> plan;
	frag_plan(c.rng, q, style, plan);
	c.count((std::string("frag.style.") + FRAG_TAG[style]).c_str());
	// one case in 131 has a silent peer for 2.3 s in the middle of the stream: the reader waits, it does not give a value up
	// In two thirds of them the silence starts exactly in front of a scalar (nothing of it has arrived yet: the reader sits in
	// `socket >> x` with an empty receive queue for longer than the library's default 2 s waitInput() time-out), otherwise anywhere.
	if (c.idx % 67 == 9 && plan.size() >= 2) {
		std::vector<size_t> before_scalar;
		{
			std::vector<char> scalar_at(q.ref.size() + 1, 0);
			for (size_t i = 0; i < q.items.size(); i++) if (q.items[i].kind < NSCALAR) scalar_at[q.items[i].off] = 1;
			for (size_t i = 0; i + 1 < plan.size(); i++) if (scalar_at[plan[i].off + plan[i].len]) before_scalar.push_back(i);
		}
		if (!before_scalar.empty() && c.rng.below(3) != 0) {
			plan[before_scalar[c.rng.below((uint32_t)before_scalar.size())]].pause_us = 2300000;
			c.count("frag.long_silence_of_2.3s.in-front-of-a-scalar");
		} else plan[c.rng.below((uint32_t)plan.size() - 1)].pause_us = 2300000;
		c.count("frag.long_silence_of_2.3s");
	}
	int fd[2];
	if (socketpair(AF_UNIX, SOCK_STREAM, 0, fd) != 0) { c.inconclusive("socketpair"); return; }
	c.op(vf::fmt("reference bytes (%d) sent through the raw descriptor by a thread in %d pieces (%s) with pauses; Socket(fd) >> on the peer", (int)q.ref.size(),
	             (int)plan.size(), FRAG_STYLE[style]));
	Mismatch mm;
	FragStats st;
	std::atomic<bool> stop(false);
	{
		Socket r(fd[1]);
		r.setEndian(asl_endian(q.init));
		int wfd = fd[0], rfd = fd[1];
		const std::string* ref = &q.ref;
		const std::vector<Piece>* pp = &plan;
		FragStats* sp = &st;
		std::atomic<bool>* stopp = &stop;
		std::thread wr([wfd, rfd, ref, pp, sp, stopp]() { frag_writer(wfd, rfd, ref, pp, sp, stopp); });
		read_all(r, q, mm);
		if (mm.bad) {
			stop.store(true);
			::shutdown(rfd, SHUT_RDWR);   // a writer blocked in send() returns; the descriptor stays valid until the thread is gone
		}
		wr.join();
		if (!mm.bad) {
			char ch;
			ssize_t k = ::recv(r.handle(), &ch, 1, MSG_DONTWAIT);
			if (k != 0) mm.set("read.consumed", k > 0 ? "bytes left on the socket after reading every item back" : vf::fmt("recv after the writer closed: errno %d", errno));
		}
	}
	c.count("frag.pieces_sent", st.pieces);
	c.count("frag.pauses", st.pauses);
	if (st.not_drained) c.count("frag.pauses_reader_had_not_caught_up", st.not_drained);
	if (st.forced) c.count("frag.short_reads_forced", st.forced);
	for (int z = 2; z <= 8; z *= 2) if (st.forced_size[z]) c.count(vf::fmt("frag.short_reads_forced.%d_byte_value", z).c_str(), st.forced_size[z]);
	if (st.forced_after_1) c.count("frag.short_reads_forced.after_first_byte", st.forced_after_1);
	if (st.forced_before_last) c.count("frag.short_reads_forced.before_last_byte", st.forced_before_last);
	if (mm.bad) c.fail(mm.key, vf::fmt("Socket, fragmented delivery (%s; %d short reads forced before the end of the case): ", FRAG_STYLE[style], (int)st.forced) + mm.detail);
	if (st.send_failed) { c.inconclusive("frag-send-failed"); return; }
	if (!st.forced) c.count("frag.cases_without_forced_short_read");
	else if (nontrivial) c.distinct(vf::mix(hash, (uint64_t)style));
}

// ---------------------------------------------------------------- modes

static void run_case(vf::Ctx& c, int backend, int stratum, bool frag = false)
{
	Seq q;
	gen_seq(c, q, stratum);
	c.desc(describe(q));
	uint64_t hash = 0;
	bool nontrivial = account(c, q, hash);
	if (c.want_sample()) c.sample(c.curdesc().substr(0, 700));
	if (frag) { run_socket_frag(c, q, nontrivial, hash); return; }
	if (nontrivial) c.distinct(hash);
	switch (backend) {
	case B_BUFFER: run_buffer(c, q); break;
	case B_FILE: run_file(c, q); break;
	case B_SOCKET: run_socket(c, q); break;
	}
}

static void mode_buffer(vf::Ctx& c) { run_case(c, B_BUFFER, 0); }
static void mode_file(vf::Ctx& c) { run_case(c, B_FILE, 0); }
static void mode_socket(vf::Ctx& c) { run_case(c, B_SOCKET, 0); }
static void mode_buffer_b(vf::Ctx& c) { run_case(c, B_BUFFER, 1); }
static void mode_file_b(vf::Ctx& c) { run_case(c, B_FILE, 1); }
static void mode_socket_b(vf::Ctx& c) { run_case(c, B_SOCKET, 1); }
static void mode_socket_frag(vf::Ctx& c) { run_case(c, B_SOCKET, 1, true); }

// a large array written through Socket << while the peer holds back, and one signal (handler without SA_RESTART) cutting the
// blocked send() short after a partial transfer: the bytes on the wire are still the array's canonical bytes
static void mode_socket_intr(vf::Ctx& c)
{
	// host byte order only: there the array goes out as one block (in the other order the library sends element by element,
	// and a signal during a 4-byte send() that has transferred nothing yet is an ordinary EINTR failure, not a short count)
	int ord = c.rng.chance(0.5) ? O_NATIVE : (host_is_little() ? O_LITTLE : O_BIG);
	int n = c.rng.range(200000, 600000);   // ints: 0.8 - 2.4 MB, well above the socket buffer
	bool asArray = c.rng.chance(0.7);
	c.desc(vf::fmt("Socket << %s of %d ints, order %s, the first send() interrupted by a signal after a partial transfer", asArray ? "Array<int>" : "raw block", n, ONAME[ord]));
	Array<int> a(n);
	uint32_t x = (uint32_t)c.rng.next();
	for (int i = 0; i < n; i++) { x = x * 1664525u + 1013904223u; a[i] = (int)x; }
	std::string want((size_t)n * 4, '\0');
	for (int i = 0; i < n; i++) { uint32_t v = (uint32_t)a[i]; for (int k = 0; k < 4; k++) want[(size_t)i * 4 + k] = (char)(msb_first(ord) ? v >> (24 - 8 * k) : v >> (8 * k)); }
	if (!asArray && swapped(ord)) { asArray = true; }
	int sv[2];
	if (socketpair(AF_UNIX, SOCK_STREAM, 0, sv) != 0) { c.inconclusive("socketpair"); return; }
	pthread_t writer = pthread_self();
	std::string wire;
	std::atomic<int> signalled(0);
	std::thread rd([&]() {
		char buf[65536];
		int last = -1, stable = 0;
		for (int i = 0; i < 1000 && stable < 6; i++) {
			int avail = 0;
			ioctl(sv[1], FIONREAD, &avail);
			if (avail >= 65536 && avail == last) stable++; else stable = 0;
			last = avail;
			struct timespec ts = {0, 5000000}; nanosleep(&ts, 0);
		}
		if (stable >= 6) { pthread_kill(writer, SIGUSR2); signalled = 1; }
		for (;;) { ssize_t k = read(sv[1], buf, sizeof buf); if (k <= 0) break; wire.append(buf, k); }
	});
	{
		Socket s(sv[0]);
		s.setEndian(asl_endian(ord));
		if (asArray) s << a;
		else s.write(a.data(), n * 4);
		s.close();
	}
	rd.join();
	close(sv[1]);
	if (wire != want) {
		size_t k = 0;
		while (k < wire.size() && k < want.size() && wire[k] == want[k]) k++;
		c.fail("write.interrupted-send", vf::fmt("%d bytes on the wire, %d expected, first difference at byte %d", (int)wire.size(), (int)want.size(), (int)k));
	}
	c.count(signalled ? "sends_interrupted_after_partial_transfer" : "interrupt_planned_but_writer_never_blocked");
	c.evals(n);
	c.distinct(vf::mix(x, (uint64_t)ord));
	if (c.want_sample()) c.sample(c.curdesc());
}

int main(int argc, char** argv)
{
	{ struct sigaction sa; memset(&sa, 0, sizeof sa); sa.sa_handler = [](int) {}; sigemptyset(&sa.sa_mask); sa.sa_flags = 0; sigaction(SIGUSR2, &sa, 0); }
	vf::Runner R;
	R.add("buffer", mode_buffer, "StreamBuffer -> reference bytes -> StreamBufferReader (no multi-byte arrays on the host-order path)");
	R.add("file", mode_file, "File << ; POSIX read ; File >> (no multi-byte arrays on the host-order path)");
	R.add("socket", mode_socket, "Socket << over a socketpair ; raw capture ; Socket >> (no multi-byte arrays on the host-order path)");
	R.add("buffer_hostorder_arrays", mode_buffer_b, "as buffer, every sequence has a non-empty multi-byte array written in host order");
	R.add("file_hostorder_arrays", mode_file_b, "as file, every sequence has a non-empty multi-byte array written in host order");
	R.add("socket_hostorder_arrays", mode_socket_b, "as socket, every sequence has a non-empty multi-byte array written in host order");
	R.add("socket_intr", mode_socket_intr, "a large Socket << cut short by a signal after a partial transfer");
	R.add("socket_frag", mode_socket_frag, "reference bytes sent through the raw fd in small pieces with pauses (short reads) ; Socket >>");
	return R.main(argc, argv);
}
