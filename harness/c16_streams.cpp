// C16: endian-aware binary streams (StreamBuffer/StreamBufferReader, File << >>, Socket << >>).
//
// Oracle: a reference serializer that assembles every value byte by byte from its integer bit
// pattern (most significant byte first for BIG, least significant first for LITTLE, host order
// measured at run time for NATIVE). Values are built arithmetically from the bit pattern and
// compared with memcmp, so NaN payloads, -0.0 and min/max integers are checked bit for bit.
//   clause 1: bytes produced == concatenation of sizeof(T) bytes per scalar, length*sizeof(T) per
//             array (asl writes no length prefix and no string terminator; neither does the model)
//   clause 2: reading the same types in the same order with the same byte orders gives the originals
//   clause 3: setEndian in mid-stream: the reference applies each order only to later items
//
// On a byte mismatch the harness writes every item of the sequence alone (same stream class, the order
// that was in force) to name the item that is wrong on its own: key write.<kind>.<ORDER>.<short|long|content>;
// if every item alone is right the divergence depends on the history: key write.in-sequence.<shape>.
// Socket: sequences that cause few sends are also run without threads (write, close, read); the others
// with the writer and the reader running concurrently.
//
// Strata: asl's Array<T> operator<< has a fast path for the not-swapped (host) byte order. Stratum A
// (modes buffer/file/socket) never sends a non-empty array of multi-byte elements down that path;
// stratum B (modes *_hostorder_arrays) always does, at least once per sequence.
#include "common/runner.h"
#include <thread>
#include <type_traits>
#include <sys/socket.h>
#include <asl/StreamBuffer.h>
#include <asl/File.h>
#include <asl/Socket.h>

using namespace asl;

enum Kind { K_I8, K_U8, K_CH, K_I16, K_U16, K_I32, K_U32, K_I64, K_U64, K_F32, K_F64, K_BOOL, NSCALAR,
            K_STR = NSCALAR, K_CSTR, K_LSTR, K_ARR, K_END, NKIND };
static const char* KNAME[NKIND] = {"i8", "u8", "char", "i16", "u16", "i32", "u32", "i64", "u64", "f32", "f64", "bool",
                                   "string", "cstring", "lstring", "array", "setEndian"};
static const int KSIZE[NSCALAR] = {1, 1, 1, 2, 2, 4, 4, 8, 8, 4, 8, 1};
enum Ord { O_BIG, O_LITTLE, O_NATIVE, NORD };
static const char* ONAME[NORD] = {"BIG", "LITTLE", "NATIVE"};
static Endian asl_endian(int o) { return o == O_BIG ? ENDIAN_BIG : o == O_LITTLE ? ENDIAN_LITTLE : ENDIAN_NATIVE; }

static bool host_is_little()
{
	const uint32_t probe = 0x01020304u;
	unsigned char b[4];
	memcpy(b, &probe, 4);
	return b[0] == 4;
}
// does the value go out most significant byte first under the named order?
static bool msb_first(int ord) { return ord == O_BIG || (ord == O_NATIVE && !host_is_little()); }
// does the named order differ from the host's (the case in which asl swaps)?
static bool swapped(int ord) { return msb_first(ord) == host_is_little(); }

struct Item
{
	int kind, elem, ord;           // elem: element kind for arrays; ord: new order for setEndian
	uint64_t bits;                 // scalar bit pattern (low KSIZE bytes significant)
	std::vector<uint64_t> arr;     // array element bit patterns
	std::string s;                 // string bytes (no NUL inside)
	int in_force;                  // order in force when this item is written (model)
	size_t off, len;               // position of its bytes in the reference stream
	Item() : kind(0), elem(0), ord(0), bits(0), in_force(0), off(0), len(0) {}
};

struct Seq
{
	int init;                      // order set explicitly before the first item
	std::vector<Item> items;
	std::string ref;               // reference bytes
};

// ---------------------------------------------------------------- values from bit patterns (arithmetic, no byte layout involved)
template <class T>
static typename std::enable_if<std::is_integral<T>::value && !std::is_same<T, bool>::value, T>::type make(uint64_t b)
{
	typedef typename std::make_unsigned<T>::type U;
	return (T)(U)b;
}
template <class T>
static typename std::enable_if<std::is_same<T, bool>::value, T>::type make(uint64_t b) { return (b & 1) != 0; }
template <class T>
static typename std::enable_if<std::is_same<T, float>::value, T>::type make(uint64_t b)
{
	uint32_t u = (uint32_t)b;
	float f;
	memcpy(&f, &u, 4);
	return f;
}
template <class T>
static typename std::enable_if<std::is_same<T, double>::value, T>::type make(uint64_t b)
{
	double f;
	memcpy(&f, &b, 8);
	return f;
}

#define C16_SCALARS(X) \
	X(K_I8, signed char) X(K_U8, byte) X(K_CH, char) X(K_I16, short) X(K_U16, unsigned short) X(K_I32, int) X(K_U32, unsigned) \
	X(K_I64, Long) X(K_U64, ULong) X(K_F32, float) X(K_F64, double) X(K_BOOL, bool)

// ---------------------------------------------------------------- reference serializer
static void ref_scalar(std::string& out, uint64_t bits, int kind, int ord)
{
	int n = KSIZE[kind];
	if (kind == K_BOOL) bits &= 1;
	for (int k = 0; k < n; k++) {
		int shift = msb_first(ord) ? 8 * (n - 1 - k) : 8 * k;
		out += (char)(unsigned char)((bits >> shift) & 0xff);
	}
}

static void build_reference(Seq& q)
{
	int cur = q.init;
	q.ref.clear();
	for (size_t i = 0; i < q.items.size(); i++) {
		Item& it = q.items[i];
		it.in_force = cur;
		it.off = q.ref.size();
		switch (it.kind) {
		case K_END: cur = it.ord; break;
		case K_STR: case K_CSTR: q.ref += it.s; break;
		case K_LSTR: ref_scalar(q.ref, (uint64_t)it.s.size(), K_I32, cur); q.ref += it.s; break;   // written as << int(length) << String
		case K_ARR: for (size_t k = 0; k < it.arr.size(); k++) ref_scalar(q.ref, it.arr[k], it.elem, cur); break;
		default: ref_scalar(q.ref, it.bits, it.kind, cur);
		}
		it.len = q.ref.size() - it.off;
	}
}

// ---------------------------------------------------------------- generator
static uint64_t gen_bits(vf::Rng& r, int k)
{
	int sz = KSIZE[k];
	uint64_t mask = sz == 8 ? ~0ULL : ((1ULL << (8 * sz)) - 1);
	if (k == K_BOOL) return r.below(2);
	int sel = (int)r.below(16);
	uint64_t v = r.next();
	if (sel < 8) return v & mask;
	if (k == K_F32 || k == K_F64) {
		int mant = k == K_F32 ? 23 : 52, ebits = k == K_F32 ? 8 : 11;
		uint64_t sign = (v >> 63) << (mant + ebits), emax = ((1ULL << ebits) - 1) << mant, mmask = (1ULL << mant) - 1;
		switch (sel) {
		case 8: return sign;                                               // +-0
		case 9: return sign | emax;                                        // +-inf
		case 10: case 11: return sign | emax | ((v & mmask) ? (v & mmask) : 1);   // NaN, random payload, quiet or signalling
		case 12: return sign | emax | 1;                                   // signalling NaN, smallest payload
		case 13: return sign | ((v & mmask) ? (v & mmask) : 1);            // denormal
		case 14: return sign | (emax - (1ULL << mant)) | mmask;            // largest finite
		default: return sign | (((1ULL << (ebits - 1)) - 1) << mant);      // +-1.0
		}
	}
	switch (sel) {
	case 8: v = 0; break;
	case 9: v = ~0ULL; break;
	case 10: v = 1ULL << (8 * sz - 1); break;            // minimum of the signed type
	case 11: v = (1ULL << (8 * sz - 1)) - 1; break;      // maximum of the signed type
	case 12: v = 1; break;
	case 13: v = 0x0102030405060708ULL >> (8 * (8 - sz)); break;
	case 14: v = 0xff; break;
	default: v = 0xffULL << (8 * (sz - 1)); break;
	}
	return v & mask;
}

static std::string gen_text(vf::Rng& r)
{
	int sel = (int)r.below(20), n;
	if (sel < 2) n = 0;
	else if (sel < 10) n = r.range(1, 15);
	else if (sel < 17) n = r.range(16, 40);
	else n = r.range(41, 300);
	std::string s((size_t)n, 'x');
	for (int i = 0; i < n; i++) s[i] = (char)r.range(1, 255);
	return s;
}

static int gen_len(vf::Rng& r)
{
	int sel = (int)r.below(25);
	if (sel < 2) return 0;
	if (sel < 4) return 1;
	if (sel < 6) return 100;
	return r.range(2, 99);
}

static bool is_trigger(const Item& it, int cur) { return it.kind == K_ARR && KSIZE[it.elem] > 1 && !it.arr.empty() && !swapped(cur); }

static void gen_seq(vf::Ctx& c, Seq& q, int stratum)
{
	vf::Rng& r = c.rng;
	static const int ONEBYTE[4] = {K_I8, K_U8, K_CH, K_BOOL};
	int maxn = stratum ? 62 : 64, n;
	int sel = (int)r.below(20);
	if (sel == 0) n = r.range(0, 2);
	else if (sel < 3) n = maxn;
	else n = r.range(3, maxn);
	q.init = (int)r.below(NORD);
	q.items.clear();
	int cur = q.init, triggers = 0;
	while ((int)q.items.size() < n) {
		Item it;
		int w = (int)r.below(100);
		if (w < 55) { it.kind = (int)r.below(NSCALAR); it.bits = gen_bits(r, it.kind); }
		else if (w < 75) {
			it.kind = K_ARR;
			it.elem = (int)r.below(NSCALAR);
			int len = gen_len(r);
			if (stratum == 0 && KSIZE[it.elem] > 1 && len > 0 && !swapped(cur)) {
				// stratum A: keep non-empty multi-byte arrays off the host-order path
				int how = (int)r.below(3);
				if (how == 0 && (int)q.items.size() + 2 <= n) {
					Item e;
					e.kind = K_END;
					e.ord = host_is_little() ? O_BIG : O_LITTLE;
					q.items.push_back(e);
					cur = e.ord;
				}
				else if (how == 1) len = 0;
				else it.elem = ONEBYTE[r.below(4)];
			}
			it.arr.resize((size_t)len);
			for (int k = 0; k < len; k++) it.arr[k] = gen_bits(r, it.elem);
		}
		else if (w < 85) { it.kind = K_STR + (int)r.below(3); it.s = gen_text(r); }
		else { it.kind = K_END; it.ord = (int)r.below(NORD); }
		if (it.kind == K_END) cur = it.ord;
		if (is_trigger(it, cur)) triggers++;
		q.items.push_back(it);
	}
	if (stratum == 1 && !triggers) {
		if (swapped(cur)) {
			Item e;
			e.kind = K_END;
			e.ord = r.chance(0.5) ? O_NATIVE : (host_is_little() ? O_LITTLE : O_BIG);
			q.items.push_back(e);
			cur = e.ord;
		}
		static const int MULTI[8] = {K_I16, K_U16, K_I32, K_U32, K_I64, K_U64, K_F32, K_F64};
		Item it;
		it.kind = K_ARR;
		it.elem = MULTI[r.below(8)];
		int len = gen_len(r);
		if (len == 0) len = r.range(1, 100);
		it.arr.resize((size_t)len);
		for (int k = 0; k < len; k++) it.arr[k] = gen_bits(r, it.elem);
		q.items.push_back(it);
	}
	build_reference(q);
}

static std::string describe(const Seq& q)
{
	std::string d = std::string("order=") + ONAME[q.init];
	for (size_t i = 0; i < q.items.size(); i++) {
		const Item& it = q.items[i];
		d += "; ";
		if (it.kind == K_END) d += std::string("setEndian(") + ONAME[it.ord] + ")";
		else if (it.kind == K_ARR) d += vf::fmt("Array<%s>[%d]", KNAME[it.elem], (int)it.arr.size());
		else if (it.kind >= K_STR) d += vf::fmt("%s[%d]", KNAME[it.kind], (int)it.s.size());
		else d += vf::fmt("%s=0x%llx", KNAME[it.kind], (unsigned long long)it.bits);
	}
	return d;
}

// counters, non-triviality, distinct hash
static void account(vf::Ctx& c, const Seq& q)
{
	uint64_t kinds[NKIND] = {0}, arrs[NSCALAR] = {0}, under[NORD] = {0}, init[NORD] = {0};
	uint64_t eff = 0, len0 = 0, len1 = 0, len100 = 0, hostpath = 0, swappath = 0, specials = 0;
	bool multibyte_scalar = false;
	std::string sig;
	sig += (char)q.init;
	init[q.init]++;
	int last_eff = -1;
	for (size_t i = 0; i < q.items.size(); i++) {
		const Item& it = q.items[i];
		kinds[it.kind]++;
		sig += (char)it.kind;
		if (it.kind == K_END) { sig += (char)(64 + it.ord); continue; }
		under[it.in_force]++;
		int e = msb_first(it.in_force) ? 1 : 0;
		if (last_eff >= 0 && e != last_eff) eff++;
		last_eff = e;
		if (it.kind == K_ARR) {
			sig += (char)(32 + it.elem);
			arrs[it.elem]++;
			size_t n = it.arr.size();
			if (n == 0) len0++;
			if (n == 1) len1++;
			if (n == 100) len100++;
			if (swapped(it.in_force)) swappath++; else hostpath++;
			if (is_trigger(it, it.in_force)) c.count("arrays_multibyte_on_hostorder_path");
		}
		else if (it.kind < NSCALAR) {
			if (KSIZE[it.kind] > 1) multibyte_scalar = true;
			if (it.kind == K_F32 || it.kind == K_F64) {
				int mant = it.kind == K_F32 ? 23 : 52, eb = it.kind == K_F32 ? 8 : 11;
				uint64_t ex = (it.bits >> mant) & ((1ULL << eb) - 1), m = it.bits & ((1ULL << mant) - 1);
				if (ex == (1ULL << eb) - 1 && m) specials++;
			}
		}
	}
	for (int k = 0; k < NKIND; k++) if (kinds[k]) c.count((std::string("item.") + KNAME[k]).c_str(), kinds[k]);
	for (int k = 0; k < NSCALAR; k++) if (arrs[k]) c.count((std::string("array_of.") + KNAME[k]).c_str(), arrs[k]);
	for (int k = 0; k < NORD; k++) if (under[k]) c.count((std::string("values_under.") + ONAME[k]).c_str(), under[k]);
	for (int k = 0; k < NORD; k++) if (init[k]) c.count((std::string("initial_order.") + ONAME[k]).c_str(), init[k]);
	if (kinds[K_END]) c.count("endian_switches", kinds[K_END]);
	if (eff) c.count("effective_order_changes_between_values", eff);
	if (len0) c.count("array_len_0", len0);
	if (len1) c.count("array_len_1", len1);
	if (len100) c.count("array_len_100", len100);
	if (hostpath) c.count("arrays_on_hostorder_path", hostpath);
	if (swappath) c.count("arrays_on_swapped_path", swappath);
	if (specials) c.count("nan_scalars", specials);
	c.count("reference_bytes", q.ref.size());
	if (q.items.size() == 64) c.count("sequences_of_64_items");
	if (q.items.size() >= 3 && multibyte_scalar) c.distinct(vf::fnv(sig));
	else c.count("trivial_sequences");
}

// ---------------------------------------------------------------- writing through asl (same code for the three stream classes)
template <class W, class T>
static void put_scalar(W& w, uint64_t bits)
{
	T x = make<T>(bits);
	w << x;
}

template <class W, class T>
static void put_array(W& w, const std::vector<uint64_t>& v)
{
	Array<T> a((int)v.size());
	for (size_t i = 0; i < v.size(); i++) {
		T x = make<T>(v[i]);
		memcpy(&a[(int)i], &x, sizeof(T));
	}
	w << a;
}

template <class W>
static void write_all(W& w, const Seq& q)
{
	for (size_t i = 0; i < q.items.size(); i++) {
		const Item& it = q.items[i];
		switch (it.kind) {
#define X(K, T) case K: put_scalar<W, T>(w, it.bits); break;
			C16_SCALARS(X)
#undef X
		case K_STR: { String s(it.s.c_str(), (int)it.s.size()); w << s; break; }
		case K_CSTR: { const char* p = it.s.c_str(); w << p; break; }
		case K_LSTR: { String s(it.s.c_str(), (int)it.s.size()); int n = (int)it.s.size(); w << n << s; break; }
		case K_END: w.setEndian(asl_endian(it.ord)); break;
		case K_ARR:
			switch (it.elem) {
#define X(K, T) case K: put_array<W, T>(w, it.arr); break;
				C16_SCALARS(X)
#undef X
			}
			break;
		}
	}
}

// ---------------------------------------------------------------- reading back through asl
struct Mismatch
{
	bool bad;
	std::string key, detail;
	Mismatch() : bad(false) {}
	void set(const std::string& k, const std::string& d) { if (!bad) { bad = true; key = k; detail = d; } }
};

static std::string raw_read(StreamBufferReader& r, int n)
{
	if (n > r.length()) n = r.length();
	ByteArray a = r.read(n);
	return std::string((const char*)a.data(), (size_t)a.length());
}
static std::string raw_read(File& f, int n)
{
	std::string s((size_t)n, '\xA5');
	int k = n ? f.read(&s[0], n) : 0;
	s.resize((size_t)(k < 0 ? 0 : k));
	return s;
}
static std::string raw_read(Socket& s, int n)
{
	if (n == 0) return std::string();
	String t = s.readString(n);
	return std::string(*t, (size_t)t.length());
}

// length-prefixed string: File and Socket have operator>>(String&) that reads an int32 length first
static std::string read_lstr(StreamBufferReader& r)   // the reader class has no String extraction: int, then the bytes
{
	int n = -1;
	r >> n;
	if (n < 0 || n > r.length()) return std::string("<bad length>");
	return raw_read(r, n);
}
static std::string read_lstr(File& f) { String x; f >> x; return std::string(*x, (size_t)x.length()); }
static std::string read_lstr(Socket& s) { String x; s >> x; return std::string(*x, (size_t)x.length()); }

template <class R, class T>
static bool get_scalar(R& r, uint64_t bits, std::string& got)
{
	T x, want = make<T>(bits);
	memset((void*)&x, 0xA5, sizeof(T));
	r >> x;
	if (memcmp(&x, &want, sizeof(T)) == 0) return true;
	got = vf::hex(&x, sizeof(T)) + " (object bytes), want " + vf::hex(&want, sizeof(T));
	return false;
}

template <class R>
static bool get_kind(R& r, int kind, uint64_t bits, std::string& got)
{
	switch (kind) {
#define X(K, T) case K: return get_scalar<R, T>(r, bits, got);
		C16_SCALARS(X)
#undef X
	}
	return false;
}

template <class R>
static void read_all(R& r, const Seq& q, Mismatch& mm)
{
	for (size_t i = 0; i < q.items.size() && !mm.bad; i++) {
		const Item& it = q.items[i];
		std::string got;
		const char* on = ONAME[it.in_force];
		if (it.kind == K_END) r.setEndian(asl_endian(it.ord));
		else if (it.kind < NSCALAR) {
			if (!get_kind(r, it.kind, it.bits, got))
				mm.set(vf::fmt("read.%s.%s.value", KNAME[it.kind], on), vf::fmt("item %d (%s, order %s): read back %s", (int)i, KNAME[it.kind], on, got.c_str()));
		}
		else if (it.kind == K_ARR) {
			for (size_t k = 0; k < it.arr.size(); k++)
				if (!get_kind(r, it.elem, it.arr[k], got)) {
					mm.set(vf::fmt("read.array.%s.value", on), vf::fmt("item %d (Array<%s>[%d], order %s): element %d read back %s", (int)i, KNAME[it.elem],
					                                                  (int)it.arr.size(), on, (int)k, got.c_str()));
					break;
				}
		}
		else {
			got = it.kind == K_LSTR ? read_lstr(r) : raw_read(r, (int)it.s.size());
			if (got != it.s)
				mm.set(vf::fmt("read.%s.%s.value", KNAME[it.kind], on), vf::fmt("item %d (%s[%d], order %s): read back %d bytes '%s', want '%s'", (int)i, KNAME[it.kind],
				                                                         (int)it.s.size(), on, (int)got.size(), vf::vis(got, 80).c_str(), vf::vis(it.s, 80).c_str()));
		}
	}
}

// ---------------------------------------------------------------- producing bytes through each stream class
static void produce_buffer(const Seq& q, bool by_ctor, std::string& got, ByteArray* keep)
{
	StreamBuffer b(by_ctor ? asl_endian(q.init) : ENDIAN_LITTLE);
	if (!by_ctor) b.setEndian(asl_endian(q.init));
	write_all(b, q);
	got.assign((const char*)b.data(), (size_t)b.length());
	if (keep) *keep = *b;   // shares the buffer's block
}

static bool slurp_posix(const std::string& path, std::string& out)
{
	int fd = open(path.c_str(), O_RDONLY);
	if (fd < 0) return false;
	char buf[65536];
	out.clear();
	for (;;) {
		ssize_t k = read(fd, buf, sizeof buf);
		if (k > 0) out.append(buf, (size_t)k);
		else if (k < 0 && errno == EINTR) continue;
		else break;
	}
	close(fd);
	return true;
}

static const char* produce_file(const std::string& spath, const Seq& q, bool open_in_ctor, std::string& got)   // returns 0 or why it could not run
{
	String path(spath.c_str());
	if (open_in_ctor) {
		File f(path, File::WRITE);
		if (!f) return "file-open-write";
		f.setEndian(asl_endian(q.init));
		write_all(f, q);
		f.close();
	}
	else {
		File f(path);
		f.setEndian(asl_endian(q.init));   // the order is a property of the object, set before opening
		if (!f.open(File::WRITE)) return "file-open-write";
		write_all(f, q);
		// closed by the destructor
	}
	return slurp_posix(spath, got) ? 0 : "posix-open";
}

// number of send() calls the sequence causes (asl sends every scalar, and every element of an array on the swapped path, separately)
static size_t count_sends(const Seq& q)
{
	size_t n = 0;
	for (size_t i = 0; i < q.items.size(); i++) {
		const Item& it = q.items[i];
		if (it.kind == K_END) continue;
		n += it.kind == K_ARR && swapped(it.in_force) ? it.arr.size() : it.kind == K_LSTR ? 2 : 1;
	}
	return n;
}
// few small sends fit in the socketpair's buffer: such a sequence is also run without threads (write everything, close, then read)
static bool fits_in_socket_buffer(const Seq& q) { return count_sends(q) <= 64 && q.ref.size() <= 60000; }

static void drain_fd(int rfd, std::string* gp)
{
	char buf[65536];
	for (;;) {
		ssize_t k = ::read(rfd, buf, sizeof buf);
		if (k > 0) gp->append(buf, (size_t)k);
		else if (k < 0 && errno == EINTR) continue;
		else break;
	}
}

static void socket_writer(int wfd, const Seq* qp)
{
	Socket w(wfd);
	w.setEndian(asl_endian(qp->init));
	write_all(w, *qp);
	w.close();
}

static const char* produce_socket(const Seq& q, bool threaded, std::string& got)
{
	int fd[2];
	if (socketpair(AF_UNIX, SOCK_STREAM, 0, fd) != 0) return "socketpair";
	int rfd = fd[1];
	got.clear();
	std::string* gp = &got;
	if (threaded || !fits_in_socket_buffer(q)) {
		std::thread cap([rfd, gp]() { drain_fd(rfd, gp); });
		socket_writer(fd[0], &q);
		cap.join();
	}
	else {
		socket_writer(fd[0], &q);
		drain_fd(rfd, gp);
	}
	::close(rfd);
	return 0;
}

enum Backend { B_BUFFER, B_FILE, B_SOCKET };
static const char* BNAME[3] = {"StreamBuffer", "File", "Socket"};

static const char* produce(int backend, vf::Ctx& c, const Seq& q, bool variant, std::string& got, ByteArray* keep = 0)
{
	switch (backend) {
	case B_BUFFER: produce_buffer(q, variant, got, keep); return 0;
	case B_FILE: return produce_file(c.opt->out + "/c16_stream.bin", q, variant, got);
	default: return produce_socket(q, variant, got);
	}
}

// ---------------------------------------------------------------- byte comparison against the reference
static std::string item_text(const Item& it)
{
	return it.kind == K_ARR ? vf::fmt("Array<%s>[%d]", KNAME[it.elem], (int)it.arr.size())
	       : it.kind >= K_STR ? vf::fmt("%s[%d]", KNAME[it.kind], (int)it.s.size()) : vf::fmt("%s=0x%llx", KNAME[it.kind], (unsigned long long)it.bits);
}
static const char* shape_of(size_t got, size_t ref) { return got < ref ? "short" : got > ref ? "long" : "content"; }
static std::string hexcut(const std::string& s, size_t n = 64) { return vf::hex(s.data(), s.size() < n ? s.size() : n) + (s.size() > n ? ".." : ""); }

static void check_bytes(vf::Ctx& c, int backend, const Seq& q, const std::string& got)
{
	const std::string& ref = q.ref;
	if (got == ref) return;
	const char* where = BNAME[backend];
	// locate: write every item alone, in the order that was in force for it, through the same stream class
	for (size_t i = 0; i < q.items.size(); i++) {
		const Item& it = q.items[i];
		if (it.kind == K_END) continue;
		Seq one;
		one.init = it.in_force;
		one.items.push_back(it);
		build_reference(one);
		std::string g;
		if (produce(backend, c, one, true, g)) continue;
		if (g == one.ref) continue;
		c.fail(vf::fmt("write.%s.%s.%s", KNAME[it.kind], ONAME[it.in_force], shape_of(g.size(), one.ref.size())),
		       vf::fmt("%s: the sequence produced %d bytes, the reference has %d. Item %d = %s in order %s, written alone, produces %d bytes %s; reference: %d bytes %s",
		               where, (int)got.size(), (int)ref.size(), (int)i, item_text(it).c_str(), ONAME[it.in_force], (int)g.size(), hexcut(g).c_str(),
		               (int)one.ref.size(), hexcut(one.ref).c_str()));
	}
	// every item is right on its own: the divergence depends on the history (e.g. a byte-order switch)
	size_t n = got.size() < ref.size() ? got.size() : ref.size(), d = 0;
	while (d < n && got[d] == ref[d]) d++;
	int at = -1;
	for (size_t i = 0; i < q.items.size(); i++)
		if (q.items[i].kind != K_END && q.items[i].len && q.items[i].off <= d) at = (int)i;
	c.fail(vf::fmt("write.in-sequence.%s", shape_of(got.size(), ref.size())),
	       vf::fmt("%s: %d bytes produced, reference has %d; every item alone is right; first difference at offset %d (item %d%s%s)", where, (int)got.size(),
	               (int)ref.size(), (int)d, at, at >= 0 ? " = " : "", at >= 0 ? item_text(q.items[(size_t)at]).c_str() : ""));
}

// ---------------------------------------------------------------- backend: StreamBuffer + StreamBufferReader
static void run_buffer(vf::Ctx& c, const Seq& q)
{
	std::string got;
	bool by_ctor = c.rng.chance(0.5), reader_by_ctor = c.rng.chance(0.5), reader_raw = c.rng.chance(0.5);
	c.op(vf::fmt("StreamBuffer(%s) <<", by_ctor ? "order in constructor" : "setEndian"));
	ByteArray content;
	produce(B_BUFFER, c, q, by_ctor, got, &content);
	check_bytes(c, B_BUFFER, q, got);

	Mismatch mm;
	c.op(vf::fmt("StreamBufferReader(%s, %s) >>", reader_raw ? "exact malloc copy" : "ByteArray", reader_by_ctor ? "order in constructor" : "setEndian"));
	if (reader_raw) {
		byte* p = (byte*)malloc(got.size() ? got.size() : 1);
		if (!p) { c.inconclusive("malloc"); return; }
		memcpy(p, got.data(), got.size());
		{
			StreamBufferReader rd(p, (int)got.size(), reader_by_ctor ? asl_endian(q.init) : ENDIAN_LITTLE);
			if (!reader_by_ctor) rd.setEndian(asl_endian(q.init));
			read_all(rd, q, mm);
			if (!mm.bad && rd.ptr() != rd.end()) mm.set("read.consumed", vf::fmt("%d bytes left after reading every item back", rd.length()));
		}
		free(p);
	}
	else {
		StreamBufferReader rd(content, reader_by_ctor ? asl_endian(q.init) : ENDIAN_LITTLE);
		if (!reader_by_ctor) rd.setEndian(asl_endian(q.init));
		read_all(rd, q, mm);
		if (!mm.bad && rd.ptr() != rd.end()) mm.set("read.consumed", vf::fmt("%d bytes left after reading every item back", rd.length()));
	}
	if (mm.bad) c.fail(mm.key, "StreamBufferReader: " + mm.detail);
}

// ---------------------------------------------------------------- backend: File
struct Unlinker
{
	std::string path;
	~Unlinker() { unlink(path.c_str()); }
};

static void run_file(vf::Ctx& c, const Seq& q)
{
	Unlinker ul;
	ul.path = c.opt->out + "/c16_stream.bin";
	String path(ul.path.c_str());
	bool open_in_ctor = c.rng.chance(0.5);
	c.op("File(WRITE) << ; POSIX read");
	std::string got;
	const char* why = produce(B_FILE, c, q, open_in_ctor, got);
	if (why) { c.inconclusive(why); return; }
	check_bytes(c, B_FILE, q, got);

	c.op("File(READ) >>");
	Mismatch mm;
	{
		File f(path, File::READ);
		if (!f) { c.inconclusive("file-open-read"); return; }
		f.setEndian(asl_endian(q.init));
		read_all(f, q, mm);
		if (!mm.bad && f.position() != (Long)q.ref.size())
			mm.set("read.consumed", vf::fmt("file position %lld after reading every item back, file has %d bytes", (long long)f.position(), (int)q.ref.size()));
	}
	if (mm.bad) c.fail(mm.key, "File: " + mm.detail);
}

// ---------------------------------------------------------------- backend: Socket over an AF_UNIX socketpair
static void run_socket(vf::Ctx& c, const Seq& q)
{
	// pass 1: asl writes, the bytes are captured from the raw descriptor of the peer
	bool threaded = !fits_in_socket_buffer(q) || c.rng.chance(0.3);
	c.count(threaded ? "socket_cases_writer_and_reader_concurrent" : "socket_cases_write_close_then_read");
	c.op(threaded ? "Socket(fd) << ; raw read on the peer in a thread" : "Socket(fd) << ; close ; raw read on the peer");
	std::string got;
	const char* why = produce(B_SOCKET, c, q, threaded, got);
	if (why) { c.inconclusive(why); return; }
	check_bytes(c, B_SOCKET, q, got);

	// pass 2: asl writes (in a thread unless the payload fits in the socket buffer), asl reads on the peer
	int fd[2];
	if (socketpair(AF_UNIX, SOCK_STREAM, 0, fd) != 0) { c.inconclusive("socketpair"); return; }
	c.op(threaded ? "Socket(fd) << in a thread ; Socket(fd) >> on the peer" : "Socket(fd) << ; close ; Socket(fd) >> on the peer");
	Mismatch mm;
	{
		int wfd = fd[0];
		const Seq* qp = &q;
		std::thread wr;
		if (threaded) wr = std::thread([wfd, qp]() { socket_writer(wfd, qp); });
		else socket_writer(wfd, qp);
		{
			Socket r(fd[1]);
			r.setEndian(asl_endian(q.init));
			read_all(r, q, mm);
			if (mm.bad) r.close();   // unblocks the writer if it is still sending
			if (wr.joinable()) wr.join();
			if (!mm.bad) {
				char ch;
				ssize_t k = ::recv(r.handle(), &ch, 1, MSG_DONTWAIT);
				if (k != 0) mm.set("read.consumed", k > 0 ? "bytes left on the socket after reading every item back" : vf::fmt("recv after the writer closed: errno %d", errno));
			}
		}
	}
	if (mm.bad) c.fail(mm.key, "Socket: " + mm.detail);
}

// ---------------------------------------------------------------- modes

static void run_case(vf::Ctx& c, int backend, int stratum)
{
	Seq q;
	gen_seq(c, q, stratum);
	c.desc(describe(q));
	account(c, q);
	if (c.want_sample()) c.sample(c.curdesc().substr(0, 700));
	switch (backend) {
	case B_BUFFER: run_buffer(c, q); break;
	case B_FILE: run_file(c, q); break;
	case B_SOCKET: run_socket(c, q); break;
	}
}

static void mode_buffer(vf::Ctx& c) { run_case(c, B_BUFFER, 0); }
static void mode_file(vf::Ctx& c) { run_case(c, B_FILE, 0); }
static void mode_socket(vf::Ctx& c) { run_case(c, B_SOCKET, 0); }
static void mode_buffer_b(vf::Ctx& c) { run_case(c, B_BUFFER, 1); }
static void mode_file_b(vf::Ctx& c) { run_case(c, B_FILE, 1); }
static void mode_socket_b(vf::Ctx& c) { run_case(c, B_SOCKET, 1); }

int main(int argc, char** argv)
{
	vf::Runner R;
	R.add("buffer", mode_buffer, "StreamBuffer -> reference bytes -> StreamBufferReader (no multi-byte arrays on the host-order path)");
	R.add("file", mode_file, "File << ; POSIX read ; File >> (no multi-byte arrays on the host-order path)");
	R.add("socket", mode_socket, "Socket << over a socketpair ; raw capture ; Socket >> (no multi-byte arrays on the host-order path)");
	R.add("buffer_hostorder_arrays", mode_buffer_b, "as buffer, every sequence has a non-empty multi-byte array written in host order");
	R.add("file_hostorder_arrays", mode_file_b, "as file, every sequence has a non-empty multi-byte array written in host order");
	R.add("socket_hostorder_arrays", mode_socket_b, "as socket, every sequence has a non-empty multi-byte array written in host order");
	return R.main(argc, argv);
}
