// libFuzzer target for C19: parsing arbitrary strings as dates terminates in bounds (exact-size heap strings under ASan).
#include <asl/Date.h>
#include <asl/String.h>
#include <stdint.h>
#include <stdlib.h>
#include <string.h>
#include <stdio.h>
#include <string>
using namespace asl;
#define ORACLE(msg) do { fprintf(stderr, "VF-ORACLE: %s\n", msg); abort(); } while (0)
extern "C" int LLVMFuzzerTestOneInput(const uint8_t* data, size_t size)
{
	if (size < 1 || memchr(data, 0, size)) return 0;
	std::string body((const char*)data + 1, size - 1);
	std::string padded = body.size() < 19 ? body + std::string(19 - body.size(), ' ') : body;
	if (data[0] & 1) {
		for (int k = 0; k < 2; k++) {
			Date d(String(k ? padded.c_str() : body.c_str(), (int)(k ? padded.size() : body.size())));
			double t = d.time();
			// formatting is only in the property's scope for instants in years 1..9999
			if (t == t && t >= -62135596800.0 && t <= 253402300799.0) {
				String f = d.toUTCString(Date::FULL);
				if ((int)strlen(*f) != f.length()) ORACLE("date-format-length");
				Date back(f);
				if (!(back.time() - t < 0.0011 && t - back.time() < 0.0011)) ORACLE("date-format-parse-roundtrip");
			}
		}
	} else {
		size_t cut = body.size() / 2;
		Date d(String(body.substr(0, cut).c_str()), String(body.substr(cut).c_str()));
		volatile double t = d.time();
		(void)t;
	}
	return 0;
}
