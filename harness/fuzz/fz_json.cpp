// libFuzzer target for C06: Json/Xdl decode totality and memory safety (ASan), plus chunk independence judged in the target:
// all 2-chunk cuts for inputs <= 96 bytes, 6 pseudo-random k-chunk partitions otherwise.
#include <asl/Xdl.h>
#include <asl/JSON.h>
#include <asl/Var.h>
#include <stdint.h>
#include <stdlib.h>
#include <string.h>
#include <stdio.h>
#include <string>
using namespace asl;

static std::string dump(const Var& v, int depth = 0)
{
	if (depth > 3000) return "?";
	char b[64];
	switch (v.type()) {
	case Var::NONE: return "none";
	case Var::NUL: return "null";
	case Var::BOOL: return (bool)v ? "T" : "F";
	case Var::INT: snprintf(b, sizeof b, "i%d", (int)v); return b;
	case Var::NUMBER: case Var::FLOAT: snprintf(b, sizeof b, "d%a", (double)v); return b;
	case Var::STRING: return std::string("s") + std::to_string(strlen(*v)) + ":" + *v;
	case Var::ARRAY: { std::string s = "["; for (int i = 0; i < v.length(); i++) s += dump(v[i], depth + 1) + ","; return s + "]"; }
	case Var::OBJ: { std::string s = "{"; Dic<Var> o = v.object(); foreach2(String& k, Var& x, o) s += std::string(*k) + "=" + dump(x, depth + 1) + ","; return s + "}"; }
	default: return "?";
	}
}

static Var parse(const uint8_t* data, size_t n, const size_t* cuts, int ncuts)
{
	XdlParser p;
	size_t a = 0;
	for (int i = 0; i <= ncuts; i++) {
		size_t b = i < ncuts ? cuts[i] : n;
		char* c = (char*)malloc(b - a + 1);   // exact-size block: an over-read is visible to ASan
		memcpy(c, data + a, b - a);
		c[b - a] = 0;
		p.parse(c);
		free(c);
		a = b;
	}
	p.parse(" ");
	return p.value();
}

extern "C" int LLVMFuzzerTestOneInput(const uint8_t* data, size_t size)
{
	if (memchr(data, 0, size)) return 0;   // the API takes NUL-terminated text
	Var whole = parse(data, size, 0, 0);
	std::string dw = dump(whole);
	if (whole.ok()) { String e = Json::encode(whole); if ((int)strlen(*e) != e.length()) { fprintf(stderr, "VF-ORACLE: encode-length\n"); abort(); } }
	if (size < 2) return 0;
	if (size <= 96) {
		for (size_t c = 1; c < size; c++) {
			Var v = parse(data, size, &c, 1);
			if (dump(v) != dw) { fprintf(stderr, "VF-ORACLE: chunks.two-chunk-result-differs cut=%d\n", (int)c); abort(); }
		}
	} else {
		uint64_t h = 1469598103934665603ULL;
		for (size_t i = 0; i < size; i++) h = (h ^ data[i]) * 1099511628211ULL;
		for (int rep = 0; rep < 6; rep++) {
			size_t cuts[8];
			int k = 1 + (int)((h >> (rep * 3)) % 7);
			for (int i = 0; i < k; i++) { h = h * 6364136223846793005ULL + 1442695040888963407ULL; cuts[i] = 1 + (size_t)((h >> 33) % (size - 1)); }
			for (int i = 0; i < k; i++) for (int j = i + 1; j < k; j++) if (cuts[j] < cuts[i]) { size_t t = cuts[i]; cuts[i] = cuts[j]; cuts[j] = t; }
			int m = 0;
			for (int i = 0; i < k; i++) if (m == 0 || cuts[i] != cuts[m - 1]) cuts[m++] = cuts[i];
			Var v = parse(data, size, cuts, m);
			if (dump(v) != dw) { fprintf(stderr, "VF-ORACLE: chunks.k-chunk-result-differs\n"); abort(); }
		}
	}
	return 0;
}
