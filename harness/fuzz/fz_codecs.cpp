// libFuzzer target for C15: Base64 / hex / percent-decoding of arbitrary text stay in bounds, terminate and keep their invariants.
#include <asl/util.h>
#include <asl/Http.h>
#include <asl/Date.h>
#include <asl/String.h>
#include <stdint.h>
#include <stdlib.h>
#include <string.h>
#include <stdio.h>
#include <string>
using namespace asl;

#define ORACLE(msg) do { fprintf(stderr, "VF-ORACLE: %s\n", msg); abort(); } while (0)

extern "C" int LLVMFuzzerTestOneInput(const uint8_t* data, size_t size)
{
	if (size < 1 || memchr(data, 0, size)) return 0;
	int sel = data[0] % 3;
	std::string body((const char*)data + 1, size - 1);
	std::string padded = body.size() < 19 ? std::string(19 - body.size(), ' ') + body : body;
	String s(padded.c_str(), (int)padded.size());
	char* exact = (char*)malloc(body.size() + 1);
	memcpy(exact, body.data(), body.size());
	exact[body.size()] = 0;
	switch (sel) {
	case 0: {
		ByteArray a = decodeBase64(s), b = decodeBase64(exact), c = decodeBase64(exact, (int)body.size());
		if (a.length() < 0 || b.length() < 0 || c.length() < 0) ORACLE("decodeBase64-negative-length");
		if (b.length() != c.length()) ORACLE("decodeBase64-n-vs-terminator");
		String e = encodeBase64(b);
		if (decodeBase64(e) != b) ORACLE("base64-roundtrip");
		break;
	}
	case 1: {
		ByteArray a = decodeHex(s);
		if (a.length() < 0 || a.length() > s.length()) ORACLE("decodeHex-length");
		String h = encodeHex(a.data(), a.length());
		if (decodeHex(h) != a) ORACLE("hex-roundtrip");
		break;
	}
	case 2: {
		String d = Url::decode(s);
		if (d.length() > s.length()) ORACLE("url-decode-longer");
		String e1 = Url::encode(s, true), e2 = Url::encode(s, false);
		if (Url::decode(e1) != s || Url::decode(e2) != s) ORACLE("url-encode-decode-roundtrip");
		Dic<> q = Url::parseQuery(s);
		volatile int n = q.length();
		(void)n;
		break;
	}
	}
	free(exact);
	return 0;
}
