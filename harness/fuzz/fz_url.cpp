// libFuzzer target for C09: Url() parsing, Url::decode and parseQuery of arbitrary text are total and in bounds.
#include <asl/Http.h>
#include <asl/String.h>
#include <stdint.h>
#include <stdlib.h>
#include <string.h>
#include <stdio.h>
#include <string>
using namespace asl;
#define ORACLE(msg) do { fprintf(stderr, "VF-ORACLE: %s\n", msg); abort(); } while (0)
extern "C" int LLVMFuzzerTestOneInput(const uint8_t* data, size_t size)
{
	if (memchr(data, 0, size)) return 0;
	std::string body((const char*)data, size);
	std::string padded = body.size() < 19 ? std::string(19 - body.size(), 'h') + body : body;
	for (int k = 0; k < 2; k++) {
		String s(k ? padded.c_str() : body.c_str(), (int)(k ? padded.size() : body.size()));
		Url u(s);
		if ((int)strlen(*u.host) != u.host.length() || (int)strlen(*u.path) != u.path.length() || (int)strlen(*u.protocol) != u.protocol.length()) ORACLE("url-field-length");
		String uq = u.query();
		if ((int)strlen(*uq) != uq.length() || uq.length() > s.length()) ORACLE("url-query-length");
		Dic<> up = u.params();
		volatile int nup = up.length();
		(void)nup;
		String d = Url::decode(s);
		if (d.length() > s.length()) ORACLE("url-decode-longer");
		Dic<> q = Url::parseQuery(s);
		volatile int n = q.length();
		(void)n;
	}
	return 0;
}
