// libFuzzer target for C07: Xml::decode of arbitrary bytes is total and memory-safe (ASan); whatever tree it returns has
// correct parent links, can be encoded, and its compact encoding decodes again.
#include <asl/Xml.h>
#include <asl/String.h>
#include <stdint.h>
#include <stdlib.h>
#include <string.h>
#include <stdio.h>
#include <string>
#include <vector>
using namespace asl;
#define ORACLE(msg) do { fprintf(stderr, "VF-ORACLE: %s\n", msg); abort(); } while (0)

extern "C" int LLVMFuzzerTestOneInput(const uint8_t* data, size_t size)
{
	if (memchr(data, 0, size)) return 0;
	std::string body((const char*)data, size);
	std::string padded = body.size() < 19 ? std::string(19 - body.size(), ' ') + body : body;
	for (int k = 0; k < 2; k++) {
		String s(k ? padded.c_str() : body.c_str(), (int)(k ? padded.size() : body.size()));
		Xml root = Xml::decode(s);
		if (root.isnull()) continue;
		std::vector<Xml> st;
		st.push_back(root);
		size_t guard = 0;
		while (!st.empty()) {
			Xml e = st.back();
			st.pop_back();
			if (++guard > 1000000) ORACLE("xml-walk-does-not-end");
			if (e.isText()) continue;
			int n = e.numChildren();
			for (int i = 0; i < n; i++) {
				const Xml& c = e.child(i);
				if (c.isnull()) ORACLE("xml-null-child");
				if (!(c.parent() == e)) ORACLE("xml-child-parent-is-not-its-container");
				if (!c.isText()) st.push_back(c);
			}
		}
		if (!root.isText()) {
			String enc = Xml::encode(root, false);
			if ((int)strlen(*enc) != enc.length()) ORACLE("xml-encode-length");
		}
	}
	return 0;
}
