// libFuzzer target for C08 (+ C03 bounds): arbitrary bytes through count/chars/iteration/case mapping/equalsNocase and the
// UTF conversions, on heap Strings that end flush with their allocation; invariants judged in the target.
#include <asl/String.h>
#include <asl/Array.h>
#include <stdint.h>
#include <stdlib.h>
#include <string.h>
#include <stdio.h>
#include <string>
using namespace asl;

#define ORACLE(msg) do { fprintf(stderr, "VF-ORACLE: %s\n", msg); abort(); } while (0)

extern "C" int LLVMFuzzerTestOneInput(const uint8_t* data, size_t size)
{
	if (memchr(data, 0, size)) return 0;
	std::string padded = std::string(19, 'x') + std::string((const char*)data, size);
	String s(padded.c_str(), (int)padded.size());          // exactly len+1 bytes on the heap
	int len = s.length();
	int n = s.count();
	Array<int> ch = s.chars();
	if (n < 0 || n > len) ORACLE("count-out-of-range");
	if (ch.length() > len) ORACLE("chars-longer-than-bytes");
	int it = 0;
	for (int c : s) { (void)c; if (++it > len + 1) ORACLE("iteration-does-not-end"); }
	String up = s.toUpperCase(), lo = s.toLowerCase();
	if (up.length() > len || lo.length() > len) ORACLE("case-map-longer-than-input");
	volatile bool e1 = s.equalsNocase(up), e2 = s.equalsNocase(lo), e3 = up.equalsNocase(lo);
	(void)e1; (void)e2; (void)e3;
	// raw conversions into exact-size output buffers
	{
		char* in = (char*)malloc(size + 1);
		memcpy(in, data, size);
		in[size] = 0;
		int* w32 = (int*)malloc((size + 1) * sizeof(int));
		int k = utf8toUtf32(in, w32, (int)size + 1);
		if (k < 0 || k > (int)size + 1) ORACLE("utf8toUtf32-count");
		wchar_t* w16 = (wchar_t*)malloc((size + 1) * sizeof(wchar_t));
		int k2 = utf8toUtf16(in, w16, (int)size + 1);
		if (k2 < 0 || k2 > (int)size + 1) ORACLE("utf8toUtf16-count");
		free(w16); free(w32); free(in);
	}
	{
		String t = s;
		const wchar_t* w = t.dataw();
		size_t wl = wcslen(w);
		if (wl > (size_t)len) ORACLE("dataw-longer-than-bytes");
	}
	// plain String operations stay in bounds too
	if (size >= 2) {
		String a((const char*)data, (int)size / 2 ? (int)size / 2 : 1);
		volatile int i1 = s.indexOf(a), i2 = s.lastIndexOf(*a);
		(void)i1; (void)i2;
		Array<String> parts = s.split(a);
		if (a.length() && s.split(a).join(a) != s) ORACLE("split-join-not-identity");
		String r = s.replace(a, "yy");
		if ((int)strlen(*r) != r.length()) ORACLE("replace-length");
	}
	return 0;
}
