// C17: File / TextFile return exactly the bytes, text and lines that were written; BOM text files come
// back as the same text in UTF-8; Directory/File copy and move preserve content byte for byte.
//
// Oracle: a byte-string model of what one path holds under put/write/append/<</close/reopen through
// fresh File/TextFile objects (modes bin, lines, hist, bom, copy, big) or through ONE long-lived object (mode sameobj);
// copies/moves also from several threads at once on distinct files (mode copy_mt, beyond the stated quantifier);
// the bytes on disk are read with plain open()/read(); a reference line
// splitter (split at LF, remove one CR before each LF); reference UTF-8 / UTF-16LE / UTF-16BE encoders.
// All scratch files live in <out>/fs, have per-case names and are removed when the case ends.
#include "common/runner.h"
#include <algorithm>
#include <math.h>
#include <sched.h>
#include <signal.h>
#include <ftw.h>
#include <sys/resource.h>
#include <atomic>
#include <thread>
#include <asl/File.h>
#include <asl/TextFile.h>
#include <asl/Directory.h>

using namespace asl;
typedef std::string Bytes;

static std::string g_dir;

// ------------------------------------------------------------------ scratch + plain POSIX access
struct Scratch
{
	std::string base;
	std::vector<std::string> files, dirs;
	Scratch(vf::Ctx& c) { base = g_dir + "/" + c.opt->mode + "_" + std::to_string((unsigned long long)c.idx) + "_"; }
	std::string file(const std::string& tag)
	{
		std::string p = base + tag;
		files.push_back(p);
		unlink(p.c_str());
		return p;
	}
	std::string dir(const std::string& tag)
	{
		std::string p = base + tag;
		mkdir(p.c_str(), 0777);
		dirs.push_back(p);
		return p;
	}
	void also(const std::string& p) { files.push_back(p); }
	~Scratch()
	{
		for (size_t i = 0; i < files.size(); i++) unlink(files[i].c_str());
		for (size_t i = dirs.size(); i > 0; i--) rmdir(dirs[i - 1].c_str());
	}
};

static bool posix_read(const std::string& path, Bytes& out)
{
	out.clear();
	int fd = open(path.c_str(), O_RDONLY);
	if (fd < 0) return false;
	struct stat st;
	if (fstat(fd, &st) == 0 && st.st_size > 0) out.reserve((size_t)st.st_size);
	char buf[65536];
	for (;;) {
		ssize_t n = read(fd, buf, sizeof buf);
		if (n < 0 && errno == EINTR) continue;
		if (n <= 0) break;
		out.append(buf, (size_t)n);
	}
	close(fd);
	return true;
}

static bool posix_write(const std::string& path, const Bytes& b)
{
	int fd = open(path.c_str(), O_WRONLY | O_CREAT | O_TRUNC, 0666);
	if (fd < 0) return false;
	size_t off = 0;
	while (off < b.size()) {
		ssize_t n = write(fd, b.data() + off, b.size() - off);
		if (n < 0 && errno == EINTR) continue;
		if (n <= 0) { close(fd); return false; }
		off += (size_t)n;
	}
	close(fd);
	return true;
}

static bool posix_exists(const std::string& path)
{
	struct stat st;
	return stat(path.c_str(), &st) == 0;
}

// ------------------------------------------------------------------ conversions + comparison
static String S(const Bytes& b) { return String(b.data(), (int)b.size()); }   // NUL-free text only
static ByteArray BA(const Bytes& b) { return ByteArray((const byte*)b.data(), (int)b.size()); }
static Bytes bytes_of(const ByteArray& a) { return a.length() ? Bytes((const char*)&a[0], (size_t)a.length()) : Bytes(); }
static Bytes bytes_of(const String& s) { return Bytes(*s, (size_t)s.length()); }

static std::string differ(const Bytes& got, const Bytes& want)
{
	size_t i = 0, m = got.size() < want.size() ? got.size() : want.size();
	while (i < m && got[i] == want[i]) i++;
	size_t a = i > 8 ? i - 8 : 0;
	return vf::fmt("got %zu bytes, want %zu; first difference at offset %zu (got '%s' want '%s')", got.size(), want.size(), i,
	               vf::vis(got.substr(a, 24)).c_str(), vf::vis(want.substr(a, 24)).c_str());
}

static void same(vf::Ctx& c, const char* key, const Bytes& got, const Bytes& want)
{
	if (got != want) c.fail(key, differ(got, want));
}

// a String result: its length() must agree with its terminator, and its bytes with the model
static void same_str(vf::Ctx& c, const char* key, const String& got, const Bytes& want)
{
	if ((size_t)got.length() != strlen(*got)) c.fail(std::string(key) + ".length-vs-terminator", vf::fmt("length()=%d strlen=%zu", got.length(), strlen(*got)));
	same(c, key, bytes_of(got), want);
}

// ------------------------------------------------------------------ sizes and contents
static const int BND[] = {0,     1,     2,     253,   254,   255,   256,   257,    507,    508,    509,    510,    511,    512,   761,
                          762,   763,   764,   765,   766,   1016,  1019,  1020,   1021,   4095,   4096,   4097,   8191,   8192,  8193,
                          65279, 65280, 65281, 65534, 65535, 65536, 65537, 131071, 131072, 131073, 196607, 196608, 196609, 199999, 200000};
static const int NBND = sizeof(BND) / sizeof(BND[0]);

// dense enumeration used by the first indices of a mode: every size 0..1100, and every size in windows
// around 65536, 131072 and the 200000 upper bound
static long dense_size(uint64_t idx)
{
	if (idx <= 1100) return (long)idx;
	idx -= 1101;
	if (idx <= 80) return 65496 + (long)idx;      // 65496..65576
	idx -= 81;
	if (idx <= 60) return 131042 + (long)idx;     // 131042..131102
	idx -= 61;
	if (idx <= 10) return 199990 + (long)idx;     // 199990..200000
	return -1;
}

static size_t random_size(vf::Ctx& c, size_t maxn)
{
	int k = c.rng.below(10);
	size_t n;
	if (k < 3) n = (size_t)BND[c.rng.below(NBND)];
	else if (k < 5) {
		static const int base[] = {254, 255, 256, 510, 65536, 131072};
		n = (size_t)base[c.rng.below(6)] * (size_t)c.rng.range(1, 3) + (size_t)c.rng.range(0, 6) - 3;
	} else if (k < 8) n = c.rng.below(1300);
	else {
		double u = c.rng.unit();
		n = (size_t)exp(u * log((double)maxn + 1.0));
	}
	return n > maxn ? maxn : n;
}

static void count_size(vf::Ctx& c, size_t n)
{
	if (n == 0) c.count("size.0");
	else if (n < 254) c.count("size.1-253");
	else if (n <= 256) c.count("size.254-256");
	else if (n < 65535) c.count("size.257-65534");
	else if (n <= 65537) c.count("size.65535-65537");
	else if (n <= 200000) c.count("size.65538-200000");
	else if (n <= (1u << 20)) c.count("size.200001-1MiB");
	else c.count("size.over-1MiB");
	if (n && n % 65536 == 0) c.count("size.multiple-of-65536-copy-block");
	if (n && (n % 254 == 0 || n % 255 == 0)) c.count("size.multiple-of-254-or-255");
}

static Bytes binary_content(vf::Ctx& c, size_t n)
{
	Bytes b(n, '\0');
	int style = n > 300000 ? 0 : (int)c.rng.below(5);
	switch (style) {
	case 0: {  // uniform random (8 bytes per draw)
		size_t i = 0;
		while (i + 8 <= n) { uint64_t r = c.rng.next(); memcpy(&b[i], &r, 8); i += 8; }
		for (; i < n; i++) b[i] = (char)c.rng.below(256);
		break;
	}
	case 1: {  // heavy in the bytes that text layers would treat specially
		static const unsigned char sp[] = {0, 0, '\r', '\n', '\r', '\n', 0xff, 0xfe, 0xef, 0xbb, 0xbf, 0x1a, 'a', ' '};
		for (size_t i = 0; i < n; i++) b[i] = (char)sp[c.rng.below(sizeof sp)];
		break;
	}
	case 2: break;  // all NUL
	case 3: {  // text-like with CRLF and embedded NULs
		for (size_t i = 0; i < n; i++) {
			int r = c.rng.below(40);
			b[i] = r == 0 ? '\n' : r == 1 ? '\r' : r == 2 ? '\0' : (char)c.rng.range(32, 126);
		}
		break;
	}
	default: {  // runs
		size_t i = 0;
		while (i < n) {
			size_t run = 1 + c.rng.below(300);
			char v = (char)c.rng.below(256);
			for (size_t k = 0; k < run && i < n; k++) b[i++] = v;
		}
	}
	}
	c.count(style == 0 ? "content.random" : style == 1 ? "content.special-heavy" : style == 2 ? "content.all-NUL" : style == 3 ? "content.textlike+NUL" : "content.runs");
	return b;
}

// cut [0,n) into 1..k pieces
static std::vector<size_t> cuts(vf::Ctx& c, size_t n, int maxpieces)
{
	std::vector<size_t> v;
	int k = c.rng.range(1, maxpieces);
	v.push_back(0);
	for (int i = 1; i < k; i++) v.push_back(n ? c.rng.below((uint32_t)n + 1) : 0);
	v.push_back(n);
	std::sort(v.begin(), v.end());
	return v;
}

// ------------------------------------------------------------------ API read-back of a binary model through fresh objects
static void check_disk(vf::Ctx& c, const std::string& path, const Bytes& model)
{
	Bytes disk;
	if (!posix_read(path, disk)) c.fail("disk.missing", "the file cannot be opened with open()");
	same(c, "disk.bytes", disk, model);
}

static void check_size(vf::Ctx& c, const std::string& path, const Bytes& model)
{
	Long sz = File(S(path)).size();
	if (sz != (Long)model.size()) c.fail("size", vf::fmt("size()=%lld, %zu bytes were written", (long long)sz, model.size()));
	c.count("readback.size");
}

static void check_content(vf::Ctx& c, const std::string& path, const Bytes& model)
{
	ByteArray a = File(S(path)).content();
	same(c, "content", bytes_of(a), model);
	c.count("readback.content");
}

static void check_firstbytes(vf::Ctx& c, const std::string& path, const Bytes& model, int howmany)
{
	size_t n = model.size();
	for (int i = 0; i < howmany; i++) {
		size_t k;
		switch (c.rng.below(8)) {
		case 0: k = 0; break;
		case 1: k = 1; break;
		case 2: k = n ? n - 1 : 0; break;
		case 3: k = n; break;
		case 4: k = n + 1; break;
		case 5: k = c.rng.chance(0.15) ? n + ((size_t)c.rng.range(1, 5) << 20) + c.rng.below(3) : n + 70000; break;   // sometimes megabytes more than the file holds
		case 6: k = (size_t)BND[c.rng.below(NBND)]; break;
		default: k = c.rng.below((uint32_t)n + 2);
		}
		ByteArray a = File(S(path)).firstBytes((int)k);
		same(c, k <= n ? "firstBytes.within" : "firstBytes.beyond-end", bytes_of(a), model.substr(0, k < n ? k : n));
		c.count(k <= n ? "readback.firstBytes.within" : "readback.firstBytes.beyond-end");
		if (k > n + (1u << 20)) c.count("readback.firstBytes.request-exceeds-the-file-by-more-than-1MiB");
	}
}

static void check_read(vf::Ctx& c, const std::string& path, const Bytes& model)
{
	size_t n = model.size();
	File f(S(path), File::READ);
	if (!f) c.fail("open.read", "File(path, READ) did not open an existing file");
	Bytes got;
	got.reserve(n);
	size_t minchunk = n / 40 + 1;
	int style = c.rng.below(4);
	for (int guard = 0; guard < 100000; guard++) {
		size_t k;
		switch (style) {
		case 0: k = 1 + c.rng.below(300); break;
		case 1: k = c.rng.chance(0.5) ? 255 : 65536; break;
		case 2: k = (size_t)BND[1 + c.rng.below(NBND - 1)]; break;
		default: k = 1 + c.rng.below(100000);
		}
		if (k < minchunk) k = minchunk;
		char* buf = (char*)malloc(k);   // exact size: an over-long read is an ASan report
		int r = f.read(buf, (int)k);
		if (r < 0 || (size_t)r > k) { free(buf); c.fail("read.count", vf::fmt("read(p,%zu) returned %d", k, r)); }
		got.append(buf, (size_t)r);
		free(buf);
		if ((size_t)r < k) break;
		if (got.size() > n + 10) break;
	}
	same(c, "read.sequence", got, model);
	if (!f.end()) c.fail("read.end-after-short-read", "end() is false after a read that returned fewer bytes than asked");
	char t[8];
	int r = f.read(t, 8);
	if (r != 0) c.fail("read.at-end", vf::fmt("read at the end of the file returned %d", r));
	c.count("readback.read-sequence");
	// typed read() of the first bytes
	if (n >= 5 && c.rng.chance(0.3)) {
		File g(S(path), File::READ);
		byte b0 = g.read<byte>();
		int i1 = g.read<int>();
		int want;
		memcpy(&want, model.data() + 1, 4);
		if (b0 != (byte)model[0] || i1 != want) c.fail("read.typed", vf::fmt("read<byte>()=%d read<int>()=%d, file starts with %s", b0, i1, vf::hex(model.data(), 5).c_str()));
		c.count("readback.read<T>");
	}
}

static void check_binary(vf::Ctx& c, const std::string& path, const Bytes& model, bool all)
{
	check_disk(c, path, model);
	check_size(c, path, model);
	if (all || c.rng.chance(0.6)) check_content(c, path, model);
	if (all || c.rng.chance(0.4)) check_firstbytes(c, path, model, all ? 3 : 1);
	if (all || c.rng.chance(0.4)) check_read(c, path, model);
}

static bool starts_with_bom(const Bytes& t)
{
	if (t.size() >= 2 && (unsigned char)t[0] == 0xff && (unsigned char)t[1] == 0xfe) return true;
	if (t.size() >= 2 && (unsigned char)t[0] == 0xfe && (unsigned char)t[1] == 0xff) return true;
	if (t.size() >= 3 && (unsigned char)t[0] == 0xef && (unsigned char)t[1] == 0xbb && (unsigned char)t[2] == 0xbf) return true;
	return false;
}

static void check_text(vf::Ctx& c, const std::string& path, const Bytes& model)
{
	String t = TextFile(S(path)).text();
	same_str(c, "text", t, model);
	c.count("readback.text");
}

// ------------------------------------------------------------------ mode bin: one binary content, one way of writing, every way of reading
static void write_binary(vf::Ctx& c, const std::string& path, const Bytes& data, std::string& how)
{
	String p = S(path);
	size_t n = data.size();
	int method = c.rng.below(6);
	switch (method) {
	case 0: {
		how = "File(path).put(bytes)";
		c.op(how);
		bool ok = File(p).put(BA(data));
		if (!ok) c.fail("put.returned-false", "put() returned false on a writable path");
		c.count("op.put");
		break;
	}
	case 1: {
		std::vector<size_t> v = cuts(c, n, 5);
		how = vf::fmt("File f(path,WRITE); %zu x write(p,n)", v.size() - 1);
		c.op(how);
		File f(p, File::WRITE);
		if (!f) c.fail("open.write", "File(path, WRITE) did not open");
		for (size_t i = 0; i + 1 < v.size(); i++) {
			size_t len = v[i + 1] - v[i];
			char* buf = (char*)malloc(len ? len : 1);
			memcpy(buf, data.data() + v[i], len);
			int w = f.write(buf, (int)len);
			free(buf);
			if (w != (int)len) c.fail("write.count", vf::fmt("write(p,%zu) returned %d", len, w));
			c.count("op.write");
		}
		if (c.rng.chance(0.5)) { f.close(); c.count("op.close"); } else c.count("op.close-by-destructor");
		break;
	}
	case 2: {
		std::vector<size_t> v = cuts(c, n, 5);
		how = vf::fmt("File f(path,WRITE); %zu x f << ByteArray", v.size() - 1);
		c.op(how);
		File f(p, File::WRITE);
		if (!f) c.fail("open.write", "File(path, WRITE) did not open");
		for (size_t i = 0; i + 1 < v.size(); i++) {
			f << BA(data.substr(v[i], v[i + 1] - v[i]));
			c.count("op.<<ByteArray");
		}
		if (c.rng.chance(0.5)) { f.close(); c.count("op.close"); } else c.count("op.close-by-destructor");
		break;
	}
	case 3: {
		how = "File f(path); f.open(WRITE); mixed write / << ByteArray / << int / << double (native order)";
		c.op(how);
		File f(p);
		if (!f.open(File::WRITE)) c.fail("open.write", "open(WRITE) returned false");
		size_t off = 0;
		while (off < n) {
			size_t left = n - off;
			int k = c.rng.below(4);
			if (k == 0 && left >= 4) { int x; memcpy(&x, data.data() + off, 4); f << x; off += 4; c.count("op.<<int"); }
			else if (k == 1 && left >= 8) {
				// bit patterns of NaNs may not survive a copy through a double register; only use it for non-NaN patterns
				double x; memcpy(&x, data.data() + off, 8);
				if (x == x) { f << x; off += 8; c.count("op.<<double"); }
				else { f.write(data.data() + off, 8); off += 8; c.count("op.write"); }
			}
			else if (k == 2) { size_t len = 1 + c.rng.below((uint32_t)(left < 70000 ? left : 70000)); f << BA(data.substr(off, len)); off += len; c.count("op.<<ByteArray"); }
			else { size_t len = 1 + c.rng.below((uint32_t)(left < 70000 ? left : 70000)); f.write(data.data() + off, (int)len); off += len; c.count("op.write"); }
		}
		c.count("op.close-by-destructor");
		break;
	}
	case 4: {
		size_t cut = n ? c.rng.below((uint32_t)n + 1) : 0;
		how = vf::fmt("File(path,WRITE) first %zu bytes, closed; File(path,APPEND) the other %zu", cut, n - cut);
		c.op(how);
		{
			File f(p, File::WRITE);
			if (!f) c.fail("open.write", "File(path, WRITE) did not open");
			f.write(data.data(), (int)cut);
			c.count("op.write");
		}
		{
			File g(p, File::APPEND);
			if (!g) c.fail("open.append", "File(path, APPEND) did not open");
			std::vector<size_t> v = cuts(c, n - cut, 3);
			for (size_t i = 0; i + 1 < v.size(); i++) {
				g.write(data.data() + cut + v[i], (int)(v[i + 1] - v[i]));
				c.count("op.write");
			}
			if (c.rng.chance(0.5)) { g.close(); c.count("op.close"); }
		}
		c.count("op.reopen.APPEND");
		break;
	}
	default: {
		how = "old longer content, then File(path).put(bytes) must replace it";
		c.op(how);
		Bytes old(n + 1 + c.rng.below(500), 'o');
		posix_write(path, old);
		bool ok = File(p).put(BA(data));
		if (!ok) c.fail("put.returned-false", "put() returned false on a writable path");
		c.count("op.put-over-existing");
	}
	}
}

static void mode_bin(vf::Ctx& c)
{
	size_t maxn = (size_t)c.opt->param("maxsize", 200000);
	long d = dense_size(c.idx);
	size_t n = d >= 0 ? (size_t)d : random_size(c, maxn);
	c.count(d >= 0 ? "sizes.from-dense-enumeration" : "sizes.random");
	count_size(c, n);
	Scratch sc(c);
	std::string path = sc.file("b.bin");
	// one case in eight reaches the file through a symbolic link (relative target in the same directory)
	bool viaLink = c.idx % 8 == 5;
	if (viaLink) {
		std::string target = sc.file("payload.bin");
		std::string rel = target.substr(target.rfind('/') + 1);
		if (symlink(rel.c_str(), path.c_str()) != 0) viaLink = false;
		else c.count("bin.path-is-a-symbolic-link");
	}
	// one case in sixteen runs with stdin closed, so that the file gets descriptor number 0
	bool lowFd = c.idx % 16 == 9;
	int savedStdin = -1;
	if (lowFd) { savedStdin = dup(0); close(0); c.count("bin.cases_with_descriptor_0_free"); }
	c.desc(vf::fmt("binary file of %zu bytes%s%s", n, viaLink ? " written and read through a symbolic link" : "", lowFd ? ", process running with stdin closed" : ""));
	Bytes data = binary_content(c, n);
	std::string how;
	write_binary(c, path, data, how);
	check_binary(c, path, data, true);
	if (lowFd && savedStdin >= 0) { dup2(savedStdin, 0); close(savedStdin); }
	// an existing file reopened for reading and writing: four bytes written at a position land there and nowhere else
	if (n >= 4 && c.rng.chance(0.15)) {
		size_t pos = c.rng.below((uint32_t)(n - 3));
		c.op(vf::fmt("open(RW); seek(%zu); write 4 bytes", pos));
		{
			File f(S(path), File::RW);
			if (f) { f.seek((Long)pos); f.write("\x11\x22\x33\x44", 4); }
		}
		Bytes want = data, now;
		want[pos] = 0x11; want[pos + 1] = 0x22; want[pos + 2] = 0x33; want[pos + 3] = 0x44;
		if (!posix_read(path, now)) c.fail("rw.file-lost", "");
		else same(c, "rw.overwrite-in-place", now, want);
		check_size(c, path, want);
		c.count("bin.rw_overwrites");
	}
	// the same array streamed twice through a big-endian File: both copies are big-endian and the caller's array is unchanged
	if (c.rng.chance(0.1)) {
		std::string p2 = sc.file("arr.bin");
		int m = c.rng.range(1, 300);
		Array<int> a(m);
		Bytes want;
		for (int i = 0; i < m; i++) { unsigned v = (unsigned)c.rng.next(); a[i] = (int)v; }
		for (int rep = 0; rep < 2; rep++) for (int i = 0; i < m; i++) { unsigned v = (unsigned)a[i]; want += (char)(v >> 24); want += (char)(v >> 16); want += (char)(v >> 8); want += (char)v; }
		c.op(vf::fmt("File(WRITE, big-endian) << Array<int>[%d] << the same array", m));
		{
			File f(S(p2), File::WRITE);
			f.setEndian(ENDIAN_BIG);
			f << a << a;
		}
		Bytes now;
		if (!posix_read(p2, now)) c.fail("stream.file-lost", "");
		else same(c, "stream.array-twice", now, want);
		c.count("bin.big_endian_array_streamed_twice");
	}
	c.distinct(vf::mix(vf::fnv(data), vf::fnv(how)));
	if (c.want_sample() && c.idx % 97 == 3) c.sample(vf::fmt("%zu bytes (%s...) via %s; read back with open/read, size(), content(), firstBytes(k), read()", n, vf::hex(data.data(), n < 12 ? n : 12).c_str(), how.c_str()));
}

// ------------------------------------------------------------------ texts and the reference line splitter
static int pick_linelen(vf::Ctx& c)
{
	static const int L[] = {0,   1,   2,   252, 253,  254,  255,  256,  506,  507,  508,  509,  510,  511,  760,  761,  762, 763,
	                        764, 765, 766, 1014, 1015, 1016, 1017, 1019, 1020, 1021, 1270, 1275, 1524, 1530, 1778, 1785, 1999, 2000};
	int k = c.rng.below(10);
	if (k < 4) return L[c.rng.below(sizeof(L) / sizeof(L[0]))];
	if (k < 5) return 254 * c.rng.range(1, 7) + c.rng.range(-2, 2);
	if (k < 6) return 255 * c.rng.range(1, 7) + c.rng.range(-2, 2);
	if (k < 8) return c.rng.below(40);
	return c.rng.below(2001);
}

struct TextStats { int lf, crlf, lonecr, cr_at_chunk_end, lines, final_nl, maxlen, mult254, mult255, over254; };

// NUL-free text made of lines; never starts with a byte-order mark
static Bytes gen_text(vf::Ctx& c, TextStats& st, int maxlines, bool shortlines)
{
	memset(&st, 0, sizeof st);
	Bytes t;
	int nlines = c.rng.chance(0.08) ? 0 : c.rng.range(1, maxlines);
	int endstyle = c.rng.below(3);   // 0 LF, 1 CRLF, 2 mixed
	bool high = c.rng.chance(0.3), lonecr = c.rng.chance(0.4);
	for (int i = 0; i < nlines; i++) {
		int len = shortlines ? (int)c.rng.below(30) : pick_linelen(c);
		if (len < 0) len = 0;
		if (len > 2000) len = 2000;
		Bytes line((size_t)len, 'x');
		for (int k = 0; k < len; k++) {
			int r = c.rng.below(100);
			line[k] = r < 85 ? (char)c.rng.range(32, 126) : r < 90 ? '\t' : (high && r < 96) ? (char)c.rng.range(128, 255) : (char)c.rng.range(33, 126);
		}
		if (lonecr && len) {
			int m = c.rng.below(3);
			for (int k = 0; k < m; k++) { line[c.rng.below(len)] = '\r'; st.lonecr++; }
			// a CR exactly where a 255-byte fgets chunk (254 characters) ends
			if (c.rng.chance(0.5)) for (int p = 253; p < len; p += 254) if (c.rng.chance(0.7)) { line[p] = '\r'; st.cr_at_chunk_end++; st.lonecr++; }
			if (c.rng.chance(0.2)) { line[len - 1] = '\r'; st.lonecr++; }
		}
		bool last = i == nlines - 1;
		bool crlf = endstyle == 1 || (endstyle == 2 && c.rng.chance(0.5));
		bool term = !last || c.rng.chance(0.5);
		t += line;
		if (term) {
			if (crlf) {
				t += "\r\n";
				st.crlf++;
				if (len % 254 == 253) st.cr_at_chunk_end++;   // the CR of the CRLF is the last character of a chunk
			} else { t += "\n"; st.lf++; }
		}
		if (last) st.final_nl = term;
		st.lines++;
		if (len > st.maxlen) st.maxlen = len;
		if (len && len % 254 == 0) st.mult254++;
		if (len && len % 255 == 0) st.mult255++;
		if (len > 254) st.over254++;
	}
	if (starts_with_bom(t)) t[0] = 'x';
	return t;
}

static void count_text(vf::Ctx& c, const TextStats& st)
{
	if (st.lf) c.count("lineend.LF", st.lf);
	if (st.crlf) c.count("lineend.CRLF", st.crlf);
	if (st.lonecr) c.count("lineend.lone-CR-in-line", st.lonecr);
	if (st.cr_at_chunk_end) c.count("lineend.CR-is-last-char-of-a-255-chunk", st.cr_at_chunk_end);
	c.count(st.lines == 0 ? "text.empty" : st.final_nl ? "text.with-final-newline" : "text.without-final-newline");
	if (st.mult254) c.count("linelen.multiple-of-254", st.mult254);
	if (st.mult255) c.count("linelen.multiple-of-255", st.mult255);
	if (st.over254) c.count("linelen.over-254(more-than-one-chunk)", st.over254);
	c.count("lines.generated", st.lines);
}

// the property's definition: split at LF, remove one CR before each LF
static std::vector<Bytes> ref_split(const Bytes& t)
{
	std::vector<Bytes> v;
	size_t a = 0;
	for (;;) {
		size_t p = t.find('\n', a);
		if (p == Bytes::npos) { v.push_back(t.substr(a)); break; }
		size_t e = p;
		if (e > a && t[e - 1] == '\r') e--;
		v.push_back(t.substr(a, e - a));
		a = p + 1;
	}
	return v;
}

// got vs reference; a final empty piece (text empty or ending in LF) may be kept or dropped: both conventions are accepted
static void compare_lines(vf::Ctx& c, const char* what, const std::vector<Bytes>& got, const std::vector<Bytes>& ref)
{
	std::string k(what);
	bool tail_empty = ref.back().empty();
	size_t want = ref.size();
	if (got.size() == ref.size()) { if (tail_empty) c.count((k + ".final-empty-piece-kept").c_str()); }
	else if (tail_empty && got.size() + 1 == ref.size()) { want = got.size(); c.count((k + ".final-empty-piece-dropped").c_str()); }
	else c.fail(k + ".count", vf::fmt("%zu lines returned, the reference split has %zu%s", got.size(), ref.size(), tail_empty ? " (last one empty)" : ""));
	for (size_t i = 0; i < want; i++)
		if (got[i] != ref[i]) {
			bool last = i + 1 == ref.size() || (tail_empty && i + 2 == ref.size());
			c.fail(k + (last ? ".last-line" : ".line"), vf::fmt("line %zu of %zu: %s", i, ref.size(), differ(got[i], ref[i]).c_str()));
		}
}

static void check_lines(vf::Ctx& c, const std::string& path, const Bytes& text)
{
	std::vector<Bytes> ref = ref_split(text);
	String p = S(path);
	{
		Array<String> L = TextFile(p).lines();
		std::vector<Bytes> got;
		for (int i = 0; i < L.length(); i++) {
			if ((size_t)L[i].length() != strlen(*L[i])) c.fail("lines.length-vs-terminator", vf::fmt("line %d: length()=%d strlen=%zu", i, L[i].length(), strlen(*L[i])));
			got.push_back(bytes_of(L[i]));
		}
		compare_lines(c, "lines", got, ref);
		c.count("readback.lines()");
	}
	int idiom = c.rng.below(3);
	std::vector<Bytes> got;
	size_t limit = ref.size() + 4;
	if (idiom == 0) {   // the documented loop
		TextFile f(p, File::READ);
		if (!f) c.fail("open.read", "TextFile(path, READ) did not open");
		while (!f.end()) {
			String line = f.readLine();
			if ((size_t)line.length() != strlen(*line)) c.fail("readLine.length-vs-terminator", vf::fmt("length()=%d strlen=%zu", line.length(), strlen(*line)));
			got.push_back(bytes_of(line));
			if (got.size() > limit) c.fail("readLine.loop-does-not-end", "while(!end()) readLine() produced more lines than the text has");
		}
		c.count("readback.readLine()-loop");
	} else if (idiom == 1) {   // same with one reused String
		TextFile f(p, File::READ);
		if (!f) c.fail("open.read", "TextFile(path, READ) did not open");
		String line;
		while (!f.end()) {
			f.readLine(line);
			if ((size_t)line.length() != strlen(*line)) c.fail("readLine.length-vs-terminator", vf::fmt("length()=%d strlen=%zu", line.length(), strlen(*line)));
			got.push_back(bytes_of(line));
			if (got.size() > limit) c.fail("readLine.loop-does-not-end", "while(!end()) readLine(s) produced more lines than the text has");
		}
		c.count("readback.readLine(String&)-loop");
	} else {   // object not opened explicitly: end() opens it
		TextFile f(p);
		while (!f.end()) {
			String line = f.readLine();
			got.push_back(bytes_of(line));
			if (got.size() > limit) c.fail("readLine.loop-does-not-end", "while(!end()) readLine() produced more lines than the text has");
		}
		c.count("readback.readLine()-loop-unopened-object");
	}
	compare_lines(c, "readLine", got, ref);
}

static void write_text(vf::Ctx& c, const std::string& path, const Bytes& text, std::string& how)
{
	String p = S(path);
	int method = c.rng.below(7);
	switch (method) {
	case 0: {
		how = "TextFile(path).write(text)";
		c.op(how);
		if (!TextFile(p).write(S(text))) c.fail("write.returned-false", "TextFile::write returned false");
		c.count("op.TextFile.write");
		break;
	}
	case 1: {
		how = "TextFile(path).put(text)";
		c.op(how);
		if (!TextFile(p).put(S(text))) c.fail("put.returned-false", "TextFile::put returned false");
		c.count("op.TextFile.put");
		break;
	}
	case 2: {
		how = "TextFile(path).append(text) on a new path";
		c.op(how);
		if (!TextFile(p).append(S(text))) c.fail("append.returned-false", "TextFile::append returned false");
		c.count("op.TextFile.append");
		break;
	}
	case 3: {
		std::vector<size_t> v = cuts(c, text.size(), 6);
		how = vf::fmt("TextFile f(path,WRITE); %zu pieces with << String / << const char* / write / append", v.size() - 1);
		c.op(how);
		TextFile f(p, File::WRITE);
		if (!f) c.fail("open.write", "TextFile(path, WRITE) did not open");
		for (size_t i = 0; i + 1 < v.size(); i++) {
			Bytes piece = text.substr(v[i], v[i + 1] - v[i]);
			switch (c.rng.below(4)) {
			case 0: f << S(piece); c.count("op.TextFile<<String"); break;
			case 1: f << piece.c_str(); c.count("op.TextFile<<cstr"); break;
			case 2: f.write(S(piece)); c.count("op.TextFile.write"); break;
			default: f.append(S(piece)); c.count("op.TextFile.append");
			}
		}
		if (c.rng.chance(0.5)) { f.close(); c.count("op.close"); } else c.count("op.close-by-destructor");
		break;
	}
	case 4: {
		how = "TextFile f(path,WRITE); line by line: f << line << '\\n' (or \"\\r\\n\")";
		c.op(how);
		TextFile f(p, File::WRITE);
		if (!f) c.fail("open.write", "TextFile(path, WRITE) did not open");
		size_t a = 0;
		while (a < text.size()) {
			size_t q = text.find('\n', a);
			if (q == Bytes::npos) { f << S(text.substr(a)); break; }
			bool cr = q > a && text[q - 1] == '\r';
			f << S(text.substr(a, q - a - (cr ? 1 : 0)));
			if (cr) f << "\r\n"; else f << '\n';
			c.count("op.TextFile<<line<<newline");
			a = q + 1;
		}
		break;
	}
	case 5: {
		size_t cut = text.size() ? c.rng.below((uint32_t)text.size() + 1) : 0;
		how = vf::fmt("TextFile(path).write(first %zu); TextFile(path).append(rest)", cut);
		c.op(how);
		if (!TextFile(p).write(S(text.substr(0, cut)))) c.fail("write.returned-false", "TextFile::write returned false");
		if (!TextFile(p).append(S(text.substr(cut)))) c.fail("append.returned-false", "TextFile::append returned false");
		c.count("op.TextFile.write");
		c.count("op.TextFile.append");
		c.count("op.reopen.APPEND");
		break;
	}
	default: {
		how = "written with plain open/write";
		c.op(how);
		posix_write(path, text);
		c.count("op.posix-write");
	}
	}
}

static void mode_lines(vf::Ctx& c)
{
	Scratch sc(c);
	std::string path = sc.file("t.txt");
	if (c.idx % 16 == 11) {   // the text file is reached through a symbolic link
		std::string target = sc.file("t-target.txt");
		std::string rel = target.substr(target.rfind('/') + 1);
		if (symlink(rel.c_str(), path.c_str()) == 0) c.count("lines.path-is-a-symbolic-link");
	}
	TextStats st;
	bool many = c.rng.chance(0.15);
	Bytes text = gen_text(c, st, many ? 60 : 5, many);
	// every length 0..2000 of a single line, with the four endings, is enumerated by the even indices below 16008
	if (c.idx % 2 == 0 && c.idx / 2 < 8004) {
		int len = (int)(c.idx / 8), e = (int)(c.idx / 2 % 4);
		memset(&st, 0, sizeof st);
		text.assign((size_t)len, 'x');
		for (int k = 0; k < len; k++) text[k] = (char)c.rng.range(33, 126);
		if (e == 1) { text += "\n"; st.lf = 1; }
		if (e == 2) { text += "\r\n"; st.crlf = 1; if (len % 254 == 253) st.cr_at_chunk_end = 1; }
		if (e == 3) { text += "\ntail"; st.lf = 1; }
		st.lines = e == 3 ? 2 : 1;
		st.final_nl = e == 1 || e == 2;
		st.maxlen = len;
		st.mult254 = len && len % 254 == 0;
		st.mult255 = len && len % 255 == 0;
		st.over254 = len > 254;
		c.count("lines.single-line-length-enumerated");
	}
	count_text(c, st);
	c.desc(vf::fmt("text of %zu bytes, %d lines, longest %d, final newline %d: '%s'", text.size(), st.lines, st.maxlen, st.final_nl, vf::vis(text, 120).c_str()));
	std::string how;
	write_text(c, path, text, how);
	check_disk(c, path, text);
	check_size(c, path, text);
	check_text(c, path, text);
	check_lines(c, path, text);
	if (c.rng.chance(0.3)) { check_content(c, path, text); check_firstbytes(c, path, text, 1); }
	c.distinct(vf::mix(vf::fnv(text), vf::fnv(how)));
	if (c.want_sample() && c.idx % 211 == 7) c.sample(c.curdesc().substr(0, 400) + "; checked text(), lines(), readLine loop, size(), disk bytes");
}

// ------------------------------------------------------------------ mode hist: histories of write/append/reopen on one path
static Bytes small_text(vf::Ctx& c)
{
	TextStats st;
	if (c.rng.chance(0.2)) {
		Bytes t = gen_text(c, st, 3, false);
		if (t.size() > 3000) t.resize(3000);
		return t;
	}
	Bytes t = gen_text(c, st, 4, true);
	return t;
}

static Bytes small_bin(vf::Ctx& c)
{
	size_t n = c.rng.chance(0.1) ? (size_t)BND[c.rng.below(37)] : c.rng.below(600);
	Bytes b(n, '\0');
	for (size_t i = 0; i < n; i++) { int r = c.rng.below(12); b[i] = r == 0 ? '\0' : r == 1 ? '\n' : r == 2 ? '\r' : (char)c.rng.below(256); }
	return b;
}

// k text operations on an open TextFile; returns what they appended
static Bytes text_ops(vf::Ctx& c, TextFile& f, int k)
{
	Bytes all;
	for (int i = 0; i < k; i++) {
		Bytes t = small_text(c);
		switch (c.rng.below(7)) {
		case 0: c.op("write"); if (!f.write(S(t))) c.fail("write.returned-false", "TextFile::write on an open file returned false"); all += t; c.count("op.TextFile.write"); break;
		case 1: c.op("append"); if (!f.append(S(t))) c.fail("append.returned-false", "TextFile::append on an open file returned false"); all += t; c.count("op.TextFile.append"); break;
		case 2: c.op("put"); if (!f.put(S(t))) c.fail("put.returned-false", "TextFile::put on an open file returned false"); all += t; c.count("op.TextFile.put"); break;
		case 3: c.op("<<String"); f << S(t); all += t; c.count("op.TextFile<<String"); break;
		case 4: c.op("<<cstr"); f << t.c_str(); all += t; c.count("op.TextFile<<cstr"); break;
		case 5: { int x = (int)c.rng.next(); c.op("<<int"); f << x; all += std::to_string(x); c.count("op.TextFile<<int"); break; }
		default: { char ch = (char)c.rng.range(33, 126); c.op("<<char"); f << ch; all += ch; c.count("op.TextFile<<char"); }
		}
	}
	return all;
}

static Bytes file_ops(vf::Ctx& c, File& f, int k)
{
	Bytes all;
	for (int i = 0; i < k; i++) {
		switch (c.rng.below(5)) {
		case 0: { Bytes b = small_bin(c); c.op("write"); int w = f.write(b.data(), (int)b.size()); if (w != (int)b.size()) c.fail("write.count", vf::fmt("write(p,%zu) returned %d", b.size(), w)); all += b; c.count("op.write"); break; }
		case 1: { Bytes b = small_bin(c); c.op("<<ByteArray"); f << BA(b); all += b; c.count("op.<<ByteArray"); break; }
		case 2: { Bytes t = small_text(c); c.op("<<String"); f << S(t); all += t; c.count("op.File<<String"); break; }
		case 3: { Bytes t = small_text(c); c.op("<<cstr"); f << t.c_str(); all += t; c.count("op.File<<cstr"); break; }
		default: { Bytes b = small_bin(c); c.op("put(open)"); if (!f.put(BA(b))) c.fail("put.returned-false", "put() on an open file returned false"); all += b; c.count("op.put"); }
		}
	}
	return all;
}

static void mode_hist(vf::Ctx& c)
{
	Scratch sc(c);
	std::string path = sc.file("h.dat");
	String p = S(path);
	Bytes model;
	bool exists = false;
	int steps = c.rng.range(2, 10), appends = 0, truncs = 0;
	c.desc("history on one path:");
	for (int s = 0; s < steps; s++) {
		int kind = c.rng.below(10);
		if (!exists && (kind == 4 || kind == 6) && c.rng.chance(0.5)) kind = 0;
		switch (kind) {
		case 0: { Bytes b = small_bin(c); c.op(vf::fmt("File(path).put(%zu bytes)", b.size())); if (!File(p).put(BA(b))) c.fail("put.returned-false", "put() returned false"); model = b; truncs++; c.count("op.put"); break; }
		case 1: { Bytes t = small_text(c); bool put = c.rng.chance(0.3); c.op(vf::fmt("TextFile(path).%s(%zu chars)", put ? "put" : "write", t.size()));
			bool ok = put ? TextFile(p).put(S(t)) : TextFile(p).write(S(t)); if (!ok) c.fail("write.returned-false", "TextFile::write/put returned false"); model = t; truncs++; c.count(put ? "op.TextFile.put" : "op.TextFile.write"); break; }
		case 2: { Bytes t = small_text(c); c.op(vf::fmt("TextFile(path).append(%zu chars)", t.size())); if (!TextFile(p).append(S(t))) c.fail("append.returned-false", "TextFile::append returned false"); model += t; appends++; c.count("op.TextFile.append"); break; }
		case 3: { c.op("{File f(path,WRITE):"); File f(p, File::WRITE); if (!f) c.fail("open.write", "File(path, WRITE) did not open"); model = file_ops(c, f, c.rng.range(0, 4)); if (c.rng.chance(0.5)) { c.op("close"); f.close(); c.count("op.close"); } c.op("}"); truncs++; c.count("op.reopen.WRITE"); break; }
		case 4: { c.op("{File f(path,APPEND):"); File f(p, File::APPEND); if (!f) c.fail("open.append", "File(path, APPEND) did not open"); model += file_ops(c, f, c.rng.range(0, 4)); if (c.rng.chance(0.5)) { c.op("close"); f.close(); c.count("op.close"); } c.op("}"); appends++; c.count("op.reopen.APPEND"); break; }
		case 5: { c.op("{TextFile f(path,WRITE):"); TextFile f(p, File::WRITE); if (!f) c.fail("open.write", "TextFile(path, WRITE) did not open"); model = text_ops(c, f, c.rng.range(0, 4)); if (c.rng.chance(0.5)) { c.op("close"); f.close(); c.count("op.close"); } c.op("}"); truncs++; c.count("op.reopen.WRITE"); break; }
		case 6: { c.op("{TextFile f(path,APPEND):"); TextFile f(p, File::APPEND); if (!f) c.fail("open.append", "TextFile(path, APPEND) did not open"); model += text_ops(c, f, c.rng.range(0, 4)); if (c.rng.chance(0.5)) { c.op("close"); f.close(); c.count("op.close"); } c.op("}"); appends++; c.count("op.reopen.APPEND"); break; }
		case 7: {   // unopened TextFile object: the first operation decides the mode
			bool app = c.rng.chance(0.5);
			c.op(app ? "{TextFile f(path); first op append:" : "{TextFile f(path); first op write:");
			TextFile f(p);
			Bytes t = small_text(c);
			if (app) { if (!f.append(S(t))) c.fail("append.returned-false", "TextFile::append returned false"); model += t; appends++; c.count("op.TextFile.append"); }
			else { if (!f.write(S(t))) c.fail("write.returned-false", "TextFile::write returned false"); model = t; truncs++; c.count("op.TextFile.write"); }
			model += text_ops(c, f, c.rng.range(0, 3));
			c.op("}");
			break;
		}
		case 8: {   // one object, explicit close and reopen with open(mode)
			c.op("{File f(path); open(WRITE):");
			File f(p);
			if (!f.open(File::WRITE)) c.fail("open.write", "open(WRITE) returned false");
			model = file_ops(c, f, c.rng.range(0, 3));
			c.op("close; open(APPEND):");
			f.close();
			if (!f.open(File::APPEND)) c.fail("open.append", "open(APPEND) returned false");
			model += file_ops(c, f, c.rng.range(0, 3));
			c.op("}");
			truncs++; appends++;
			c.count("op.close"); c.count("op.reopen.APPEND-same-object");
			break;
		}
		default: {  // stream operator on an unopened TextFile opens it for writing
			Bytes t = small_text(c);
			c.op("{TextFile f(path); f << String ...:");
			TextFile f(p);
			f << S(t);
			model = t;
			model += text_ops(c, f, c.rng.range(0, 2));
			c.op("}");
			truncs++;
			c.count("op.TextFile<<String");
		}
		}
		exists = true;
		// observe after every step through fresh objects
		check_disk(c, path, model);
		check_size(c, path, model);
		if (c.rng.chance(0.5)) check_content(c, path, model);
		if (c.rng.chance(0.2)) check_firstbytes(c, path, model, 1);
		if (c.rng.chance(0.2)) check_read(c, path, model);
		if (model.find('\0') == Bytes::npos && !starts_with_bom(model) && c.rng.chance(0.4)) {
			check_text(c, path, model);
			if (c.rng.chance(0.5)) check_lines(c, path, model);
		}
		if (model.size() > 254) c.count("hist.content-crossed-254");
		if (model.size() > 65536) c.count("hist.content-crossed-65536");
	}
	c.count("hist.steps", steps);
	if (appends && truncs) c.count("hist.with-both-append-and-rewrite");
	c.distinct(vf::fnv(c.curdesc(), vf::fnv(model)));
	if (c.want_sample() && c.idx % 53 == 5) c.sample(c.curdesc().substr(0, 700) + vf::fmt(" => %zu bytes; after every step: disk bytes, size(), and content()/firstBytes()/read()/text()/lines()", model.size()));
}

// ------------------------------------------------------------------ mode bom: text files with a byte-order mark
static void put_utf8(Bytes& o, uint32_t cp)
{
	if (cp < 0x80) o += (char)cp;
	else if (cp < 0x800) { o += (char)(0xC0 | (cp >> 6)); o += (char)(0x80 | (cp & 0x3F)); }
	else if (cp < 0x10000) { o += (char)(0xE0 | (cp >> 12)); o += (char)(0x80 | ((cp >> 6) & 0x3F)); o += (char)(0x80 | (cp & 0x3F)); }
	else { o += (char)(0xF0 | (cp >> 18)); o += (char)(0x80 | ((cp >> 12) & 0x3F)); o += (char)(0x80 | ((cp >> 6) & 0x3F)); o += (char)(0x80 | (cp & 0x3F)); }
}

static void put_utf16(Bytes& o, uint32_t cp, bool be)
{
	uint16_t u[2];
	int n = 1;
	if (cp < 0x10000) u[0] = (uint16_t)cp;
	else { cp -= 0x10000; u[0] = (uint16_t)(0xD800 + (cp >> 10)); u[1] = (uint16_t)(0xDC00 + (cp & 0x3FF)); n = 2; }
	for (int i = 0; i < n; i++) {
		if (be) { o += (char)(u[i] >> 8); o += (char)(u[i] & 255); }
		else { o += (char)(u[i] & 255); o += (char)(u[i] >> 8); }
	}
}

static uint32_t scalar(vf::Ctx& c, int cls)
{
	switch (cls) {
	case 0: return (uint32_t)c.rng.range(0x20, 0x7e);
	case 1: return (uint32_t)c.rng.range(0x80, 0x7ff);
	case 2: { uint32_t v = (uint32_t)c.rng.range(0x800, 0xffff); if (v >= 0xd800 && v <= 0xdfff) v = 0xe000 + (v & 0xff); return v; }
	case 3: return (uint32_t)c.rng.range(0x10000, 0x10ffff);
	case 4: {
		static const uint32_t edge[] = {1, 0x7f, 0x80, 0x7ff, 0x800, 0xd7ff, 0xe000, 0xfeff, 0xfffe, 0xffff, 0x10000, 0x10ffff, 0xff, 0xfe, 0xbb, 0xbf, 0xef, 0x0a0d, 0x0d0a, 0x0a00, 0x0d00, 0x2028, 9};
		return edge[c.rng.below(sizeof(edge) / sizeof(edge[0]))];
	}
	default: return (uint32_t)c.rng.range(1, 0x1f);   // control characters incl. TAB, LF, CR
	}
}

static Bytes fold_crlf(const Bytes& t)
{
	Bytes o;
	for (size_t i = 0; i < t.size(); i++) {
		if (t[i] == '\r' && i + 1 < t.size() && t[i + 1] == '\n') continue;
		o += t[i];
	}
	return o;
}

static void mode_bom(vf::Ctx& c)
{
	Scratch sc(c);
	std::string path = sc.file("u.txt");
	int kind = (int)(c.idx % 4);   // 0 UTF-8+BOM, 1 UTF-16LE, 2 UTF-16BE, 3 not a BOM (near misses)
	if (kind == 3) {
		static const char* pre[] = {"\xef\xbb", "\xef\xbbz", "\xef", "\xff", "\xfe", "\xef\xbf\xbb", "\xbb\xbf", "\xff\xff", "\xfe\xfe", "\xef\xbb\xbe", "\xfd\xff"};
		Bytes t = pre[c.rng.below(sizeof(pre) / sizeof(pre[0]))];
		if (c.rng.chance(0.7)) { TextStats st; t += gen_text(c, st, 3, true); }
		if (starts_with_bom(t)) t.insert(1, "q");   // prefix + first text byte completed a real mark: break it up
		c.desc("text that starts almost like a byte-order mark: " + vf::vis(t, 60));
		posix_write(path, t);
		check_text(c, path, t);
		c.count("bom.near-miss-prefix");
		c.distinct(vf::fnv(t));
		return;
	}
	// scalar sequence, NUL excluded
	std::vector<uint32_t> cps;
	int n = c.rng.chance(0.1) ? c.rng.range(0, 3) : c.rng.chance(0.2) ? c.rng.range(100, 700) : c.rng.range(0, 60);
	int profile = c.rng.below(4);   // 0 ASCII-heavy, 1 BMP, 2 everything, 3 astral-heavy
	bool crlf = c.rng.chance(0.5);
	for (int i = 0; i < n; i++) {
		int r = c.rng.below(100);
		if (r < 6) { cps.push_back('\n'); continue; }
		if (crlf && r < 12) { cps.push_back('\r'); cps.push_back('\n'); continue; }
		if (crlf && r < 14) { cps.push_back('\r'); continue; }
		int cls = profile == 0 ? (r < 80 ? 0 : r < 90 ? 1 : 2) : profile == 1 ? (r % 3) : profile == 2 ? (r % 6 == 5 ? 5 : r % 5) : (r < 60 ? 3 : r % 5);
		cps.push_back(scalar(c, cls));
	}
	Bytes want, file;
	bool astral = false, haveCRLF = false;
	for (size_t i = 0; i < cps.size(); i++) {
		put_utf8(want, cps[i]);
		if (cps[i] >= 0x10000) astral = true;
		if (cps[i] == '\n' && i > 0 && cps[i - 1] == '\r') haveCRLF = true;
	}
	static const char* KN[] = {"UTF-8+BOM", "UTF-16LE", "UTF-16BE"};
	if (kind == 0) { file = "\xef\xbb\xbf"; file += want; }
	else {
		file = kind == 1 ? "\xff\xfe" : "\xfe\xff";
		for (size_t i = 0; i < cps.size(); i++) put_utf16(file, cps[i], kind == 2);
	}
	c.desc(vf::fmt("%s file of %zu scalars (%zu bytes): %s", KN[kind], cps.size(), file.size(), vf::hex(file.data(), file.size() < 80 ? file.size() : 80).c_str()));
	posix_write(path, file);
	c.count(kind == 0 ? "bom.UTF-8" : kind == 1 ? "bom.UTF-16LE" : "bom.UTF-16BE");
	if (astral) c.count(kind == 0 ? "bom.UTF-8.with-astral-scalars" : "bom.UTF-16.with-surrogate-pairs");
	if (cps.empty()) c.count("bom.only-the-mark");
	String t = TextFile(S(path)).text();
	if ((size_t)t.length() != strlen(*t)) c.fail("bom.text.length-vs-terminator", vf::fmt("length()=%d strlen=%zu", t.length(), strlen(*t)));
	Bytes got = bytes_of(t);
	if (kind != 0 && haveCRLF) {
		// TextFile::text() folds CRLF to LF while decoding UTF-16 (File.h opens text files in text mode; the
		// property only asks for "the same text"): both the exact text and the folded one are accepted and counted
		Bytes folded = fold_crlf(want);
		if (got == want) c.count("bom.UTF-16.CRLF-kept");
		else if (got == folded) c.count("bom.UTF-16.CRLF-folded-to-LF");
		else c.fail(kind == 1 ? "bom.text.UTF-16LE" : "bom.text.UTF-16BE", differ(got, want));
	} else {
		same(c, kind == 0 ? "bom.text.UTF-8" : kind == 1 ? "bom.text.UTF-16LE" : "bom.text.UTF-16BE", got, want);
		c.count("bom.text-exact");
	}
	// lines() does no BOM handling at all in asl; the property's BOM clause is read as a statement about text().
	// Observed only (never judged): does lines() of a UTF-8+BOM file equal the split of the decoded text?
	if (kind == 0 && c.rng.chance(0.3)) {
		Array<String> L = TextFile(S(path)).lines();
		std::vector<Bytes> ref = ref_split(want);
		bool eq = (size_t)L.length() == ref.size() || (size_t)L.length() + 1 == ref.size();
		for (int i = 0; eq && i < L.length() && (size_t)i < ref.size(); i++) eq = bytes_of(L[i]) == ref[i];
		c.count(eq ? "observed.lines()-of-UTF-8+BOM=split-of-text" : "observed.lines()-of-UTF-8+BOM-keeps-mark-in-line-0");
	}
	c.distinct(vf::mix(vf::fnv(want), kind));
	if (c.want_sample() && c.idx % 37 == 1) c.sample(c.curdesc().substr(0, 400) + " -> text() == UTF-8 of the same scalars");
}

// ------------------------------------------------------------------ mode copy: Directory::copy / move, File::copy / move
static size_t copy_size(vf::Ctx& c, size_t maxn)
{
	static const int CS[] = {0, 1, 255, 4096, 65535, 65536, 65537, 131071, 131072, 131073, 196608, 200000};
	int k = c.rng.below(10);
	if (k < 4) return (size_t)CS[c.rng.below(sizeof(CS) / sizeof(CS[0]))];
	if (k < 6) { size_t n = 65536 * (size_t)c.rng.range(1, 3) + (size_t)c.rng.range(0, 4) - 2; return n; }
	return random_size(c, maxn);
}

static void mode_copy(vf::Ctx& c)
{
	Scratch sc(c);
	size_t maxn = (size_t)c.opt->param("maxsize", 200000);
	size_t n = copy_size(c, maxn);
	count_size(c, n);
	Bytes data = binary_content(c, n);
	std::string src = sc.file("src.bin"), dir = sc.dir("d"), dst;
	if (c.rng.chance(0.5)) posix_write(src, data);
	else if (!File(S(src)).put(BA(data))) c.fail("put.returned-false", "put() returned false");
	int v = c.rng.below(6);
	bool intodir = v == 1 || v == 4, move = v >= 3;
	if (intodir) { dst = dir + "/" + src.substr(src.rfind('/') + 1); sc.also(dst); }
	else dst = sc.file("dst.bin");
	bool over = !intodir && c.rng.chance(0.3);
	if (over) {
		Bytes old(c.rng.chance(0.5) ? n + 1 + c.rng.below(70000) : c.rng.below((uint32_t)n + 1), 'o');
		posix_write(dst, old);
		c.count("copy.destination-existed");
	}
	static const char* VN[] = {"Directory::copy(file, newname)", "Directory::copy(file, directory)", "File(file).copy(newname)",
	                           "Directory::move(file, newname)", "Directory::move(file, directory)", "File(file).move(newname)"};
	c.desc(vf::fmt("%s of %zu bytes%s", VN[v], n, over ? " over an existing file" : ""));
	bool ok;
	String to = S(intodir ? dir : dst);
	switch (v) {
	case 0: case 1: ok = Directory::copy(S(src), to); break;
	case 2: ok = File(S(src)).copy(to); break;
	case 3: case 4: ok = Directory::move(S(src), to); break;
	default: ok = File(S(src)).move(to);
	}
	c.count((std::string("op.") + VN[v]).c_str());
	if (!ok) c.fail(move ? "move.returned-false" : "copy.returned-false", "the call returned false");
	Bytes got;
	if (!posix_read(dst, got)) c.fail(move ? "move.destination-missing" : "copy.destination-missing", "destination " + dst + " does not exist");
	same(c, move ? "move.content" : "copy.content", got, data);
	if (!move) {
		Bytes s2;
		if (!posix_read(src, s2) || s2 != data) c.fail("copy.source-changed", "the source differs after copy");
	} else c.count(posix_exists(src) ? "observed.move-left-the-source" : "observed.move-removed-the-source");
	check_size(c, dst, data);
	if (c.rng.chance(0.5)) check_content(c, dst, data);
	// a copy of the copy
	if (c.rng.chance(0.3)) {
		std::string d2 = sc.file("dst2.bin");
		if (!File(S(dst)).copy(S(d2))) c.fail("copy.returned-false", "second-generation copy returned false");
		Bytes g2;
		posix_read(d2, g2);
		same(c, "copy.content", g2, data);
		c.count("copy.second-generation");
	}
	// a move whose destination resolves to the file itself (same name, or the directory it is already in) leaves the content where it is
	if (c.rng.chance(0.25)) {
		int w = (int)c.rng.below(3);
		std::string parent = dst.substr(0, dst.rfind('/'));
		c.op(w == 0 ? "Directory::move(f, f)" : w == 1 ? "Directory::move(f, its own directory)" : "File(f).move(its own directory)");
		if (w == 0) Directory::move(S(dst), S(dst)); else if (w == 1) Directory::move(S(dst), S(parent)); else File(S(dst)).move(S(parent));
		Bytes g3;
		if (!posix_read(dst, g3)) c.fail("move.onto-itself.file-lost", "the file no longer exists after a move onto itself");
		else same(c, "move.onto-itself.content", g3, data);
		c.count("move.onto-itself");
	}
	// a copy whose destination resolves to the source itself leaves the content where it is
	if (c.rng.chance(0.25)) {
		int w = (int)c.rng.below(3);
		std::string parent = dst.substr(0, dst.rfind('/'));
		c.op(w == 0 ? "Directory::copy(f, f)" : w == 1 ? "Directory::copy(f, its own directory)" : "File(f).copy(its own directory)");
		if (w == 0) Directory::copy(S(dst), S(dst)); else if (w == 1) Directory::copy(S(dst), S(parent)); else File(S(dst)).copy(S(parent));
		Bytes g4;
		if (!posix_read(dst, g4)) c.fail("copy.onto-itself.file-lost", "the file no longer exists after a copy onto itself");
		else same(c, "copy.onto-itself.content", g4, data);
		c.count("copy.onto-itself");
	}
	c.distinct(vf::mix(vf::fnv(data), v * 2 + over));
	if (c.want_sample() && c.idx % 41 == 2) c.sample(c.curdesc() + "; destination read with open/read equals the source bytes");
}

// ------------------------------------------------------------------ mode fault: write faults during copy/move, and moves across file systems
// A write fault is injected with RLIMIT_FSIZE (SIGXFSZ ignored): every write that would make a file of this process longer than the
// limit fails (EFBIG), exactly as it would on a full disk. Moves across file systems go from the scratch directory to /dev/shm when
// that is another device (the EXDEV branch of Directory::move: copy, then remove the source).
// Judged, from "Directory copy and move preserve content byte for byte":
//   * a copy or move that reports success left a destination equal to the source bytes;
//   * a copy never changes its source; after a move, failed or not, the complete content still exists (in the source or the destination);
//   * without a fault (limit >= size) the call succeeds and the destination is complete.
struct FsizeLimit
{
	struct rlimit old;
	void (*oldh)(int);
	bool on;
	FsizeLimit(size_t lim) : on(false)
	{
		oldh = signal(SIGXFSZ, SIG_IGN);
		if (getrlimit(RLIMIT_FSIZE, &old) != 0) return;
		struct rlimit r = old;
		r.rlim_cur = (rlim_t)lim;
		on = setrlimit(RLIMIT_FSIZE, &r) == 0;
	}
	void off() { if (on) { setrlimit(RLIMIT_FSIZE, &old); on = false; } signal(SIGXFSZ, oldh); }
	~FsizeLimit() { off(); }
};

static std::string g_shm;   // a directory on another file system than g_dir, or empty

static void mode_fault(vf::Ctx& c)
{
	Scratch sc(c);
	size_t n = copy_size(c, (size_t)c.opt->param("maxsize", 200000));
	if (n == 0 && c.rng.chance(0.8)) n = 1 + c.rng.below(70000);
	count_size(c, n);
	Bytes data = binary_content(c, n);
	std::string src = sc.file("src.bin");
	if (!posix_write(src, data)) { c.inconclusive("scratch-write-failed"); return; }
	int v = c.rng.below(6);                       // as in mode copy: 0-2 copies, 3-5 moves
	bool move = v >= 3, intodir = v == 1 || v == 4;
	bool xdev = !g_shm.empty() && (move ? c.rng.chance(0.85) : c.rng.chance(0.3));
	if (move && !xdev) c.count("fault.move-on-one-file-system(rename, nothing is written)");
	std::string base = src.substr(src.rfind('/') + 1);
	std::string root = xdev ? g_shm + "/" + base + "_" : sc.base;
	std::string dir = root + "d", dst;
	mkdir(dir.c_str(), 0777);
	sc.dirs.push_back(dir);
	if (intodir) dst = dir + "/" + base; else dst = root + "dst.bin";
	sc.also(dst);
	unlink(dst.c_str());
	// where the first failing write happens
	size_t lim;
	int lk = c.rng.below(8);
	const char* lname;
	if (lk == 0) { lim = n + c.rng.below(3) * 1000; lname = "no-fault"; }
	else if (lk == 1) { lim = n ? n - 1 : 0; lname = "last-byte"; }
	else if (lk == 2) { lim = n > 4096 ? n - 1 - c.rng.below(4095) : c.rng.below((uint32_t)n + 1); lname = "inside-the-last-stdio-buffer"; }
	else if (lk == 3) { lim = 65536 * (size_t)c.rng.below((uint32_t)(n / 65536) + 1); lname = "at-a-block-boundary"; }
	else if (lk == 4) { size_t k = 65536 * (size_t)c.rng.below((uint32_t)(n / 65536) + 1) + c.rng.below(4096); lim = k < n ? k : (n ? n - 1 : 0); lname = "just-after-a-block-boundary"; }
	else if (lk == 5) { lim = 0; lname = "first-byte"; }
	else { lim = c.rng.below((uint32_t)n + 1); lname = "anywhere"; }
	bool fault = lim < n;
	static const char* VN[] = {"Directory::copy(file, newname)", "Directory::copy(file, directory)", "File(file).copy(newname)",
	                           "Directory::move(file, newname)", "Directory::move(file, directory)", "File(file).move(newname)"};
	c.desc(vf::fmt("%s of %zu bytes%s, writes fail beyond byte %zu (%s)", VN[v], n, xdev ? " to another file system" : "", lim, fault ? lname : "no fault"));
	c.count((std::string("fault.op.") + VN[v] + (xdev ? " across file systems" : "")).c_str());
	c.count((std::string("fault.where.") + (fault ? lname : "no-fault")).c_str());
	bool ok;
	String to = S(intodir ? dir : dst);
	{
		FsizeLimit fl(lim);
		if (!fl.on) { c.inconclusive("setrlimit-failed"); return; }
		switch (v) {
		case 0: case 1: ok = Directory::copy(S(src), to); break;
		case 2: ok = File(S(src)).copy(to); break;
		case 3: case 4: ok = Directory::move(S(src), to); break;
		default: ok = File(S(src)).move(to);
		}
	}
	Bytes got, s2;
	bool have_dst = posix_read(dst, got), have_src = posix_read(src, s2);
	bool wrote = !move || xdev;                   // a rename writes nothing, so the limit cannot bite
	if (fault && wrote) c.count(ok ? "fault.call-reported-success-under-a-fault" : "fault.call-reported-failure-under-a-fault");
	if (ok) {
		if (!have_dst) c.fail(move ? "fault.move.reported-success.destination-missing" : "fault.copy.reported-success.destination-missing", "the call returned true but " + dst + " does not exist");
		same(c, move ? "fault.move.reported-success.content" : "fault.copy.reported-success.content", got, data);
	}
	if (!move) {
		if (!have_src || s2 != data) c.fail("fault.copy.source-changed", "the source differs after the copy");
	} else {
		bool complete = (have_src && s2 == data) || (have_dst && got == data);
		if (!complete) c.fail("fault.move.content-lost", vf::fmt("after the move (returned %s) neither the source (%s, %zu bytes) nor the destination (%s, %zu bytes) holds the %zu bytes",
		                                                         ok ? "true" : "false", have_src ? "exists" : "gone", s2.size(), have_dst ? "exists" : "missing", got.size(), n));
		c.count(have_src ? "observed.move-left-the-source" : "observed.move-removed-the-source");
	}
	if (!fault || !wrote) {
		if (!ok) c.fail(move ? "move.returned-false" : "copy.returned-false", "the call returned false although no write failed");
		if (!have_dst) c.fail(move ? "move.destination-missing" : "copy.destination-missing", "destination " + dst + " does not exist");
		same(c, move ? "move.content" : "copy.content", got, data);
	}
	if (xdev) c.count(move ? "fault.moves-across-file-systems" : "fault.copies-across-file-systems");
	// the limit is gone again: the same call now works
	if (fault && wrote && !ok && have_src && c.rng.chance(0.5)) {
		unlink(dst.c_str());
		bool ok2 = move ? Directory::move(S(src), to) : Directory::copy(S(src), to);
		Bytes g2;
		posix_read(dst, g2);
		if (!ok2) c.fail(move ? "move.returned-false" : "copy.returned-false", "the call repeated without the fault returned false");
		same(c, move ? "move.content" : "copy.content", g2, data);
		c.count("fault.repeated-without-fault");
	}
	if (have_src) unlink(src.c_str());
	c.distinct(vf::mix(vf::fnv(data), (uint64_t)v * 64 + (uint64_t)xdev * 32 + (uint64_t)lk));
	if (c.want_sample() && c.idx % 37 == 3) c.sample(c.curdesc() + vf::fmt("; returned %s, destination %zu bytes, source %s", ok ? "true" : "false", got.size(), have_src ? "kept" : "removed"));
}

// ------------------------------------------------------------------ mode big: sizes above 200000 (to 16 MiB in the thorough tier)
static void mode_big(vf::Ctx& c)
{
	Scratch sc(c);
	size_t lo = 200001, hi = (size_t)c.opt->param("maxmb", 1) << 20;
	size_t n;
	int k = c.rng.below(6);
	if (k == 0) n = hi;
	else if (k == 1) { int sh = c.rng.range(18, 24); n = ((size_t)1 << sh) + (size_t)c.rng.range(0, 2) - 1; }
	else if (k == 2) n = 65536 * (size_t)c.rng.range(4, (int)(hi / 65536)) + (size_t)c.rng.range(0, 2) - 1;
	else n = (size_t)exp(log((double)lo) + c.rng.unit() * (log((double)hi) - log((double)lo)));
	if (n > hi) n = hi;
	if (n < lo) n = lo;
	count_size(c, n);
	c.desc(vf::fmt("large file of %zu bytes: put, size, content, firstBytes, read, copy", n));
	Bytes data = binary_content(c, n);
	std::string path = sc.file("big.bin"), dst = sc.file("big2.bin");
	if (c.rng.chance(0.5)) { if (!File(S(path)).put(BA(data))) c.fail("put.returned-false", "put() returned false"); c.count("op.put"); }
	else {
		File f(S(path), File::WRITE);
		if (!f) c.fail("open.write", "File(path, WRITE) did not open");
		std::vector<size_t> v = cuts(c, n, 4);
		for (size_t i = 0; i + 1 < v.size(); i++) { int w = f.write(data.data() + v[i], (int)(v[i + 1] - v[i])); if (w != (int)(v[i + 1] - v[i])) c.fail("write.count", "short write"); c.count("op.write"); }
	}
	check_disk(c, path, data);
	check_size(c, path, data);
	check_content(c, path, data);
	check_firstbytes(c, path, data, 1);
	check_read(c, path, data);
	bool ok = c.rng.chance(0.5) ? Directory::copy(S(path), S(dst)) : File(S(path)).copy(S(dst));
	if (!ok) c.fail("copy.returned-false", "the call returned false");
	Bytes got;
	posix_read(dst, got);
	same(c, "copy.content", got, data);
	c.count("op.copy");
	c.distinct(vf::fnv(data));
	if (c.want_sample()) c.sample(c.curdesc());
}

// ------------------------------------------------------------------ mode sameobj: one long-lived File / TextFile object
// States of the object: CLOSED (no stdio handle), READ0 (open for reading, position 0), READX (open for reading, position
// somewhere else: content()/text()/firstBytes()/lines() leave the object like that), WRITE (open with WRITE or APPEND).
// What the unchanged library supports on one object (read from File.cpp/TextFile.cpp and confirmed by running):
//  * content()/text()/firstBytes()/lines() open the file themselves when the object is CLOSED and read from the CURRENT
//    position when it is open: they return what was written only from CLOSED or READ0. They leave the object open (READX).
//  * open() on an object that is already open overwrites the handle (the old FILE* is lost), so the generator always closes first.
//  * size()/lastModified()/isFile()/isDirectory() cache one stat result until close() (exists() re-stats); while the object is open for
//    writing they report the on-disk state without the stdio buffer, or a value cached before the write: observed, never judged.
//  * put()/write()/append()/<< open the file themselves only when the object is CLOSED (File: only put()).
// Judged (the property: what was written is what content()/text()/firstBytes()/read()/lines() return afterwards and size() is the
// number of bytes written): every read from CLOSED or READ0, every size() while the object is not open for writing, and the bytes on
// disk (plain open/read) after every close and every read.
enum { SO_CLOSED, SO_READ0, SO_READX, SO_WRITE };

struct SoState
{
	std::string path;
	Bytes model;
	bool exists;       // the path exists on disk
	int st;
	int writes;        // write operations (including truncating opens) done through the object
	int judged;        // judged same-object observations that followed a write
	bool unobserved;   // something was written since the last judged same-object observation
	int queries_before_write, grew_after_query;
	size_t size_at_query;
	bool queried;
};

static void so_disk(vf::Ctx& c, const SoState& s, const char* key)
{
	Bytes disk;
	if (!posix_read(s.path, disk)) c.fail(std::string(key) + ".missing", "the file cannot be opened with open()");
	same(c, key, disk, s.model);
}

static void so_observed(SoState& s)
{
	if (s.writes) s.judged++;
	s.unobserved = false;
	s.queried = true;
	s.size_at_query = s.model.size();
}

static void so_size(vf::Ctx& c, File& f, SoState& s)
{
	c.op("size()");
	Long sz = f.size();
	if (s.st == SO_WRITE) {
		c.count(sz == (Long)s.model.size() ? "observed.size()-while-writing=written-so-far" : "observed.size()-while-writing=other(unflushed)");
		s.queried = true;
		s.size_at_query = s.model.size();
	} else if (!s.exists) c.count(sz == -1 ? "observed.size()-of-missing-path=-1" : "observed.size()-of-missing-path=other");
	else {
		if (sz != (Long)s.model.size())
			c.fail("sameobj.size", vf::fmt("size()=%lld through the long-lived object (state %s), the path holds the %zu bytes written",
			                               (long long)sz, s.st == SO_CLOSED ? "closed" : "open for reading", s.model.size()));
		c.count("sameobj.judged.size()");
		so_observed(s);
	}
}

static void so_meta(vf::Ctx& c, File& f, SoState& s)
{
	struct stat sb;
	bool on_disk = stat(s.path.c_str(), &sb) == 0;
	switch (c.rng.below(6)) {
	case 0: case 1: so_size(c, f, s); break;
	case 2: { c.op("exists()"); bool e = f.exists(); c.count(e == on_disk ? "observed.exists()=stat" : "observed.exists()!=stat"); break; }
	case 3: { c.op("isFile()"); bool e = f.isFile(); c.count(e == on_disk ? "observed.isFile()=stat" : "observed.isFile()!=stat"); break; }
	case 4: { c.op("isDirectory()"); bool e = f.isDirectory(); c.count(!e ? "observed.isDirectory()=false" : "observed.isDirectory()=true-on-a-file"); break; }
	default: {
		c.op("lastModified()");
		double t = f.lastModified().time();
		c.count(!on_disk ? "observed.lastModified()-of-missing-path" : t == (double)sb.st_mtime ? "observed.lastModified()=st_mtime" : "observed.lastModified()!=st_mtime");
	}
	}
	if (on_disk && s.st != SO_WRITE) { s.queried = true; s.size_at_query = s.model.size(); }
	c.count("op.metadata-query");
}

// a read through the object; legal from CLOSED (existing path) and READ0
static void so_read(vf::Ctx& c, File& f, TextFile* tf, SoState& s)
{
	bool textok = tf && s.model.find('\0') == Bytes::npos && !starts_with_bom(s.model);
	size_t n = s.model.size();
	int k = c.rng.below(10);
	if (s.st == SO_READ0 && !tf && c.rng.chance(0.3)) k = 9;
	if (tf && textok && k < 5) {
		if (k < 3) {
			c.op("text()");
			String t = tf->text();
			same_str(c, "sameobj.text", t, s.model);
			c.count("sameobj.judged.text()");
		} else {
			c.op("lines()");
			Array<String> L = tf->lines();
			std::vector<Bytes> got;
			for (int i = 0; i < L.length(); i++) got.push_back(bytes_of(L[i]));
			compare_lines(c, "sameobj.lines", got, ref_split(s.model));
			c.count("sameobj.judged.lines()");
		}
	} else if (k < 7) {
		c.op("content()");
		ByteArray a = f.content();
		same(c, "sameobj.content", bytes_of(a), s.model);
		c.count("sameobj.judged.content()");
	} else if (k < 9 || s.st != SO_READ0) {
		size_t want = c.rng.chance(0.3) ? n : c.rng.chance(0.5) ? n + 1 + c.rng.below(70000) : c.rng.below((uint32_t)n + 1);
		c.op(vf::fmt("firstBytes(%zu)", want));
		ByteArray a = f.firstBytes((int)want);
		same(c, "sameobj.firstBytes", bytes_of(a), s.model.substr(0, want < n ? want : n));
		c.count("sameobj.judged.firstBytes()");
	} else {
		c.op("read(p,n) to the end");
		Bytes got;
		size_t chunk = n / 8 + 1 + c.rng.below(300);
		for (int guard = 0; guard < 100; guard++) {
			char* buf = (char*)malloc(chunk);
			int r = f.read(buf, (int)chunk);
			if (r < 0 || (size_t)r > chunk) { free(buf); c.fail("sameobj.read.count", vf::fmt("read(p,%zu) returned %d", chunk, r)); }
			got.append(buf, (size_t)r);
			free(buf);
			if ((size_t)r < chunk) break;
		}
		same(c, "sameobj.read", got, s.model);
		c.count("sameobj.judged.read()");
	}
	if (s.queried && s.writes && n > s.size_at_query) s.grew_after_query++;
	s.st = SO_READX;
	so_observed(s);
	so_disk(c, s, "sameobj.disk-after-read");
}

static void so_wrote(vf::Ctx& c, SoState& s)
{
	s.writes++;
	s.unobserved = true;
	s.exists = true;
	if (s.queried) s.queries_before_write++;
}

static void so_open(vf::Ctx& c, File& f, TextFile* tf, SoState& s, File::OpenMode m)
{
	c.op(m == File::WRITE ? "open(WRITE)" : m == File::APPEND ? "open(APPEND)" : "open(READ)");
	bool ok = tf ? tf->open(m) : f.open(m);
	if (!ok) c.fail(m == File::WRITE ? "sameobj.open.write" : m == File::APPEND ? "sameobj.open.append" : "sameobj.open.read", "open(mode) returned false on the long-lived object");
	if (m == File::READ) { s.st = SO_READ0; c.count("op.open(READ)-same-object"); return; }
	if (m == File::WRITE) s.model.clear();
	s.st = SO_WRITE;
	so_wrote(c, s);
	c.count(m == File::WRITE ? "op.open(WRITE)-same-object" : "op.open(APPEND)-same-object");
}

// a writing call on a CLOSED object: the call opens the file itself
static void so_autowrite(vf::Ctx& c, File& f, TextFile* tf, SoState& s, bool force_append)
{
	if (!tf) {
		Bytes b = small_bin(c);
		c.op(vf::fmt("put(%zu bytes) [opens WRITE]", b.size()));
		if (!f.put(BA(b))) c.fail("put.returned-false", "put() on the closed long-lived object returned false");
		s.model = b;
		c.count("op.put");
	} else {
		Bytes t = small_text(c);
		int k = force_append ? 4 : (int)c.rng.below(6);
		switch (k) {
		case 0: c.op(vf::fmt("write(%zu chars) [opens WRITE]", t.size())); if (!tf->write(S(t))) c.fail("write.returned-false", "TextFile::write returned false"); s.model = t; c.count("op.TextFile.write"); break;
		case 1: c.op(vf::fmt("put(%zu chars) [opens WRITE]", t.size())); if (!tf->put(S(t))) c.fail("put.returned-false", "TextFile::put returned false"); s.model = t; c.count("op.TextFile.put"); break;
		case 2: c.op(vf::fmt("<<String(%zu chars) [opens WRITE]", t.size())); *tf << S(t); s.model = t; c.count("op.TextFile<<String"); break;
		case 3: c.op(vf::fmt("<<cstr(%zu chars) [opens WRITE]", t.size())); *tf << t.c_str(); s.model = t; c.count("op.TextFile<<cstr"); break;
		default: c.op(vf::fmt("append(%zu chars) [opens APPEND]", t.size())); if (!tf->append(S(t))) c.fail("append.returned-false", "TextFile::append returned false"); s.model += t; c.count("op.TextFile.append");
		}
	}
	s.st = SO_WRITE;
	so_wrote(c, s);
}

static void so_close(vf::Ctx& c, File& f, SoState& s)
{
	c.op("close()");
	bool was_writing = s.st == SO_WRITE;
	f.close();
	s.st = SO_CLOSED;
	c.count(was_writing ? "op.close-after-writing" : "op.close");
	if (was_writing) {
		so_disk(c, s, "sameobj.disk-after-close");
		if (c.rng.chance(0.5)) so_size(c, f, s);
	}
}

// the object is assigned a fresh File for the same path: whatever it had open is closed (flushed) first
static void so_reassign(vf::Ctx& c, File& f, SoState& s)
{
	c.op("f = File(same path)");
	bool was_writing = s.st == SO_WRITE;
	f = File(S(s.path));
	s.st = SO_CLOSED;
	c.count(was_writing ? "op.reassign-same-path-while-writing" : "op.reassign-same-path");
	if (was_writing) {
		so_disk(c, s, "sameobj.disk-after-reassignment");
		if (c.rng.chance(0.5)) so_size(c, f, s);
	}
}

static void so_step(vf::Ctx& c, File& f, TextFile* tf, SoState& s)
{
	int r = c.rng.below(100);
	switch (s.st) {
	case SO_CLOSED:
		if (!s.exists) {
			if (r < 25) so_meta(c, f, s);
			else if (r < 65) so_open(c, f, tf, s, c.rng.chance(0.5) ? File::WRITE : File::APPEND);
			else so_autowrite(c, f, tf, s, false);
		} else if (r < 25) so_meta(c, f, s);
		else if (r < 45) so_open(c, f, tf, s, r < 31 ? File::WRITE : r < 39 ? File::APPEND : File::READ);
		else if (r < 60) so_autowrite(c, f, tf, s, false);
		else if (r < 96) so_read(c, f, tf, s);
		else so_close(c, f, s);
		break;
	case SO_READ0:
		if (r < 65) so_read(c, f, tf, s);
		else if (r < 85) so_meta(c, f, s);
		else so_close(c, f, s);
		break;
	case SO_READX:
		if (r < 60) so_close(c, f, s);
		else if (r < 90) so_meta(c, f, s);
		else { c.op("seek(0)"); f.seek(0); s.st = SO_READ0; c.count("op.seek(0)-same-object"); }
		break;
	default:
		if (r < 50) {
			Bytes w = tf ? text_ops(c, *tf, 1) : file_ops(c, f, 1);
			s.model += w;
			so_wrote(c, s);
		} else if (r < 75) so_close(c, f, s);
		else if (r < 88) so_reassign(c, f, s);
		else so_meta(c, f, s);
	}
}

static void sameobj_run(vf::Ctx& c, File& f, TextFile* tf, SoState& s)
{
	int steps = c.rng.range(3, 12);
	for (int i = 0; i < steps; i++) so_step(c, f, tf, s);
	c.count("sameobj.steps", steps);
	// epilogue: every history ends with something written through the object and read back through it
	if (!s.writes) {
		if (s.st != SO_CLOSED) so_close(c, f, s);
		so_autowrite(c, f, tf, s, tf != 0 && c.rng.chance(0.7));
	}
	if (s.unobserved) {
		if (s.st != SO_CLOSED) so_close(c, f, s);
		if (c.rng.chance(0.5)) so_size(c, f, s);
		so_read(c, f, tf, s);
	}
}

static void mode_sameobj(vf::Ctx& c)
{
	Scratch sc(c);
	bool text = (c.idx & 1) != 0;
	SoState s;
	s.path = sc.file(text ? "so.txt" : "so.bin");
	s.exists = false;
	s.st = SO_CLOSED;
	s.writes = s.judged = s.queries_before_write = s.grew_after_query = 0;
	s.unobserved = s.queried = false;
	s.size_at_query = 0;
	if (c.rng.chance(0.7)) {
		s.model = text ? small_text(c) : small_bin(c);
		if (text && starts_with_bom(s.model)) s.model[0] = 'x';
		posix_write(s.path, s.model);
		s.exists = true;
	}
	c.desc(vf::fmt("one long-lived %s object on a path that %s:", text ? "TextFile" : "File", s.exists ? vf::fmt("holds %zu bytes", s.model.size()).c_str() : "does not exist"));
	c.count(text ? "sameobj.TextFile-object" : "sameobj.File-object");
	c.count(s.exists ? "sameobj.path-existed" : "sameobj.path-was-missing");
	if (text) {
		TextFile f(S(s.path));
		sameobj_run(c, f, &f, s);
		c.count(s.st == SO_CLOSED ? "sameobj.destroyed-closed" : "sameobj.destroyed-open");
	} else {
		File f(S(s.path));
		sameobj_run(c, f, 0, s);
		c.count(s.st == SO_CLOSED ? "sameobj.destroyed-closed" : "sameobj.destroyed-open");
	}
	so_disk(c, s, "sameobj.disk-after-destructor");
	check_size(c, s.path, s.model);
	if (c.rng.chance(0.5)) check_content(c, s.path, s.model);
	if (s.queries_before_write) c.count("sameobj.metadata-or-read-then-write-on-same-object");
	if (s.grew_after_query) c.count("sameobj.read-back-after-growth-since-last-query", s.grew_after_query);
	if (s.model.size() > 254) c.count("sameobj.content-crossed-254");
	if (s.writes && s.judged) c.distinct(vf::fnv(c.curdesc(), vf::fnv(s.model)));
	else c.count("sameobj.trivial(no-write-then-readback)");
	if (c.want_sample() && c.idx % 41 < 2) c.sample(c.curdesc().substr(0, 900) + vf::fmt(" => %zu bytes", s.model.size()));
}

// ------------------------------------------------------------------ mode copy_mt: concurrent copies/moves of different files
// Beyond the property's quantifier (which names no threads): every thread works on its own files only.
struct MtOp
{
	int kind;                 // 0 Directory::copy(f,name) 1 Directory::copy(f,dir) 2 File::copy(name) 3 File::copy(dir) 4 Directory::move(f,name) 5 Directory::move(f,dir) 6 File::move(name)
	std::string from, to;
	bool ok;
	double t0, t1;
};
struct MtLive { std::string path; int content; bool indir, original, moved; };
struct MtThread
{
	std::vector<MtOp> ops;
	std::vector<Bytes> contents;
	std::vector<MtLive> live;
	std::vector<std::string> gone;
};

static const char* MT_KIND[] = {"Directory::copy(file,newname)", "Directory::copy(file,dir)", "File::copy(newname)", "File::copy(dir)",
                                "Directory::move(file,newname)", "Directory::move(file,dir)", "File::move(newname)"};

// 8-byte little-endian words: counter in the low 32 bits, a per-case salt, the file number and 0xA0+thread in the top byte
static Bytes mt_content(int thread, int file, uint32_t salt, size_t n)
{
	Bytes b(n, '\0');
	uint64_t hi = ((uint64_t)(0xA0 + thread) << 56) | ((uint64_t)file << 48) | ((uint64_t)(salt & 0xffff) << 32);
	size_t words = (n + 7) / 8;
	for (size_t i = 0; i < words; i++) {
		uint64_t w = hi | (uint32_t)i;
		size_t left = n - i * 8;
		memcpy(&b[i * 8], &w, left < 8 ? left : 8);
	}
	return b;
}

static std::string mt_whose(const Bytes& got, size_t off)
{
	size_t w = off & ~(size_t)7;
	if (w + 8 > got.size()) return "";
	unsigned t = (unsigned char)got[w + 7], f = (unsigned char)got[w + 6];
	uint32_t k;
	memcpy(&k, &got[w], 4);
	if (t < 0xA0 || t > 0xA0 + 16) return "; the bytes there follow no thread's pattern";
	return vf::fmt("; the bytes there are word %u of the pattern of thread %u file %u", k, t - 0xA0, f);
}

static void mt_worker(MtThread* t, std::atomic<int>* ready, std::atomic<int>* go)
{
	ready->fetch_add(1);
	while (!go->load()) sched_yield();
	for (size_t i = 0; i < t->ops.size(); i++) {
		MtOp& op = t->ops[i];
		String from = S(op.from), to = S(op.to);
		op.t0 = vf::now();
		switch (op.kind) {
		case 0: case 1: op.ok = Directory::copy(from, to); break;
		case 2: case 3: op.ok = File(from).copy(to); break;
		case 4: case 5: op.ok = Directory::move(from, to); break;
		default: op.ok = File(from).move(to);
		}
		op.t1 = vf::now();
	}
}

static size_t mt_size(vf::Ctx& c, bool multi)
{
	int k = multi ? 9 : (int)c.rng.below(10);
	if (k == 0) return 0;
	if (k < 3) return c.rng.chance(0.5) ? 1 + c.rng.below(65535) : 1 + c.rng.below(5000);
	if (k < 5) return 65536;
	if (k == 5) return c.rng.chance(0.5) ? 65535 : 65537;
	size_t blocks = c.rng.chance(0.3) ? (size_t)c.rng.range(2, 16) : (size_t)c.rng.range(2, 5);
	size_t n = blocks * 65536;
	if (c.rng.chance(0.5)) n += (size_t)c.rng.range(0, 8000) - 4000;
	return n;
}

static void mode_copy_mt(vf::Ctx& c)
{
	Scratch sc(c);
	int nt = c.rng.range(2, (int)c.opt->param("maxthreads", 6));
	uint32_t salt = (uint32_t)c.rng.next();
	std::vector<MtThread> T((size_t)nt);
	uint64_t h = (uint64_t)nt;
	c.desc(vf::fmt("%d threads, each copying/moving its own files at the same time (calls: 0 Directory::copy(f,newname) 1 Directory::copy(f,dir) 2 File::copy(newname) "
	               "3 File::copy(dir) 4 Directory::move(f,newname) 5 Directory::move(f,dir) 6 File::move(newname)):", nt));
	size_t total = 0;
	for (int t = 0; t < nt; t++) {
		MtThread& th = T[(size_t)t];
		int nfiles = c.rng.range(2, 4);
		std::string d = vf::fmt("T%d files", t);
		for (int f = 0; f < nfiles; f++) {
			size_t n = mt_size(c, f == 0);
			count_size(c, n);
			th.contents.push_back(mt_content(t, f, salt, n));
			MtLive l = {sc.file(vf::fmt("t%d_s%d.bin", t, f)), f, false, true, false};
			if (!posix_write(l.path, th.contents.back())) { c.inconclusive("scratch-write-failed"); return; }
			th.live.push_back(l);
			d += vf::fmt(" %zu", n);
			h = vf::mix(h, n);
		}
		std::string dir = sc.dir(vf::fmt("t%d_d", t));
		int nops = c.rng.range(4, 8);
		d += " ops";
		for (int o = 0; o < nops; o++) {
			size_t e = c.rng.below((uint32_t)th.live.size());
			MtLive src = th.live[e];
			std::string base = src.path.substr(src.path.rfind('/') + 1), indirpath = dir + "/" + base;
			bool can_dir = !src.indir;
			for (size_t q = 0; q < th.live.size(); q++) if (th.live[q].path == indirpath) can_dir = false;
			for (size_t q = 0; q < th.gone.size(); q++) if (th.gone[q] == indirpath) can_dir = false;
			bool move = !src.original && c.rng.chance(0.4);
			bool intodir = can_dir && c.rng.chance(0.35);
			int kind = move ? (intodir ? 5 : c.rng.chance(0.5) ? 4 : 6) : (intodir ? (c.rng.chance(0.5) ? 1 : 3) : (c.rng.chance(0.5) ? 0 : 2));
			MtOp op;
			op.kind = kind;
			op.from = src.path;
			op.ok = false;
			op.t0 = op.t1 = 0;
			std::string dst;
			if (intodir) { dst = indirpath; sc.also(dst); op.to = dir; }
			else { dst = sc.file(vf::fmt("t%d_o%d.bin", t, o)); op.to = dst; }
			th.ops.push_back(op);
			if (move) { th.gone.push_back(src.path); th.live.erase(th.live.begin() + (long)e); }
			MtLive l = {dst, src.content, intodir, false, move};
			th.live.push_back(l);
			total += th.contents[(size_t)src.content].size();
			d += vf::fmt(" %d(f%d)", kind, src.content);
			h = vf::mix(h, (uint64_t)kind * 16 + (uint64_t)src.content);
			c.count((std::string("op.") + MT_KIND[kind]).c_str());
		}
		c.op(d);
	}
	c.count("copy_mt.threads", (uint64_t)nt);
	c.count(vf::fmt("copy_mt.cases-with-%d-threads", nt).c_str());
	{
		std::atomic<int> ready(0), go(0);
		std::vector<std::thread> thr;
		for (int t = 0; t < nt; t++) thr.push_back(std::thread(mt_worker, &T[(size_t)t], &ready, &go));
		while (ready.load() < nt) sched_yield();
		go.store(1);
		for (int t = 0; t < nt; t++) thr[(size_t)t].join();
	}
	// did calls of different threads really overlap in time?
	int overlaps = 0;
	for (int a = 0; a < nt; a++)
		for (int b = a + 1; b < nt; b++)
			for (size_t i = 0; i < T[(size_t)a].ops.size(); i++)
				for (size_t j = 0; j < T[(size_t)b].ops.size(); j++) {
					const MtOp &x = T[(size_t)a].ops[i], &y = T[(size_t)b].ops[j];
					if (x.kind < 4 && y.kind < 4 && x.t0 < y.t1 && y.t0 < x.t1) overlaps++;
				}
	c.count(overlaps ? "copy_mt.cases-with-copies-overlapping-in-time" : "copy_mt.cases-without-observed-overlap");
	c.count("copy_mt.pairs-of-copies-overlapping-in-time", (uint64_t)overlaps);
	size_t verified = 0;
	for (int t = 0; t < nt; t++) {
		MtThread& th = T[(size_t)t];
		for (size_t i = 0; i < th.ops.size(); i++)
			if (!th.ops[i].ok) c.fail(th.ops[i].kind >= 4 ? "copy_mt.move.returned-false" : "copy_mt.copy.returned-false", vf::fmt("thread %d call %zu %s returned false", t, i, MT_KIND[th.ops[i].kind]));
		for (size_t i = 0; i < th.live.size(); i++) {
			const MtLive& l = th.live[i];
			const Bytes& want = th.contents[(size_t)l.content];
			Bytes got;
			const char* key = l.original ? "copy_mt.source-changed" : l.moved ? "copy_mt.move.content" : "copy_mt.copy.content";
			if (!posix_read(l.path, got)) c.fail(l.original ? "copy_mt.source-missing" : l.moved ? "copy_mt.move.destination-missing" : "copy_mt.copy.destination-missing", vf::fmt("thread %d: %s does not exist", t, l.path.c_str()));
			if (got != want) {
				size_t off = 0, m = got.size() < want.size() ? got.size() : want.size();
				while (off < m && got[off] == want[off]) off++;
				c.fail(key, vf::fmt("thread %d, file %d (%zu bytes): ", t, l.content, want.size()) + differ(got, want) + mt_whose(got, off));
			}
			verified += got.size();
			c.count("copy_mt.files-verified");
		}
		for (size_t i = 0; i < th.gone.size(); i++) c.count(posix_exists(th.gone[i]) ? "observed.move-left-the-source" : "observed.move-removed-the-source");
	}
	c.count("copy_mt.KiB-verified", verified / 1024);
	c.count("copy_mt.KiB-copied", total / 1024);
	c.distinct(h);
	if (c.want_sample() && c.idx % 5 == 1) c.sample(c.curdesc().substr(0, 900) + "; every source and destination read with open/read equals its thread's pattern");
}

int main(int argc, char** argv)
{
	vf::Runner R;
	R.add("bin", mode_bin, "binary contents of every size 0..1100 and around 65536/131072/200000 + random sizes; all writers x all readers");
	R.add("lines", mode_lines, "NUL-free texts: text(), lines(), readLine loops vs the reference split");
	R.add("hist", mode_hist, "histories of put/write/append/<</close/reopen on one path");
	R.add("bom", mode_bom, "UTF-8+BOM / UTF-16LE / UTF-16BE files of random scalar sequences, and near-miss prefixes");
	R.add("copy", mode_copy, "Directory::copy/move and File::copy/move");
	R.add("big", mode_big, "sizes above 200000 bytes");
	R.add("fault", mode_fault, "copies and moves with a write that fails at a chosen byte (RLIMIT_FSIZE), and moves to another file system");
	R.add("sameobj", mode_sameobj, "histories of metadata queries, opens, writes, closes and reads through ONE long-lived File / TextFile object");
	R.add("copy_mt", mode_copy_mt, "2-6 threads copying/moving their own files at the same time (beyond the stated quantifier)");
	R.setup = [](const vf::Options& o) {
		g_dir = o.out + "/fs";
		mkdir(g_dir.c_str(), 0777);
		// another file system for the EXDEV branch of Directory::move
		struct stat a, b;
		std::string shm = "/dev/shm/vf_c17_" + std::to_string((long)getpid());
		if (mkdir(shm.c_str(), 0777) == 0 || errno == EEXIST) {
			if (stat(shm.c_str(), &a) == 0 && stat(g_dir.c_str(), &b) == 0 && a.st_dev != b.st_dev) g_shm = shm;
			else rmdir(shm.c_str());
		}
	};
	int rc = R.main(argc, argv);
	if (!g_shm.empty()) nftw(g_shm.c_str(), [](const char* p, const struct stat*, int, struct FTW*) { return remove(p); }, 16, FTW_DEPTH | FTW_PHYS);
	return rc;
}
