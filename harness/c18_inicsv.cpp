// C18: IniFile and TabularDataFile persist exactly what was set or written.
//
// INI oracle: a semantic model (section, key) -> value of the generated text plus the set() calls; after the
// IniFile is written (explicitly or by its destructor) a FRESH IniFile on the path must return every model value,
// and in the raw rewritten text the untouched comment lines and untouched entries must still appear in their
// original relative order (checked with an independent mini parser of the raw text).
// CSV oracle: the table that was written; rows read back by a fresh TabularDataFile must be equal cell for cell
// (strings bytewise, ints exactly, doubles to the 15 significant digits that "%.15g" writes).
// All scratch files live in <out>/fs, have per-case names and are removed when the case ends.
#include "common/runner.h"
#include <algorithm>
#include <math.h>
#include <limits.h>
#include <asl/IniFile.h>
#include <asl/TabularDataFile.h>
#include <asl/TextFile.h>

using namespace asl;
typedef std::string Bytes;

static std::string g_dir;

struct Scratch
{
	std::string base;
	std::vector<std::string> files;
	Scratch(vf::Ctx& c) { base = g_dir + "/" + c.opt->mode + "_" + std::to_string((unsigned long long)c.idx) + "_"; }
	std::string file(const std::string& tag)
	{
		std::string p = base + tag;
		files.push_back(p);
		unlink(p.c_str());
		return p;
	}
	~Scratch() { for (size_t i = 0; i < files.size(); i++) unlink(files[i].c_str()); }
};

static bool posix_read(const std::string& path, Bytes& out)
{
	out.clear();
	int fd = open(path.c_str(), O_RDONLY);
	if (fd < 0) return false;
	char buf[65536];
	for (;;) {
		ssize_t n = read(fd, buf, sizeof buf);
		if (n < 0 && errno == EINTR) continue;
		if (n <= 0) break;
		out.append(buf, (size_t)n);
	}
	close(fd);
	return true;
}

static bool posix_write(const std::string& path, const Bytes& b)
{
	int fd = open(path.c_str(), O_WRONLY | O_CREAT | O_TRUNC, 0666);
	if (fd < 0) return false;
	size_t off = 0;
	while (off < b.size()) {
		ssize_t n = write(fd, b.data() + off, b.size() - off);
		if (n < 0 && errno == EINTR) continue;
		if (n <= 0) { close(fd); return false; }
		off += (size_t)n;
	}
	close(fd);
	return true;
}

static String S(const Bytes& b) { return String(b.data(), (int)b.size()); }
static Bytes bytes_of(const String& s) { return Bytes(*s, (size_t)s.length()); }

// =================================================================== INI
static Bytes ident(vf::Ctx& c, int maxlen)
{
	static const char first[] = "abcdefghijklmnopqrstuvwxyzABCDEFGHIJKLMNOPQRSTUVWXYZ_";
	static const char rest[] = "abcdefghijklmnopqrstuvwxyzABCDEFGHIJKLMNOPQRSTUVWXYZ_0123456789";
	int n = c.rng.range(1, maxlen);
	Bytes s;
	s += first[c.rng.below(sizeof(first) - 1)];
	for (int i = 1; i < n; i++) s += rest[c.rng.below(sizeof(rest) - 1)];
	return s;
}

// a value without leading/trailing blanks and without line breaks
static Bytes ini_value(vf::Ctx& c, bool& crosses)
{
	static const char inner[] = "abcdefghijklmnopqrstuvwxyzABCDEFGHIJKLMNOPQRSTUVWXYZ0123456789  \t=#;[]/\\\"',.:!@$%^&*()-+_{}|<>?~";
	static const char* utf[] = {"\xc3\xa9", "\xe2\x82\xac", "\xf0\x9f\x98\x80", "\xc2\xa0"};
	int r = c.rng.below(100), n;
	if (r < 5) n = 0;
	else if (r < 65) n = c.rng.range(1, 12);
	else if (r < 95) n = c.rng.range(13, 60);
	else n = c.rng.range(200, 600);   // longer than one 255-byte chunk of the line reader
	Bytes v;
	for (int i = 0; i < n; i++) {
		if (c.rng.chance(0.03)) v += utf[c.rng.below(4)];
		else v += inner[c.rng.below(sizeof(inner) - 1)];
	}
	while (!v.empty() && (v[0] == ' ' || v[0] == '\t')) v.erase(0, 1);
	while (!v.empty() && (v[v.size() - 1] == ' ' || v[v.size() - 1] == '\t')) v.erase(v.size() - 1);
	crosses = v.size() > 240;
	return v;
}

enum { HEADER, ENTRY, COMMENT, BLANK };
struct Item { int kind; Bytes sec, key, val, raw; };
typedef std::pair<Bytes, Bytes> SK;   // (section, key); section "" = entries before the first header

struct IniCase
{
	std::vector<Item> items;
	Bytes text;
	std::vector<Bytes> sections;          // header names in order of first appearance
	std::map<SK, Bytes> model;
	std::map<SK, bool> touched;
	std::map<Bytes, std::vector<Bytes> > keysOf;
	bool globals, finalnl, crlf_any, lf_any;
};

static Bytes trim(const Bytes& s)
{
	size_t a = 0, b = s.size();
	while (a < b && (s[a] == ' ' || s[a] == '\t' || s[a] == '\r' || s[a] == '\n')) a++;
	while (b > a && (s[b - 1] == ' ' || s[b - 1] == '\t' || s[b - 1] == '\r' || s[b - 1] == '\n')) b--;
	return s.substr(a, b - a);
}

static Bytes new_key(vf::Ctx& c, IniCase& ic, const Bytes& sec)
{
	for (;;) {
		Bytes k = ident(c, c.rng.chance(0.8) ? 8 : 14);
		std::vector<Bytes>& ks = ic.keysOf[sec];
		if (std::find(ks.begin(), ks.end(), k) == ks.end()) { ks.push_back(k); return k; }
	}
}

static Bytes new_section(vf::Ctx& c, IniCase& ic)
{
	for (;;) {
		Bytes s = ident(c, 10);
		if (c.rng.chance(0.15) && s.size() >= 2) s.insert(1 + c.rng.below((uint32_t)s.size() - 1), 1, ". -"[c.rng.below(3)]);
		if (std::find(ic.sections.begin(), ic.sections.end(), s) == ic.sections.end()) { ic.sections.push_back(s); return s; }
	}
}

static int g_serial;

static void add_entry(vf::Ctx& c, IniCase& ic, const Bytes& sec, int indentStyle)
{
	Item it;
	it.kind = ENTRY;
	it.sec = sec;
	it.key = new_key(c, ic, sec);
	bool crosses;
	it.val = ini_value(c, crosses);
	if (crosses) c.count("ini.value-longer-than-a-255-chunk");
	static const char* ind[] = {"", "  ", "\t", "    "};
	Bytes indent = indentStyle < 4 ? ind[indentStyle] : ind[c.rng.below(4)];
	static const char* eq[] = {"=", "=", " = ", " = ", "= ", " =", "  =  ", "\t=\t"};
	it.raw = indent + it.key + eq[c.rng.below(8)] + it.val;
	if (it.val.empty() && c.rng.chance(0.5)) it.raw = indent + it.key + "=";
	ic.items.push_back(it);
	ic.model[SK(sec, it.key)] = it.val;
	ic.touched[SK(sec, it.key)] = false;
	c.count("ini.text.entry");
	if (!indent.empty()) c.count("ini.text.indented-entry");
}

static void add_comment(vf::Ctx& c, IniCase& ic, const Bytes& sec)
{
	static const char* body[] = {" note", " key = value", "[section]", " a=b", "", " ;;", " # nested", "\tTabbed", " 100%", " old_key=1 ; was 2"};
	Item it;
	it.kind = COMMENT;
	it.sec = sec;
	it.raw = (c.rng.chance(0.15) ? "  " : "");
	it.raw += (c.rng.chance(0.5) ? "#" : ";");
	it.raw += body[c.rng.below(10)];
	if (c.rng.chance(0.85)) it.raw += vf::fmt(" c%d", ++g_serial);
	ic.items.push_back(it);
	c.count(it.raw.find('#') < it.raw.find(';') ? "ini.text.comment-#" : "ini.text.comment-;");
}

static void add_blank(vf::Ctx& c, IniCase& ic, const Bytes& sec)
{
	Item it;
	it.kind = BLANK;
	it.sec = sec;
	it.raw = c.rng.chance(0.15) ? "  " : "";
	ic.items.push_back(it);
	c.count("ini.text.blank-line");
}

// nonl = the stratum "last line is an entry and the text has no final newline"
static void gen_ini(vf::Ctx& c, IniCase& ic, bool nonl)
{
	g_serial = 0;
	ic.globals = false;
	int indentStyle = c.rng.chance(0.6) ? 0 : c.rng.range(1, 4);   // 4 = mixed
	int nsec = c.rng.chance(0.06) ? 0 : c.rng.range(1, 5);
	if (c.rng.chance(0.1) || (nonl && nsec == 0)) {   // entries before the first section header
		int n = c.rng.range(1, 3);
		for (int i = 0; i < n; i++) {
			int r = c.rng.below(10);
			if (r < 2) add_comment(c, ic, "");
			else if (r < 3) add_blank(c, ic, "");
			add_entry(c, ic, "", indentStyle);
		}
		ic.globals = true;
		c.count("ini.text.has-entries-before-first-section");
	} else if (c.rng.chance(0.3)) {
		int n = c.rng.range(1, 3);
		for (int i = 0; i < n; i++) if (c.rng.chance(0.7)) add_comment(c, ic, ""); else add_blank(c, ic, "");
	}
	for (int s = 0; s < nsec; s++) {
		Bytes sec;
		if (s > 0 && c.rng.chance(0.05)) { sec = ic.sections[c.rng.below((uint32_t)ic.sections.size())]; c.count("ini.text.section-header-repeated"); }
		else sec = new_section(c, ic);
		Item h;
		h.kind = HEADER;
		h.sec = sec;
		h.raw = "[" + sec + "]";
		ic.items.push_back(h);
		c.count("ini.text.section");
		int n = c.rng.range(0, 6);
		for (int i = 0; i < n; i++) {
			int r = c.rng.below(10);
			if (r < 7) add_entry(c, ic, sec, indentStyle);
			else if (r < 9) add_comment(c, ic, sec);
			else add_blank(c, ic, sec);
		}
		if (s + 1 < nsec && c.rng.chance(0.6)) add_blank(c, ic, sec);
	}
	if (nonl && (ic.items.empty() || ic.items.back().kind != ENTRY)) add_entry(c, ic, ic.items.empty() ? Bytes() : ic.items.back().sec, indentStyle);
	if (nonl && ic.items.back().sec.empty()) ic.globals = true;
	// line ends
	int eol = c.rng.below(5);   // 0,1 LF; 2,3 CRLF; 4 mixed
	ic.crlf_any = ic.lf_any = false;
	ic.text.clear();
	for (size_t i = 0; i < ic.items.size(); i++) {
		ic.text += ic.items[i].raw;
		bool last = i + 1 == ic.items.size();
		bool nl = true;
		if (last) {
			if (nonl) nl = false;
			else if (ic.items[i].kind == ENTRY) nl = true;   // the other stratum
			else nl = c.rng.chance(0.5);
			// a text whose last line is blank-without-newline ends in its previous newline: fine either way
		}
		if (nl) {
			bool crlf = eol == 2 || eol == 3 || (eol == 4 && c.rng.chance(0.5));
			ic.text += crlf ? "\r\n" : "\n";
			(crlf ? ic.crlf_any : ic.lf_any) = true;
		}
		if (last) ic.finalnl = nl;
	}
	if (ic.items.empty()) ic.finalnl = false;
	if (!nonl && !ic.items.empty() && ic.finalnl && c.rng.chance(0.1)) { ic.text += ic.crlf_any ? "\r\n\r\n" : "\n\n"; c.count("ini.text.extra-blank-lines-at-end"); }
	c.count(ic.items.empty() ? "ini.text.empty" : ic.finalnl ? "ini.text.with-final-newline" : "ini.text.without-final-newline");
	if (ic.crlf_any && ic.lf_any) c.count("ini.text.mixed-LF-CRLF");
	else if (ic.crlf_any) c.count("ini.text.CRLF");
	else if (ic.lf_any) c.count("ini.text.LF");
}

// ---- independent reading of a raw INI text into tokens: "C|<comment>" and "E|<section>|<key>|<value>"
struct Tok { bool comment; Bytes text; SK sk; };

static std::vector<Tok> tokens_of(const Bytes& raw)
{
	std::vector<Tok> v;
	Bytes sec;
	size_t a = 0;
	while (a <= raw.size()) {
		size_t p = raw.find('\n', a);
		Bytes line = p == Bytes::npos ? raw.substr(a) : raw.substr(a, p - a);
		a = p == Bytes::npos ? raw.size() + 1 : p + 1;
		if (!line.empty() && line[line.size() - 1] == '\r') line.erase(line.size() - 1);
		Bytes t = trim(line);
		if (t.empty()) continue;
		if (line[0] == '[') {
			size_t e = line.find(']');
			if (e != Bytes::npos) sec = line.substr(1, e - 1);
			continue;
		}
		Tok k;
		if (t[0] == '#' || t[0] == ';') { k.comment = true; k.text = "C|" + t; v.push_back(k); continue; }
		size_t q = line.find('=');
		if (q == Bytes::npos) continue;
		k.comment = false;
		k.sk = SK(sec, trim(line.substr(0, q)));
		k.text = "E|" + sec + "|" + k.sk.second + "|" + trim(line.substr(q + 1));
		v.push_back(k);
	}
	return v;
}

static Bytes api_name(const SK& sk) { return sk.first.empty() ? sk.second : sk.first + "/" + sk.second; }

static void ini_case(vf::Ctx& c, bool nonl)
{
	Scratch sc(c);
	std::string path = sc.file("c.ini");
	IniCase ic;
	bool minimal = nonl && c.idx == 0;   // the smallest member of the stratum, as a readable witness
	if (minimal) {
		const char* L[] = {"[s]", "a=1", "b=2"};
		for (int i = 0; i < 3; i++) {
			Item it;
			it.kind = i ? ENTRY : HEADER;
			it.sec = "s";
			it.raw = L[i];
			if (i) { it.key = Bytes(1, L[i][0]); it.val = Bytes(1, L[i][2]); ic.model[SK("s", it.key)] = it.val; ic.touched[SK("s", it.key)] = false; ic.keysOf["s"].push_back(it.key); }
			ic.items.push_back(it);
		}
		ic.sections.push_back("s");
		ic.text = "[s]\na=1\nb=2";
		ic.globals = ic.finalnl = ic.crlf_any = false;
		ic.lf_any = true;
	} else
		gen_ini(c, ic, nonl);
	c.desc("INI text '" + vf::vis(ic.text, 900) + "'");
	if (!posix_write(path, ic.text)) { c.inconclusive("scratch-write-failed"); return; }
	int nsets = minimal || c.rng.chance(0.1) ? 0 : c.rng.range(1, 20);
	bool explicitWrite = c.rng.chance(0.4);
	std::vector<Bytes> newsecs;
	// a copy written to another path in mid-history must hold the values as of that moment, and must not stop the object's
	// own file from being brought up to date later (explicitly or on destruction)
	std::string otherPath = path + ".copy";
	std::map<SK, Bytes> otherModel;
	bool otherWritten = false;
	unlink(otherPath.c_str());
	{
		IniFile ini(S(path));
		if (!ini.ok()) c.fail("ini.open", "IniFile::ok() is false for an existing readable file");
		for (int i = 0; i < nsets; i++) {
			SK sk;
			int r = c.rng.below(10);
			std::vector<SK> existing;
			for (std::map<SK, Bytes>::iterator it = ic.model.begin(); it != ic.model.end(); ++it)
				if (!it->first.first.empty() || ic.globals) existing.push_back(it->first);
			const char* kind;
			if (r < 4 && !existing.empty()) { sk = existing[c.rng.below((uint32_t)existing.size())]; kind = "existing-key"; }
			else if (r < 7 && (!ic.sections.empty() || ic.globals)) {
				// new key in a section that the text (or an earlier set) already has; "" = before the first header
				uint32_t ns = (uint32_t)ic.sections.size() + (ic.globals ? 1 : 0);
				uint32_t k = c.rng.below(ns);
				Bytes sec = k < ic.sections.size() ? ic.sections[k] : Bytes();
				sk = SK(sec, new_key(c, ic, sec));
				kind = sec.empty() ? "new-key-before-first-section" : "new-key-in-existing-section";
			} else {
				Bytes sec = new_section(c, ic);
				newsecs.push_back(sec);
				sk = SK(sec, new_key(c, ic, sec));
				kind = "new-section";
			}
			bool crosses;
			Bytes v = ini_value(c, crosses);
			Bytes name = api_name(sk);
			bool viaSet = c.rng.chance(0.7);
			c.op(vf::fmt("%s('%s','%s')", viaSet ? "set" : "ini[]=", vf::vis(name).c_str(), vf::vis(v, 80).c_str()));
			if (viaSet) ini.set(S(name), S(v));
			else ini[S(name)] = S(v);
			ic.model[sk] = v;
			ic.touched[sk] = true;
			c.count((std::string("ini.set.") + kind).c_str());
			c.count(viaSet ? "ini.api.set()" : "ini.api.operator[]=");
			if (v.empty()) c.count("ini.set.empty-value");
			if (c.rng.chance(0.05)) { c.op("write()"); ini.write(); c.count("ini.write.explicit-between-sets"); }
			if (c.rng.chance(0.08)) { c.op("write(other path)"); ini.write(S(otherPath)); otherModel = ic.model; otherWritten = true; c.count("ini.write.to-another-path"); }
			if (c.rng.chance(0.1)) { const IniFile& ci = ini; (void)ci.has(S(name)); (void)ci(S(name), "dflt"); }
		}
		if (explicitWrite) { c.op("write()"); ini.write(); c.count("ini.write.explicit"); }
		else c.count("ini.write.by-destructor");
		c.op("~IniFile");
	}
	Bytes raw;
	if (!posix_read(path, raw)) c.fail("ini.file-missing", "the INI file is gone after write");
	// 1. a fresh IniFile returns every set value and every untouched pre-existing value
	{
		bool sw = c.rng.chance(0.5);
		IniFile fresh(S(path), sw);
		c.count(sw ? "ini.fresh.shouldwrite=true" : "ini.fresh.shouldwrite=false");
		const IniFile& cf = fresh;
		if (!cf.ok()) c.fail("ini.fresh.open", "a fresh IniFile on the written path is not ok()");
		for (std::map<SK, Bytes>::iterator it = ic.model.begin(); it != ic.model.end(); ++it) {
			Bytes name = api_name(it->first);
			Bytes got = bytes_of(cf[S(name)]);
			bool t = ic.touched[it->first];
			c.count(t ? "ini.checked.set-value" : "ini.checked.untouched-value");
			if (got != it->second) {
				bool lastEntry = !ic.items.empty() && ic.items.back().kind == ENTRY && SK(ic.items.back().sec, ic.items.back().key) == it->first;
				std::string key = std::string(t ? "ini.set-value" : "ini.untouched-value") + (got.empty() ? ".lost" : ".wrong") +
				                  (lastEntry && !ic.finalnl ? ".last-line-without-newline" : "");
				c.fail(key, vf::fmt("fresh[\"%s\"] = '%s', expected '%s'; file after write: '%s'", vf::vis(name).c_str(), vf::vis(got, 200).c_str(),
				                    vf::vis(it->second, 200).c_str(), vf::vis(raw, 1200).c_str()));
			}
		}
	}
	if (otherWritten) {
		IniFile copy(S(otherPath), false);
		const IniFile& cc = copy;
		if (!cc.ok()) c.fail("ini.copy.open", "the file written with write(other path) cannot be opened");
		for (std::map<SK, Bytes>::iterator it = otherModel.begin(); it != otherModel.end(); ++it) {
			Bytes name = api_name(it->first);
			Bytes got = bytes_of(cc[S(name)]);
			if (got != it->second) { c.fail("ini.copy.value", vf::fmt("copy[\"%s\"] = '%s', expected '%s'", vf::vis(name).c_str(), vf::vis(got, 200).c_str(), vf::vis(it->second, 200).c_str())); break; }
		}
		unlink(otherPath.c_str());
	}
	// 2. untouched comment lines and untouched entries keep their relative order in the raw text
	std::vector<Tok> before = tokens_of(ic.text), after = tokens_of(raw);
	size_t j = 0, nchecked = 0;
	for (size_t i = 0; i < before.size(); i++) {
		if (!before[i].comment && ic.touched[before[i].sk]) continue;
		nchecked++;
		size_t k = j;
		while (k < after.size() && after[k].text != before[i].text) k++;
		if (k == after.size()) {
			bool anywhere = false;
			for (size_t m = 0; m < after.size(); m++) if (after[m].text == before[i].text) anywhere = true;
			bool lastLine = i + 1 == before.size() && !ic.finalnl;
			std::string key = std::string(before[i].comment ? "ini.order.comment" : "ini.order.untouched-entry") + (anywhere ? ".moved" : ".missing") +
			                  (lastLine ? ".last-line-without-newline" : "");
			c.fail(key, vf::fmt("line '%s' of the original is %s in the rewritten file: '%s'", vf::vis(before[i].text).c_str(),
			                    anywhere ? "out of order" : "absent", vf::vis(raw, 1200).c_str()));
		}
		j = k + 1;
	}
	c.count("ini.order.untouched-lines-checked", nchecked);
	if (raw == ic.text) c.count("ini.file-left-byte-identical");
	if (!ic.model.empty()) c.distinct(vf::fnv(c.curdesc()));
	if (c.want_sample() && c.idx % 61 == 9) c.sample(c.curdesc().substr(0, 900) + " => fresh IniFile returns all " + std::to_string(ic.model.size()) + " values; order of untouched lines kept");
}

static void mode_ini(vf::Ctx& c) { ini_case(c, false); }
static void mode_ini_nonl(vf::Ctx& c) { ini_case(c, true); }

// =================================================================== CSV
struct Cell { int kind; int i; double d; Bytes s; };   // 0 int, 1 double, 2 string (may be empty)

static Bytes fmt15(double x)
{
	char b[64];
	snprintf(b, sizeof b, "%.15g", x);
	if (!strcmp(b, "-0")) return "0";
	return b;
}

// magnitudes 10^elo .. 10^ehi
static double gen_double(vf::Ctx& c, int elo, int ehi, bool tiny)
{
	int k = c.rng.below(10);
	if (!tiny && k == 0) return (double)c.rng.range(-1000, 1000);
	if (!tiny && k == 1) {
		static const double sp[] = {0.0, -0.0, 0.1, 0.5, 1e15, 123456789012345.0, 999999999999999.0, 1e-5, 0.0001, 1e22, 1e-290, 1e300, 9.99999999999999e299,
		                            0.3, 2.5e-7, 1.0 / 3, 2.0 / 3, 3.141592653589793, 1e16, 12345678.9, 4.9e-5, 1e-290, 123456789012345.6, 0.000123456789012345};
		return sp[c.rng.below(sizeof(sp) / sizeof(sp[0]))];
	}
	if (k < 6) {   // a decimal of 1..17 significant digits
		int nd = c.rng.range(1, 17);
		Bytes s = c.rng.chance(0.5) ? "-" : "";
		s += (char)('1' + c.rng.below(9));
		if (nd > 1) s += '.';
		for (int i = 1; i < nd; i++) s += (char)('0' + c.rng.below(10));
		int e = c.rng.range(elo, ehi - 1);
		s += vf::fmt("e%d", e);
		return strtod(s.c_str(), 0);
	}
	double lo = elo * log(10.0), hi = ehi * log(10.0);
	double m = exp(lo + c.rng.unit() * (hi - lo));
	if (k < 8) {   // near 1: magnitudes people use
		if (!tiny) m = exp(c.rng.unit() * 30 - 15);
	}
	return c.rng.chance(0.5) ? -m : m;
}

static Bytes csv_string(vf::Ctx& c)
{
	static const char alpha[] = "abcdefghijklmnopqrstuvwxyzABCDEFGHIJKLMNOPQRSTUVWXYZ";
	static const char special[] = ",;\"' ";
	int n = c.rng.range(1, 20);
	// one string cell in 25 is long, so that rows of very different lengths (around the reader's 254-byte chunk and beyond) follow each other
	if (c.rng.chance(0.04)) { static const int L[] = {120, 200, 250, 253, 254, 255, 300, 508, 520, 800, 1100}; n = L[c.rng.below(11)] + c.rng.range(-2, 2); c.count("csv.cell.long-string"); }
	Bytes s;
	double ps = c.rng.chance(0.5) ? 0.4 : 0.1;
	for (int i = 0; i < n; i++) {
		if (c.rng.chance(ps)) s += special[c.rng.below(5)];
		else if (i > 0 && c.rng.chance(0.05)) s += (char)('0' + c.rng.below(10));
		else s += alpha[c.rng.below(52)];
	}
	return s;
}

static void csv_case(vf::Ctx& c, bool tiny)
{
	Scratch sc(c);
	std::string path = sc.file("t.csv");
	int ncols = c.rng.range(1, 8), nrows = c.rng.chance(0.05) ? 0 : c.rng.range(1, 30);
	if (tiny) { ncols = c.rng.range(1, 4); nrows = c.rng.range(1, 8); }
	if (tiny && c.idx == 0) ncols = nrows = 1;
	std::vector<Bytes> names;
	while ((int)names.size() < ncols) {
		Bytes nm = ident(c, 8);
		if (nm[0] == '_') nm[0] = 'c';
		if (std::find(names.begin(), names.end(), nm) == names.end()) names.push_back(nm);
	}
	// column tendencies: 0 ints, 1 doubles, 2 strings, 3 anything
	std::vector<int> tend(ncols);
	for (int j = 0; j < ncols; j++) tend[j] = c.rng.below(4);
	std::vector<std::vector<Cell> > table(nrows, std::vector<Cell>(ncols));
	Bytes canon;
	bool nontrivial = false;
	for (int i = 0; i < nrows; i++)
		for (int j = 0; j < ncols; j++) {
			Cell& x = table[i][j];
			int t = tend[j] == 3 || c.rng.chance(0.1) ? (int)c.rng.below(3) : tend[j];
			if (tiny && (c.idx == 0 || c.rng.chance(0.7))) t = 1;
			x.kind = t;
			if (t == 0) {
				int r = c.rng.below(10);
				x.i = r == 0 ? INT_MIN : r == 1 ? INT_MAX : r < 5 ? c.rng.range(-100, 100) : (int)c.rng.next();
				canon += vf::fmt("i%d|", x.i);
				c.count("csv.cell.int");
			} else if (t == 1) {
				x.d = tiny ? gen_double(c, -300, -290, true) : gen_double(c, -290, 300, false);
				if (tiny && c.idx == 0) x.d = 1.23456789012345e-300;   // readable witness
				canon += "d" + fmt15(x.d) + "|";
				c.count("csv.cell.double");
				double a = fabs(x.d);
				if (a != 0 && a < 1e-100) c.count("csv.cell.double.below-1e-100");
				if (a > 1e100) c.count("csv.cell.double.above-1e100");
				if (a != 0 && (a < 1e-5 || a >= 1e15)) c.count("csv.cell.double.written-with-exponent");
			} else {
				if (c.rng.chance(0.15)) { x.s = ""; c.count("csv.cell.empty-string"); }
				else {
					x.s = csv_string(c);
					c.count("csv.cell.string");
					if (x.s.find(',') != Bytes::npos) c.count("csv.cell.string.with-comma");
					if (x.s.find(';') != Bytes::npos) c.count("csv.cell.string.with-semicolon");
					if (x.s.find('"') != Bytes::npos) c.count("csv.cell.string.with-double-quote");
					if (x.s.find('\'') != Bytes::npos) c.count("csv.cell.string.with-apostrophe");
					if (x.s[0] == ' ' || x.s[x.s.size() - 1] == ' ') c.count("csv.cell.string.leading-or-trailing-space");
					if (x.s.find_first_of(",;\"' ") != Bytes::npos) nontrivial = true;
				}
				canon += "s" + x.s + "|";
			}
			if (t != 2) nontrivial = true;
		}
	Bytes header;
	for (int j = 0; j < ncols; j++) header += (j ? "," : "") + names[j];
	c.desc(vf::fmt("table %dx%d, columns %s", nrows, ncols, header.c_str()));
	if (nrows) {
		Bytes r0;
		for (int j = 0; j < ncols; j++) { const Cell& x = table[0][j]; r0 += (j ? " | " : "") + (x.kind == 0 ? std::to_string(x.i) : x.kind == 1 ? vf::fmt("%.17g", x.d) : "'" + x.s + "'"); }
		c.op("row 0: " + r0);
	}
	// ---- write
	bool arrayrows = c.rng.chance(0.25);
	std::vector<char> samerow((size_t)nrows, 0);
	if (arrayrows)
		for (int i = 0; i + 1 < nrows; i++)
			if (c.rng.chance(0.3)) { table[(size_t)i + 1] = table[(size_t)i]; samerow[(size_t)i + 1] = 1; }
	{
		int how = c.rng.below(3);
		Array<String> cols;
		for (int j = 0; j < ncols; j++) cols << S(names[j]);
		TabularDataFile* pf;
		if (how == 2) pf = new TabularDataFile(S(path), cols);
		else pf = new TabularDataFile(S(path));
		struct Del { TabularDataFile* p; ~Del() { delete p; } } del = {pf};
		TabularDataFile& f = *pf;
		if (how == 0) f.columns(S(header));
		else if (how == 1) f.columns(cols);
		c.count(how == 0 ? "csv.write.columns(\"a,b,c\")" : how == 1 ? "csv.write.columns(Array)" : "csv.write.constructor-with-columns");
		if (!f.ok()) c.fail("csv.open.write", "TabularDataFile is not ok() after columns()");
		if (c.rng.chance(0.3)) { f.flushEvery(c.rng.range(1, 5)); c.count("csv.write.flushEvery"); }
		if (!arrayrows)
		for (int i = 0; i < nrows; i++)
			for (int j = 0; j < ncols; j++) {
				const Cell& x = table[i][j];
				if (x.kind == 0) f << Var(x.i);
				else if (x.kind == 1) f << Var(x.d);
				else if (c.rng.chance(0.5)) f << Var(S(x.s));
				else f << Var(x.s.c_str());
			}
		else {
			// whole rows handed over as one array Var (operator<< writes an ARRAY as a complete row); the caller keeps its array, and a
			// row object that is written again must be written again
			Array<Var> r;
			Var v;
			for (int i = 0; i < nrows; i++) {
				if (!samerow[(size_t)i]) {
					r = Array<Var>();
					for (int j = 0; j < ncols; j++) {
						const Cell& x = table[(size_t)i][(size_t)j];
						if (x.kind == 0) r << Var(x.i); else if (x.kind == 1) r << Var(x.d); else r << Var(S(x.s));
					}
					v = r;
				} else c.count("csv.write.same-row-object-written-again");
				f << v;
				c.count("csv.write.rows-as-array");
				if (r.length() != ncols || v.length() != ncols)
					c.fail("csv.array-row.source-changed", vf::fmt("after f << row (an array Var of %d cells) the caller's array has %d and its Var %d elements", ncols, r.length(), v.length()));
				for (int j = 0; j < ncols; j++) {
					const Cell& x = table[(size_t)i][(size_t)j];
					const Var& e = v[j];
					bool same = x.kind == 0 ? (e.is(Var::INT) && (int)e == x.i) : x.kind == 1 ? (e.is(Var::NUMBER) && ((double)e == x.d || x.d != x.d)) : (e.is(Var::STRING) && bytes_of(e.toString()) == x.s);
					if (!same) c.fail("csv.array-row.source-changed", vf::fmt("cell %d of the caller's row changed while it was written", j));
				}
			}
		}
	}
	Bytes raw;
	posix_read(path, raw);
	// ---- read back with a fresh object
	std::vector<std::vector<Var> > got;
	{
		TabularDataFile r(S(path));
		int how = c.rng.below(4);
		if (how != 0 || c.rng.chance(0.5)) {
			const Array<String>& cn = r.columns();
			bool ok = cn.length() == ncols;
			for (int j = 0; ok && j < ncols; j++) ok = bytes_of(cn[j]) == names[j];
			if (!ok) c.fail("csv.columns", vf::fmt("columns() returned %d names, %d were written; file: '%s'", cn.length(), ncols, vf::vis(raw, 600).c_str()));
			c.count("csv.read.columns()");
		}
		if (how == 0) {
			Array<Array<Var> > d = r.data();
			for (int i = 0; i < d.length(); i++) {
				std::vector<Var> row;
				for (int j = 0; j < d[i].length(); j++) row.push_back(d[i][j]);
				got.push_back(row);
			}
			c.count("csv.read.data()");
		} else {
			int guard = 0;
			while (r.nextRow()) {
				std::vector<Var> row;
				if (how == 1) { for (int j = 0; j < r.row().length(); j++) row.push_back(r.row()[j]); }
				else if (how == 2) { for (int j = 0; j < ncols; j++) row.push_back(r[j]); if (r.row().length() != ncols) row.resize(r.row().length()); }
				else { for (int j = 0; j < ncols; j++) row.push_back(r[S(names[j])]); if (r.row().length() != ncols) row.resize(r.row().length()); }
				got.push_back(row);
				if (++guard > nrows + 5) break;
			}
			c.count(how == 1 ? "csv.read.nextRow+row()" : how == 2 ? "csv.read.nextRow+[index]" : "csv.read.nextRow+[name]");
		}
	}
	if ((int)got.size() != nrows) c.fail("csv.row-count", vf::fmt("%zu rows read, %d written; file: '%s'", got.size(), nrows, vf::vis(raw, 800).c_str()));
	for (int i = 0; i < nrows; i++) {
		if ((int)got[i].size() != ncols) c.fail("csv.cell-count", vf::fmt("row %d has %zu cells, %d written; file: '%s'", i, got[i].size(), ncols, vf::vis(raw, 800).c_str()));
		for (int j = 0; j < ncols; j++) {
			const Cell& x = table[i][j];
			const Var& v = got[i][j];
			if (x.kind == 2) {
				if (!v.is(Var::STRING)) c.fail("csv.string-read-as-other-type", vf::fmt("row %d col %d: wrote string '%s', read %s", i, j, vf::vis(x.s).c_str(), *v.toString()));
				Bytes g = bytes_of(v.toString());
				if (g != x.s) c.fail("csv.string", vf::fmt("row %d col %d: wrote '%s', read '%s'", i, j, vf::vis(x.s).c_str(), vf::vis(g).c_str()));
			} else {
				if (!v.is(Var::NUMBER)) c.fail("csv.number-read-as-other-type", vf::fmt("row %d col %d: wrote number %s, read '%s'", i, j, x.kind == 0 ? std::to_string(x.i).c_str() : fmt15(x.d).c_str(), *v.toString()));
				double y = v;
				if (x.kind == 0) { if (y != (double)x.i) c.fail("csv.int", vf::fmt("row %d col %d: wrote %d, read %.17g", i, j, x.i, y)); }
				else if (fmt15(y) != fmt15(x.d)) {
					double a = fabs(x.d);
					c.fail(a != 0 && a < 1e-290 ? "csv.double.15-digits.below-1e-290" : "csv.double.15-digits",
					       vf::fmt("row %d col %d: wrote %s (%.17g), read back %s (%.17g)", i, j, fmt15(x.d).c_str(), x.d, fmt15(y).c_str(), y));
				}
			}
			c.count("csv.cells-compared");
		}
	}
	c.count("csv.rows", nrows);
	if (nrows == 0) c.count("csv.table-without-rows");
	if (nrows && nontrivial) c.distinct(vf::fnv(canon));
	if (c.want_sample() && c.idx % 71 == 4) c.sample(c.curdesc().substr(0, 500) + " => read back equal cell for cell");
}

static void mode_csv(vf::Ctx& c) { csv_case(c, false); }
static void mode_csv_tiny(vf::Ctx& c) { csv_case(c, true); }

int main(int argc, char** argv)
{
	vf::Runner R;
	R.add("ini", mode_ini, "INI texts + up to 20 set() calls; texts whose last line is an entry always end in a newline");
	R.add("ini_nonl", mode_ini_nonl, "stratum: the last line of the text is an entry and has no final newline");
	R.add("csv", mode_csv, "tables up to 30x8 of ints, doubles 1e-290..1e300, empty strings and strings with , ; \" ' and spaces");
	R.add("csv_tiny", mode_csv_tiny, "stratum: doubles of magnitude 1e-300..1e-290");
	R.setup = [](const vf::Options& o) {
		g_dir = o.out + "/fs";
		mkdir(g_dir.c_str(), 0777);
	};
	return R.main(argc, argv);
}
