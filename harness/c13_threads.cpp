// C13: Thread start/join/finished, ThreadGroup, parallel_for, parallel_invoke run every task exactly once with
// effects visible after join; Semaphore and Condition never lose a post/signal under the documented protocol.
#include "common/runner.h"
#include "common/sched.h"
#include <asl/Thread.h>
#include <asl/Mutex.h>
#include <asl/Array.h>
#include <atomic>
#include <climits>
#include <vector>

using namespace asl;

// point ids (from asl/defs.h under ASL_VERIF)
static const int PT[] = {ASL_VP_THREAD_CREATED, ASL_VP_THREAD_ENTRY, ASL_VP_THREAD_READY, ASL_VP_THREAD_HANDOVER_DONE, ASL_VP_THREAD_EXIT, ASL_VP_THREAD_JOIN, ASL_VP_THREAD_JOINED};
static const char* PTN[] = {"created", "entry", "ready", "handover-done", "exit", "join", "joined"};
enum { NPT = 7 };

// delay pattern: forces a long delay at the selected point kinds (systematic delay injection), or seeded jitter
static std::string setDelays(vf::Ctx& c, uint64_t pattern)
{
	// pattern: 0 = no delays; 1..127 = mask over PT[] delayed always by up to 400us; >=128 = random jitter
	std::string d;
	if (pattern == 0) { sched::off(); sched::jitter(1, 0.0, 0); return "no delays"; }
	if (pattern < 128) {
		uint32_t mask = 0;
		for (int i = 0; i < NPT; i++) if (pattern & (1u << i)) { mask |= 1u << PT[i]; d += std::string(d.size() ? "+" : "") + PTN[i]; }
		sched::jitter(c.rng.next(), 1.0, 300, mask);
		return "delay at " + d;
	}
	uint64_t seed = c.rng.next();
	sched::jitter(seed, 0.3, 200);
	return vf::fmt("jitter p=0.3 seed %llu", (unsigned long long)seed);
}

static void busy(int kind, vf::Rng* r = 0)
{
	(void)r;
	if (kind == 0) return;                                   // empty body: the thread may end before its creator resumes
	if (kind == 1) { volatile int x = 0; for (int i = 0; i < 2000; i++) x += i; return; }
	if (kind == 2) { struct timespec ts = {0, 200000}; nanosleep(&ts, 0); return; }
	struct timespec ts = {0, 2000000};
	nanosleep(&ts, 0);
}

// ---------------------------------------------------------------- parallel_for: every (i0, i1, nth)
static void checkPfor(vf::Ctx& c, int i0, int i1, int nth, bool useDefaultThreads)
{
	enum { OFF = 4096, N = 3 * 4096 };
	static std::atomic<int> counts[N];
	static int plain[N];
	int lo = i0 < i1 ? i0 : i1, hi = i0 < i1 ? i1 : i0;
	int a = lo - 64 + OFF, b = hi + 64 + OFF;
	if (a < 0 || b > N) return;
	for (int k = a; k < b; k++) { counts[k] = 0; plain[k] = 0; }
	std::atomic<int> outside(0);
	auto f = [&](int i) {
		int k = i + OFF;
		if (k < 0 || k >= N) { outside++; return; }
		counts[k]++;
		plain[k] = i * 7 + 1;   // plain write: must be visible (and race-free) once parallel_for has returned
	};
	if (useDefaultThreads) Thread::parallel_for(i0, i1, f);
	else Thread::parallel_for(i0, i1, f, nth);
	if (outside) c.fail("parallel_for.index-far-outside-range", vf::fmt("%d calls", (int)outside));
	for (int k = a; k < b; k++) {
		int i = k - OFF, want = (i >= i0 && i < i1) ? 1 : 0, got = counts[k];
		if (got != want) c.fail(want ? (got == 0 ? "parallel_for.index-not-invoked" : "parallel_for.index-invoked-twice") : "parallel_for.index-outside-range-invoked",
		                        vf::fmt("index %d invoked %d times (range [%d,%d), %d threads)", i, got, i0, i1, nth));
		if (want && plain[k] != i * 7 + 1) c.fail("parallel_for.effect-not-visible-after-return", vf::fmt("index %d", i));
	}
}

static void mode_pfor(vf::Ctx& c)
{
	// idx enumerates (i0, i1) pairs; all nth 1..12 inside the case
	int i0 = (int)(c.idx / 44) - 3, i1 = (int)(c.idx % 44) - 3;
	if (i0 > 40) return;
	long stride = c.opt->param("nthstride", 1);
	std::string how = setDelays(c, c.idx % 5 == 0 ? 128 : 0);
	for (int nth = 1 + (int)(c.idx % stride); nth <= 12; nth += (int)stride) {
		c.desc(vf::fmt("parallel_for(%d, %d, f, %d) %s", i0, i1, nth, how.c_str()));
		checkPfor(c, i0, i1, nth, false);
		c.evals(1);
		c.distinct(((uint64_t)(i0 + 3) * 44 + (i1 + 3)) * 16 + nth);
	}
	if (c.idx % 7 == 0) { c.desc(vf::fmt("parallel_for(%d, %d, f) default thread count", i0, i1)); checkPfor(c, i0, i1, 8, true); }
	sched::off();
	if (c.want_sample()) c.sample(vf::fmt("parallel_for(%d, %d, f, n) for n = 1..12", i0, i1));
}

// several application threads calling parallel_for through the same call site (same functor type) at once, each on its
// own counters (beyond the stated quantifier, which has one caller; a parallel_for that keeps per-call state in a
// function-static fails here)
static void mode_pfor_mt(vf::Ctx& c)
{
	int callers = c.rng.range(2, 4), rounds = (int)c.opt->param("rounds", 30);
	uint64_t seed = c.rng.next();
	c.desc(vf::fmt("%d application threads x %d rounds of parallel_for(i0, i1, f, n) through one call site, private counters", callers, rounds));
	std::atomic<int> bad(0);
	std::mutex mu;
	std::string why;
	std::vector<std::thread> th;
	for (int t = 0; t < callers; t++)
		th.emplace_back([&, t]() {
			vf::Rng r(vf::mix(seed, t));
			for (int k = 0; k < rounds; k++) {
				int i0 = r.range(-3, 20), i1 = i0 + r.range(0, 40), nth = r.range(1, 8);
				std::vector<std::atomic<int> > counts(64);
				for (auto& x : counts) x = 0;
				std::atomic<int> outside(0);
				std::atomic<int>* cp = counts.data();
				struct F { std::atomic<int>* cnt; std::atomic<int>* out; void operator()(int i) const { int j = i + 3; if (j < 0 || j >= 64) (*out)++; else cnt[j]++; } };
				F f = {cp, &outside};
				Thread::parallel_for(i0, i1, f, nth);
				bool ok = outside == 0;
				for (int i = -3; i < 61 && ok; i++) ok = counts[i + 3] == ((i >= i0 && i < i1) ? 1 : 0);
				if (!ok) { bad++; std::lock_guard<std::mutex> l(mu); if (why.empty()) why = vf::fmt("caller %d round %d: parallel_for(%d, %d, f, %d) did not invoke every index exactly once", t, k, i0, i1, nth); }
			}
		});
	for (auto& x : th) x.join();
	if (bad) c.fail("parallel_for.concurrent-callers", vf::fmt("%d wrong; ", (int)bad) + why);
	c.evals((uint64_t)callers * rounds);
	c.distinct(seed);
	if (c.want_sample()) c.sample(c.curdesc());
}

// ranges that end at INT_MAX or start at INT_MIN: every index once, no other index, and the call returns
static void checkPforExtreme(vf::Ctx& c, int i0, int i1, int nth)
{
	int len = i1 - i0;   // small by construction
	std::vector<std::atomic<int> > counts((size_t)(len > 0 ? len : 1));
	for (auto& x : counts) x = 0;
	std::atomic<int> outside(0);
	std::atomic<int>* cp = counts.data();
	auto f = [&, cp](int i) {
		long long d = (long long)i - i0;
		if (d < 0 || d >= len) { if (outside++ > 1000000) _exit(97); return; }
		cp[d]++;
	};
	Thread::parallel_for(i0, i1, f, nth);
	if (outside) c.fail("parallel_for.index-outside-range-invoked", vf::fmt("%d calls outside [%d,%d) with %d threads", (int)outside, i0, i1, nth));
	for (int d = 0; d < len; d++) if (counts[d] != 1) { c.fail(counts[d] == 0 ? "parallel_for.index-not-invoked" : "parallel_for.index-invoked-twice", vf::fmt("index %d invoked %d times (range [%d,%d), %d threads)", i0 + d, (int)counts[d], i0, i1, nth)); break; }
}

static void mode_pfor_big(vf::Ctx& c)
{
	if (c.idx % 4 == 1) {
		int len = c.rng.range(0, 60), nth = c.rng.range(1, 16);
		bool top = c.rng.chance(0.6);
		int i0 = top ? INT_MAX - len - (c.rng.chance(0.5) ? 0 : c.rng.range(0, 3)) : INT_MIN + c.rng.range(0, 3);
		int i1 = i0 + len;
		c.desc(vf::fmt("parallel_for(%d, %d, f, %d) at the end of the int range", i0, i1, nth));
		checkPforExtreme(c, i0, i1, nth);
		c.count("pfor.extreme_ranges");
		c.distinct(((uint64_t)(uint32_t)i0 << 16) ^ ((uint64_t)len << 8) ^ (uint64_t)nth);
		if (c.want_sample()) c.sample(c.curdesc());
		return;
	}
	int i0 = c.rng.range(-2000, 2000), len = c.rng.chance(0.3) ? c.rng.range(0, 70) : c.rng.range(0, 2000), nth = c.rng.chance(0.5) ? c.rng.range(1, 16) : c.rng.range(1, 64);
	std::string how = setDelays(c, c.rng.chance(0.3) ? 128 : 0);
	c.desc(vf::fmt("parallel_for(%d, %d, f, %d) %s", i0, i0 + len, nth, how.c_str()));
	checkPfor(c, i0, i0 + len, nth, false);
	sched::off();
	c.distinct(((uint64_t)(i0 + 5000) * 4096 + len) * 64 + nth);
	if (c.want_sample()) c.sample(c.curdesc());
}

// ---------------------------------------------------------------- thread lifecycles
struct Worker : public Thread
{
	std::atomic<int>* runs;
	int* out;
	int value, body;
	Worker() : runs(0), out(0), value(0), body(0), finishSaw(0) {}
	Worker(std::atomic<int>* r, int* o, int v, int b) : runs(r), out(o), value(v), body(b), finishSaw(0) {}
	void run()
	{
		busy(body);
		*out = value;   // plain write, read by the creator after join()
		(*runs)++;
	}
	// the hook documented as running "after run() returned and the thread was marked finished"
	int finishSaw;   // 0 = hook not called, 1 = finished() was true inside it, -1 = it was false
	void finish() { finishSaw = finished() ? 1 : -1; }
};

struct SlowWorker : public Thread
{
	std::atomic<int>* done;
	int ms;
	SlowWorker(std::atomic<int>* d, int m) : done(d), ms(m) {}
	void run() { struct timespec ts = {0, ms * 1000000L}; nanosleep(&ts, 0); (*done)++; }
};

static void lifecycle(vf::Ctx& c, int kind, int body, uint64_t pattern)
{
	std::string how = setDelays(c, pattern);
	sched::reset_trace();
	static const char* KN[] = {"subclass start/join", "lambda thread", "parallel_invoke(2)", "parallel_invoke(3)", "parallel_invoke(4)", "ThreadGroup", "two lambda threads", "subclass restarted", "subclass restarted after finished() was seen, no join() in between", "parallel_invoke(3) whose last function starts a Thread that outlives the call", "creator spins on finished() with nothing else in the loop"};
	c.desc(vf::fmt("%s, body %d, %s", KN[kind], body, how.c_str()));
	std::atomic<int> runs(0);
	int out[8] = {0};
	switch (kind) {
	case 0: {
		Worker w(&runs, &out[0], 41, body);
		w.start();
		w.join();
		if (runs != 1) c.fail("thread.run-count", vf::fmt("run() executed %d times", (int)runs));
		if (out[0] != 41) c.fail("thread.effect-not-visible-after-join", "");
		if (!w.finished()) c.fail("thread.finished-false-after-join", "subclassed thread");
		if (w.finishSaw != 1) c.fail("thread.finish-hook", w.finishSaw == 0 ? "finish() was not called before join() returned" : "finished() was false inside the finish() hook");
		break;
	}
	case 1: {
		Thread t([&]() { busy(body); out[0] = 42; runs++; });
		t.join();
		if (runs != 1) c.fail("lambda-thread.run-count", vf::fmt("function executed %d times", (int)runs));
		if (out[0] != 42) c.fail("lambda-thread.effect-not-visible-after-join", "");
		if (!t.finished()) c.fail("lambda-thread.finished-false-after-join", "");
		break;
	}
	case 2: case 3: case 4: {
		auto f1 = [&]() { busy(body); out[1] = 1; runs++; };
		auto f2 = [&]() { busy(body ? body - 1 : 0); out[2] = 2; runs++; };
		auto f3 = [&]() { busy(0); out[3] = 3; runs++; };
		auto f4 = [&]() { busy(body); out[4] = 4; runs++; };
		int n = kind;
		if (n == 2) Thread::parallel_invoke(f1, f2);
		else if (n == 3) Thread::parallel_invoke(f1, f2, f3);
		else Thread::parallel_invoke(f1, f2, f3, f4);
		if (runs != n) c.fail("parallel_invoke.run-count", vf::fmt("%d functions, %d executions", n, (int)runs));
		for (int i = 1; i <= n; i++) if (out[i] != i) c.fail("parallel_invoke.effect-not-visible-after-return", vf::fmt("function %d", i));
		break;
	}
	case 5: {
		int n = c.rng.range(1, 6);
		{
			ThreadGroup<Worker> g;
			for (int i = 0; i < n; i++) g << Worker(&runs, &out[i], 100 + i, (body + i) % 4);
			g.start();
			g.join();
			for (int i = 0; i < n; i++) if (!g._threads[i].finished()) c.fail("threadgroup.finished-false-after-join", vf::fmt("member %d", i));
			if (runs != n) c.fail("threadgroup.run-count", vf::fmt("%d members, %d executions", n, (int)runs));
			if (c.rng.chance(0.4)) {   // the same group started and joined a second time
				g.start();
				g.join();
				if (runs != 2 * n) c.fail("threadgroup.run-count", vf::fmt("%d members started a second time, %d executions in total", n, (int)runs));
				runs = n;
				c.count("threadgroups_started_twice");
			}
		}
		if (runs != n) c.fail("threadgroup.run-count", vf::fmt("%d members, %d executions", n, (int)runs));
		for (int i = 0; i < n; i++) if (out[i] != 100 + i) c.fail("threadgroup.effect-not-visible-after-join", vf::fmt("member %d", i));
		break;
	}
	case 6: {
		Thread t1([&]() { busy(body); out[0] = 1; runs++; });
		Thread t2([&]() { busy(0); out[1] = 2; runs++; });
		t2.join();
		t1.join();
		if (runs != 2 || out[0] != 1 || out[1] != 2) c.fail("lambda-thread.run-count", vf::fmt("two threads, %d executions", (int)runs));
		if (!t1.finished() || !t2.finished()) c.fail("lambda-thread.finished-false-after-join", "two threads");
		break;
	}
	case 7: {
		Worker w(&runs, &out[0], 7, body);
		w.start();
		w.join();
		w.value = 8;
		w.start();   // a Thread object can be started again once joined
		w.join();
		if (runs != 2 || out[0] != 8) c.fail("thread.run-count", vf::fmt("started twice, %d executions, out %d", (int)runs, out[0]));
		if (!w.finished()) c.fail("thread.finished-false-after-join", "restarted thread");
		break;
	}
	case 10: {
		// a creator that polls finished() in a loop without any call in it (as the library's own hand-over loops do) sees it become true;
		// the loop is bounded so that a flag the compiler keeps in a register shows up as a failed check, not as a hang
		Worker w(&runs, &out[0], 3, body);
		w.start();
		long spins = 0;
		while (!w.finished() && spins < 4000000000L) spins++;
		bool saw = w.finished();
		w.join();
		if (!saw) c.fail("thread.finished-never-seen-by-spinning-creator", vf::fmt("%ld iterations", spins));
		if (runs != 1 || out[0] != 3) c.fail("thread.run-count", vf::fmt("%d executions", (int)runs));
		break;
	}
	case 9: {
		// while parallel_invoke is still waiting for its last function, that function starts another Thread (which the OS may
		// give the identity of an already joined one); the new thread outlives the call and is joined by the application
		std::atomic<int> wdone(0);
		SlowWorker w(&wdone, 60);
		auto f1 = [&]() { out[1] = 1; runs++; };
		auto f2 = [&]() { out[2] = 2; runs++; };
		auto f3 = [&]() { struct timespec ts = {0, 20000000}; nanosleep(&ts, 0); w.start(); out[3] = 3; runs++; };
		Thread::parallel_invoke(f1, f2, f3);
		if (runs != 3) c.fail("parallel_invoke.run-count", vf::fmt("3 functions, %d executions", (int)runs));
		w.join();
		if (wdone != 1) c.fail("thread.join-returned-before-run-completed", "a Thread started inside parallel_invoke's last function and joined after the call returned");
		if (!w.finished()) c.fail("thread.finished-false-after-join", "thread started inside parallel_invoke");
		{ struct timespec ts = {0, 70000000}; nanosleep(&ts, 0); }   // never leave the worker running into the next case
		break;
	}
	case 8: {
		// the end of the first run is observed with finished() only; the object is then started again and joined
		// (the first OS thread is never joined - the API offers no way to - so this scenario is left out of the TSan build, which reports it as a thread leak)
		Worker w(&runs, &out[0], 7, body);
		w.start();
		bool seen = false;
		for (int i = 0; i < 200000 && !(seen = w.finished()); i++) { struct timespec ts = {0, 50000}; nanosleep(&ts, 0); }
		if (!seen) { c.inconclusive("first-run-not-finished-within-10s"); break; }
		if (runs != 1) c.fail("thread.run-count", vf::fmt("finished() is true but run() executed %d times", (int)runs));
		w.value = 8;
		w.start();
		w.join();
		if (runs != 2 || out[0] != 8) c.fail("thread.run-count", vf::fmt("started twice (second start after finished() was seen), %d executions, out %d", (int)runs, out[0]));
		if (!w.finished()) c.fail("thread.finished-false-after-join", "thread restarted after finished()");
		break;
	}
	}
	uint64_t eh = sched::g().ehash.load();
	sched::off();
	c.distinct(vf::mix(eh, (uint64_t)kind * 8 + body));
	c.count("hook_events", sched::g().nevents.load());
}

static void mode_lifecycle(vf::Ctx& c)
{
	// systematic: kind x body x delay pattern
	int kind = (int)(c.idx % 11), body = (int)((c.idx / 11) % 4);
	uint64_t pat = (c.idx / 44) % 130;
	if (kind == 9 && (body != 0 || pat % 8 != 0)) kind = 2;   // the 80 ms scenario runs for one body and every 8th delay pattern only   // 0, masks 1..127, 128/129 = random jitter
#if defined(__SANITIZE_THREAD__)
	if (kind == 8 || kind == 10) kind = 7;   // both read finished() while the thread may still be writing it
#endif
	int reps = (int)c.opt->param("reps", 3);
	for (int r = 0; r < reps; r++) { lifecycle(c, kind, body, pat); c.evals(1); }
	if (c.want_sample()) c.sample(c.curdesc());
}

// ---------------------------------------------------------------- Semaphore
static void mode_sem(vf::Ctx& c)
{
	int P = c.rng.range(1, 4), C = c.rng.range(1, 4);
	int init = c.rng.chance(0.3) ? c.rng.range(1, 5) : 0;
	std::vector<std::vector<int> > posts(P);   // each entry: n of a post(n) call; 0 means post()
	long total = init;
	for (int p = 0; p < P; p++) {
		int calls = c.rng.range(1, 60);
		for (int k = 0; k < calls; k++) { int n = c.rng.chance(0.6) ? 0 : c.rng.range(0, 5); if (n == 0 && c.rng.chance(0.1)) { posts[p].push_back(-1); continue; } posts[p].push_back(n); total += n == 0 ? 1 : n; }
	}
	// -1 encodes post(0): posts nothing
	long leave = c.rng.chance(0.3) ? c.rng.range(0, (int)(total < 3 ? total : 3)) : 0;   // some posts stay in the semaphore
	long need = total - leave;
	std::vector<long> quota(C, need / C);
	for (long i = 0; i < need % C; i++) quota[i]++;
	c.desc(vf::fmt("semaphore init %d, %d producers (%ld posts in total), %d consumers taking %ld, %ld left", init, P, total, C, need, leave));
	uint64_t seed = c.rng.next();
	{
		// one thread: a timed wait that expires, then a post, then a timed wait that must succeed (and trywait / wait after it)
		Semaphore s2;
		int nto = c.rng.range(1, 3);
		for (int i = 0; i < nto; i++) if (s2.wait(0.001 * c.rng.range(1, 4))) c.fail("semaphore.extra-wakeup", "wait(timeout) returned true on a semaphore that was never posted");
		int np = c.rng.range(1, 4);
		if (c.rng.chance(0.5)) s2.post(np); else for (int i = 0; i < np; i++) s2.post();
		for (int i = 0; i < np; i++) {
			int how = (int)c.rng.below(3);
			bool ok = how == 0 ? s2.wait(2.0) : how == 1 ? s2.trywait() : (s2.wait(), true);
			if (!ok) c.fail("semaphore.post-lost", vf::fmt("%d posts after %d expired timed waits on the same thread: %s number %d returned false, value() %d", np, nto, how == 0 ? "wait(2.0)" : "trywait()", i, s2.value()));
		}
		if (s2.value() != 0) c.fail("semaphore.final-value", vf::fmt("value() %d after taking every post", s2.value()));
		if (s2.trywait()) c.fail("semaphore.extra-wakeup", "trywait() succeeded on an empty semaphore");
		c.count("sem_timeout_then_post_sequences");
	}
	int lateProducersMs = c.rng.chance(0.3) ? c.rng.range(5, 80) : 0;   // consumers meet an empty semaphore first and time out
	Semaphore sem(init);
	std::atomic<int> producersDone(0);
	std::atomic<long> got(0), timeouts(0), gaveup(0);
	std::vector<std::thread> th;
	for (int p = 0; p < P; p++)
		th.emplace_back([&, p]() {
			vf::Rng r(vf::mix(seed, p));
			if (lateProducersMs) { struct timespec ts = {0, lateProducersMs * 1000000L}; nanosleep(&ts, 0); }
			for (size_t k = 0; k < posts[p].size(); k++) {
				if (posts[p][k] == 0) sem.post();
				else if (posts[p][k] < 0) sem.post(0);
				else sem.post(posts[p][k]);
				if (r.chance(0.1)) sched_yield();
			}
			producersDone++;
		});
	for (int q = 0; q < C; q++)
		th.emplace_back([&, q]() {
			vf::Rng r(vf::mix(seed, 100 + q));
			long mine = 0;
			int misses = 0;
			while (mine < quota[q]) {
				int how = lateProducersMs && mine == 0 && misses == 0 ? 1 : (int)r.below(3);
				bool ok;
				if (how == 0) ok = sem.trywait();
				else if (how == 1) ok = sem.wait(0.05);
				else if (producersDone == P && misses > 0) ok = sem.wait(0.05);   // never block forever once a post may be missing
				else if (producersDone < P || sem.value() > 0) { ok = sem.wait(0.2); }
				else ok = sem.wait(0.05);
				if (ok) { mine++; misses = 0; }
				else {
					timeouts++;
					if (producersDone == P && sem.value() == 0 && ++misses >= 20) { gaveup++; break; }  // all posts issued, nothing to take: a post was lost
				}
			}
			got += mine;
		});
	for (auto& x : th) x.join();
	int left = sem.value();
	c.count("sem_timeouts", timeouts);
	if (got + left != total) c.fail(got + left < total ? "semaphore.post-lost" : "semaphore.extra-wakeup", vf::fmt("posted %ld (incl. initial), completed waits %ld, value() %d", total, (long)got, left));
	if (gaveup) c.fail("semaphore.post-lost", vf::fmt("consumers starved with value()==0 after all %ld posts were issued (taken %ld)", total, (long)got));
	if (left != leave) c.fail("semaphore.final-value", vf::fmt("value() %d expected %ld", left, leave));
	c.evals(total);
	c.distinct(seed);
	if (c.want_sample()) c.sample(c.curdesc());
}

// ---------------------------------------------------------------- Mutex + Condition, documented protocol, unique item ids
// A signal issued under the mutex while every waiter is known to be inside wait()/wait(timeout) must wake all of them:
// each waiter sets its flag under the mutex right before waiting (wait releases the mutex atomically), so a signaller
// that sees all flags while holding the mutex knows they are waiting.
static void cond_handshake(vf::Ctx& c)
{
	int nTimed = c.rng.range(0, 3), nPlain = c.rng.range(nTimed ? 0 : 1, 2);
	int N = nTimed + nPlain;
	double tmo = 8.0;
	// late unlock (1 handshake in 40): the signal is issued well before the waiters' deadline, but the signaller keeps the mutex
	// until after it; a waiter that was signalled in time still reports "signalled", however late it gets the mutex back
	bool lateUnlock = c.idx % 160 == 3;
	if (lateUnlock) { nTimed = 2; nPlain = 0; N = 2; tmo = 5.0; }
	c.desc(vf::fmt("condition handshake: %d waiters in wait(%g s), %d in wait(), one signal once all are waiting%s", nTimed, tmo, nPlain, lateUnlock ? ", mutex released only after the waiters' deadline" : ""));
	Mutex mutex, other;
	// a third of the handshakes bind the condition to another mutex first and then to the one the protocol uses
	int bind = (int)c.rng.below(3);
	Condition cond(bind == 2 ? other : mutex);
	if (bind == 2) { cond.use(mutex); c.count("cond_handshakes_with_rebound_mutex"); }
	int waiting = 0;        // protected by mutex
	bool go = false;        // protected by mutex
	std::atomic<int> wokenBySignal(0), timedOut(0), left(0);
	std::vector<std::thread> th;
	for (int i = 0; i < N; i++)
		th.emplace_back([&, i]() {
			bool timed = i < nTimed;
			mutex.lock();
			waiting++;
			bool signalled = true;
			double t0 = vf::now();
			while (!go) {
				if (timed) { signalled = !cond.wait(tmo); if (!signalled) break; }   // documented: wait(timeout) returns true if there was NO signal
				else cond.wait();
			}
			bool ok = go;
			mutex.unlock();
			if (timed && !signalled) timedOut++;
			else if (ok) wokenBySignal++;
			(void)t0;
			left++;
		});
	// the signaller takes the mutex with a bounded wait: a waiter that went to sleep without releasing it (condition bound to
	// another mutex) shows up as a failed check, not as a hang
	bool locked = false, allWaiting = false;
	double tl = vf::now();
	while (vf::now() - tl < 20.0) {
		if (!mutex.trylock()) { sched_yield(); continue; }
		if (waiting == N) { locked = true; allWaiting = true; break; }
		mutex.unlock();
		sched_yield();
	}
	if (!allWaiting) {
		c.fail("condition.waiter-sleeps-holding-the-mutex", vf::fmt("the signaller could not take the mutex for 20 s while %d waiters were inside wait()", N));
		_exit(96);   // the waiters cannot be woken: leave the process (the runner records the failure before)
	}
	(void)locked;
	go = true;
	double ts = vf::now();
	cond.signal();
	if (lateUnlock) { struct timespec hold = {5, 800000000}; nanosleep(&hold, 0); c.count("cond_handshakes_with_late_unlock"); }
	mutex.unlock();
	// rescue untimed waiters if the signal was lost, so that the case ends; timed ones leave by themselves after tmo
	while (left < N) {
		struct timespec t1 = {0, 2000000}; nanosleep(&t1, 0);
		if (vf::now() - ts > tmo + 4) { mutex.lock(); cond.signal(); mutex.unlock(); }
	}
	for (auto& x : th) x.join();
	double took = vf::now() - ts;
	if (timedOut) c.fail("condition.signal-lost.timed-waiter", vf::fmt("%d of %d waiters in wait(%g) reported a time-out although the signal was issued under the mutex while they were waiting (%.1f s)", (int)timedOut, nTimed, tmo, took));
	if (took > tmo + 3.9 && !timedOut) c.fail("condition.signal-lost", vf::fmt("waiters in wait() were still blocked %.1f s after the signal", took));
	c.count("cond_handshakes");
	c.count("cond_handshake_timed_waiters", nTimed);
	c.evals(N);
	c.distinct(vf::mix(c.rng.next(), (uint64_t)nTimed * 8 + nPlain));
}

static void mode_cond(vf::Ctx& c)
{
	if (c.idx % 4 == 3) { cond_handshake(c); if (c.want_sample()) c.sample(c.curdesc()); return; }
	int P = c.rng.range(1, 3), C = c.rng.range(1, 5), per = c.rng.range(1, 200);
	c.desc(vf::fmt("condition queue: %d producers x %d items, %d consumers", P, per, C));
	uint64_t seed = c.rng.next();
	bool poller = c.idx % 7 == 2;
	if (poller) c.count("cond.cases-with-a-consumer-polling-with-expired-timeouts");
	Mutex mutex;
	Condition cond(mutex);
	std::vector<int> queue;            // protected by mutex
	bool done = false;                 // protected by mutex
	std::vector<std::atomic<int> > taken(P * per);
	for (auto& t : taken) t = 0;
	std::atomic<int> exited(0), consumed(0);
	std::vector<std::thread> cons, prod;
	for (int q = 0; q < C; q++)
		cons.emplace_back([&, q]() {
			vf::Rng r(vf::mix(seed, 50 + q));
			for (;;) {
				mutex.lock();
				while (queue.empty() && !done) {
					// consumer 0 of every seventh case polls with a time-out that has already expired (deadline - now() reaching 0 in a polling
					// loop): wait() must still release the mutex while it looks, or the producers can never get in
					if (poller && q == 0) { cond.wait(r.chance(0.5) ? 0.0 : -0.001); continue; }
					if (r.chance(0.2)) cond.wait(0.5); else cond.wait();
				}
				if (queue.empty() && done) { mutex.unlock(); break; }
				int id = queue.back();
				queue.pop_back();
				mutex.unlock();
				taken[id]++;
				consumed++;
			}
			exited++;
		});
	for (int p = 0; p < P; p++)
		prod.emplace_back([&, p]() {
			vf::Rng r(vf::mix(seed, p));
			for (int k = 0; k < per; k++) {
				mutex.lock();
				queue.push_back(p * per + k);
				cond.signal();
				mutex.unlock();
				if (r.chance(0.05)) sched_yield();
			}
		});
	for (auto& x : prod) x.join();
	mutex.lock();
	done = true;
	cond.signal();
	mutex.unlock();
	// every waiter's predicate is now true (done): all consumers must leave. Decided logically: the flag is set and signalled
	// under the mutex; a waiter still inside after a generous pause, with every other thread gone, has lost the signal.
	double t0 = vf::now();
	while (exited < C && vf::now() - t0 < 15) { struct timespec ts = {0, 2000000}; nanosleep(&ts, 0); }
	int stuck = C - exited;
	if (stuck) {
		// rescue the threads so the process can continue, then report
		for (int k = 0; k < 200 && exited < C; k++) { mutex.lock(); cond.signal(); mutex.unlock(); struct timespec ts = {0, 5000000}; nanosleep(&ts, 0); }
	}
	if (exited < C) { c.fail("condition.waiter-never-woken", vf::fmt("%d consumers still blocked after done was signalled and re-signalled", C - (int)exited)); }
	for (auto& x : cons) x.join();
	if (stuck) c.fail("condition.signal-lost", vf::fmt("%d of %d consumers were still waiting 15 s after their predicate became true and was signalled", stuck, C));
	for (int i = 0; i < P * per; i++) if (taken[i] != 1) c.fail("condition.item-not-consumed-exactly-once", vf::fmt("item %d taken %d times", i, (int)taken[i]));
	c.evals(P * per);
	c.distinct(seed);
	if (c.want_sample()) c.sample(c.curdesc());
}

int main(int argc, char** argv)
{
	vf::Runner R;
	R.add("pfor", mode_pfor, "parallel_for for every -3<=i0,i1<=40 x threads 1..12");
	R.add("pfor_mt", mode_pfor_mt, "several application threads calling parallel_for through one call site at once");
	R.add("pfor_big", mode_pfor_big, "sampled larger ranges and thread counts");
	R.add("lifecycle", mode_lifecycle, "thread kinds x bodies x delay patterns at the hand-over points");
	R.add("sem", mode_sem, "Semaphore conservation");
	R.add("cond", mode_cond, "Mutex+Condition queue with unique items");
	return R.main(argc, argv);
}
