// C10: library HTTP client <-> library HTTP server exchange exact methods, paths, queries, headers, status codes and
// bodies (fixed, JSON, file, file ranges, streamed), for 1..64 concurrent clients and for raw-socket clients that send
// the same requests chunked / fragmented / pipelined. A three-way join by unique X-Req-Id: what the generator planned,
// what the handler saw, what the client saw.
#include "common/jsonmodel.h"
#include <asl/HttpServer.h>
#include <asl/Http.h>
#include <asl/File.h>
#include <thread>
#include <atomic>
#include <mutex>
#include <map>
#include <memory>
#include <vector>
#include <algorithm>
#include <sys/socket.h>
#include <netinet/in.h>
#include <netinet/tcp.h>
#include <arpa/inet.h>
#include <poll.h>

using namespace asl;

enum RKind { K_FIXED, K_TEXT, K_JSON, K_FILE, K_ECHO, K_STREAM, K_CHUNKED };

struct Plan
{
	// request
	std::string method, path /*decoded*/, target /*as sent*/, reqBody;
	std::map<std::string, std::string> query, reqHeaders;
	// response
	RKind kind;
	int code;
	std::map<std::string, std::string> resHeaders;
	std::string resBody;
	std::string file;
	jm::JV json;
	std::vector<std::string> streamChunks;
	int rangeB, rangeE;   // -1 = no range
	int redirect;         // 0 = none, else 301/302/307/308: the first answer redirects to `target2`, the final handler sees path2
	std::string target2, path2;
	int bodyForm;         // how the library client is given the request body: 0 ByteArray, 1 String, 2 File, 3 Var (JSON)
	std::string bodyFile;
	std::shared_ptr<jm::JV> bodyTree;
	bool fileThenText = false;   // K_FILE: the handler puts the file and then replaces it by a text body   // body form 3: the tree the client turns into a Var
	Plan() : kind(K_FIXED), code(200), rangeB(-1), rangeE(-1), redirect(0), bodyForm(0) {}
};

struct Seen { std::string method, path, body; std::map<std::string, std::string> query, headers; int count, hops; Seen() : count(0), hops(0) {} };

static std::mutex g_mu;
static std::map<std::string, Plan> g_plans;
static std::map<std::string, Seen> g_seen;
static std::string g_scratch;

struct Srv : public HttpServer
{
	Srv() : HttpServer(-1) {}
	int port() { return _sockets.length() ? _sockets[0].localAddress().port() : 0; }
	void serve(HttpRequest& req, HttpResponse& res)
	{
		std::string id = *req.header("X-Req-Id");
		Plan p;
		bool known = false;
		{
			std::lock_guard<std::mutex> l(g_mu);
			std::map<std::string, Plan>::iterator it = g_plans.find(id);
			if (it != g_plans.end()) { p = it->second; known = true; }
			Seen& s = g_seen[id];
			if (known && p.redirect && std::string(*req.path(), req.path().length()) != p.path2) {
				// first hop of a redirected exchange: answer with the redirect and record nothing but the hop
				s.hops++;
				res.setCode(p.redirect);
				res.setHeader("Location", (std::string("http://127.0.0.1:") + std::to_string(_sockets[0].localAddress().port()) + p.target2).c_str());
				res.put("moved");
				return;
			}
			s.count++;
			s.method = *req.method();
			s.path = std::string(*req.path(), req.path().length());
			s.body = std::string((const char*)req.body().data(), req.body().length());
			if (vf::fnv(id) & 1) { String a = req.query("zz-not-sent"); if (a.length()) s.query["<lookup of a parameter that was not sent returned text>"] = *a; }
			const Dic<>& q = req.query();
			foreach2(String& k, const String& v, q) s.query[std::string(*k, k.length())] = std::string(*v, v.length());
			if (known) for (auto& h : p.reqHeaders) {
				std::string lk = h.first;
				for (auto& ch : lk) ch = (char)((s.count + lk.size()) % 2 ? toupper(ch) : tolower(ch));   // looked up in another case
				if (req.hasHeader(lk.c_str())) { String v = req.header(lk.c_str()); s.headers[h.first] = std::string(*v, v.length()); }
			}
		}
		if (!known) { res.setCode(404); res.put("unknown id"); return; }
		res.setCode(p.code);
		for (auto& h : p.resHeaders) res.setHeader(h.first.c_str(), h.second.c_str());
		switch (p.kind) {
		case K_FIXED: res.put(ByteArray((const byte*)p.resBody.data(), (int)p.resBody.size())); break;
		case K_TEXT: res.put(String(p.resBody.c_str(), (int)p.resBody.size())); break;
		case K_JSON: res.put(jm::toVar(p.json)); break;
		case K_FILE: res.put(File(p.file.c_str())); if (p.fileThenText) res.put(String(p.resBody.c_str(), (int)p.resBody.size())); break;   // a handler may replace a file body by a text
		case K_ECHO: res.put(req.body()); break;
		case K_STREAM: for (auto& ch : p.streamChunks) res.write(ch.data(), (int)ch.size()); break;
		case K_CHUNKED: res.setHeader("Transfer-Encoding", "chunked"); for (auto& ch : p.streamChunks) res.write(ch.data(), (int)ch.size()); break;   // the handler announces the chunked framing itself
		}
	}
};

static Srv* g_srv = 0;
static int g_port = 0;

static bool ensureServer(vf::Ctx& c)
{
	if (g_srv) return true;
	g_srv = new Srv;                       // one server per harness process; it lives until the process exits
	if (!g_srv->bind("127.0.0.1", 0)) { c.inconclusive("bind"); return false; }
	g_port = g_srv->port();
	g_srv->start(true);
	return true;
}

// ---------------------------------------------------------------- generators
static std::string randBytes(vf::Rng& r, size_t n)
{
	std::string s(n, 0);
	int style = r.below(3);
	for (size_t i = 0; i < n; i++) s[i] = style == 0 ? (char)r.below(256) : style == 1 ? "\r\n\0 :a"[r.below(6)] : (char)r.range(0x20, 0x7e);
	return s;
}

static std::string token(vf::Rng& r, int maxlen)
{
	static const char a[] = "abcdefghijklmnopqrstuvwxyzABCDEFGHIJKLMNOPQRSTUVWXYZ0123456789";
	std::string s;
	int n = r.range(1, maxlen);
	for (int i = 0; i < n; i++) s += a[r.below(sizeof(a) - 1)];
	return s;
}

static std::string pctEncode(const std::string& s, bool form, bool rawSubDelims = false)
{
	std::string o;
	char b[8];
	for (unsigned char ch : s) {
		if (isalnum(ch) || ch == '-' || ch == '_' || ch == '.' || ch == '~') o += (char)ch;
		else if (rawSubDelims && strchr("!$'()*+,;=:@", ch)) o += (char)ch;   // allowed unencoded in a path (RFC 3986 pchar): they mean themselves
		else if (form && ch == ' ') o += '+';
		else { snprintf(b, sizeof b, "%%%02X", ch); o += b; }
	}
	return o;
}

static size_t pickSize(vf::Rng& r)
{
	static const int edges[] = {0, 1, 2, 15, 16, 255, 256, 1023, 1024, 15999, 16000, 16001, 31999, 32000, 32001, 65535, 65536, 127999, 128000, 128001, 256000, 300000};
	int w = r.below(10);
	if (w < 3) return edges[r.below(sizeof(edges) / sizeof(edges[0]))];
	if (w < 8) return r.range(0, 2000);
	return r.range(0, 300000);
}

static void genRequestSide(vf::Rng& r, Plan& p, const std::string& id)
{
	static const char* M[] = {"GET", "POST", "PUT", "PATCH", "DELETE"};
	p.method = M[r.below(5)];
	int nseg = r.range(1, 3);
	for (int i = 0; i < nseg; i++) {
		std::string seg = token(r, 8);
		if (r.chance(0.4)) { static const char sp[] = " !$&'()*+,;=:@%\"<>[]^`{|}\x7f\xc3\xa9"; int k = r.range(1, 3); for (int j = 0; j < k; j++) seg += sp[r.below(sizeof(sp) - 1)]; }
		if (seg.find("..") != std::string::npos) seg = "x";
		p.path += "/" + seg;
		p.target += "/" + pctEncode(seg, false, r.chance(0.5));
	}
	if (r.chance(0.6)) {
		int nq = r.range(1, 3);
		p.target += "?";
		for (int i = 0; i < nq; i++) {
			std::string k = vf::fmt("q%d", i) + token(r, 3), v = r.chance(0.2) ? "" : token(r, 6);
			if (r.chance(0.4)) v += " &=+%/?#\xc3\xa9"[r.below(9)], v += token(r, 2);
			p.query[k] = v;
			if (i) p.target += "&";
			p.target += k + "=" + pctEncode(v, true);
		}
	}
	p.reqHeaders["X-Req-Id"] = id;
	int nh = r.range(0, 4);
	for (int i = 0; i < nh; i++) {
		std::string v;
		int n = r.range(1, 40);
		for (int k = 0; k < n; k++) v += (char)r.range(0x21, 0x7e);
		if (n > 3 && r.chance(0.4)) v[n / 2] = ' ';
		p.reqHeaders[vf::fmt("X-C%d-", i) + token(r, 5)] = v;
	}
	if (p.method != "GET" && p.method != "DELETE") p.reqBody = randBytes(r, pickSize(r));
}

static void genResponseSide(vf::Rng& r, Plan& p, int forceKind = -1)
{
	static const int codes[] = {200, 200, 200, 201, 202, 400, 403, 404, 409, 500, 503};
	p.code = codes[r.below(sizeof(codes) / sizeof(codes[0]))];
	int nh = r.range(0, 3);
	for (int i = 0; i < nh; i++) {
		std::string v;
		int n = r.range(1, 40);
		for (int k = 0; k < n; k++) v += (char)r.range(0x21, 0x7e);
		if (n > 3 && r.chance(0.4)) v[n / 2] = ' ';
		p.resHeaders[vf::fmt("X-S%d-", i) + token(r, 5)] = v;
	}
	int k = forceKind >= 0 ? forceKind : (int)r.below(5);
	p.kind = (RKind)k;
	switch (p.kind) {
	case K_FIXED: p.resBody = randBytes(r, pickSize(r)); break;
	case K_TEXT: { p.resBody = randBytes(r, pickSize(r)); if (!r.chance(0.25)) for (auto& ch : p.resBody) if (!ch) ch = ' '; break; }   // a String carries its length: a quarter of the text bodies keep their zero bytes
	case K_JSON: { jm::TreeOpt o; o.maxdepth = 3; o.budget = 60; p.json = jm::randTree(r, o); asl::String e = Json::encode(jm::toVar(p.json)); p.resBody = std::string(*e, e.length()); p.resHeaders.erase("Content-Type"); break; }
	case K_FILE: {
		size_t n = r.chance(0.5) ? r.range(1, 40) : pickSize(r);
		if (n == 0) n = 1;
		p.resBody = randBytes(r, n);
		p.code = 200;
		break;
	}
	case K_ECHO: p.resBody = p.reqBody; break;
	case K_CHUNKED: { int nc = r.range(1, 4); for (int i = 0; i < nc; i++) { std::string ch = randBytes(r, r.chance(0.3) ? r.range(120000, 300000) : r.range(1, 3000)); p.streamChunks.push_back(ch); p.resBody += ch; } break; }
	case K_STREAM: { int nc = r.range(1, 5); for (int i = 0; i < nc; i++) { std::string ch = randBytes(r, r.chance(0.2) ? r.range(120000, 140000) : r.range(1, 3000)); p.streamChunks.push_back(ch); p.resBody += ch; } break; }
	}
}

// ---------------------------------------------------------------- library client
static std::string doLibRequest(const Plan& p, const std::string& id, int& code, std::string& body, std::map<std::string, std::string>& hdrs, Var* jsonOut)
{
	Dic<> headers;
	for (auto& h : p.reqHeaders) headers[h.first.c_str()] = h.second.c_str();
	if (p.rangeB >= 0) headers["Range"] = *String::f("bytes=%i-%i", p.rangeB, p.rangeE);
	String url = String::f("http://127.0.0.1:%i", g_port) + p.target.c_str();
	HttpResponse res;
	ByteArray ba((const byte*)p.reqBody.data(), (int)p.reqBody.size());
	int form = (int)(vf::fnv(id) % 3);
	if (p.method == "GET") res = Http::get(url, headers);
	else if (p.method == "DELETE") res = Http::delet(url, headers);
	else if (p.bodyForm == 1) { String sb(p.reqBody.c_str(), (int)p.reqBody.size()); res = p.method == "POST" ? Http::post(url, sb, headers) : p.method == "PUT" ? Http::put(url, sb, headers) : Http::patch(url, sb, headers); }
	else if (p.bodyForm == 2) { File fb(p.bodyFile.c_str()); res = p.method == "POST" ? Http::post(url, fb, headers) : p.method == "PUT" ? Http::put(url, fb, headers) : Http::patch(url, fb, headers); }
	else if (p.bodyForm == 3) { Var vb = jm::toVar(*p.bodyTree); res = p.method == "POST" ? Http::post(url, vb, headers) : p.method == "PUT" ? Http::put(url, vb, headers) : Http::patch(url, vb, headers); }
	else if (p.method == "POST") { if (form == 0) res = Http::post(url, ba, headers); else { HttpRequest rq("POST", url, ba, headers); res = Http::request(rq); } }
	else if (p.method == "PUT") res = Http::put(url, ba, headers);
	else res = Http::patch(url, ba, headers);
	code = res.code();
	body = std::string((const char*)res.body().data(), res.body().length());
	for (auto& h : p.resHeaders) {
		std::string lk = h.first;
		for (auto& ch : lk) ch = (char)tolower(ch);
		if (res.hasHeader(lk.c_str())) { String v = res.header(lk.c_str()); hdrs[h.first] = std::string(*v, v.length()); }
	}
	if (res.hasHeader("Content-Range")) hdrs["Content-Range"] = *res.header("Content-Range");
	if (jsonOut) *jsonOut = res.json();
	return *res.socketError();
}

static void judge(vf::Ctx& c, const Plan& p, const std::string& id, int code, const std::string& body, const std::map<std::string, std::string>& hdrs, const std::string& sockerr, const char* who, const Var* json = 0)
{
	std::string at = std::string(who) + " " + id + " (" + p.method + " " + vf::vis(p.target, 80) + vf::fmt(", %d-byte request body, response kind %d): ", (int)p.reqBody.size(), (int)p.kind);
	Seen s;
	{ std::lock_guard<std::mutex> l(g_mu); s = g_seen[id]; }
	if (s.count != 1) c.fail("request-not-handled-exactly-once", at + vf::fmt("handler ran %d times; client error '%s', code %d", s.count, sockerr.c_str(), code));
	if (s.method != p.method) c.fail("handler.method", at + s.method);
	const std::string& wantPath = p.redirect ? p.path2 : p.path;
	if (s.path != wantPath) c.fail("handler.path", at + "'" + vf::vis(s.path) + "' vs '" + vf::vis(wantPath) + "'");
	if (p.redirect && s.hops != 1) c.fail("redirect.first-hop-count", at + vf::fmt("%d", s.hops));
	if (!p.redirect && s.query != p.query) {
		std::string d;
		for (auto& kv : p.query) { auto it = s.query.find(kv.first); if (it == s.query.end()) d += " missing " + kv.first; else if (it->second != kv.second) d += " " + kv.first + "='" + vf::vis(it->second) + "' vs '" + vf::vis(kv.second) + "'"; }
		c.fail("handler.query", at + vf::fmt("%d vs %d values;", (int)s.query.size(), (int)p.query.size()) + d);
	}
	for (auto& h : p.reqHeaders) {
		auto it = s.headers.find(h.first);
		if (it == s.headers.end()) c.fail("handler.header-missing", at + h.first);
		if (it->second != h.second) c.fail("handler.header-value", at + h.first + ": '" + vf::vis(it->second, 60) + "' vs '" + vf::vis(h.second, 60) + "'");
	}
	if (s.body != p.reqBody) {
		size_t k = 0;
		while (k < s.body.size() && k < p.reqBody.size() && s.body[k] == p.reqBody[k]) k++;
		c.fail(p.redirect ? "handler.body.after-redirect" : p.bodyForm == 2 ? "handler.body.file" : "handler.body", at + vf::fmt("handler saw %d bytes, %d sent, first difference at %d (body form %d)", (int)s.body.size(), (int)p.reqBody.size(), (int)k, p.bodyForm));
	}
	// client side
	int wantCode = p.code;
	std::string wantBody = p.resBody;
	if (p.kind == K_FILE && p.rangeB >= 0) { wantCode = 206; wantBody = p.resBody.substr(p.rangeB, p.rangeE - p.rangeB + 1); }
	if (code != wantCode) c.fail(p.rangeB >= 0 ? "client.status.range" : p.kind == K_STREAM ? "client.status.streamed" : "client.status", at + vf::fmt("client saw %d, handler produced %d (socket error '%s')", code, wantCode, sockerr.c_str()));
	if (body != wantBody) {
		size_t k = 0;
		while (k < body.size() && k < wantBody.size() && body[k] == wantBody[k]) k++;
		c.fail(p.rangeB >= 0 ? "client.body.range" : p.kind == K_STREAM ? "client.body.streamed" : p.kind == K_FILE ? "client.body.file" : "client.body",
		       at + vf::fmt("client saw %d bytes, handler produced %d, first difference at %d", (int)body.size(), (int)wantBody.size(), (int)k));
	}
	for (auto& h : p.resHeaders) {
		auto it = hdrs.find(h.first);
		if (it == hdrs.end()) c.fail("client.header-missing", at + h.first);
		if (it->second != h.second) c.fail("client.header-value", at + h.first + ": '" + vf::vis(it->second, 60) + "' vs '" + vf::vis(h.second, 60) + "'");
	}
	if (p.kind == K_FILE && p.rangeB >= 0) {
		auto it = hdrs.find("Content-Range");
		std::string want = vf::fmt("bytes %d-%d/%d", p.rangeB, p.rangeE, (int)p.resBody.size());
		if (it == hdrs.end() || it->second != want) c.fail("client.content-range", at + (it == hdrs.end() ? std::string("missing") : it->second) + " vs " + want);
	}
	if (p.kind == K_JSON && json) { std::string why; if (!jm::same(*json, p.json, why)) c.fail("client.json", at + why); }
}

static std::string newId(vf::Ctx& c, int k) { return vf::fmt("%s-%llu-%d", c.opt->mode.c_str(), (unsigned long long)c.idx, k); }

static void prepFile(Plan& p, const std::string& id)
{
	if (p.kind != K_FILE) return;
	p.file = g_scratch + "/f_" + id + ".bin";
	FILE* f = fopen(p.file.c_str(), "wb");
	if (f) { fwrite(p.resBody.data(), 1, p.resBody.size(), f); fclose(f); }
}

// ---------------------------------------------------------------- modes
static void runLib(vf::Ctx& c, int nreq, int nthreads, int forceKind)
{
	if (!ensureServer(c)) return;
	std::vector<Plan> plans(nreq);
	std::vector<std::string> ids(nreq);
	for (int i = 0; i < nreq; i++) {
		ids[i] = newId(c, i);
		genRequestSide(c.rng, plans[i], ids[i]);
		genResponseSide(c.rng, plans[i], forceKind);
		prepFile(plans[i], ids[i]);
		if (plans[i].reqBody.size() && forceKind != K_STREAM) {
			Plan& p = plans[i];
			int bf = c.rng.below(6);
			if (bf == 1) { if (!c.rng.chance(0.25)) for (auto& ch : p.reqBody) if (!ch) ch = ' '; p.bodyForm = 1; if (p.kind == K_ECHO) p.resBody = p.reqBody; }
			else if (bf == 2) { p.bodyForm = 2; p.bodyFile = g_scratch + "/b_" + ids[i] + ".bin"; FILE* f = fopen(p.bodyFile.c_str(), "wb"); if (f) { fwrite(p.reqBody.data(), 1, p.reqBody.size(), f); fclose(f); } }
			else if (bf == 3) { jm::TreeOpt o; o.maxdepth = 3; o.budget = 40; jm::JV t = jm::randTree(c.rng, o); if (t.k != jm::JV::A && t.k != jm::JV::O) { jm::JV a = jm::JV::mk(jm::JV::A); a.a.push_back(t); t = a; } p.bodyTree = std::make_shared<jm::JV>(t); asl::String e = Json::encode(jm::toVar(t)); p.reqBody = std::string(*e, e.length()); p.bodyForm = 3; if (p.kind == K_ECHO) p.resBody = p.reqBody; }
		}
		if (c.rng.chance(0.12) && plans[i].kind != K_FILE && forceKind < 0) {
			static const int rc[] = {301, 302, 307, 308};
			plans[i].redirect = rc[c.rng.below(4)];
			plans[i].path2 = "/final/" + token(c.rng, 6);
			plans[i].target2 = plans[i].path2;
		}
		if (plans[i].kind == K_FILE && c.rng.chance(0.12)) {
			Plan& p = plans[i];
			p.fileThenText = true;
			p.resBody = "replaced: " + token(c.rng, 12);
			c.count("lib.file_body_replaced_by_text");
		}
		else if (plans[i].kind == K_FILE && c.rng.chance(0.4) && plans[i].resBody.size() >= 2) {
			int n = (int)plans[i].resBody.size();
			plans[i].rangeB = c.rng.range(0, n - 2);
			plans[i].rangeE = c.rng.range(plans[i].rangeB + 1, n - 1);
		}
	}
	{ std::lock_guard<std::mutex> l(g_mu); for (int i = 0; i < nreq; i++) { g_plans[ids[i]] = plans[i]; g_seen.erase(ids[i]); } }
	std::string d = vf::fmt("%d requests from %d client threads:", nreq, nthreads);
	for (int i = 0; i < nreq && i < 6; i++) d += " [" + plans[i].method + " " + vf::vis(plans[i].target, 60) + vf::fmt(" body %d -> kind %d code %d body %d]", (int)plans[i].reqBody.size(), (int)plans[i].kind, plans[i].code, (int)plans[i].resBody.size());
	c.desc(d);
	std::vector<int> codes(nreq, -1);
	std::vector<std::string> bodies(nreq), errs(nreq);
	std::vector<std::map<std::string, std::string> > hdrs(nreq);
	std::vector<Var> jsons(nreq);
	std::atomic<int> next(0);
	std::vector<std::thread> th;
	// every 16th case runs with stdin closed, so that a socket of the exchange gets descriptor number 0
	int savedStdin = -1;
	bool stdinClosed = c.idx % 16 == 5;
	if (stdinClosed) { savedStdin = dup(0); close(0); c.count("lib.cases_with_descriptor_0_free"); }
	for (int t = 0; t < nthreads; t++)
		th.emplace_back([&]() { for (;;) { int i = next++; if (i >= nreq) break; errs[i] = doLibRequest(plans[i], ids[i], codes[i], bodies[i], hdrs[i], plans[i].kind == K_JSON ? &jsons[i] : 0); } });
	for (auto& t : th) t.join();
	if (stdinClosed && savedStdin >= 0) { dup2(savedStdin, 0); close(savedStdin); }
	for (int i = 0; i < nreq; i++) {
		judge(c, plans[i], ids[i], codes[i], bodies[i], hdrs[i], errs[i], "lib-client", plans[i].kind == K_JSON ? &jsons[i] : 0);
		if (plans[i].file.size()) unlink(plans[i].file.c_str());
		if (plans[i].bodyFile.size()) unlink(plans[i].bodyFile.c_str());
		c.count(vf::fmt("kind_%d", (int)plans[i].kind).c_str());
		c.count(vf::fmt("request_body_form_%d", plans[i].bodyForm).c_str());
		if (plans[i].redirect) c.count("redirected_exchanges");
		c.distinct(vf::fnv(plans[i].target + plans[i].reqBody.substr(0, 64) + plans[i].resBody.substr(0, 64), plans[i].reqBody.size() * 1000003 + plans[i].resBody.size()));
	}
	{ std::lock_guard<std::mutex> l(g_mu); for (int i = 0; i < nreq; i++) { g_plans.erase(ids[i]); g_seen.erase(ids[i]); } }
	c.evals(nreq - 1);
	if (c.want_sample()) c.sample(d.substr(0, 400));
}

static void mode_lib(vf::Ctx& c) { runLib(c, c.rng.range(1, 4), 1, -1); }
static void mode_concurrent(vf::Ctx& c) { int t = c.rng.chance(0.3) ? 64 : c.rng.range(2, 32); runLib(c, t + c.rng.range(0, 40), t, -1); }
static void mode_stream(vf::Ctx& c) { runLib(c, c.rng.range(1, 3), 1, K_STREAM); }
// the handler sets Transfer-Encoding: chunked itself and writes 1-3 pieces (the client sees the end of such a body only when the server's
// 10 s connection loop gives up, so this mode has few cases)
static void mode_chunked(vf::Ctx& c) { runLib(c, 1, 1, K_CHUNKED); }

// body sizes: one case = one size, both directions (POST echo)
static void mode_sizes(vf::Ctx& c)
{
	if (!ensureServer(c)) return;
	long stride = c.opt->param("stride", 1), base = c.opt->param("base", 0);
	size_t n = (size_t)(base + c.idx * stride);
	Plan p;
	std::string id = newId(c, 0);
	p.method = c.idx & 1 ? "POST" : "PUT";
	p.path = p.target = "/echo";
	p.reqHeaders["X-Req-Id"] = id;
	p.reqBody = randBytes(c.rng, n);
	p.kind = K_ECHO;
	p.resBody = p.reqBody;
	{ std::lock_guard<std::mutex> l(g_mu); g_plans[id] = p; g_seen.erase(id); }
	c.desc(vf::fmt("echo of a %d-byte body", (int)n));
	int code = -1;
	std::string body, err;
	std::map<std::string, std::string> hdrs;
	err = doLibRequest(p, id, code, body, hdrs, 0);
	judge(c, p, id, code, body, hdrs, err, "lib-client");
	{ std::lock_guard<std::mutex> l(g_mu); g_plans.erase(id); g_seen.erase(id); }
	c.distinct(n);
	if (c.want_sample()) c.sample(c.curdesc());
}

// file ranges: every [b,e] of a file of the case's size
static void mode_ranges(vf::Ctx& c)
{
	if (!ensureServer(c)) return;
	int n = c.idx < 40 ? (int)c.idx + 1 : c.rng.range(41, 200000);
	std::string content = randBytes(c.rng, n);
	long evals = 0;
	std::vector<std::pair<int, int> > pairs;
	if (n <= 40) { for (int b = 0; b < n; b++) for (int e = b; e < n; e++) pairs.push_back(std::make_pair(b, e)); }
	else {
		int edges[] = {0, 1, 2, 15999, 16000, 16001, 65535, 65536, n / 2, n - 3, n - 2, n - 1};
		for (int i = 0; i < 12; i++) for (int j = 0; j < 12; j++) if (edges[i] >= 0 && edges[i] <= edges[j] && edges[j] < n && c.rng.chance(0.3)) pairs.push_back(std::make_pair(edges[i], edges[j]));
		for (int i = 0; i < 30; i++) { int b = c.rng.range(0, n - 1); pairs.push_back(std::make_pair(b, c.rng.range(b, n - 1))); }
	}
	for (size_t pi = 0; pi < pairs.size(); pi++) {
		{
			int b = pairs[pi].first, e = pairs[pi].second;
			Plan p;
			std::string id = newId(c, (int)evals);
			p.method = "GET";
			p.path = p.target = "/file";
			p.reqHeaders["X-Req-Id"] = id;
			p.kind = K_FILE;
			p.code = 200;
			p.resBody = content;
			p.rangeB = b; p.rangeE = e;
			prepFile(p, id);
			{ std::lock_guard<std::mutex> l(g_mu); g_plans[id] = p; g_seen.erase(id); }
			c.desc(vf::fmt("Range: bytes=%d-%d of a %d-byte file", b, e, n));
			int code = -1;
			std::string body, err;
			std::map<std::string, std::string> hdrs;
			err = doLibRequest(p, id, code, body, hdrs, 0);
			unlink(p.file.c_str());
			if (b == e) {   // single-byte ranges are kept apart in the keys
				if (code != 206 || body != content.substr(b, 1)) {
					if (b == 0) c.report("client.range.single-byte.first", vf::fmt("bytes=0-0 of a %d-byte file: status %d, %d bytes", n, code, (int)body.size()));   // recorded, the sweep goes on
					else { { std::lock_guard<std::mutex> l(g_mu); g_plans.erase(id); g_seen.erase(id); } c.fail("client.range.single-byte", vf::fmt("status %d, %d bytes", code, (int)body.size())); }
				}
			} else judge(c, p, id, code, body, hdrs, err, "lib-client");
			{ std::lock_guard<std::mutex> l(g_mu); g_plans.erase(id); g_seen.erase(id); }
			evals++;
			c.distinct(((uint64_t)n << 40) ^ ((uint64_t)b << 20) ^ e);
		}
	}
	c.evals(evals);
	if (c.want_sample()) c.sample(vf::fmt("all byte ranges of a %d-byte file (%ld requests)", n, evals));
}

// ---------------------------------------------------------------- raw socket client: chunked / fragmented / pipelined
static int rawConnect()
{
	int fd = socket(AF_INET, SOCK_STREAM, 0);
	struct sockaddr_in a;
	memset(&a, 0, sizeof a);
	a.sin_family = AF_INET;
	a.sin_port = htons(g_port);
	a.sin_addr.s_addr = htonl(INADDR_LOOPBACK);
	if (connect(fd, (struct sockaddr*)&a, sizeof a) != 0) { close(fd); return -1; }
	int one = 1;
	setsockopt(fd, IPPROTO_TCP, TCP_NODELAY, &one, sizeof one);
	return fd;
}

struct RawResp { int code; std::map<std::string, std::string> headers; std::string body; bool ok; };

// parses one response with Content-Length from buf at off
static bool parseResponse(const std::string& b, size_t& off, RawResp& r)
{
	size_t he = b.find("\r\n\r\n", off);
	if (he == std::string::npos) return false;
	std::string head = b.substr(off, he - off);
	size_t le = head.find("\r\n");
	std::string status = head.substr(0, le);
	if (sscanf(status.c_str(), "HTTP/%*s %d", &r.code) != 1) return false;
	size_t p = le == std::string::npos ? head.size() : le + 2;
	long clen = -1;
	while (p < head.size()) {
		size_t e = head.find("\r\n", p);
		if (e == std::string::npos) e = head.size();
		std::string line = head.substr(p, e - p);
		size_t col = line.find(':');
		if (col != std::string::npos) {
			std::string name = line.substr(0, col), val = line.substr(col + 1);
			while (val.size() && (val[0] == ' ' || val[0] == '\t')) val.erase(0, 1);
			for (auto& ch : name) ch = (char)tolower(ch);
			r.headers[name] = val;
			if (name == "content-length") clen = atol(val.c_str());
		}
		p = e + 2;
	}
	if (clen < 0) return false;
	if (b.size() < he + 4 + (size_t)clen) return false;
	r.body = b.substr(he + 4, clen);
	off = he + 4 + clen;
	r.ok = true;
	return true;
}

static void mode_raw(vf::Ctx& c)
{
	if (!ensureServer(c)) return;
	int k = c.rng.range(1, 4);
	std::vector<Plan> plans(k);
	std::vector<std::string> ids(k);
	std::string stream;
	bool http10 = c.rng.chance(0.15);
	if (http10) c.count("raw.http10_keep_alive_connections");
	for (int i = 0; i < k; i++) {
		ids[i] = newId(c, i);
		Plan& p = plans[i];
		genRequestSide(c.rng, p, ids[i]);
		int kinds[] = {K_FIXED, K_TEXT, K_ECHO, K_FILE, K_FILE};
		genResponseSide(c.rng, p, kinds[c.rng.below(5)]);
		prepFile(p, ids[i]);
		if (p.kind == K_FILE && p.resBody.size() >= 3 && c.rng.chance(0.7)) { int n = (int)p.resBody.size(); p.rangeB = c.rng.range(0, n - 2); p.rangeE = c.rng.range(p.rangeB + 1, n - 1); if (c.rng.chance(0.5) && p.rangeE == n - 1 && n > 3) p.rangeE = n - 2; }
		std::string req = p.method + " " + p.target + (http10 ? " HTTP/1.0\r\nHost: 127.0.0.1\r\n" : " HTTP/1.1\r\nHost: 127.0.0.1\r\n");
		for (auto& h : p.reqHeaders) req += h.first + (c.rng.chance(0.3) ? ":" : ": ") + h.second + "\r\n";
		if (p.rangeB >= 0) req += vf::fmt("Range: bytes=%d-%d\r\n", p.rangeB, p.rangeE);
		if (i + 1 < k && (http10 || c.rng.chance(0.5))) req += "Connection: keep-alive\r\n";   // an HTTP/1.0 client has to ask for the connection to be kept
		if (i + 1 == k) req += "Connection: close\r\n";
		if (p.reqBody.size() && !http10 && c.rng.chance(0.5)) {
			req += "Transfer-Encoding: chunked\r\n\r\n";
			size_t off = 0;
			while (off < p.reqBody.size()) { size_t n = std::min(p.reqBody.size() - off, (size_t)(c.rng.chance(0.3) ? c.rng.range(1, 30) : c.rng.range(1, 40000))); req += vf::fmt("%x\r\n", (unsigned)n) + p.reqBody.substr(off, n) + "\r\n"; off += n; }
			req += "0\r\n\r\n";
		} else if (p.reqBody.size() || c.rng.chance(0.3)) req += vf::fmt("Content-Length: %d\r\n\r\n", (int)p.reqBody.size()) + p.reqBody;
		else req += "\r\n";
		stream += req;
	}
	{ std::lock_guard<std::mutex> l(g_mu); for (int i = 0; i < k; i++) { g_plans[ids[i]] = plans[i]; g_seen.erase(ids[i]); } }
	c.desc(vf::fmt("raw client, %d pipelined requests, %d bytes: ", k, (int)stream.size()) + vf::vis(stream, 900));
	int fd = rawConnect();
	if (fd < 0) { c.inconclusive("connect"); return; }
	// random fragmentation, incl. one-byte writes and splits inside the header terminator / chunk headers
	std::string resp;
	char buf[65536];
	size_t off = 0;
	int fragStyle = c.rng.below(4);
	while (off < stream.size()) {
		size_t n = fragStyle == 0 ? stream.size() : fragStyle == 1 ? 1 : fragStyle == 2 ? (size_t)c.rng.range(1, 9) : (size_t)c.rng.range(1, 20000);
		n = std::min(n, stream.size() - off);
		struct pollfd p = {fd, POLLIN | POLLOUT, 0};
		poll(&p, 1, 1000);
		if (p.revents & POLLIN) { ssize_t r = recv(fd, buf, sizeof buf, MSG_DONTWAIT); if (r > 0) resp.append(buf, r); }
		if (p.revents & POLLOUT) { ssize_t w = send(fd, stream.data() + off, n, MSG_NOSIGNAL | MSG_DONTWAIT); if (w > 0) off += w; else if (w < 0 && errno != EAGAIN) break; }
		if (fragStyle == 1 && off > 600) fragStyle = 3;
		if (fragStyle != 0 && c.rng.chance(0.05)) { struct timespec ts = {0, 300000}; nanosleep(&ts, 0); }
	}
	double t0 = vf::now();
	for (;;) {
		struct pollfd p = {fd, POLLIN, 0};
		if (poll(&p, 1, 200) > 0) { ssize_t r = recv(fd, buf, sizeof buf, 0); if (r <= 0) break; resp.append(buf, r); }
		if (vf::now() - t0 > 90) break;
	}
	close(fd);
	size_t roff = 0;
	for (int i = 0; i < k; i++) {
		RawResp rr;
		rr.ok = false; rr.code = -1;
		if (!parseResponse(resp, roff, rr)) { { std::lock_guard<std::mutex> l(g_mu); for (int j = 0; j < k; j++) g_plans.erase(ids[j]); } c.fail("raw.response-missing-or-unparseable", vf::fmt("response %d of %d; received %d bytes: ", i + 1, k, (int)resp.size()) + vf::vis(resp.substr(roff, 200))); }
		std::map<std::string, std::string> hdrs;
		for (auto& h : plans[i].resHeaders) { std::string lk = h.first; for (auto& ch : lk) ch = (char)tolower(ch); auto it = rr.headers.find(lk); if (it != rr.headers.end()) hdrs[h.first] = it->second; }
		if (rr.headers.count("content-range")) hdrs["Content-Range"] = rr.headers["content-range"];
		if (plans[i].file.size()) unlink(plans[i].file.c_str());
		judge(c, plans[i], ids[i], rr.code, rr.body, hdrs, "", "raw-client");
		c.distinct(vf::fnv(plans[i].target + plans[i].reqBody.substr(0, 64), plans[i].reqBody.size()));
	}
	{ std::lock_guard<std::mutex> l(g_mu); for (int i = 0; i < k; i++) { g_plans.erase(ids[i]); g_seen.erase(ids[i]); } }
	if (roff != resp.size()) c.fail("raw.bytes-after-last-response", vf::fmt("%d bytes follow the %d announced responses: ", (int)(resp.size() - roff), k) + vf::vis(resp.substr(roff, 80)));
	c.evals(k - 1);
	if (c.want_sample()) c.sample(vf::vis(stream, 300));
}

int main(int argc, char** argv)
{
	vf::Runner R;
	R.add("lib", mode_lib, "library client -> library server, all request/response kinds");
	R.add("concurrent", mode_concurrent, "2..64 concurrent library clients, each must get its own response");
	R.add("sizes", mode_sizes, "echo of bodies of every size");
	R.add("ranges", mode_ranges, "every byte range of files of size 1..40, sampled larger");
	R.add("chunked", mode_chunked, "handler-announced chunked responses written in pieces of up to 300 KB");
	R.add("stream", mode_stream, "handler streams the body with write() and sets no length");
	R.add("raw", mode_raw, "raw socket client: chunked, fragmented, pipelined requests");
	R.setup = [](const vf::Options& o) { g_scratch = o.out; };
	return R.main(argc, argv);
}
