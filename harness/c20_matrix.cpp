// C20: Matrix3/Matrix4 inverse + det, Matrix solve (square, multi right-hand side, least squares),
// rotation conversions quaternion / matrix / axis-angle / Euler.
//
// field  : the asl templates instantiated over the exact prime field p = 2^61-1 (common/fp61.h); the identities
//          M*inverse(M) = I, det(AB) = det(A)det(B), A*solve(A,b) = b, AtA x = At b are decided as exact
//          equalities with products formed by this file's own general multiply (asl's Matrix3 operator* is an
//          affine product and is never used to judge). fabs() over the field is a per-case random injective order,
//          so partial pivoting picks arbitrary non-zero pivots.
// float  : well-conditioned float/double matrices; residuals against 1000*n*eps*kappa with kappa from an
//          independent long-double Gauss-Jordan inverse; matrices above the kappa threshold are skipped (counted).
// rot    : unit quaternions / axis-angle vectors / rotation matrices on a grid incl. angle 0, pi, 2pi, axis flips,
//          epsilon-neighbourhoods; every conversion result is mapped to a matrix by a long-double reference and
//          compared as a ROTATION (never raw parameters).
// euler  : all 12 axis orders x moving/fixed frames on an angle grid incl. gimbal lock and its neighbourhoods.
#include "common/runner.h"
#include "common/fp61.h"
#include <asl/Matrix4.h>
#include <asl/Matrix3.h>
#include <asl/Matrix.h>
#include <asl/Quaternion.h>
#include <math.h>
#include <limits>
#include <algorithm>

typedef long double LD;
typedef std::vector<Fp61> FV;
static const LD PIl = 3.14159265358979323846264338327950288L;

// ------------------------------------------------------------------------------------------------
// shared-counter "max" (runner counters only add): slot is created with count(name,0) then raised
static void count_max(vf::Ctx& c, const char* name, uint64_t v)
{
	c.count(name, 0);
	for (int i = 0; i < vf::NCOUNTERS; i++) {
		if (!c.sh->cnames[i][0]) return;
		if (!strncmp(c.sh->cnames[i], name, vf::NAMELEN - 1)) { if (c.sh->counters[i] < v) c.sh->counters[i] = v; return; }
	}
}

// ratio = observed / (n*eps*kappa*scale); property bound is ratio <= 1000
static void note_ratio(vf::Ctx& c, const std::string& what, LD ratio)
{
	const char* b = ratio <= 1 ? "le1" : ratio <= 10 ? "le10" : ratio <= 100 ? "le100" : ratio <= 1000 ? "le1000" : "gt1000";
	c.count(("ratio." + what + "." + b).c_str());
	uint64_t milli = ratio != ratio ? (uint64_t)-1 : ratio > 1e15L ? (uint64_t)1e18 : (uint64_t)(ratio * 1000.0L);
	count_max(c, ("shardmax_milli." + what).c_str(), milli);
}

// ================================================================================================
//                                        FIELD
// ================================================================================================
static Fp61 frand(vf::Rng& r) { return Fp61::raw(r.next()); }
static Fp61 frand_nz(vf::Rng& r) { Fp61 x; do x = frand(r); while (x.zero()); return x; }

static FV fmul(const FV& A, int ar, int ac, const FV& B, int bc)
{
	FV C((size_t)ar * bc);
	for (int i = 0; i < ar; i++)
		for (int j = 0; j < bc; j++) {
			Fp61 s;
			for (int k = 0; k < ac; k++) s = s + A[i * ac + k] * B[k * bc + j];
			C[i * bc + j] = s;
		}
	return C;
}
static FV ftrans(const FV& A, int r, int c)
{
	FV T((size_t)r * c);
	for (int i = 0; i < r; i++) for (int j = 0; j < c; j++) T[j * r + i] = A[i * c + j];
	return T;
}
static bool fis_identity(const FV& M, int n)
{
	for (int i = 0; i < n; i++) for (int j = 0; j < n; j++) if (M[i * n + j].v != (uint64_t)(i == j)) return false;
	return true;
}
static std::string fstr(const FV& M, int r, int c)
{
	std::string s = "[";
	for (int i = 0; i < r; i++) {
		if (i) s += "; ";
		for (int j = 0; j < c; j++) s += vf::fmt(j ? " %llu" : "%llu", (unsigned long long)M[i * c + j].v);
	}
	return s + "]";
}
static uint64_t fhash(const FV& M, uint64_t h)
{
	for (size_t i = 0; i < M.size(); i++) h = vf::fnv(&M[i].v, 8, h);
	return h;
}
static int fzeros(const FV& M) { int z = 0; for (size_t i = 0; i < M.size(); i++) z += M[i].zero(); return z; }

struct Elim { Fp61 det; int rank; bool natural_breaks; };
// reference elimination (first non-zero candidate as pivot); natural_breaks = elimination without any exchange
// meets a zero pivot, i.e. a row exchange is REQUIRED at some step
static Elim felim(FV A, int n)
{
	Elim e; e.det = Fp61(1); e.rank = 0; e.natural_breaks = false;
	bool neg = false;
	for (int k = 0; k < n; k++) {
		int p = -1;
		for (int i = k; i < n; i++) if (!A[i * n + k].zero()) { p = i; break; }
		if (p < 0) { e.det = Fp61(0); continue; }
		if (p != k) { for (int j = 0; j < n; j++) std::swap(A[p * n + j], A[k * n + j]); neg = !neg; e.natural_breaks = true; }
		e.rank++;
		Fp61 inv = Fp61(1) / A[k * n + k];
		e.det = e.det * A[k * n + k];
		for (int i = k + 1; i < n; i++) {
			if (A[i * n + k].zero()) continue;
			Fp61 f = A[i * n + k] * inv;
			for (int j = k; j < n; j++) A[i * n + j] = A[i * n + j] - f * A[k * n + j];
		}
	}
	if (e.rank < n) { e.det = Fp61(0); e.natural_breaks = true; }
	if (neg) e.det = -e.det;
	return e;
}
// how many exchanges does "largest fabs in the column" perform with the current fabs order (instrumentation only)
static int simulate_exchanges(FV A, int n)
{
	int sw = 0;
	for (int k = 0; k < n - 1; k++) {
		int p = k; Fp61 mx;
		for (int i = k; i < n; i++) { Fp61 f = A[i * n + k]; f.v = Fp61::mulmod(f.v, Fp61::absmul_ref()); if (mx < f) { mx = f; p = i; } }
		if (mx.zero()) return sw;
		if (p != k) { for (int j = 0; j < n; j++) std::swap(A[p * n + j], A[k * n + j]); sw++; }
		Fp61 inv = Fp61(1) / A[k * n + k];
		for (int i = k + 1; i < n; i++) {
			Fp61 f = A[i * n + k] * inv;
			for (int j = k; j < n; j++) A[i * n + j] = A[i * n + j] - f * A[k * n + j];
		}
	}
	return sw;
}

static const char* GEN_NAMES[] = {"dense", "sparse", "zero-lead", "perm-like", "sing-minor", "small-int", "rank-1-less", "tri-perm", "affine", "zero-col-lead"};
enum { G_DENSE, G_SPARSE, G_ZEROLEAD, G_PERM, G_SINGMINOR, G_SMALL, G_RANKDEF, G_TRIPERM, G_AFFINE, G_ZEROCOL, G_COUNT };

static void rand_perm(vf::Rng& r, std::vector<int>& p, int n)
{
	p.resize(n);
	for (int i = 0; i < n; i++) p[i] = i;
	for (int i = n - 1; i > 0; i--) std::swap(p[i], p[r.below(i + 1)]);
}

static FV gen_square(vf::Rng& r, int n, int g)
{
	FV A((size_t)n * n);
	for (size_t i = 0; i < A.size(); i++) A[i] = frand(r);
	switch (g) {
	case G_DENSE: break;
	case G_SPARSE: {
		double z = 0.25 + 0.15 * r.below(4);
		for (size_t i = 0; i < A.size(); i++) if (r.chance(z)) A[i] = Fp61(0);
		break;
	}
	case G_ZEROLEAD:
		A[0] = Fp61(0);
		if (n > 2 && r.chance(0.5)) A[1 * n + 1] = Fp61(0);
		break;
	case G_ZEROCOL: {  // first column zero except one row (not the first if n > 1); sometimes also the second column
		int keep = n > 1 ? 1 + (int)r.below(n - 1) : 0;
		for (int i = 0; i < n; i++) if (i != keep) A[i * n] = Fp61(0);
		if (n > 2 && r.chance(0.5)) {
			int keep2; do keep2 = (int)r.below(n); while (keep2 == keep);
			for (int i = 0; i < n; i++) if (i != keep2 && i != keep) A[i * n + 1] = Fp61(0);
		}
		break;
	}
	case G_PERM: {
		std::vector<int> p; rand_perm(r, p, n);
		bool extra = r.chance(0.5);
		for (int i = 0; i < n; i++) for (int j = 0; j < n; j++) {
			if (p[i] == j) A[i * n + j] = r.chance(0.3) ? Fp61(1) : frand_nz(r);
			else if (!(extra && r.chance(0.15))) A[i * n + j] = Fp61(0);
		}
		break;
	}
	case G_SINGMINOR: {  // leading principal minor of order k is singular: elimination without exchanges meets a zero at step k-1
		int k = 1 + (int)r.below(n > 1 ? n - 1 : 1);
		if (k == 1) A[0] = Fp61(0);
		else {
			std::vector<Fp61> cf(k - 1);
			for (int i = 0; i < k - 1; i++) cf[i] = frand(r);
			for (int j = 0; j < k; j++) { Fp61 s; for (int i = 0; i < k - 1; i++) s = s + cf[i] * A[i * n + j]; A[(k - 1) * n + j] = s; }
		}
		break;
	}
	case G_SMALL:
		for (size_t i = 0; i < A.size(); i++) A[i] = Fp61(r.range(-2, 2));
		break;
	case G_RANKDEF: {  // last row (or a random one) is a combination of the others: singular
		int t = (int)r.below(n);
		for (int j = 0; j < n; j++) A[t * n + j] = Fp61(0);
		for (int i = 0; i < n; i++) if (i != t) { Fp61 cf = frand(r); for (int j = 0; j < n; j++) A[t * n + j] = A[t * n + j] + cf * A[i * n + j]; }
		break;
	}
	case G_TRIPERM: {  // triangular with row and column permutations
		std::vector<int> p, q; rand_perm(r, p, n); rand_perm(r, q, n);
		FV T((size_t)n * n);
		for (int i = 0; i < n; i++) for (int j = 0; j < n; j++) T[p[i] * n + q[j]] = j < i ? Fp61(0) : (j == i ? frand_nz(r) : (r.chance(0.3) ? Fp61(0) : A[i * n + j]));
		A = T;
		break;
	}
	case G_AFFINE:
		for (int j = 0; j < n; j++) A[(n - 1) * n + j] = Fp61(j == n - 1 ? 1 : 0);
		if (r.chance(0.3)) for (int i = 0; i < n - 1; i++) A[i * n + n - 1] = Fp61(0);
		break;
	}
	return A;
}

static void set_fabs_order(vf::Ctx& c)
{
	uint64_t k;
	do k = Fp61::red(Fp61::red(c.rng.next())); while (k == 0);
	if (c.rng.below(16) == 0) k = 1;            // also the plain representative order
	if (c.rng.below(16) == 0) k = Fp61::P - 1;  // and its reverse
	Fp61::absmul_ref() = k;
}

static void field_small(vf::Ctx& c, int n)  // n = 3 or 4: Matrix3_/Matrix4_ inverse, det
{
	const char* tag = n == 4 ? "m4" : "m3";
	int g = (int)c.rng.below(G_COUNT);
	FV A = gen_square(c.rng, n, g), B = gen_square(c.rng, n, (int)c.rng.below(G_COUNT));
	c.desc(vf::fmt("field %s gen=%s A=%s B=%s", tag, GEN_NAMES[g], fstr(A, n, n).c_str(), fstr(B, n, n).c_str()));
	Elim ea = felim(A, n), eb = felim(B, n);
	FV AB = fmul(A, n, n, B, n);
	Fp61 dA, dB, dAB;
	FV X((size_t)n * n);
	uint64_t dz0 = Fp61::div_zero_ref();
	if (n == 4) {
		asl::Matrix4_<Fp61> a(&A[0]), b(&B[0]), ab(&AB[0]);
		c.op("det"); dA = a.det(); dB = b.det(); dAB = ab.det();
		if (!ea.det.zero()) { c.op("inverse"); asl::Matrix4_<Fp61> x = a.inverse(); for (int i = 0; i < 4; i++) for (int j = 0; j < 4; j++) X[i * 4 + j] = x(i, j); }
		// the products themselves: binary, in place, and in place with the operand being the same object
		c.op("product");
		FV AA = fmul(A, n, n, A, n);
		asl::Matrix4_<Fp61> pr = a * b, q = a, sq = a;
		q *= b;
		sq *= sq;
		bool okp = true, okq = true, oks = true;
		for (int i = 0; i < 4; i++) for (int j = 0; j < 4; j++) { if (!(pr(i, j) == AB[i * 4 + j])) okp = false; if (!(q(i, j) == AB[i * 4 + j])) okq = false; if (!(sq(i, j) == AA[i * 4 + j])) oks = false; }
		if (!okp) c.fail("m4.product", "A*B differs from the reference product");
		if (!okq) c.fail("m4.product.in-place", "A *= B differs from the reference product");
		if (!oks) c.fail("m4.product.in-place-self", "A *= A differs from the reference product A*A");
		c.evals(3);
	} else {
		asl::Matrix3_<Fp61> a(&A[0]), b(&B[0]), ab(&AB[0]);
		c.op("det"); dA = a.det(); dB = b.det(); dAB = ab.det();
		if (!ea.det.zero()) { c.op("inverse"); asl::Matrix3_<Fp61> x = a.inverse(); for (int i = 0; i < 3; i++) for (int j = 0; j < 3; j++) X[i * 3 + j] = x(i, j); }
		// Matrix3_::operator* is the product of 2D homogeneous transforms (last row 0 0 1 assumed), not a general 3x3 product: not judged here
	}
	std::string t = tag;
	c.count(("f." + t + ".cases").c_str());
	if (!(dA == ea.det)) c.fail(t + ".det.value", vf::fmt("det()=%llu, elimination reference %llu", (unsigned long long)dA.v, (unsigned long long)ea.det.v));
	if (!(dB == eb.det)) c.fail(t + ".det.value", vf::fmt("det(B)=%llu, elimination reference %llu", (unsigned long long)dB.v, (unsigned long long)eb.det.v));
	if (!(dAB == dA * dB)) c.fail(t + ".det.product", vf::fmt("det(AB)=%llu det(A)det(B)=%llu", (unsigned long long)dAB.v, (unsigned long long)(dA * dB).v));
	c.evals(3);
	if (ea.det.zero()) { c.count(("f." + t + ".singular_skipped").c_str()); return; }
	if (Fp61::div_zero_ref() != dz0) c.fail(t + ".inverse.divzero", "division by zero inside inverse() of a nonsingular matrix");
	FV P = fmul(A, n, n, X, n);
	if (!fis_identity(P, n)) c.fail(t + ".inverse", "A*inverse(A) != I; inverse=" + fstr(X, n, n) + " product=" + fstr(P, n, n));
	c.evals(1);
	c.count(("f." + t + ".nonsingular").c_str());
	int z = fzeros(A);
	if (z) c.count(("f." + t + ".nonsingular_with_zero_entry").c_str());
	if (ea.natural_breaks) c.count(("f." + t + ".nonsingular_zero_leading_minor").c_str());
	c.count(("f." + t + ".gen." + GEN_NAMES[g]).c_str());
	c.distinct(fhash(A, n));
	if (c.want_sample() && z) c.sample(vf::fmt("Matrix%d_<Fp61> %s, %d zero entries: A*inverse(A)==I, det==reference, det(AB)==det(A)det(B); A=%s", n, GEN_NAMES[g], z, fstr(A, n, n).c_str()));
}

static asl::Matrix_<Fp61> to_asl(const FV& A, int r, int c) { return asl::Matrix_<Fp61>(r, c, &A[0]); }
static bool from_asl(const asl::Matrix_<Fp61>& X, int r, int c, FV& out)
{
	if (X.rows() != r || X.cols() != c) return false;
	out.resize((size_t)r * c);
	for (int i = 0; i < r; i++) for (int j = 0; j < c; j++) out[i * c + j] = X(i, j);
	return true;
}

static void field_solve(vf::Ctx& c)
{
	int nmax = (int)c.opt->param("nmax", 12);
	int n = 1 + (int)c.rng.below(nmax);
	if (c.rng.below(8) == 0) n = nmax;
	int nrhs = 1 + (int)c.rng.below(4);
	int g = (int)c.rng.below(G_COUNT);
	if (g == G_AFFINE && c.rng.chance(0.5)) g = G_ZEROCOL;
	FV A = gen_square(c.rng, n, g);
	FV B((size_t)n * nrhs);
	for (size_t i = 0; i < B.size(); i++) B[i] = c.rng.below(8) == 0 ? Fp61(0) : frand(c.rng);
	c.desc(vf::fmt("field solve n=%d nrhs=%d gen=%s absmul=%llu A=%s B=%s", n, nrhs, GEN_NAMES[g], (unsigned long long)Fp61::absmul_ref(), fstr(A, n, n).c_str(), fstr(B, n, nrhs).c_str()));
	Elim ea = felim(A, n);
	c.count("f.solve.cases");
	if (ea.det.zero()) { c.count("f.solve.singular_skipped"); return; }
	uint64_t dz0 = Fp61::div_zero_ref();
	FV X, Xi;
	{
		asl::Matrix_<Fp61> a = to_asl(A, n, n), b = to_asl(B, n, nrhs);
		c.op("solve");
		asl::Matrix_<Fp61> x = asl::solve(a, b);
		if (!from_asl(x, n, nrhs, X)) c.fail("solve.shape", vf::fmt("solution is %dx%d, expected %dx%d", x.rows(), x.cols(), n, nrhs));
		FV A2, B2;
		if (!from_asl(a, n, n, A2) || !from_asl(b, n, nrhs, B2) || fhash(A2, 1) != fhash(A, 1) || fhash(B2, 1) != fhash(B, 1)) c.count("f.solve.inputs_modified_by_solve");
	}
	if (Fp61::div_zero_ref() != dz0) c.fail("solve.divzero", "division by zero inside solve() of a nonsingular system");
	FV AX = fmul(A, n, n, X, nrhs);
	for (size_t i = 0; i < AX.size(); i++) if (!(AX[i] == B[i])) c.fail(nrhs == 1 ? "solve.square" : "solve.square.multi-rhs", vf::fmt("A*solve(A,B) != B at row %d column %d; x=%s", (int)i / nrhs, (int)i % nrhs, fstr(X, n, nrhs).c_str()));
	c.evals(1);
	if (c.rng.below(3) == 0) {
		asl::Matrix_<Fp61> a = to_asl(A, n, n);
		c.op("Matrix::inverse");
		asl::Matrix_<Fp61> x = a.inverse();
		if (!from_asl(x, n, n, Xi)) c.fail("matrix.inverse.shape", vf::fmt("inverse is %dx%d", x.rows(), x.cols()));
		if (!fis_identity(fmul(A, n, n, Xi, n), n)) c.fail("matrix.inverse", "A*A.inverse() != I; inverse=" + fstr(Xi, n, n));
		c.count("f.solve.matrix_inverse_checked");
		c.evals(1);
	}
	int sw = simulate_exchanges(A, n);
	c.count("f.solve.nonsingular");
	c.count(vf::fmt("f.solve.n=%02d", n).c_str());
	c.count(vf::fmt("f.solve.nrhs=%d", nrhs).c_str());
	if (ea.natural_breaks) c.count("f.solve.row_exchange_required");
	if (sw) c.count("f.solve.row_exchange_performed");
	c.count("f.solve.exchanges_total", sw);
	if (fzeros(A)) c.count("f.solve.nonsingular_with_zero_entry");
	c.count((std::string("f.solve.gen.") + GEN_NAMES[g]).c_str());
	c.distinct(fhash(B, fhash(A, 100 + n)));
	if (c.want_sample() && ea.natural_breaks && n >= 3 && n <= 5)
		c.sample(vf::fmt("solve over F_p, n=%d, %d right-hand sides, %s, needs a row exchange, %d exchanges performed: A*X==B exactly; A=%s", n, nrhs, GEN_NAMES[g], sw, fstr(A, n, n).c_str()));
}

static void field_lsq(vf::Ctx& c)
{
	int nmax = (int)c.opt->param("nmax", 12);
	int n = 1 + (int)c.rng.below(nmax);
	int m = n + 1 + (int)c.rng.below(8);
	int nrhs = 1 + (int)c.rng.below(3);
	int g = (int)c.rng.below(4);  // dense, sparse, zero leading column entries, small ints
	FV A((size_t)m * n), B((size_t)m * nrhs);
	for (size_t i = 0; i < A.size(); i++) A[i] = frand(c.rng);
	if (g == 1) { for (size_t i = 0; i < A.size(); i++) if (c.rng.chance(0.5)) A[i] = Fp61(0); }
	else if (g == 2) { int z = 1 + (int)c.rng.below(m - 1); for (int i = 0; i < z; i++) A[i * n] = Fp61(0); }
	else if (g == 3) { for (size_t i = 0; i < A.size(); i++) A[i] = Fp61(c.rng.range(-2, 2)); }
	for (size_t i = 0; i < B.size(); i++) B[i] = frand(c.rng);
	static const char* LG[] = {"dense", "sparse", "zero-lead", "small-int"};
	c.desc(vf::fmt("field lsq m=%d n=%d nrhs=%d gen=%s absmul=%llu A=%s B=%s", m, n, nrhs, LG[g], (unsigned long long)Fp61::absmul_ref(), fstr(A, m, n).c_str(), fstr(B, m, nrhs).c_str()));
	FV At = ftrans(A, m, n);
	FV N = fmul(At, n, m, A, n), G = fmul(At, n, m, B, nrhs);
	Elim en = felim(N, n);
	c.count("f.lsq.cases");
	if (en.det.zero()) { c.count("f.lsq.normal_matrix_singular_skipped"); return; }
	uint64_t dz0 = Fp61::div_zero_ref();
	FV X;
	{
		asl::Matrix_<Fp61> a = to_asl(A, m, n), b = to_asl(B, m, nrhs);
		c.op("solve (least squares)");
		asl::Matrix_<Fp61> x = asl::solve(a, b);
		if (!from_asl(x, n, nrhs, X)) c.fail("lsq.shape", vf::fmt("solution is %dx%d, expected %dx%d", x.rows(), x.cols(), n, nrhs));
	}
	if (Fp61::div_zero_ref() != dz0) c.fail("lsq.divzero", "division by zero inside solve() with a nonsingular normal matrix");
	FV NX = fmul(N, n, n, X, nrhs);
	for (size_t i = 0; i < NX.size(); i++) if (!(NX[i] == G[i])) c.fail("lsq.normal-equations", vf::fmt("AtA x != At b at row %d column %d; x=%s", (int)i / nrhs, (int)i % nrhs, fstr(X, n, nrhs).c_str()));
	c.evals(1);
	c.count("f.lsq.nonsingular");
	c.count(vf::fmt("f.lsq.n=%02d", n).c_str());
	if (en.natural_breaks) c.count("f.lsq.row_exchange_required");
	if (simulate_exchanges(N, n)) c.count("f.lsq.row_exchange_performed");
	c.distinct(fhash(B, fhash(A, 1000 + m * 16 + n)));
	if (c.want_sample() && n <= 3 && m <= 5) c.sample(vf::fmt("least squares over F_p, %dx%d, %d right-hand sides: AtA*X==At*B exactly; A=%s", m, n, nrhs, fstr(A, m, n).c_str()));
}

// unit quaternion over the field -> matrix() is orthogonal with det 1; matrix -> rotation() -> matrix() gives the same matrix
static void field_quat(vf::Ctx& c)
{
	Fp61 q[4];
	for (int i = 0; i < 4; i++) q[i] = c.rng.below(6) == 0 ? Fp61(c.rng.range(-1, 1)) : frand(c.rng);
	Fp61 nn = q[0] * q[0] + q[1] * q[1] + q[2] * q[2] + q[3] * q[3];
	c.count("f.quat.cases");
	if (nn.zero()) { c.count("f.quat.isotropic_skipped"); return; }
	// u = q^2 / |q|^2 has norm exactly 1
	Fp61 inv = Fp61(1) / nn;
	Fp61 u[4] = {(q[0] * q[0] - q[1] * q[1] - q[2] * q[2] - q[3] * q[3]) * inv, Fp61(2) * q[0] * q[1] * inv, Fp61(2) * q[0] * q[2] * inv, Fp61(2) * q[0] * q[3] * inv};
	c.desc(vf::fmt("field unit quaternion w=%llu x=%llu y=%llu z=%llu", (unsigned long long)u[0].v, (unsigned long long)u[1].v, (unsigned long long)u[2].v, (unsigned long long)u[3].v));
	if (!((u[0] * u[0] + u[1] * u[1] + u[2] * u[2] + u[3] * u[3]) == Fp61(1))) { c.inconclusive("harness unit quaternion not unit"); return; }
	asl::Quaternion_<Fp61> Q(u[0], u[1], u[2], u[3]);
	c.op("matrix");
	asl::Matrix4_<Fp61> M = Q.matrix();
	FV R(9), R4(16);
	for (int i = 0; i < 3; i++) for (int j = 0; j < 3; j++) R[i * 3 + j] = M(i, j);
	for (int i = 0; i < 4; i++) for (int j = 0; j < 4; j++) R4[i * 4 + j] = M(i, j);
	if (!fis_identity(fmul(ftrans(R, 3, 3), 3, 3, R, 3), 3)) c.fail("quat.matrix.not-orthogonal", "Rt*R != I for the matrix of a unit quaternion: " + fstr(R, 3, 3));
	if (!(felim(R, 3).det == Fp61(1))) c.fail("quat.matrix.det", "det != 1 for the matrix of a unit quaternion");
	for (int i = 0; i < 3; i++) if (!M(3, i).zero() || !M(i, 3).zero()) c.fail("quat.matrix.frame", "translation/projective part not zero");
	if (!(M(3, 3) == Fp61(1))) c.fail("quat.matrix.frame", "m33 != 1");
	c.evals(1);
	uint64_t sf = Fp61::sqrt_fail_ref(), dz = Fp61::div_zero_ref();
	c.op("rotation");
	asl::Quaternion_<Fp61> Q2 = M.rotation();
	if (Fp61::sqrt_fail_ref() != sf || Fp61::div_zero_ref() != dz) { c.count("f.quat.no_square_root_in_field_skipped"); c.distinct(fhash(R4, 7)); return; }
	asl::Matrix4_<Fp61> M2 = Q2.matrix();
	for (int i = 0; i < 4; i++) for (int j = 0; j < 4; j++) if (!(M2(i, j) == M(i, j))) c.fail("quat.matrix-rotation-matrix", vf::fmt("matrix().rotation().matrix() differs at (%d,%d)", i, j));
	bool same = Q2.w == Q.w && Q2.x == Q.x && Q2.y == Q.y && Q2.z == Q.z, opp = Q2.w == -Q.w && Q2.x == -Q.x && Q2.y == -Q.y && Q2.z == -Q.z;
	c.count(same ? "f.quat.roundtrip_same_sign" : opp ? "f.quat.roundtrip_opposite_sign" : "f.quat.roundtrip_other");
	c.evals(1);
	c.count("f.quat.roundtrip_checked");
	c.distinct(fhash(R4, 7));
	if (c.want_sample()) c.sample("unit quaternion over F_p: matrix() orthogonal with det 1, matrix().rotation().matrix() identical; " + c.curdesc());
}

static void mode_field(vf::Ctx& c)
{
	set_fabs_order(c);
	switch (c.idx % 8) {
	case 0: case 1: field_small(c, 4); break;
	case 2: field_small(c, 3); break;
	case 3: case 4: case 5: field_solve(c); break;
	case 6: field_lsq(c); break;
	case 7: if ((c.idx >> 3) % 4 == 0) field_quat(c); else field_solve(c); break;
	}
}

// ================================================================================================
//                                        FLOATING POINT
// ================================================================================================
typedef std::vector<LD> LV;
static LV lmul(const LV& A, int ar, int ac, const LV& B, int bc)
{
	LV C((size_t)ar * bc, 0);
	for (int i = 0; i < ar; i++) for (int j = 0; j < bc; j++) { LD s = 0; for (int k = 0; k < ac; k++) s += A[i * ac + k] * B[k * bc + j]; C[i * bc + j] = s; }
	return C;
}
static LV ltrans(const LV& A, int r, int c) { LV T((size_t)r * c); for (int i = 0; i < r; i++) for (int j = 0; j < c; j++) T[j * r + i] = A[i * c + j]; return T; }
static LD lnorm_inf(const LV& A, int r, int c) { LD m = 0; for (int i = 0; i < r; i++) { LD s = 0; for (int j = 0; j < c; j++) s += fabsl(A[i * c + j]); if (s > m) m = s; } return m; }
static LD lmaxabs(const LV& A) { LD m = 0; for (size_t i = 0; i < A.size(); i++) { LD a = fabsl(A[i]); if (!(a <= m)) m = a; } return m; }
// Gauss-Jordan with partial pivoting in long double; returns false if a pivot vanishes; det optional
static bool linverse(LV A, int n, LV& X, LD* det)
{
	X.assign((size_t)n * n, 0);
	for (int i = 0; i < n; i++) X[i * n + i] = 1;
	LD d = 1;
	for (int k = 0; k < n; k++) {
		int p = k;
		for (int i = k + 1; i < n; i++) if (fabsl(A[i * n + k]) > fabsl(A[p * n + k])) p = i;
		if (A[p * n + k] == 0 || A[p * n + k] != A[p * n + k]) { if (det) *det = 0; return false; }
		if (p != k) { for (int j = 0; j < n; j++) { std::swap(A[p * n + j], A[k * n + j]); std::swap(X[p * n + j], X[k * n + j]); } d = -d; }
		LD piv = A[k * n + k];
		d *= piv;
		for (int j = 0; j < n; j++) { A[k * n + j] /= piv; X[k * n + j] /= piv; }
		for (int i = 0; i < n; i++) if (i != k && A[i * n + k] != 0) {
			LD f = A[i * n + k];
			for (int j = 0; j < n; j++) { A[i * n + j] -= f * A[k * n + j]; X[i * n + j] -= f * X[k * n + j]; }
		}
	}
	if (det) *det = d;
	return true;
}
static LD gauss(vf::Rng& r) { LD u = r.unit(), v = r.unit(); if (u < 1e-300) u = 1e-300; return sqrtl(-2 * logl(u)) * cosl(2 * PIl * v); }
// m x n matrix with orthonormal columns (modified Gram-Schmidt twice on gaussian columns), m >= n
static LV orthocols(vf::Rng& r, int m, int n)
{
	LV Q((size_t)m * n);
	for (int j = 0; j < n; j++) {
		for (;;) {
			for (int i = 0; i < m; i++) Q[i * n + j] = gauss(r);
			for (int pass = 0; pass < 2; pass++)
				for (int k = 0; k < j; k++) { LD d = 0; for (int i = 0; i < m; i++) d += Q[i * n + k] * Q[i * n + j]; for (int i = 0; i < m; i++) Q[i * n + j] -= d * Q[i * n + k]; }
			LD s = 0; for (int i = 0; i < m; i++) s += Q[i * n + j] * Q[i * n + j];
			s = sqrtl(s);
			if (s < 1e-6L) continue;
			for (int i = 0; i < m; i++) Q[i * n + j] /= s;
			break;
		}
	}
	return Q;
}

static const char* FGEN[] = {"uniform", "svd-like", "perm-dominant", "small-int", "zero-lead-uniform"};
// m x n (m >= n) test matrix in long double
static LV gen_float(vf::Rng& r, int m, int n, int style, LD kmax)
{
	LV A((size_t)m * n);
	switch (style) {
	default:
	case 0: for (size_t i = 0; i < A.size(); i++) A[i] = 2 * (LD)r.unit() - 1; break;
	case 4: for (size_t i = 0; i < A.size(); i++) A[i] = 2 * (LD)r.unit() - 1; A[0] = 0; if (n > 2 && m > 2 && r.chance(0.5)) A[1 * n + 1] = 0; break;
	case 1: {
		LV U = orthocols(r, m, n), V = orthocols(r, n, n);
		LD k0 = powl(kmax, (LD)r.unit() * 0.9L);
		LV D((size_t)n * n, 0);
		for (int i = 0; i < n; i++) D[i * n + i] = i == 0 ? 1 : (i == n - 1 ? 1 / k0 : powl(k0, -(LD)r.unit()));
		A = lmul(lmul(U, m, n, D, n), m, n, ltrans(V, n, n), n);
		break;
	}
	case 2: {  // diagonally dominant, rows permuted: needs exchanges; leading entry exactly zero
		std::vector<int> p; rand_perm(r, p, m);
		LV T((size_t)m * n);
		for (int i = 0; i < m; i++) for (int j = 0; j < n; j++) T[i * n + j] = (i == j ? (LD)n : 0) + (r.chance(0.4) ? 0 : 2 * (LD)r.unit() - 1);
		for (int i = 0; i < m; i++) for (int j = 0; j < n; j++) A[p[i] * n + j] = T[i * n + j];
		break;
	}
	case 3: for (size_t i = 0; i < A.size(); i++) A[i] = (LD)r.range(-3, 3); break;
	}
	return A;
}

template<class T> static LV round_to(const LV& A, int scale2)
{
	LV R(A.size());
	for (size_t i = 0; i < A.size(); i++) R[i] = (LD)(T)ldexpl(A[i], scale2);
	return R;
}
template<class T> static std::string lstr(const LV& A, int r, int c)
{
	std::string s = "[";
	for (int i = 0; i < r; i++) { if (i) s += "; "; for (int j = 0; j < c; j++) s += vf::fmt(j ? " %.*Lg" : "%.*Lg", sizeof(T) == 4 ? 9 : 17, A[i * c + j]); }
	return s + "]";
}
static uint64_t lhash(const LV& A, uint64_t h) { for (size_t i = 0; i < A.size(); i++) { double d = (double)A[i]; h = vf::fnv(&d, 8, h); } return h; }

template<class T> static const char* tname() { return sizeof(T) == 4 ? "float" : "double"; }

static void judge(vf::Ctx& c, const std::string& what, const std::string& key, LD observed, LD unit, const std::string& detail)
{
	LD ratio = unit > 0 ? observed / unit : (observed == 0 ? 0 : INFINITY);
	note_ratio(c, what, ratio);
	if (!(ratio <= 1000)) c.fail(key, vf::fmt("observed %.6Lg = %.4Lg x (n*eps*kappa*scale), allowed 1000 x; ", observed, ratio) + detail);
	c.evals(1);
}

template<class T> static void float_small(vf::Ctx& c, int n, LD kmax)  // Matrix3/Matrix4 inverse, det
{
	std::string tn = tname<T>(), tag = std::string(n == 4 ? "m4." : "m3.") + tn;
	LD eps = std::numeric_limits<T>::epsilon();
	int style = (int)c.rng.below(5), sc = c.rng.below(3) ? 0 : c.rng.range(-12, 12);
	LV A = round_to<T>(gen_float(c.rng, n, n, style, kmax), sc), B = round_to<T>(gen_float(c.rng, n, n, (int)c.rng.below(2), kmax), 0);
	if (style != 3 && c.rng.below(4) == 0) { for (int j = 0; j < n; j++) A[(n - 1) * n + j] = j == n - 1; }  // affine form
	c.desc(vf::fmt("%s Matrix%d gen=%s A=%s B=%s", tn.c_str(), n, FGEN[style], lstr<T>(A, n, n).c_str(), lstr<T>(B, n, n).c_str()));
	LV Ai, Bi; LD dA, dB;
	c.count(("fl." + tag + ".cases").c_str());
	if (!linverse(A, n, Ai, &dA) || !linverse(B, n, Bi, &dB)) { c.count(("fl." + tag + ".singular_skipped").c_str()); return; }
	LD kA = lnorm_inf(A, n, n) * lnorm_inf(Ai, n, n), kB = lnorm_inf(B, n, n) * lnorm_inf(Bi, n, n);
	if (!(kA <= kmax) || !(kB <= kmax)) { c.count(("fl." + tag + ".kappa_above_threshold_skipped").c_str()); return; }
	T a[16], b[16], ab[16];
	LV ABl = lmul(A, n, n, B, n), AB(ABl.size());
	for (int i = 0; i < n * n; i++) { a[i] = (T)A[i]; b[i] = (T)B[i]; ab[i] = (T)ABl[i]; AB[i] = (LD)ab[i]; }
	LV X((size_t)n * n);
	LD da, db, dab;
	if (n == 4) {
		asl::Matrix4_<T> ma(a), mb(b), mab(ab);
		c.op("inverse"); asl::Matrix4_<T> x = ma.inverse();
		for (int i = 0; i < 4; i++) for (int j = 0; j < 4; j++) X[i * 4 + j] = x(i, j);
		c.op("det"); da = ma.det(); db = mb.det(); dab = mab.det();
	} else {
		asl::Matrix3_<T> ma(a), mb(b), mab(ab);
		c.op("inverse"); asl::Matrix3_<T> x = ma.inverse();
		for (int i = 0; i < 3; i++) for (int j = 0; j < 3; j++) X[i * 3 + j] = x(i, j);
		c.op("det"); da = ma.det(); db = mb.det(); dab = mab.det();
	}
	LV P = lmul(A, n, n, X, n);
	for (int i = 0; i < n; i++) P[i * n + i] -= 1;
	std::string kd = vf::fmt("kappa_inf(A)=%.4Lg kappa_inf(B)=%.4Lg", kA, kB);
	judge(c, tag + ".inverse", tag + ".inverse.residual", lmaxabs(P), n * eps * kA, "max|A*inverse(A)-I|; " + kd);
	judge(c, tag + ".det", tag + ".det.value", fabsl(da - dA), n * eps * kA * fabsl(dA), vf::fmt("det()=%.17Lg long-double reference %.17Lg; ", da, dA) + kd);
	judge(c, tag + ".detprod", tag + ".det.product", fabsl(dab - da * db), n * eps * kA * kB * fabsl(dA * dB), vf::fmt("det(AB)=%.17Lg det(A)det(B)=%.17Lg; ", dab, da * db) + kd);
	c.count(("fl." + tag + ".judged").c_str());
	c.count(("fl." + tag + ".gen." + FGEN[style]).c_str());
	c.distinct(lhash(A, n * 2 + sizeof(T)));
	if (c.want_sample()) c.sample(vf::fmt("%s Matrix%d %s kappa=%.3Lg: residual of A*inverse(A)-I, det vs long double, det(AB) vs det(A)det(B) within 1000*n*eps*kappa; A=%s", tn.c_str(), n, FGEN[style], kA, lstr<T>(A, n, n).c_str()));
}

template<class T> static asl::Matrix_<T> to_aslT(const LV& A, int r, int c)
{
	asl::Matrix_<T> M(r, c);
	for (int i = 0; i < r; i++) for (int j = 0; j < c; j++) M(i, j) = (T)A[i * c + j];
	return M;
}

template<class T> static void float_solve(vf::Ctx& c, bool lsq, LD kmax)
{
	std::string tn = tname<T>(), tag = std::string(lsq ? "lsq." : "solve.") + tn;
	LD eps = std::numeric_limits<T>::epsilon();
	int nmax = (int)c.opt->param("nmax", 12);
	int n = 1 + (int)c.rng.below(nmax), m = lsq ? n + 1 + (int)c.rng.below(8) : n, nrhs = 1 + (int)c.rng.below(3);
	int style = (int)c.rng.below(5), sc = c.rng.below(3) ? 0 : c.rng.range(-12, 12);
	LV A = round_to<T>(gen_float(c.rng, m, n, style, lsq ? sqrtl(kmax) : kmax), sc);
	LV B((size_t)m * nrhs);
	for (size_t i = 0; i < B.size(); i++) B[i] = (LD)(T)(2 * (LD)c.rng.unit() - 1);
	c.desc(vf::fmt("%s %s m=%d n=%d nrhs=%d gen=%s A=%s B=%s", tn.c_str(), lsq ? "least squares" : "solve", m, n, nrhs, FGEN[style], lstr<T>(A, m, n).c_str(), lstr<T>(B, m, nrhs).c_str()));
	c.count(("fl." + tag + ".cases").c_str());
	LV N = A, G = B;
	LD gabs = 0;  // max entry of |A|t |B|: the scale of the rounding error made when At*B is formed (it can cancel to a much smaller At*B)
	if (lsq) {
		LV At = ltrans(A, m, n); N = lmul(At, n, m, A, n); G = lmul(At, n, m, B, nrhs);
		LV Aa = At, Ba = B;
		for (size_t i = 0; i < Aa.size(); i++) Aa[i] = fabsl(Aa[i]);
		for (size_t i = 0; i < Ba.size(); i++) Ba[i] = fabsl(Ba[i]);
		gabs = lmaxabs(lmul(Aa, n, m, Ba, nrhs));
	}
	LV Ni;
	if (!linverse(N, n, Ni, 0)) { c.count(("fl." + tag + ".singular_skipped").c_str()); return; }
	LD nN = lnorm_inf(N, n, n), k = nN * lnorm_inf(Ni, n, n);
	if (!(k <= kmax)) { c.count(("fl." + tag + ".kappa_above_threshold_skipped").c_str()); return; }
	LV Xref = lmul(Ni, n, n, G, nrhs), X((size_t)n * nrhs);
	{
		asl::Matrix_<T> a = to_aslT<T>(A, m, n), b = to_aslT<T>(B, m, nrhs);
		c.op("solve");
		asl::Matrix_<T> x = asl::solve(a, b);
		if (x.rows() != n || x.cols() != nrhs) c.fail(tag + ".shape", vf::fmt("solution is %dx%d", x.rows(), x.cols()));
		for (int i = 0; i < n; i++) for (int j = 0; j < nrhs; j++) X[i * nrhs + j] = x(i, j);
	}
	LV Rz = lmul(N, n, n, X, nrhs), E = X;
	for (size_t i = 0; i < Rz.size(); i++) { Rz[i] -= G[i]; E[i] -= Xref[i]; }
	std::string kd = vf::fmt("kappa_inf=%.4Lg n=%d", k, n);
	LD nx = lmaxabs(X);
	judge(c, tag + ".residual", tag + ".residual", lmaxabs(Rz), n * eps * k * (nN * nx + (lsq ? gabs : lmaxabs(G))), (lsq ? "max|AtA x - At b|, scale |AtA||x| + |A|t|b|; " : "max|A x - b|; ") + kd);
	judge(c, tag + ".forward", tag + ".forward-error", lmaxabs(E), n * eps * k * (lsq ? lmaxabs(Xref) + lnorm_inf(Ni, n, n) * gabs : lmaxabs(Xref)),
	      "max|x - x_ref| against the long-double solution" + std::string(lsq ? ", scale |x_ref| + |inv(AtA)| |A|t|b|; " : "; ") + kd);
	if (!lsq && c.rng.below(3) == 0) {
		asl::Matrix_<T> a = to_aslT<T>(A, n, n);
		c.op("Matrix::inverse");
		asl::Matrix_<T> x = a.inverse();
		if (x.rows() != n || x.cols() != n) c.fail(tag + ".inverse.shape", "wrong shape");
		LV Xi((size_t)n * n);
		for (int i = 0; i < n; i++) for (int j = 0; j < n; j++) Xi[i * n + j] = x(i, j);
		LV P = lmul(A, n, n, Xi, n);
		for (int i = 0; i < n; i++) P[i * n + i] -= 1;
		judge(c, tag + ".matinverse", tag + ".matrix-inverse.residual", lmaxabs(P), n * eps * k, "max|A*A.inverse()-I|; " + kd);
	}
	c.count(("fl." + tag + ".judged").c_str());
	c.count(vf::fmt("fl.%s.n=%02d", tag.c_str(), n).c_str());
	if (A[0] == 0) c.count(("fl." + tag + ".zero_leading_entry").c_str());
	c.distinct(lhash(B, lhash(A, m * 32 + n + 1000 * sizeof(T))));
	if (c.want_sample() && n <= 4) c.sample(vf::fmt("%s %s %dx%d kappa=%.3Lg %s: residual and forward error within 1000*n*eps*kappa; A=%s", tn.c_str(), lsq ? "least squares" : "solve", m, n, k, FGEN[style], lstr<T>(A, m, n).c_str()));
}

static void mode_float(vf::Ctx& c)
{
	LD kmax = (LD)c.opt->param("kmax", 1000);
	bool dbl = c.idx & 1;
	switch ((c.idx >> 1) % 6) {
	case 0: case 1: if (dbl) float_small<double>(c, 4, kmax); else float_small<float>(c, 4, kmax); break;
	case 2: if (dbl) float_small<double>(c, 3, kmax); else float_small<float>(c, 3, kmax); break;
	case 3: case 4: if (dbl) float_solve<double>(c, false, kmax); else float_solve<float>(c, false, kmax); break;
	case 5: if (dbl) float_solve<double>(c, true, kmax); else float_solve<float>(c, true, kmax); break;
	}
}

// ================================================================================================
//                                        ROTATIONS
// ================================================================================================
struct R3 { LD a[9]; };
static R3 rid() { R3 r; for (int i = 0; i < 9; i++) r.a[i] = (i % 4 == 0); return r; }
static R3 rmul(const R3& A, const R3& B) { R3 C; for (int i = 0; i < 3; i++) for (int j = 0; j < 3; j++) { LD s = 0; for (int k = 0; k < 3; k++) s += A.a[i * 3 + k] * B.a[k * 3 + j]; C.a[i * 3 + j] = s; } return C; }
static LD rdist(const R3& A, const R3& B) { LD s = 0; for (int i = 0; i < 9; i++) { LD d = A.a[i] - B.a[i]; s += d * d; } return s == s ? sqrtl(s) : INFINITY; }
static R3 rel(int axis, LD t)  // right-handed elementary rotation about x, y, z
{
	LD c = cosl(t), s = sinl(t);
	R3 r = rid();
	int i = (axis + 1) % 3, j = (axis + 2) % 3;
	r.a[i * 3 + i] = c; r.a[i * 3 + j] = -s; r.a[j * 3 + i] = s; r.a[j * 3 + j] = c;
	return r;
}
// Hamilton product
static void qmul(const LD p[4], const LD q[4], LD o[4])
{
	o[0] = p[0] * q[0] - p[1] * q[1] - p[2] * q[2] - p[3] * q[3];
	o[1] = p[0] * q[1] + p[1] * q[0] + p[2] * q[3] - p[3] * q[2];
	o[2] = p[0] * q[2] - p[1] * q[3] + p[2] * q[0] + p[3] * q[1];
	o[3] = p[0] * q[3] + p[1] * q[2] - p[2] * q[1] + p[3] * q[0];
}
// rotation of a unit quaternion: columns are q e_j q*
static R3 rquat(LD w, LD x, LD y, LD z)
{
	R3 r;
	LD q[4] = {w, x, y, z}, qc[4] = {w, -x, -y, -z};
	for (int j = 0; j < 3; j++) {
		LD e[4] = {0, 0, 0, 0}, t[4], o[4];
		e[1 + j] = 1;
		qmul(q, e, t); qmul(t, qc, o);
		for (int i = 0; i < 3; i++) r.a[i * 3 + j] = o[1 + i];
	}
	return r;
}
// Rodrigues: rotation of angle t about the (not necessarily unit) axis
static R3 raxis(LD x, LD y, LD z, LD t)
{
	LD l = sqrtl(x * x + y * y + z * z);
	if (l == 0) return rid();
	x /= l; y /= l; z /= l;
	LD c = cosl(t), s = sinl(t), k = 1 - c;
	R3 r;
	r.a[0] = c + k * x * x;     r.a[1] = k * x * y - s * z; r.a[2] = k * x * z + s * y;
	r.a[3] = k * x * y + s * z; r.a[4] = c + k * y * y;     r.a[5] = k * y * z - s * x;
	r.a[6] = k * x * z - s * y; r.a[7] = k * y * z + s * x; r.a[8] = c + k * z * z;
	return r;
}
static R3 rvec(LD x, LD y, LD z) { return raxis(x, y, z, sqrtl(x * x + y * y + z * z)); }

static const char* ORDERS[12] = {"XYZ", "XZY", "YXZ", "YZX", "ZXY", "ZYX", "XYX", "XZX", "YXY", "YZY", "ZXZ", "ZYZ"};
// documented composition: moving axes "ABC": R[A](r.x) R[B](r.y) R[C](r.z); fixed axes "ABC*": R[C](r.z) R[B](r.y) R[A](r.x)
static R3 reuler(int order, bool fixed, LD x, LD y, LD z)
{
	int a0 = ORDERS[order][0] - 'X', a1 = ORDERS[order][1] - 'X', a2 = ORDERS[order][2] - 'X';
	return fixed ? rmul(rmul(rel(a2, z), rel(a1, y)), rel(a0, x)) : rmul(rmul(rel(a0, x), rel(a1, y)), rel(a2, z));
}
static const char* CONV_NAMES[24] = {"XYZ", "XZY", "YXZ", "YZX", "ZXY", "ZYX", "XYX", "XZX", "YXY", "YZY", "ZXZ", "ZYZ",
                                     "XYZ*", "XZY*", "YXZ*", "YZX*", "ZXY*", "ZYX*", "XYX*", "XZX*", "YXY*", "YZY*", "ZXZ*", "ZYZ*"};
static std::string conv_name(int conv) { return CONV_NAMES[conv]; }

template<class T> static R3 from_m4(const asl::Matrix4_<T>& m) { R3 r; for (int i = 0; i < 3; i++) for (int j = 0; j < 3; j++) r.a[i * 3 + j] = m(i, j); return r; }
template<class T> static asl::Matrix4_<T> to_m4(const R3& r)
{
	return asl::Matrix4_<T>((T)r.a[0], (T)r.a[1], (T)r.a[2], 0, (T)r.a[3], (T)r.a[4], (T)r.a[5], 0, (T)r.a[6], (T)r.a[7], (T)r.a[8], 0);
}
template<class T> static R3 rq(const asl::Quaternion_<T>& q) { return rquat(q.w, q.x, q.y, q.z); }
template<class T> static R3 rv(const asl::Vec3_<T>& v) { return rvec(v.x, v.y, v.z); }
template<class T> static LD tol() { return sizeof(T) == 4 ? 2e-3L : 1e-6L; }
template<class T> static std::string m4str(const asl::Matrix4_<T>& m)
{
	std::string s = "[";
	for (int i = 0; i < 3; i++) { if (i) s += "; "; for (int j = 0; j < 3; j++) s += vf::fmt(j ? " %.*g" : "%.*g", sizeof(T) == 4 ? 9 : 17, (double)m(i, j)); }
	return s + "]";
}

// Stratum switch. eulerAngles() decides "degenerate" with an exact test (|m(a0,a2)| < 1, or |m(a0,a0)| < 1 for the
// proper orders); matrices whose deciding entry is within ndk*eps BELOW 1 are a separate stratum (modes *_nd):
//   g_nd == 0 : main stratum, such eulerAngles inputs are not judged (counted as deferred)
//   g_nd == 1 : only such inputs are judged, everything else is skipped
static int g_nd = 0;
static long g_ndk = 16;

template<class T> static bool gimbal_branch(const asl::Matrix4_<T>& m, int conv)
{
	int o = conv % 12;
	int a0 = ORDERS[o][0] - 'X', a2 = ORDERS[o][2] - 'X';
	if (conv >= 12) std::swap(a0, a2);
	return !(fabs(m(a0, a2)) < 1);
}
template<class T> static bool near_degenerate(const asl::Matrix4_<T>& m, int conv)
{
	int o = conv % 12;
	int a0 = ORDERS[o][0] - 'X', a2 = ORDERS[o][2] - 'X';
	if (conv >= 12) std::swap(a0, a2);
	T v = fabs(m(a0, a2));
	return v < 1 && v >= 1 - g_ndk * std::numeric_limits<T>::epsilon();
}

struct RotCk
{
	vf::Ctx& c;
	std::function<std::string()> whatf;  // description of the starting representation, built only when needed
	std::string extra;
	R3 truth;
	LD tolv;
	const char* tn;
	LD worst;
	RotCk(vf::Ctx& c_, LD t, const char* tn_) : c(c_), tolv(t), tn(tn_), worst(0) {}
	LD lastd;
	// measure; true = outside the tolerance (then call report(); CK() does both and builds the texts only on failure)
	bool bad(const R3& got, bool force = false)
	{
		if (g_nd && !force) return false;
		LD d = rdist(got, truth);
		if (d > worst || d != d) worst = d;
		lastd = d;
		c.evals(1);
		return !(d <= tolv);
	}
	void report(const std::string& key, const std::string& chain)
	{
		c.desc(whatf() + extra);
		c.fail(key + "." + tn, vf::fmt("rotation distance %.4Lg > %.1Lg after %s", lastd, tolv, chain.c_str()));
	}
	// matrix -> eulerAngles(conv) -> rotateE(conv), judged as a rotation against the truth; src names where m came from
	template<class T> void euler_rt(const asl::Matrix4_<T>& m, int conv, const char* key, const char* src)
	{
		bool nd = near_degenerate(m, conv);
		if (nd != (g_nd != 0)) { if (nd) c.count((std::string("euler.near_degenerate_input_deferred.") + tn).c_str()); return; }
		const char* cn = CONV_NAMES[conv];
		bool g = gimbal_branch(m, conv);
		if (nd) { extra = std::string(" | matrix given to eulerAngles(\"") + cn + "\"): " + m4str(m); c.count((std::string("euler.near_degenerate_input_judged.") + tn).c_str()); }
		asl::Vec3_<T> e = m.eulerAngles(cn);
		if (bad(reuler(conv % 12, conv >= 12, e.x, e.y, e.z), true)) report(std::string(key) + (g ? ".gimbal" : "") + ".euler", std::string(src) + ".eulerAngles(\"" + cn + "\") mapped by the documented composition");
		if (bad(from_m4(asl::Matrix4_<T>::rotateE(e, cn)), true)) report(std::string(key) + (g ? ".gimbal" : "") + ".euler-matrix", "rotateE(" + std::string(src) + ".eulerAngles(\"" + cn + "\"), \"" + cn + "\")");
		if (g) c.count((std::string("euler.gimbal_branch_taken.") + tn).c_str());
		extra.clear();
	}
};

#define CK(K, GOT, KEY, CHAIN) do { if ((K).bad(GOT)) (K).report(KEY, CHAIN); } while (0)

static void note_worst(vf::Ctx& c, const std::string& what, LD worst, LD tolv)
{
	LD rel = worst / tolv;
	const char* b = rel <= 1e-6L ? "le1e-6" : rel <= 1e-3L ? "le1e-3" : rel <= 0.1L ? "le0.1" : rel <= 1 ? "le1" : "gt1";
	c.count(("worst_over_tol." + what + "." + b).c_str());
	count_max(c, ("shardmax_ppm_of_tol." + what).c_str(), rel != rel ? (uint64_t)-1 : (uint64_t)(rel * 1e6L));
}

// every conversion chain starting from a "true" rotation given by (axis direction n, angle t)
template<class T> static void rot_axis_angle(vf::Ctx& c, LD nx, LD ny, LD nz, LD t, int conv)
{
	typedef asl::Vec3_<T> V; typedef asl::Quaternion_<T> Q; typedef asl::Matrix4_<T> M;
	const char* tn = tname<T>();
	// rotation vector stored in T
	V v((T)(nx * t), (T)(ny * t), (T)(nz * t));
	RotCk k(c, tol<T>(), tn);
	k.truth = rv(v);
	k.whatf = [=]() { return vf::fmt("%s rotation vector (%.*g, %.*g, %.*g) [direction (%.6Lg,%.6Lg,%.6Lg) angle %.17Lg]", tn, sizeof(T) == 4 ? 9 : 17, (double)v.x, sizeof(T) == 4 ? 9 : 17, (double)v.y,
	                 sizeof(T) == 4 ? 9 : 17, (double)v.z, nx, ny, nz, t); };
	Q q = Q::fromAxisAngle(v);
	M m = M::rotate(v);
	LD sc = 0.25L + 3 * (LD)c.rng.unit();
	if (!g_nd) {
	CK(k, rq(q), "conv.axisangle-quaternion", "Quaternion::fromAxisAngle(v)");
	CK(k, from_m4(m), "conv.axisangle-matrix", "Matrix4::rotate(v)");
	CK(k, from_m4(q.matrix()), "conv.quaternion-matrix", "fromAxisAngle(v).matrix()");
	V v1 = q.axisAngle();
	CK(k, rv(v1), "rt.axisangle-quaternion-axisangle", "fromAxisAngle(v).axisAngle()");
	V v2 = m.axisAngle();
	CK(k, rv(v2), "rt.axisangle-matrix-axisangle", "rotate(v).axisAngle()");
	Q q2 = m.rotation();
	CK(k, rq(q2), "rt.matrix-quaternion", "rotate(v).rotation()");
	CK(k, from_m4(q2.matrix()), "rt.matrix-quaternion-matrix", "rotate(v).rotation().matrix()");
	CK(k, from_m4(M::rotate(v2)), "rt.matrix-axisangle-matrix", "rotate(rotate(v).axisAngle())");
	CK(k, rq(Q::fromAxisAngle(v1)), "rt.quaternion-axisangle-quaternion", "fromAxisAngle(fromAxisAngle(v).axisAngle())");
	CK(k, rq(Q::fromAxisAngle(q2.axisAngle())), "rt.chain", "fromAxisAngle(rotate(v).rotation().axisAngle())");
	// the other quaternion of the same rotation
	Q qn = -q;
	CK(k, from_m4(qn.matrix()), "conv.negquaternion-matrix", "(-q).matrix()");
	CK(k, rv(qn.axisAngle()), "conv.negquaternion-axisangle", "(-q).axisAngle()");
	CK(k, rq(qn.matrix().rotation()), "rt.negquaternion-matrix-quaternion", "(-q).matrix().rotation()");
	// separate axis + angle forms (axis of arbitrary positive length, and unit axis)
	if (nx != 0 || ny != 0 || nz != 0) {
		V ax((T)(nx * sc), (T)(ny * sc), (T)(nz * sc));
		T ang = (T)t;
		RotCk k2(c, tol<T>(), tn);
		k2.truth = raxis(ax.x, ax.y, ax.z, ang);
		k2.whatf = [=]() { return vf::fmt("%s axis (%.9g, %.9g, %.9g) angle %.17g", tn, (double)ax.x, (double)ax.y, (double)ax.z, (double)ang); };
		CK(k2, rq(Q::fromAxisAngle(ax, ang)), "conv.axis+angle-quaternion", "Quaternion::fromAxisAngle(axis, angle)");
		CK(k2, from_m4(M::rotate(ax, ang)), "conv.axis+angle-matrix", "Matrix4::rotate(axis, angle)");
		CK(k2, rv(M::rotate(ax, ang).axisAngle()), "rt.axis+angle-matrix-axisangle", "rotate(axis, angle).axisAngle()");
		V un((T)nx, (T)ny, (T)nz);
		RotCk k3(c, tol<T>(), tn);
		k3.truth = raxis(un.x, un.y, un.z, ang);
		k3.whatf = [=]() { return vf::fmt("%s unit axis (%.9g, %.9g, %.9g) angle %.17g", tn, (double)un.x, (double)un.y, (double)un.z, (double)ang); };
		CK(k3, rq(Q::fromAxisAngleU(un, ang)), "conv.unitaxis+angle-quaternion", "Quaternion::fromAxisAngleU(axis, angle)");
		if (k2.worst > k.worst) k.worst = k2.worst;
		if (k3.worst > k.worst) k.worst = k3.worst;
	}
	}
	// correctly rounded rotation matrix as a starting point, and Euler angles of one convention
	M mr = to_m4<T>(k.truth);
	CK(k, rq(mr.rotation()), "conv.matrix-quaternion", "R.rotation() of the correctly rounded matrix");
	CK(k, rv(mr.axisAngle()), "conv.matrix-axisangle", "R.axisAngle() of the correctly rounded matrix");
	k.euler_rt(mr, conv, "rt.matrix", "R[correctly rounded]");
	k.euler_rt(m, conv, "rt.axisangle-matrix", "rotate(v)");
	note_worst(c, std::string("axisangle.") + tn, k.worst, k.tolv);
}

template<class T> static void rot_quat(vf::Ctx& c, LD w, LD x, LD y, LD z, int conv)
{
	typedef asl::Vec3_<T> V; typedef asl::Quaternion_<T> Q; typedef asl::Matrix4_<T> M;
	const char* tn = tname<T>();
	LD l = sqrtl(w * w + x * x + y * y + z * z);
	Q q((T)(w / l), (T)(x / l), (T)(y / l), (T)(z / l));
	RotCk k(c, tol<T>(), tn);
	LD ql = sqrtl((LD)q.w * q.w + (LD)q.x * q.x + (LD)q.y * q.y + (LD)q.z * q.z);
	k.truth = rquat(q.w / ql, q.x / ql, q.y / ql, q.z / ql);
	int pr = sizeof(T) == 4 ? 9 : 17;
	k.whatf = [=]() { return vf::fmt("%s unit quaternion (w=%.*g, x=%.*g, y=%.*g, z=%.*g)", tn, pr, (double)q.w, pr, (double)q.x, pr, (double)q.y, pr, (double)q.z); };
	if (!g_nd) {
	M m = q.matrix();
	CK(k, from_m4(m), "conv.quaternion-matrix", "q.matrix()");
	Q q2 = m.rotation();
	CK(k, rq(q2), "rt.quaternion-matrix-quaternion", "q.matrix().rotation()");
	V v = q.axisAngle();
	CK(k, rv(v), "conv.quaternion-axisangle", "q.axisAngle()");
	CK(k, rq(Q::fromAxisAngle(v)), "rt.quaternion-axisangle-quaternion", "fromAxisAngle(q.axisAngle())");
	CK(k, from_m4(M::rotate(v)), "rt.quaternion-axisangle-matrix", "rotate(q.axisAngle())");
	CK(k, rv(m.axisAngle()), "rt.quaternion-matrix-axisangle", "q.matrix().axisAngle()");
	}
	M mr = to_m4<T>(k.truth);
	CK(k, rq(mr.rotation()), "conv.matrix-quaternion", "R.rotation() of the correctly rounded matrix");
	CK(k, from_m4(mr.rotation().matrix()), "rt.matrix-quaternion-matrix", "R.rotation().matrix() of the correctly rounded matrix");
	CK(k, rv(mr.axisAngle()), "conv.matrix-axisangle", "R.axisAngle() of the correctly rounded matrix");
	std::string cn = conv_name(conv);
	k.euler_rt(mr, conv, "rt.matrix", "R[correctly rounded]");
	// which branch of rotation() does this matrix take
	{
		T t = mr(0, 0) + mr(1, 1) + mr(2, 2);
		const char* br = t >= 0 ? "w" : (mr(1, 1) > mr(0, 0) && mr(1, 1) >= mr(2, 2)) ? "y" : (mr(2, 2) > mr(0, 0)) ? "z" : "x";
		c.count((std::string("rot.rotation_branch.") + br + "." + tn).c_str());
	}
	note_worst(c, std::string("quaternion.") + tn, k.worst, k.tolv);
}

// relative rotation of two nearly equal (or equal) orientations, computed with the library's own quaternion product:
// the result is a unit quaternion only up to rounding, so its w can be 1 + 1 ulp - still a (tiny) rotation
template<class T> static void rot_relative(vf::Ctx& c)
{
	typedef asl::Vec3_<T> V; typedef asl::Quaternion_<T> Q; typedef asl::Matrix4_<T> M;
	const char* tn = tname<T>();
	LD q[4], l = 0;
	for (int i = 0; i < 4; i++) { q[i] = gauss(c.rng); l += q[i] * q[i]; }
	l = sqrtl(l);
	Q a((T)(q[0] / l), (T)(q[1] / l), (T)(q[2] / l), (T)(q[3] / l));
	int how = (int)c.rng.below(4);
	LD mag = how == 0 ? 0 : powl(10, -(LD)c.rng.range(3, 12));
	V tiny((T)(gauss(c.rng) * mag), (T)(gauss(c.rng) * mag), (T)(gauss(c.rng) * mag));
	Q b = how == 0 ? a : (Q::fromAxisAngle(tiny) ^ a);
	Q rel = b ^ a.conj();
	// truth from the stored components of a and b, in long double
	LD aw = a.w, ax = -(LD)a.x, ay = -(LD)a.y, az = -(LD)a.z, bw = b.w, bx = b.x, by = b.y, bz = b.z;
	LD rw = bw * aw - bx * ax - by * ay - bz * az, rx = bw * ax + bx * aw + by * az - bz * ay, ry = bw * ay - bx * az + by * aw + bz * ax, rz = bw * az + bx * ay - by * ax + bz * aw;
	LD rl = sqrtl(rw * rw + rx * rx + ry * ry + rz * rz);
	RotCk k(c, tol<T>(), tn);
	k.truth = rquat(rw / rl, rx / rl, ry / rl, rz / rl);
	int pr = sizeof(T) == 4 ? 9 : 17;
	k.whatf = [=]() { return vf::fmt("%s relative rotation b ^ a.conj() of orientations %s apart, result (w=%.*g, x=%.*g, y=%.*g, z=%.*g)", tn, how == 0 ? "0" : vf::fmt("about %.0Le rad", mag).c_str(), pr, (double)rel.w, pr, (double)rel.x, pr, (double)rel.y, pr, (double)rel.z); };
	V v = rel.axisAngle();
	if (!(v.x == v.x && v.y == v.y && v.z == v.z)) { c.desc(k.whatf()); c.fail(std::string("rt.relative-rotation.axisangle-not-a-number.") + tn, vf::fmt("axisAngle() = (%g, %g, %g)", (double)v.x, (double)v.y, (double)v.z)); }
	CK(k, rv(v), "rt.relative-rotation.axisangle", "(b ^ a.conj()).axisAngle()");
	M m = rel.matrix();
	CK(k, rv(m.axisAngle()), "rt.relative-rotation.matrix-axisangle", "(b ^ a.conj()).matrix().axisAngle()");
	T ang = rel.angle();
	if (!(ang == ang)) { c.desc(k.whatf()); c.fail(std::string("rt.relative-rotation.angle-not-a-number.") + tn, "angle() is NaN"); }
	if ((LD)rel.w > 1) c.count((std::string("rot.relative_w_above_1.") + tn).c_str());
	c.count("rot.relative_rotations");
}

static std::vector<LD> angle_grid()
{
	std::vector<LD> A;
	for (int k = -24; k <= 24; k++) A.push_back(k * PIl / 12);
	static const LD centers[] = {0, PIl / 2, -PIl / 2, PIl, -PIl, 2 * PIl, -2 * PIl};
	for (int ci = 0; ci < 7; ci++)
		for (int e = 1; e <= 17; e++) {
			LD d = powl(10, -e);
			A.push_back(centers[ci] + d);
			A.push_back(centers[ci] - d);
			if (e % 2 == 0) { A.push_back(centers[ci] + 3 * d); A.push_back(centers[ci] - 7 * d); }
		}
	return A;
}

static void fixed_dirs(std::vector<LD>& D)
{
	for (int x = -1; x <= 1; x++) for (int y = -1; y <= 1; y++) for (int z = -1; z <= 1; z++) {
		if (!x && !y && !z) continue;
		LD l = sqrtl((LD)(x * x + y * y + z * z));
		D.push_back(x / l); D.push_back(y / l); D.push_back(z / l);
	}
	// almost-axis directions
	static const LD EP[] = {1e-3L, 1e-6L, 1e-9L, 1e-13L};
	for (int a = 0; a < 3; a++) for (int e = 0; e < 4; e++) for (int s = -1; s <= 1; s += 2) {
		LD v[3] = {EP[e], -EP[e] / 2, 0};
		v[a] = s;
		if (a == 0) { v[1] = EP[e]; v[2] = -EP[e] / 2; }
		if (a == 1) { v[0] = EP[e]; v[2] = -EP[e] / 2; }
		LD l = sqrtl(v[0] * v[0] + v[1] * v[1] + v[2] * v[2]);
		D.push_back(v[0] / l); D.push_back(v[1] / l); D.push_back(v[2] / l);
	}
}

// one case = one direction x every grid angle (+ a block of lattice quaternions)
static void mode_rot(vf::Ctx& c)
{
	g_ndk = c.opt->param("ndk", 16);
	static std::vector<LD> A, D;
	if (A.empty()) { A = angle_grid(); fixed_dirs(D); }
	int nd = (int)D.size() / 3;
	LD n[3];
	if ((int)c.idx < nd) { n[0] = D[c.idx * 3]; n[1] = D[c.idx * 3 + 1]; n[2] = D[c.idx * 3 + 2]; }
	else {
		LD l;
		do { for (int i = 0; i < 3; i++) n[i] = gauss(c.rng); l = sqrtl(n[0] * n[0] + n[1] * n[1] + n[2] * n[2]); } while (l < 1e-3L);
		for (int i = 0; i < 3; i++) n[i] /= l;
		if (c.rng.below(4) == 0) {  // in a coordinate plane
			n[c.rng.below(3)] = 0;
			l = sqrtl(n[0] * n[0] + n[1] * n[1] + n[2] * n[2]);
			if (l > 0) for (int i = 0; i < 3; i++) n[i] /= l;
			else n[0] = 1;
		}
	}
	for (size_t ai = 0; ai <= A.size() + 8; ai++) {
		LD t = ai < A.size() ? A[ai] : (2 * (LD)c.rng.unit() - 1) * 2 * PIl;
		int conv = (int)c.rng.below(24);
		rot_axis_angle<double>(c, n[0], n[1], n[2], t, conv);
		rot_axis_angle<float>(c, n[0], n[1], n[2], t, conv);
		double key[4] = {(double)n[0], (double)n[1], (double)n[2], (double)t};
		c.distinct(vf::fnv(key, sizeof key));
		LD tm = fmodl(fabsl(t), 2 * PIl);
		if (tm == 0) c.count("rot.angle_exactly_0_or_2pi");
		if (fabsl(tm - PIl) < 1e-3L) c.count("rot.angle_within_1e-3_of_pi");
		if (tm < 1e-3L || 2 * PIl - tm < 1e-3L) c.count("rot.angle_within_1e-3_of_identity");
	}
	c.count("rot.direction_cases");
	// the zero rotation vector
	if (c.idx == 0) { rot_axis_angle<double>(c, 0, 0, 0, 0, 0); rot_axis_angle<float>(c, 0, 0, 0, 0, 5); c.count("rot.zero_vector"); }
	// lattice quaternions {-2..2}^4 (all ties and exact 180-degree rotations), 40 per case, cycling
	for (int r = 0; r < 40; r++) {
		int li = (int)((c.idx * 40 + r) % 625);
		int w = li % 5 - 2, x = li / 5 % 5 - 2, y = li / 25 % 5 - 2, z = li / 125 - 2;
		if (!w && !x && !y && !z) continue;
		int conv = (int)c.rng.below(24);
		rot_quat<double>(c, w, x, y, z, conv);
		rot_quat<float>(c, w, x, y, z, conv);
		if (w == 0) c.count("rot.lattice_quaternion_180_degrees");
		c.count("rot.lattice_quaternions");
		if (c.idx * 40 + r < 625) c.distinct(vf::mix(0x9999, (uint64_t)li));
	}
	// random unit quaternions
	for (int r = 0; r < 40; r++) {
		LD q[4];
		for (int i = 0; i < 4; i++) q[i] = gauss(c.rng);
		if (c.rng.below(4) == 0) q[0] *= 1e-6L;  // close to 180 degrees
		if (c.rng.below(6) == 0) { q[1] *= 1e-8L; q[2] *= 1e-8L; q[3] *= 1e-8L; }  // close to identity
		int conv = (int)c.rng.below(24);
		rot_quat<double>(c, q[0], q[1], q[2], q[3], conv);
		rot_quat<float>(c, q[0], q[1], q[2], q[3], conv);
		c.count("rot.random_quaternions");
		double key[4] = {(double)q[0], (double)q[1], (double)q[2], (double)q[3]};
		c.distinct(vf::fnv(key, sizeof key));
	}
	if (!g_nd) for (int r = 0; r < 60; r++) { rot_relative<double>(c); rot_relative<float>(c); }
	// Matrix3 2D rotation <-> angle
	for (size_t ai = 0; ai < A.size(); ai++) {
		double t = (double)A[ai];
		double r1 = asl::Matrix3_<double>::rotate(t).rotation();
		float r2 = asl::Matrix3_<float>::rotate((float)t).rotation();
		LD d1 = 2 * fabsl(sinl(((LD)r1 - (LD)t) / 2)), d2 = 2 * fabsl(sinl(((LD)r2 - (LD)(float)t) / 2));
		c.evals(2);
		if (!(d1 * sqrtl(2) <= 1e-6L)) { c.desc(vf::fmt("Matrix3d::rotate(%.17g).rotation()", t)); c.fail("rt.matrix3-angle.double", vf::fmt("got %.17g", r1)); }
		if (!(d2 * sqrtl(2) <= 2e-3L)) { c.desc(vf::fmt("Matrix3::rotate(%.9g).rotation()", (double)(float)t)); c.fail("rt.matrix3-angle.float", vf::fmt("got %.9g", (double)r2)); }
	}
	if (c.want_sample()) c.sample(vf::fmt("direction (%.6Lg,%.6Lg,%.6Lg) x %d angles (multiples of pi/12 in [-2pi,2pi], +-10^-k around 0, +-pi/2, +-pi, +-2pi, random), float and double: "
	                                      "rotation vector -> quaternion/matrix -> back, -q, axis+angle forms, correctly rounded matrix -> quaternion/axis-angle/Euler; 40 lattice + 40 random quaternions",
	                                      n[0], n[1], n[2], (int)A.size() + 9));
}

// ------------------------------------------------------------------------------------------------ Euler
static std::vector<LD> euler_middle_grid()
{
	std::vector<LD> A;
	for (int k = -12; k <= 12; k++) A.push_back(k * PIl / 12);
	static const LD centers[] = {0, PIl / 2, -PIl / 2, PIl, -PIl};
	for (int ci = 0; ci < 5; ci++)
		for (int e = 1; e <= 17; e++) {
			LD d = powl(10, -e);
			A.push_back(centers[ci] + d);
			A.push_back(centers[ci] - d);
			if (e >= 3 && e <= 9) { A.push_back(centers[ci] + 2.5L * d); A.push_back(centers[ci] - 5 * d); }
		}
	A.push_back(3 * PIl / 2); A.push_back(-3 * PIl / 2); A.push_back(2 * PIl); A.push_back(5); A.push_back(-7.5L);
	return A;
}
static std::vector<LD> euler_outer_grid()
{
	std::vector<LD> A;
	for (int k = -12; k <= 12; k++) A.push_back(k * PIl / 12);
	A.push_back(1e-9L); A.push_back(-1e-5L); A.push_back(PIl - 1e-7L); A.push_back(-PIl + 1e-10L); A.push_back(PIl / 2 + 1e-8L); A.push_back(4.5L); A.push_back(-6.0L);
	return A;
}

static const char* from_names[24] = {"rotateE(e,\"XYZ\")", "rotateE(e,\"XZY\")", "rotateE(e,\"YXZ\")", "rotateE(e,\"YZX\")", "rotateE(e,\"ZXY\")", "rotateE(e,\"ZYX\")",
                                     "rotateE(e,\"XYX\")", "rotateE(e,\"XZX\")", "rotateE(e,\"YXY\")", "rotateE(e,\"YZY\")", "rotateE(e,\"ZXZ\")", "rotateE(e,\"ZYZ\")",
                                     "rotateE(e,\"XYZ*\")", "rotateE(e,\"XZY*\")", "rotateE(e,\"YXZ*\")", "rotateE(e,\"YZX*\")", "rotateE(e,\"ZXY*\")", "rotateE(e,\"ZYX*\")",
                                     "rotateE(e,\"XYX*\")", "rotateE(e,\"XZX*\")", "rotateE(e,\"YXY*\")", "rotateE(e,\"YZY*\")", "rotateE(e,\"ZXZ*\")", "rotateE(e,\"ZYZ*\")"};
template<class T> static LD euler_one(vf::Ctx& c, int conv, LD x, LD y, LD z, bool cross)
{
	typedef asl::Vec3_<T> V; typedef asl::Quaternion_<T> Q; typedef asl::Matrix4_<T> M;
	const char* tn = tname<T>();
	std::string cn = conv_name(conv);
	int o = conv % 12;
	bool fixed = conv >= 12;
	V e((T)x, (T)y, (T)z);
	RotCk k(c, tol<T>(), tn);
	k.truth = reuler(o, fixed, e.x, e.y, e.z);
	int pr = sizeof(T) == 4 ? 9 : 17;
	k.whatf = [=]() { return vf::fmt("%s Euler angles (%.*g, %.*g, %.*g) order \"%s\"", tn, pr, (double)e.x, pr, (double)e.y, pr, (double)e.z, cn.c_str()); };
	M m = M::rotateE(e, cn.c_str());
	if (!g_nd) CK(k, from_m4(m), "conv.euler-matrix", "Matrix4::rotateE(e, \"" + cn + "\") against the documented composition");
	if (!fixed && !g_nd) {
		M mi = M::rotateE(e, ORDERS[o][0] - 'X', ORDERS[o][1] - 'X', ORDERS[o][2] - 'X');
		CK(k, from_m4(mi), "conv.euler-matrix.int-axes", "Matrix4::rotateE(e, a0, a1, a2)");
	}
	k.euler_rt(m, conv, "rt.euler-matrix", "rotateE(e)");
	// correctly rounded matrix of the same rotation
	M mr = to_m4<T>(k.truth);
	k.euler_rt(mr, conv, "rt.matrix", "R[correctly rounded]");
	if (cross) {
		// through the other representations and into another convention
		if (!g_nd) {
			Q q = m.rotation();
			CK(k, rq(q), "rt.euler-matrix-quaternion", "rotateE(e).rotation()");
			CK(k, rv(m.axisAngle()), "rt.euler-matrix-axisangle", "rotateE(e).axisAngle()");
		}
		int conv2 = (int)c.rng.below(24);
		std::string cn2 = conv_name(conv2);
		k.euler_rt(m, conv2, "rt.euler-matrix-other", from_names[conv]);
	}
	return k.worst;
}

// quaternion-made matrices near gimbal lock (q.matrix() has absolute, not relative, rounding errors in its small entries)
template<class T> static LD euler_via_quat(vf::Ctx& c, int conv, LD x, LD y, LD z)
{
	typedef asl::Vec3_<T> V; typedef asl::Quaternion_<T> Q; typedef asl::Matrix4_<T> M;
	const char* tn = tname<T>();
	std::string cn = conv_name(conv);
	V e((T)x, (T)y, (T)z);
	RotCk k(c, tol<T>(), tn);
	int pr = sizeof(T) == 4 ? 9 : 17;
	M m = M::rotateE(e, cn.c_str());
	Q q = m.rotation();
	M mq = q.matrix();
	// the rotation being converted is the one the quaternion holds
	LD ql = sqrtl((LD)q.w * q.w + (LD)q.x * q.x + (LD)q.y * q.y + (LD)q.z * q.z);
	k.truth = rquat(q.w / ql, q.x / ql, q.y / ql, q.z / ql);
	k.whatf = [=]() { return vf::fmt("%s quaternion (w=%.*g, x=%.*g, y=%.*g, z=%.*g) [from Euler (%.*g, %.*g, %.*g) \"%s\"], matrix %s", tn, pr, (double)q.w, pr, (double)q.x, pr, (double)q.y, pr, (double)q.z,
	                 pr, (double)e.x, pr, (double)e.y, pr, (double)e.z, cn.c_str(), m4str(mq).c_str()); };
	k.euler_rt(mq, conv, "rt.quaternion-matrix", "q.matrix()");
	return k.worst;
}

// case = (convention, middle angle) x outer grid x outer grid
static void mode_euler(vf::Ctx& c)
{
	g_ndk = c.opt->param("ndk", 16);
	static std::vector<LD> Mg, Og;
	if (Mg.empty()) { Mg = euler_middle_grid(); Og = euler_outer_grid(); }
	int nm = (int)Mg.size();
	int conv = (int)(c.idx % 24);
	uint64_t mi = c.idx / 24;
	LD y = mi < (uint64_t)nm ? Mg[mi] : (2 * (LD)c.rng.unit() - 1) * PIl;
	int stride = (int)c.opt->param("stride", 1);
	bool viaq = c.opt->param("viaq", 1) != 0;
	LD wd = 0, wf = 0, wqd = 0, wqf = 0;
	size_t no = Og.size();
	int cnt = 0;
	for (size_t i = 0; i < no + 2; i++)
		for (size_t j = 0; j < no + 2; j++) {
			if (stride > 1 && (i * (no + 2) + j + c.idx) % stride) continue;
			LD x = i < no ? Og[i] : (2 * (LD)c.rng.unit() - 1) * PIl, z = j < no ? Og[j] : (2 * (LD)c.rng.unit() - 1) * PIl;
			bool cross = ((i + j) % 4) == 0;
			wd = std::max(wd, euler_one<double>(c, conv, x, y, z, cross));
			wf = std::max(wf, euler_one<float>(c, conv, x, y, z, cross));
			if (viaq) {
				wqd = std::max(wqd, euler_via_quat<double>(c, conv, x, y, z));
				wqf = std::max(wqf, euler_via_quat<float>(c, conv, x, y, z));
			}
			cnt++;
			double key[4] = {(double)x, (double)y, (double)z, (double)conv};
			c.distinct(vf::fnv(key, sizeof key));
		}
	note_worst(c, "euler.double", wd, tol<double>());
	note_worst(c, "euler.float", wf, tol<float>());
	if (viaq) { note_worst(c, "euler-via-quaternion.double", wqd, tol<double>()); note_worst(c, "euler-via-quaternion.float", wqf, tol<float>()); }
	c.count(("euler.order." + conv_name(conv)).c_str());
	LD ym = fabsl(fmodl(fabsl(y), PIl));
	bool proper = conv % 12 >= 6;
	LD dg = proper ? std::min(ym, PIl - ym) : fabsl(ym - PIl / 2);
	if (dg == 0) c.count("euler.middle_angle_exactly_degenerate");
	else if (dg < 1e-2L) c.count("euler.middle_angle_within_1e-2_of_degenerate");
	if (c.want_sample()) c.sample(vf::fmt("order \"%s\", middle angle %.17Lg, %d outer angle pairs (multiples of pi/12, near-0/pi/2/pi values, out-of-range, random), float and double: "
	                                      "rotateE vs documented composition, eulerAngles round trip from rotateE / correctly rounded / quaternion-made matrices, other conventions",
	                                      conv_name(conv).c_str(), y, cnt));
}

static void mode_rot_nd(vf::Ctx& c) { g_nd = 1; g_ndk = c.opt->param("ndk", 16); mode_rot(c); }
static void mode_euler_nd(vf::Ctx& c) { g_nd = 1; g_ndk = c.opt->param("ndk", 16); mode_euler(c); }

int main(int argc, char** argv)
{
	vf::Runner R;
	R.add("field", mode_field, "exact identities over F_p, p=2^61-1: Matrix3/Matrix4 inverse+det, solve, least squares, unit quaternion matrix");
	R.add("float", mode_float, "float/double residuals against 1000*n*eps*kappa");
	R.add("rot", mode_rot, "quaternion / matrix / axis-angle conversions on a grid");
	R.add("euler", mode_euler, "Euler angles, 12 orders x fixed/moving, incl. gimbal lock");
	R.add("rot_nd", mode_rot_nd, "stratum: only eulerAngles() inputs whose deciding entry is within ndk*eps below 1 (same generator as rot)");
	R.add("euler_nd", mode_euler_nd, "stratum: only eulerAngles() inputs whose deciding entry is within ndk*eps below 1 (same generator as euler)");
	return R.main(argc, argv);
}
