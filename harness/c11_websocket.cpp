// C11: WebSocket messages arrive intact and in order for every size, fragmentation, mask key and direction, against an
// independent RFC 6455 framer and between the library's client and server; the handshake accept key is the prescribed
// one; hostile / truncated frame streams cause at most a closed connection.
#include "common/runner.h"
#include <asl/WebSocket.h>
#include <asl/Socket.h>
#include <asl/SocketServer.h>
#include <thread>
#include <atomic>
#include <mutex>
#include <vector>
#include <string>
#include <algorithm>
#include <sys/socket.h>
#include <poll.h>
#include <sys/ioctl.h>
#include <signal.h>
#include <netinet/in.h>
#include <arpa/inet.h>

using namespace asl;

static FILE* recf = 0;

// ---------------------------------------------------------------- independent RFC 6455 framer / deframer
struct Frame { bool fin; int rsv; int opcode; bool masked; unsigned char key[4]; std::string payload; int lenForm; };

static std::string frameBytes(bool fin, int opcode, const std::string& payload, bool masked, const unsigned char key[4], int rsv = 0, int forceLenForm = 0, uint64_t fakeLen = 0, bool useFake = false)
{
	std::string f;
	f += (char)((fin ? 0x80 : 0) | ((rsv & 7) << 4) | (opcode & 15));
	uint64_t n = useFake ? fakeLen : payload.size();
	int form = forceLenForm ? forceLenForm : (n < 126 ? 1 : n < 65536 ? 2 : 3);
	if (form == 1) f += (char)((masked ? 0x80 : 0) | (int)n);
	else if (form == 2) { f += (char)((masked ? 0x80 : 0) | 126); f += (char)(n >> 8); f += (char)(n & 255); }
	else { f += (char)((masked ? 0x80 : 0) | 127); for (int i = 7; i >= 0; i--) f += (char)((n >> (8 * i)) & 255); }
	if (masked) f.append((const char*)key, 4);
	size_t at = f.size();
	f += payload;
	if (masked) for (size_t i = 0; i < payload.size(); i++) f[at + i] = (char)(payload[i] ^ key[i & 3]);
	return f;
}

// parses one frame from buf at off; returns 1 ok, 0 need more, -1 malformed
static int parseFrame(const std::string& b, size_t& off, Frame& fr)
{
	size_t p = off;
	if (b.size() - p < 2) return 0;
	unsigned char b0 = b[p], b1 = b[p + 1];
	p += 2;
	fr.fin = b0 & 0x80; fr.rsv = (b0 >> 4) & 7; fr.opcode = b0 & 15; fr.masked = b1 & 0x80;
	uint64_t n = b1 & 0x7f;
	fr.lenForm = 1;
	if (n == 126) { if (b.size() - p < 2) return 0; n = ((unsigned char)b[p] << 8) | (unsigned char)b[p + 1]; p += 2; fr.lenForm = 2; }
	else if (n == 127) { if (b.size() - p < 8) return 0; n = 0; for (int i = 0; i < 8; i++) n = (n << 8) | (unsigned char)b[p + i]; p += 8; fr.lenForm = 3; }
	if (fr.masked) { if (b.size() - p < 4) return 0; memcpy(fr.key, b.data() + p, 4); p += 4; }
	if (n > (1ull << 31)) return -1;
	if (b.size() - p < n) return 0;
	fr.payload = b.substr(p, (size_t)n);
	if (fr.masked) for (size_t i = 0; i < fr.payload.size(); i++) fr.payload[i] = (char)(fr.payload[i] ^ fr.key[i & 3]);
	off = p + (size_t)n;
	return 1;
}

static std::string randPayload(vf::Rng& r, size_t n, bool text)
{
	std::string s(n, 0);
	for (size_t i = 0; i < n; i++) s[i] = text ? (char)r.range(0x20, 0x7e) : (char)r.below(256);
	return s;
}

static size_t pickLen(vf::Rng& r, uint64_t idx, long maxbig)
{
	static const int edges[] = {1, 2, 3, 4, 5, 7, 8, 122, 123, 124, 125, 126, 127, 128, 129, 65532, 65533, 65534, 65535, 65536, 65537, 65538, 65539, 70000};
	int w = r.below(10);
	if (w < 4) return edges[(idx + r.below(3)) % (sizeof(edges) / sizeof(edges[0]))];
	if (w < 7) return r.range(1, 300);
	if (w < 9) return r.range(1, 70000);
	if (r.chance(0.3)) {   // round sizes and their neighbours: 128 KiB ... 4 MiB as far as maxbig allows (limits tend to sit there)
		int k = r.range(17, 22);
		while (k > 17 && (1L << k) > maxbig) k--;
		long n = (1L << k) + r.range(-1, 1);
		if (n >= 70001 && n <= maxbig) return (size_t)n;
	}
	return (size_t)r.range(70001, (int)maxbig);
}

static bool writeAll(int fd, const std::string& s)
{
	size_t off = 0;
	while (off < s.size()) {
		ssize_t n = send(fd, s.data() + off, s.size() - off, MSG_NOSIGNAL);
		if (n <= 0) return false;
		off += n;
	}
	return true;
}

// ---------------------------------------------------------------- raw framer -> asl receive()
struct SentMsg { std::string payload; bool text; };

static void mode_recv(vf::Ctx& c)
{
	bool aslIsClient = c.rng.chance(0.5);      // role of the library side; frames sent to a server are masked
	bool masked = !aslIsClient;
	if (c.rng.chance(0.15)) masked = !masked;   // the library does not insist on the role's masking rule when receiving
	int nmsg = c.rng.range(1, 6);
	long maxbig = c.opt->param("maxbig", 300000);
	std::vector<SentMsg> sent;
	std::string stream;
	std::string d = vf::fmt("raw -> asl(%s) %s: ", aslIsClient ? "client" : "server", masked ? "masked" : "unmasked");
	for (int m = 0; m < nmsg; m++) {
		SentMsg sm;
		sm.text = c.rng.chance(0.5);
		size_t n = pickLen(c.rng, c.idx + m, maxbig);
		sm.payload = randPayload(c.rng, n, sm.text);
		int nfr = c.rng.chance(0.5) ? 1 : c.rng.range(2, 4);
		// a third of the fragmented messages may contain empty fragments (first, middle or the final FIN one), which RFC 6455 allows
		bool emptyFrags = nfr > 1 && n > 0 && c.rng.chance(0.35);
		if (!emptyFrags && (size_t)nfr > n) nfr = (int)n;
		std::vector<size_t> cutp;
		for (int i = 1; i < nfr; i++) cutp.push_back(emptyFrags ? (c.rng.chance(0.3) ? (c.rng.chance(0.5) ? 0 : n) : c.rng.below((uint32_t)(n + 1))) : 1 + c.rng.below((uint32_t)(n - 1)));
		std::sort(cutp.begin(), cutp.end());
		if (!emptyFrags) cutp.erase(std::unique(cutp.begin(), cutp.end()), cutp.end());
		cutp.push_back(n);
		if (emptyFrags) { size_t pa = 0; for (size_t i = 0; i < cutp.size(); i++) { if (cutp[i] == pa) c.count(i + 1 == cutp.size() ? "empty_final_fragments" : i == 0 ? "empty_first_fragments" : "empty_middle_fragments"); pa = cutp[i]; } }
		size_t a = 0;
		d += vf::fmt("[%s %d bytes in %d frames", sm.text ? "text" : "binary", (int)n, (int)cutp.size());
		for (size_t i = 0; i < cutp.size(); i++) {
			unsigned char key[4];
			int km = c.rng.below(5);
			for (int k = 0; k < 4; k++) key[k] = km == 0 ? 0 : (km == 1 && k == (int)(c.idx & 3)) ? 0 : (unsigned char)c.rng.below(256);
			stream += frameBytes(i + 1 == cutp.size(), i == 0 ? (sm.text ? 1 : 2) : 0, sm.payload.substr(a, cutp[i] - a), masked, key);
			a = cutp[i];
			// control frames may be injected in the middle of a fragmented message (RFC 6455 5.4)
			if (i + 1 < cutp.size() && c.rng.chance(0.35)) {
				bool ping = c.rng.chance(0.6);
				stream += frameBytes(true, ping ? 9 : 10, randPayload(c.rng, c.rng.range(0, 20), true), masked, key);
				d += ping ? " +ping-between-fragments" : " +pong-between-fragments";
				c.count(ping ? "pings_between_fragments" : "pongs_between_fragments");
			}
		}
		d += "] ";
		sent.push_back(sm);
		if (c.rng.chance(0.3)) { unsigned char key[4] = {1, 2, 3, 4}; stream += frameBytes(true, c.rng.chance(0.5) ? 9 : 10, randPayload(c.rng, c.rng.range(0, 125), true), masked, key); d += "ping/pong "; c.count("controls_between_messages"); }
	}
	c.desc(d);
	int sv[2];
	// every 16th case runs with stdin closed, so that the library's end of the connection is descriptor 0
	int savedStdin = -1;
	bool lowFd = c.idx % 16 == 6;
	if (lowFd) { savedStdin = dup(0); close(0); c.count("recv.library_socket_is_descriptor_0"); }
	if (socketpair(AF_UNIX, SOCK_STREAM, 0, sv) != 0) { if (lowFd && savedStdin >= 0) { dup2(savedStdin, 0); close(savedStdin); } c.inconclusive("socketpair"); return; }
	std::vector<std::string> got;
	std::atomic<int> negative(0), done(0), stringFormDiffers(0);
	std::thread rx([&]() {
		try {
			WebSocket ws(Socket(sv[0]), aslIsClient);
			while (!ws.closed()) {
				WebSocketMsg m = ws.receive();
				if (m.length() < 0) { negative++; break; }
				if (m.length() > 0) {
					got.push_back(std::string(*m, m.length()));
					// the documented `String msg = ws.receive();` form carries the same bytes (a String is counted, zero bytes included)
					String asString = m;
					if (asString.length() != m.length() || memcmp(*asString, *m, (size_t)m.length()) != 0) stringFormDiffers++;
				}
			}
		} catch (std::bad_alloc&) {}
		done = 1;
	});
	// writer: the stream in random fragments, draining pongs the library sends back
	int fd = sv[1];
	size_t off = 0;
	std::string pongs;
	char buf[4096];
	while (off < stream.size()) {
		size_t n = std::min(stream.size() - off, (size_t)(c.rng.chance(0.3) ? c.rng.range(1, 7) : c.rng.range(1, 100000)));
		struct pollfd p = {fd, POLLIN | POLLOUT, 0};
		poll(&p, 1, 1000);
		if (p.revents & POLLIN) { ssize_t k = recv(fd, buf, sizeof buf, MSG_DONTWAIT); if (k > 0) pongs.append(buf, k); }
		if (p.revents & POLLOUT) { ssize_t k = send(fd, stream.data() + off, n, MSG_NOSIGNAL | MSG_DONTWAIT); if (k > 0) off += k; else if (k < 0 && errno != EAGAIN) break; }
		if (p.revents & (POLLERR | POLLHUP)) break;
	}
	shutdown(fd, SHUT_WR);
	double t0 = vf::now();
	while (!done && vf::now() - t0 < 90) { struct pollfd p = {fd, POLLIN, 0}; if (poll(&p, 1, 20) > 0) { ssize_t k = recv(fd, buf, sizeof buf, MSG_DONTWAIT); if (k > 0) pongs.append(buf, k); } }
	close(fd);
	if (!done) { rx.detach(); c.fail_exit("recv.receive-does-not-return-after-peer-closed", "90 s after the peer closed"); }
	rx.join();
	if (lowFd && savedStdin >= 0) { dup2(savedStdin, 0); close(savedStdin); }
	if (negative) c.fail("recv.message-of-negative-length", "");
	if (stringFormDiffers) c.fail("recv.string-form-differs", vf::fmt("%d messages: `String s = ws.receive()` does not carry the bytes of the message", (int)stringFormDiffers));
	if (got.size() != sent.size()) {
		std::string lens;
		for (auto& g : got) lens += vf::fmt("%d ", (int)g.size());
		c.fail(got.size() > sent.size() ? "recv.more-messages-than-sent" : "recv.message-lost", vf::fmt("sent %d messages, received %d non-empty ones with lengths %s", (int)sent.size(), (int)got.size(), lens.c_str()));
	}
	for (size_t i = 0; i < sent.size(); i++) if (got[i] != sent[i].payload) {
		size_t k = 0;
		while (k < got[i].size() && k < sent[i].payload.size() && got[i][k] == sent[i].payload[k]) k++;
		c.fail("recv.message-content", vf::fmt("message %d: %d bytes received, %d sent, first difference at %d", (int)i, (int)got[i].size(), (int)sent[i].payload.size(), (int)k));
	}
	c.count("messages", sent.size());
	c.distinct(vf::fnv(stream.substr(0, 4096), stream.size()));
	if (c.want_sample()) c.sample(d.substr(0, 300));
}

// ---------------------------------------------------------------- asl send() -> raw deframer
static void mode_send(vf::Ctx& c)
{
	bool aslIsClient = c.rng.chance(0.5);
	int nmsg = c.rng.range(1, 5);
	long maxbig = c.opt->param("maxbig", 300000);
	std::vector<SentMsg> sent;
	for (int m = 0; m < nmsg; m++) { SentMsg sm; sm.text = c.rng.chance(0.5); sm.payload = randPayload(c.rng, pickLen(c.rng, c.idx + m, maxbig), sm.text); sent.push_back(sm); }
	// interrupted send: the first message is larger than the socket buffer, the reader holds back until the writer is blocked
	// in send() with part of the message transferred, then one signal (handler without SA_RESTART) makes that send() return a
	// short count; the rest of the message and the following messages must still arrive intact
	bool intr = c.rng.chance(0.15);
	if (intr) { sent[0].payload = randPayload(c.rng, (size_t)c.rng.range(600000, 1500000), sent[0].text); if (nmsg == 1) { SentMsg sm; sm.text = true; sm.payload = "after the interrupted message"; sent.push_back(sm); nmsg++; } }
	static bool handlerSet = false;
	if (!handlerSet) { struct sigaction sa; memset(&sa, 0, sizeof sa); sa.sa_handler = [](int) {}; sigemptyset(&sa.sa_mask); sa.sa_flags = 0; sigaction(SIGUSR2, &sa, 0); handlerSet = true; }
	pthread_t writer = pthread_self();
	std::string d = vf::fmt("asl(%s) send%s:", aslIsClient ? "client" : "server", intr ? " (first send() interrupted by a signal after a partial transfer)" : "");
	for (auto& s : sent) d += vf::fmt(" %s[%d]", s.text ? "text" : "binary", (int)s.payload.size());
	c.desc(d);
	int sv[2];
	if (socketpair(AF_UNIX, SOCK_STREAM, 0, sv) != 0) { c.inconclusive("socketpair"); return; }
	std::string wire;
	std::atomic<int> signalled(0);
	std::thread rd([&]() {
		char buf[65536];
		if (intr) {
			int last = -1, stable = 0;
			for (int i = 0; i < 1000 && stable < 6; i++) {   // up to 5 s; 6 x 5 ms without growth above 64 KiB = the writer is blocked
				int avail = 0;
				ioctl(sv[1], FIONREAD, &avail);
				if (avail >= 65536 && avail == last) stable++; else stable = 0;
				last = avail;
				struct timespec ts = {0, 5000000}; nanosleep(&ts, 0);
			}
			if (stable >= 6) { pthread_kill(writer, SIGUSR2); signalled = 1; }
		}
		for (;;) { ssize_t n = read(sv[1], buf, sizeof buf); if (n <= 0) break; wire.append(buf, n); }
	});
	{
		WebSocket ws(Socket(sv[0]), aslIsClient);
		for (auto& s : sent) {
			if (s.text) ws.send(String(s.payload.c_str(), (int)s.payload.size()));
			else ws.send(ByteArray((const byte*)s.payload.data(), (int)s.payload.size()));
		}
		ws.close();
	}
	rd.join();
	close(sv[1]);
	size_t off = 0;
	std::vector<std::string> msgs;
	std::string cur;
	bool inmsg = false;
	while (off < wire.size()) {
		Frame fr;
		int r = parseFrame(wire, off, fr);
		if (r <= 0) c.fail("send.bytes-not-parseable", vf::fmt("at offset %d of %d", (int)off, (int)wire.size()));
		if (fr.rsv) c.fail("send.reserved-bits-set", "");
		if (fr.masked != aslIsClient) c.fail("send.mask-bit-wrong-for-role", vf::fmt("masked=%d for a %s", fr.masked, aslIsClient ? "client" : "server"));
		int minimal = fr.payload.size() < 126 ? 1 : fr.payload.size() < 65536 ? 2 : 3;
		if (fr.lenForm != minimal) c.fail("send.length-not-minimal", vf::fmt("%d bytes encoded in form %d", (int)fr.payload.size(), fr.lenForm));
		if (fr.opcode == 8) break;
		if (fr.opcode >= 8) continue;
		if (fr.opcode == 0 && !inmsg) c.fail("send.continuation-without-start", "");
		if (fr.opcode != 0) {
			if (inmsg) c.fail("send.new-message-inside-fragmented-message", "");
			size_t k = msgs.size();
			if (k < sent.size() && fr.opcode != (sent[k].text ? 1 : 2)) c.fail("send.opcode", vf::fmt("message %d sent as %s has opcode %d", (int)k, sent[k].text ? "text" : "binary", fr.opcode));
			cur.clear();
			inmsg = true;
		}
		cur += fr.payload;
		if (fr.fin) { msgs.push_back(cur); inmsg = false; }
	}
	if (msgs.size() != sent.size()) c.fail("send.message-count", vf::fmt("%d sent, %d on the wire", (int)sent.size(), (int)msgs.size()));
	for (size_t i = 0; i < sent.size(); i++) if (msgs[i] != sent[i].payload) c.fail("send.payload", vf::fmt("message %d (%d bytes)", (int)i, (int)sent[i].payload.size()));
	c.count("messages", sent.size());
	if (intr) c.count(signalled ? "sends_interrupted_after_partial_transfer" : "interrupt_planned_but_writer_never_blocked");
	c.distinct(vf::fnv(wire.substr(0, 4096), wire.size()));
	if (c.want_sample()) c.sample(d);
}

// ---------------------------------------------------------------- library client <-> library server over loopback TCP
struct EchoServer : public WebSocketServer
{
	std::atomic<int> served;
	EchoServer() : served(0) {}
	int port() { return _sockets.length() ? _sockets[0].localAddress().port() : 0; }
	void serve(WebSocket& ws)
	{
		served++;
		while (!ws.closed() && !_requestStop) {
			if (!ws.wait(0.5)) continue;
			if (ws.closed()) break;
			WebSocketMsg m = ws.receive();
			if (m.length() <= 0) continue;
			ByteArray b = m;
			Lock l(mutex());   // two application threads (this one and a broadcaster) write to the same WebSocket: the application serialises them
			if (b[0] == 'T') ws.send(String((const char*)b.data(), b.length()));    // text stays text
			else ws.send(b);
		}
	}
};

static void mode_loop(vf::Ctx& c)
{
	EchoServer srv;
	if (!srv.bind("127.0.0.1", 0)) { c.inconclusive("bind"); return; }
	int port = srv.port();
	srv.start(true);
	int nclients = c.rng.range(1, 4);
	long maxbig = c.opt->param("maxbig", 200000);
	std::atomic<int> bad(0), sessions(0), nbcast(0);
	std::string why;
	std::mutex mu;
	std::vector<std::thread> th;
	uint64_t seed = c.rng.next();
	bool broadcast = c.rng.chance(0.4);
	c.desc(vf::fmt("library client <-> library server on 127.0.0.1:%d, %d clients%s, seed %llu", port, nclients, broadcast ? ", a broadcaster thread sending to all clients under the server's mutex" : "", (unsigned long long)seed));
	for (int k = 0; k < nclients; k++)
		th.emplace_back([&, k]() {
			vf::Rng r(vf::mix(seed, k));
			WebSocket ws;
			// one or two sessions on the same WebSocket object (close(), then connect() again)
			int nsess = r.chance(0.4) ? 2 : 1;
			for (int sess = 0; sess < nsess; sess++) {
			if (!ws.connect("127.0.0.1", port)) { bad++; std::lock_guard<std::mutex> l(mu); why = vf::fmt("client %d: connect failed (session %d on this object)", k, sess); return; }
			sessions++;
			int nm = r.range(1, 8);
			for (int m = 0; m < nm; m++) {
				bool text = r.chance(0.5);
				size_t plen = pickLen(r, c.idx + m + k, maxbig);
				if (sess == 1 && m == 0) plen = r.chance(0.5) ? (size_t)r.range(126, 400) : (size_t)r.range(65536, 70000);   // both extended length forms in a second session
				std::string p = randPayload(r, plen, text);
				p[0] = text ? 'T' : 'B';
				if (text) ws.send(String(p.c_str(), (int)p.size())); else ws.send(ByteArray((const byte*)p.data(), (int)p.size()));
				std::string got;
				for (int tries = 0; tries < 100 && got.empty(); tries++) {
					if (!ws.wait(0.2)) continue;
					if (ws.closed()) break;
					WebSocketMsg e = ws.receive();
					if (e.length() < 0) { bad++; std::lock_guard<std::mutex> l(mu); why = "negative length"; return; }
					if (e.length() > 0) { got = std::string(*e, e.length()); if (got[0] == '!') { nbcast++; got.clear(); tries--; } }   // broadcasts are extra messages, not echoes
				}
				if (got != p) { bad++; std::lock_guard<std::mutex> l(mu); why = vf::fmt("client %d session %d message %d: sent %d bytes, echo has %d bytes", k, sess, m, (int)p.size(), (int)got.size()); return; }
			}
			ws.close();
			}
		});
	// the documented broadcast pattern: another application thread sends to every connected client under the server's mutex
	std::atomic<int> stopBcast(0);
	std::thread bc;
	if (broadcast) bc = std::thread([&]() {
		while (!stopBcast) {
			{
				Lock l(srv.mutex());
				foreach (WebSocket* w, srv.clients()) w->send(String("!broadcast"));
			}
			struct timespec ts = {0, 200000}; nanosleep(&ts, 0);
		}
	});
	for (auto& t : th) t.join();
	stopBcast = 1;
	if (bc.joinable()) bc.join();
	srv.stop(true);
	if (bad) c.fail("loop.echo-differs", why);
	if (srv.served != sessions) c.fail("loop.connections-served", vf::fmt("%d sessions, %d served", (int)sessions, (int)srv.served));
	c.count("sessions", sessions);
	c.count("broadcasts_received", nbcast);
	c.distinct(seed);
	if (c.want_sample()) c.sample(c.curdesc());
}

// ---------------------------------------------------------------- handshake through WebSocketServer::serve(Socket)
struct HsServer : public WebSocketServer
{
	void serve(WebSocket& ws) { ws.send(String("hello")); }
	void handle(int fd) { static_cast<SocketServer&>(*this).serve(Socket(fd)); }
};

static void mode_handshake(vf::Ctx& c)
{
	static const char b64[] = "ABCDEFGHIJKLMNOPQRSTUVWXYZabcdefghijklmnopqrstuvwxyz0123456789+/";
	std::string key;
	for (int i = 0; i < 22; i++) key += b64[c.rng.below(64)];
	key += "==";
	// the server answers whatever key it is given: a quarter of the handshakes use other key lengths (1..200 characters, so that
	// key + GUID crosses one, two and three 64-byte hash blocks, and ends exactly on a block boundary at 28, 92 and 156)
	if (c.rng.chance(0.25)) { static const int L[] = {1, 19, 20, 27, 28, 29, 55, 56, 64, 91, 92, 93, 100, 128, 155, 156, 157, 200}; int n = c.rng.chance(0.6) ? L[c.rng.below(18)] : c.rng.range(1, 200); key.clear(); for (int i = 0; i < n; i++) key += b64[c.rng.below(64)]; c.count("handshake.keys_of_other_lengths"); }
	auto spell = [&](std::string s) { int w = c.rng.below(3); for (auto& ch : s) ch = w == 1 ? (char)tolower(ch) : w == 2 ? (char)toupper(ch) : ch; return s; };
	auto sep = [&]() { int w = c.rng.below(4); return std::string(w == 0 ? ":" : w == 1 ? ": " : w == 2 ? ":  " : ":\t"); };
	std::vector<std::string> hs;
	hs.push_back(spell("Host") + sep() + "example.test");
	hs.push_back(spell("Upgrade") + sep() + "websocket");
	// browsers send a token list here (Firefox: "keep-alive, Upgrade"); RFC 6455 4.2.1 asks for a Connection field that includes "Upgrade"
	bool conlist = c.rng.chance(0.3);
	hs.push_back(spell("Connection") + sep() + (conlist ? "keep-alive, Upgrade" : "Upgrade"));
	c.count(conlist ? "handshake.connection-token-list" : "handshake.connection-single-token");
	hs.push_back(spell("Sec-WebSocket-Key") + sep() + key);
	hs.push_back(spell("Sec-WebSocket-Version") + sep() + "13");
	if (c.rng.chance(0.5)) hs.push_back(spell("Origin") + sep() + "http://example.test");
	for (size_t i = hs.size() - 1; i > 0; i--) std::swap(hs[i], hs[c.rng.below((uint32_t)i + 1)]);
	std::string req = "GET /chat HTTP/1.1\r\n";
	for (auto& h : hs) req += h + "\r\n";
	req += "\r\n";
	c.desc("handshake: " + vf::vis(req, 600));
	int sv[2];
	if (socketpair(AF_UNIX, SOCK_STREAM, 0, sv) != 0) { c.inconclusive("socketpair"); return; }
	HsServer srv;
	std::thread th([&]() { srv.handle(sv[0]); });
	writeAll(sv[1], req);
	std::string resp;
	char buf[4096];
	for (;;) { struct pollfd p = {sv[1], POLLIN, 0}; if (poll(&p, 1, 5000) <= 0) break; ssize_t n = read(sv[1], buf, sizeof buf); if (n <= 0) break; resp.append(buf, n); }
	close(sv[1]);
	th.join();
	if (resp.compare(0, 12, "HTTP/1.1 101") != 0) c.fail("handshake.not-accepted", "response: " + vf::vis(resp, 200));
	size_t p = resp.find("Sec-WebSocket-Accept: ");
	if (p == std::string::npos) c.fail("handshake.no-accept-header", vf::vis(resp, 300));
	size_t e = resp.find("\r\n", p);
	std::string accept = resp.substr(p + 22, e - p - 22);
	if (recf) fprintf(recf, "H\t%s\t%s\n", key.c_str(), accept.c_str());
	size_t he = resp.find("\r\n\r\n");
	if (he == std::string::npos) c.fail("handshake.no-header-end", "");
	std::string after = resp.substr(he + 4);
	size_t off = 0;
	Frame fr;
	if (parseFrame(after, off, fr) != 1 || fr.payload != "hello" || fr.masked) c.fail("handshake.first-frame-after-upgrade", vf::vis(after, 100));
	c.distinct(vf::fnv(req));
	if (c.want_sample()) c.sample(vf::vis(req, 300));
}

// ---------------------------------------------------------------- many handshakes at the same instant on one server
// Each key's accept value is first obtained with nothing else running (and written to the records the Python reference
// checks against RFC 6455); the same keys are then used by several clients released together, for several rounds: every
// concurrent handshake must give the same accept value.
static std::string oneHandshake(HsServer& srv, const std::string& key, std::string& firstFrameText)
{
	std::string req = "GET /chat HTTP/1.1\r\nHost: example.test\r\nUpgrade: websocket\r\nConnection: Upgrade\r\nSec-WebSocket-Key: " + key + "\r\nSec-WebSocket-Version: 13\r\n\r\n";
	int sv[2];
	if (socketpair(AF_UNIX, SOCK_STREAM, 0, sv) != 0) return "<socketpair>";
	std::thread th([&]() { srv.handle(sv[0]); });
	writeAll(sv[1], req);
	std::string resp;
	char buf[4096];
	for (;;) { struct pollfd p = {sv[1], POLLIN, 0}; if (poll(&p, 1, 20000) <= 0) break; ssize_t n = read(sv[1], buf, sizeof buf); if (n <= 0) break; resp.append(buf, n); }
	close(sv[1]);
	th.join();
	size_t p = resp.find("Sec-WebSocket-Accept: ");
	if (resp.compare(0, 12, "HTTP/1.1 101") != 0 || p == std::string::npos) return "<not accepted: " + vf::vis(resp, 80) + ">";
	size_t e = resp.find("\r\n", p);
	size_t he = resp.find("\r\n\r\n");
	if (he != std::string::npos) { std::string after = resp.substr(he + 4); size_t off = 0; Frame fr; if (parseFrame(after, off, fr) == 1) firstFrameText = fr.payload; }
	return resp.substr(p + 22, e - p - 22);
}

static void mode_handshake_mt(vf::Ctx& c)
{
	static const char b64[] = "ABCDEFGHIJKLMNOPQRSTUVWXYZabcdefghijklmnopqrstuvwxyz0123456789+/";
	int T = c.rng.range(2, 12), rounds = (int)c.opt->param("rounds", 40);
	std::vector<std::string> keys(T), ref(T);
	HsServer srv;
	for (int i = 0; i < T; i++) {
		for (int k = 0; k < 22; k++) keys[i] += b64[c.rng.below(64)];
		keys[i] += "==";
		std::string ff;
		ref[i] = oneHandshake(srv, keys[i], ff);
		if (ref[i][0] == '<') { c.fail("handshake.not-accepted", ref[i]); return; }
		if (recf) fprintf(recf, "H\t%s\t%s\n", keys[i].c_str(), ref[i].c_str());
	}
	c.desc(vf::fmt("%d clients handshaking at the same instant with one server, %d rounds, keys %s ...", T, rounds, keys[0].c_str()));
	std::atomic<int> arrived(0), wrong(0), badframe(0);
	std::atomic<int> phase(0);
	std::mutex mu;
	std::string why;
	std::vector<std::thread> th;
	for (int i = 0; i < T; i++)
		th.emplace_back([&, i]() {
			for (int r = 0; r < rounds; r++) {
				// barrier: everybody starts round r together
				arrived++;
				while (arrived.load() < (r + 1) * T) sched_yield();
				std::string ff;
				std::string got = oneHandshake(srv, keys[i], ff);
				if (got != ref[i]) { wrong++; std::lock_guard<std::mutex> l(mu); if (why.empty()) why = vf::fmt("round %d client %d key %s: accept '%s', alone it was '%s'", r, i, keys[i].c_str(), got.c_str(), ref[i].c_str()); }
				if (ff != "hello") badframe++;
			}
		});
	for (auto& t : th) t.join();
	if (wrong) c.fail("handshake.accept-key-differs-under-concurrency", vf::fmt("%d of %d concurrent handshakes; ", (int)wrong, T * rounds) + why);
	if (badframe) c.fail("handshake.first-frame-after-upgrade", vf::fmt("%d of %d concurrent handshakes", (int)badframe, T * rounds));
	c.count("concurrent_handshakes", T * rounds);
	c.evals(T * rounds);
	c.distinct(vf::fnv(keys[0]));
	if (c.want_sample()) c.sample(c.curdesc());
}

// ---------------------------------------------------------------- hostile frames; every stream also cut at every offset
static void runHostile(vf::Ctx& c, const std::string& stream, bool aslIsClient, const std::string& what)
{
	int sv[2];
	if (socketpair(AF_UNIX, SOCK_STREAM, 0, sv) != 0) { c.inconclusive("socketpair"); return; }
	std::atomic<int> negative(0), done(0), nmsg(0), badalloc(0);
	std::thread rx([&]() {
		try {
			WebSocket ws(Socket(sv[0]), aslIsClient);
			int guard = 0;
			while (!ws.closed() && guard++ < 10000) {
				WebSocketMsg m = ws.receive();
				if (m.length() < 0) { negative++; break; }
				if (m.length() > 0) nmsg++;
			}
		} catch (std::bad_alloc&) { badalloc++; }
		done = 1;
	});
	int fd = sv[1];
	size_t off = 0;
	char buf[4096];
	while (off < stream.size()) {
		struct pollfd p = {fd, POLLIN | POLLOUT, 0};
		poll(&p, 1, 1000);
		if (p.revents & POLLIN) { ssize_t k = recv(fd, buf, sizeof buf, MSG_DONTWAIT); (void)k; }
		if (p.revents & POLLOUT) { ssize_t k = send(fd, stream.data() + off, stream.size() - off, MSG_NOSIGNAL | MSG_DONTWAIT); if (k > 0) off += k; else if (k < 0 && errno != EAGAIN) break; }
		if (p.revents & (POLLERR | POLLHUP)) break;
	}
	close(fd);
	double t0 = vf::now();
	while (!done && vf::now() - t0 < 30) { struct timespec ts = {0, 1000000}; nanosleep(&ts, 0); }
	if (!done) { rx.detach(); c.desc(what); c.fail_exit("hostile.receive-does-not-return-after-peer-closed", "90 s after the peer closed"); }
	rx.join();
	if (negative) { c.desc(what); c.fail("hostile.message-of-negative-length", ""); }
	if (badalloc) c.count("bad_alloc_connection_failed(allowed)");
	c.count("messages_delivered_from_hostile_streams(recorded)", nmsg);
}

static void mode_hostile(vf::Ctx& c)
{
	bool aslIsClient = c.rng.chance(0.5);
	unsigned char key[4] = {(unsigned char)c.rng.below(256), (unsigned char)c.rng.below(256), 0, (unsigned char)c.rng.below(256)};
	std::string stream;
	std::string d;
	int nfr = c.rng.range(1, 4);
	for (int i = 0; i < nfr; i++) {
		int w = c.rng.below(10);
		bool masked = c.rng.chance(0.5);
		std::string pay = randPayload(c.rng, c.rng.range(0, 200), false);
		if (w == 0) { int op = "\x03\x04\x05\x06\x07\x0b\x0c\x0d\x0e\x0f"[c.rng.below(10)]; stream += frameBytes(c.rng.chance(0.5), op, pay, masked, key); d += vf::fmt("reserved-opcode-%d ", op); }
		else if (w == 1) { stream += frameBytes(true, c.rng.range(1, 2), pay, masked, key, c.rng.range(1, 7)); d += "rsv-bits "; }
		else if (w == 2 || w == 3) {
			static const uint64_t L[] = {0x7fffffffull, 0x80000000ull, 0xffffffffull, 0x100000005ull, 0x8000000000000000ull, 0xffffffffffffffffull, 0x00000000800000c8ull, 0x7fffffff80000010ull, 0x1ffffffffull, 0xfffffffffffffff0ull, 0x0000000100000000ull};
			uint64_t fl = L[c.rng.below(sizeof(L) / sizeof(L[0]))];
			stream += frameBytes(true, c.rng.range(1, 2), pay, masked, key, 0, 3, fl, true);
			d += vf::fmt("len64=%llx ", (unsigned long long)fl);
		}
		else if (w == 4) { stream += frameBytes(true, c.rng.chance(0.5) ? 9 : 8, randPayload(c.rng, c.rng.range(126, 400), false), masked, key); d += "control>125 "; }
		else if (w == 5) { stream += frameBytes(true, 0, pay, masked, key); d += "continuation-without-start "; }
		else if (w == 6) { stream += frameBytes(true, 1, pay, masked, key, 0, c.rng.range(2, 3)); d += "non-minimal-length "; }
		else if (w == 7) { stream += frameBytes(false, 9, pay.substr(0, 20), masked, key); d += "fragmented-ping "; }
		else if (w == 8) { stream += frameBytes(true, 8, c.rng.chance(0.5) ? std::string("\x03") : pay, masked, key); d += "close "; }
		else { stream += frameBytes(c.rng.chance(0.7), c.rng.range(0, 2), pay, masked, key); d += "data "; }
	}
	if (stream.size() > 1200) stream.resize(1200);
	d = vf::fmt("hostile frames to asl(%s): ", aslIsClient ? "client" : "server") + d + " bytes " + vf::hex(stream.substr(0, 80));
	c.desc(d);
	runHostile(c, stream, aslIsClient, d);
	long ncut = 0;
	size_t step = stream.size() > 300 ? stream.size() / 150 : 1;
	for (size_t cut = 0; cut < stream.size(); cut += step) {
		std::string w = d + vf::fmt(" CUT at %d", (int)cut);
		c.desc(w);
		runHostile(c, stream.substr(0, cut), aslIsClient, w);
		ncut++;
	}
	c.evals(ncut);
	c.count("cut_streams", ncut);
	c.distinct(vf::fnv(stream));
	if (c.want_sample()) c.sample(d.substr(0, 300));
}

int main(int argc, char** argv)
{
	vf::Runner R;
	R.add("recv", mode_recv, "independent framer -> library receive(): sizes, fragmentation, mask keys, pings between fragments");
	R.add("handshake_mt", mode_handshake_mt, "the same keys used by several clients released together on one server: accept values must equal the ones obtained alone");
	R.add("send", mode_send, "library send() -> independent deframer: payload, opcode, mask bit, minimal length form");
	R.add("loop", mode_loop, "library client <-> library server over loopback TCP");
	R.add("handshake", mode_handshake, "upgrade request with random key / header spellings through WebSocketServer");
	R.add("hostile", mode_hostile, "reserved opcodes, RSV bits, absurd 64-bit lengths, oversized control frames; each stream cut at every offset");
	R.setup = [](const vf::Options& o) { if (o.param("dump", 0)) recf = fopen((o.out + "/records.txt").c_str(), "w"); };
	return R.main(argc, argv);
}
