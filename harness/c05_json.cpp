// C05: JSON / XDL encode -> decode round trip of every Var tree; file write -> read; 16381-byte read chunk
// boundary at every parser state; encoder output handed to python's strict json parser (records.txt).
#include "common/jsonmodel.h"
#include <asl/File.h>
#include <asl/TextFile.h>
#include <unistd.h>
#include <fcntl.h>

using namespace asl;
using namespace jm;

static FILE* recf = 0;
static std::string scratch;

static void record(const char* kind, const std::string& text, const JV& m)
{
	if (!recf) return;
	std::string d;
	dumpJV(m, d);
	fprintf(recf, "%s\t%s\t%s\n", kind, vf::hex(text).c_str(), d.c_str());
}

static void writeRaw(const std::string& path, const std::string& data)
{
	int fd = open(path.c_str(), O_WRONLY | O_CREAT | O_TRUNC, 0644);
	if (fd < 0) return;
	size_t off = 0;
	while (off < data.size()) { ssize_t n = write(fd, data.data() + off, data.size() - off); if (n <= 0) break; off += n; }
	close(fd);
}

static std::string readRaw(const std::string& path)
{
	return vf::Runner::slurp(path, (size_t)1 << 30);
}

// ---------------------------------------------------------------- round trip in memory
static void roundtrip(vf::Ctx& c, bool xdl, bool pretty)
{
	TreeOpt o;
	o.idkeys = xdl;
	o.utf8valid = !c.rng.chance(0.25);
	o.maxdepth = c.rng.range(1, 7);
	o.maxkids = c.rng.chance(0.1) ? 40 : 8;
	o.budget = c.rng.chance(0.05) ? 4000 : 300;
	JV m = randTree(c.rng, o);
	Var v = toVar(m);
	{
		std::string why;
		if (!same(v, m, why)) c.fail("harness.model-to-var", why);  // the Var must hold what we put in (C04's domain, sanity here)
	}
	std::string d;
	dumpJV(m, d);
	c.desc(std::string(xdl ? "xdl" : "json") + (pretty ? " pretty " : " compact ") + d.substr(0, 3000));
	String enc = xdl ? Xdl::encode(v, pretty ? Json::PRETTY : Json::NONE) : Json::encode(v, pretty ? Json::PRETTY : Json::NONE);
	if ((int)strlen(*enc) != enc.length()) c.fail("encode.length", "length() differs from strlen");
	Var back = xdl ? Xdl::decode(enc) : Json::decode(enc);
	std::string why;
	if (!back.ok() && m.k != JV::Z) c.fail("roundtrip.decode-rejects-encoder-output", "encoded: " + vf::vis(*enc, enc.length(), 300));
	if (!same(back, m, why)) c.fail("roundtrip.value-differs", why + " | encoded: " + vf::vis(*enc, enc.length(), 300));
	if (!xdl && o.utf8valid && (c.idx % 3 == 0)) record(pretty ? "EP" : "EC", std::string(*enc, enc.length()), m);
	c.count(xdl ? "xdl_trees" : "json_trees");
	c.count("nodes", countNodes(m));
	if (countNodes(m) >= 3) c.distinct(shapeHash(m, pretty + 2 * xdl));
	if (c.want_sample()) c.sample(vf::vis(*enc, enc.length(), 300));
}

static void rt_json(vf::Ctx& c) { roundtrip(c, false, false); }
static void rt_json_pretty(vf::Ctx& c) { roundtrip(c, false, true); }
static void rt_xdl(vf::Ctx& c) { roundtrip(c, true, false); }
static void rt_xdl_pretty(vf::Ctx& c) { roundtrip(c, true, true); }

// ---------------------------------------------------------------- numbers: dense double/float/int coverage
static void rt_numbers(vf::Ctx& c)
{
	JV m = JV::mk(JV::A);
	for (int i = 0; i < 400; i++) {
		JV e;
		int w = c.rng.below(4);
		if (w < 2) { e.k = JV::D; e.d = randDouble(c.rng); }
		else if (w == 2) { e.k = JV::F; e.f = randFloat(c.rng); }
		else { e.k = JV::I; e.i = randInt(c.rng); }
		m.a.push_back(e);
	}
	Var v = toVar(m);
	bool xdl = c.idx & 1;
	c.desc(std::string("400 numbers ") + (xdl ? "xdl" : "json"));
	String enc = xdl ? Xdl::encode(v, Json::NONE) : Json::encode(v);
	Var back = xdl ? Xdl::decode(enc) : Json::decode(enc);
	std::string why;
	if (!same(back, m, why)) {
		std::string d;
		dumpJV(m, d);
		c.desc(d.substr(0, 20000));
		c.fail("roundtrip.number-differs", why);
	}
	if (!xdl && c.idx % 4 == 0) record("EC", std::string(*enc, enc.length()), m);
	c.evals(400);
	c.distinct(shapeHash(m));
	if (c.want_sample()) c.sample(vf::vis(*enc, enc.length(), 200));
}

// ---------------------------------------------------------------- through a file
static void file_rt(vf::Ctx& c)
{
	bool xdl = c.rng.chance(0.35);
	TreeOpt o;
	o.idkeys = xdl;
	o.utf8valid = true;
	JV m;
	int sizeClass = c.rng.below(10);
	if (sizeClass == 0) {  // tiny documents: 1..4 bytes
		int w = c.rng.below(6);
		if (w == 0) { m.k = JV::I; m.i = c.rng.range(0, 9); }
		else if (w == 1) { m.k = JV::I; m.i = c.rng.range(10, 999); }
		else if (w == 2) m.k = JV::A;
		else if (w == 3) m.k = JV::O;
		else if (w == 4) { m.k = JV::S; m.s = c.rng.chance(0.5) ? "" : "a"; }
		else { m.k = JV::A; JV e; e.k = JV::I; e.i = c.rng.range(0, 9); m.a.push_back(e); }
	} else if (sizeClass < 6) {
		o.maxdepth = c.rng.range(1, 6);
		m = randTree(c.rng, o);
	} else {  // big: array of many trees so that the file crosses 16381-byte boundaries (and the 16000-byte flush of the writer)
		m.k = JV::A;
		int n = sizeClass < 9 ? c.rng.range(50, 600) : c.rng.range(3000, 9000);
		o.maxdepth = 2;
		for (int i = 0; i < n; i++) { o.budget = 12; m.a.push_back(randTree(c.rng, o, 1)); }
	}
	Var v = toVar(m);
	int modes[] = {Json::NONE, Json::PRETTY};
	int mode = modes[c.rng.below(2)];
	// Json::write(v, file) without a mode argument: the documented default is PRETTY (a lossless variant)
	bool defaultMode = !xdl && c.rng.chance(0.25);
	if (defaultMode) { mode = Json::PRETTY; c.count("file.json-write-with-default-mode"); }
	std::string path = scratch + vf::fmt("/f%llu.%s", (unsigned long long)c.idx, xdl ? "xdl" : "json");
	c.desc(vf::fmt("%s file, mode %d, %d nodes", xdl ? "xdl" : "json", mode, countNodes(m)));
	bool okw = xdl ? Xdl::write(v, path.c_str(), mode) : defaultMode ? Json::write(v, path.c_str()) : Json::write(v, path.c_str(), (Json::Mode)mode);
	if (!okw) { unlink(path.c_str()); c.fail("file.write-failed", path); }
	std::string raw = readRaw(path);
	Var back = xdl ? Xdl::read(path.c_str()) : Json::read(path.c_str());
	unlink(path.c_str());
	c.desc(vf::fmt("%s file of %d bytes, mode %d: %s", xdl ? "xdl" : "json", (int)raw.size(), mode, vf::vis(raw, 200).c_str()));
	// the file holds what encode() gives for the same mode
	String enc = xdl ? Xdl::encode(v, mode) : Json::encode(v, (Json::Mode)mode);
	if (raw != std::string(*enc, enc.length())) c.fail("file.content-differs-from-encode", vf::fmt("file %d bytes, encode %d bytes", (int)raw.size(), enc.length()));
	std::string why;
	if (!same(back, m, why)) c.fail(raw.size() < 3 ? "file.read-differs.tiny-file" : "file.read-differs", why);
	c.count(raw.size() < 3 ? "files_under_3_bytes" : raw.size() > 16381 ? "files_over_one_chunk" : "files_small");
	c.count("chunks_crossed", raw.size() / 16381);
	if (raw.size() > 16000) c.count("writer_flushes");
	c.distinct(shapeHash(m, mode));
	if (c.want_sample()) c.sample(vf::fmt("%d-byte %s file: %s", (int)raw.size(), xdl ? "xdl" : "json", vf::vis(raw, 120).c_str()));
}

// ---------------------------------------------------------------- read-chunk boundary at every parser state
// A token-rich generated document (text-first, with a per-byte tag map) is written raw with k leading spaces so that
// offsets 16381*j of the file (Xdl::read reads 16381 bytes at a time) fall on every kind of lexical situation.
static void chunkshift(vf::Ctx& c)
{
	bool xdl = c.rng.chance(0.3);
	DocGen g(c.rng, xdl);
	g.maxdepth = 3;
	g.maxkids = 5;
	// root array of many generated values
	JV m = JV::mk(JV::A);
	g.put('[', T_PUNCT);
	int target = c.rng.range(17000, 52000);
	bool first = true;
	while ((int)g.text.size() < target) {
		if (!first) g.put(',', T_PUNCT);
		first = false;
		g.ws();
		m.a.push_back(g.value(1));
		g.ws();
	}
	g.put(']', T_PUNCT);
	int k = c.rng.range(0, 400);
	std::string doc = std::string(k, ' ') + g.text;
	std::string tags = std::string(k, (char)T_WS) + g.tags;
	std::string path = scratch + vf::fmt("/c%llu.json", (unsigned long long)c.idx);
	writeRaw(path, doc);
	int chunk = (int)c.opt->param("chunk", 16381);
	std::string cuts;
	for (size_t off = chunk; off < doc.size(); off += chunk) {
		char t = tags[off];       // first byte of the next chunk: the situation the parser is in when the chunk ends
		char name[32];
		snprintf(name, sizeof name, "cut_%c", t);
		c.count(name);
		// refine: escape/unicode situations are identified by the byte before the cut
		cuts += t;
	}
	c.desc(vf::fmt("%s doc of %d bytes shifted by %d spaces, cuts in situations '%s', around first cut: ...%s|%s...", xdl ? "xdl" : "json", (int)doc.size(), k, cuts.c_str(),
	               vf::vis(doc.substr(chunk - 12, 12)).c_str(), vf::vis(doc.substr(chunk, 12)).c_str()));
	Var whole = xdl ? Xdl::decode(doc.c_str()) : Json::decode(doc.c_str());
	Var viafile = xdl ? Xdl::read(path.c_str()) : Json::read(path.c_str());
	unlink(path.c_str());
	std::string why;
	if (!xdl && !same(whole, m, why)) c.fail("chunkshift.decode-differs-from-model", why);
	if (xdl && !same(whole, m, why)) c.count("xdl_model_mismatch_not_judged");
	std::string a, b;
	dumpVar(whole, a);
	dumpVar(viafile, b);
	if (a != b) {
		size_t i = 0;
		while (i < a.size() && i < b.size() && a[i] == b[i]) i++;
		c.fail(std::string("chunkshift.read-differs-from-decode.cut-") + cuts, vf::fmt("dumps differ at %d: decode ...%s  read ...%s", (int)i, a.substr(i > 40 ? i - 40 : 0, 120).c_str(), b.substr(i > 40 ? i - 40 : 0, 120).c_str()));
	}
	c.distinct(vf::mix(vf::fnv(cuts), k));
	if (c.want_sample()) c.sample(c.curdesc().substr(0, 400));
}

int main(int argc, char** argv)
{
	vf::Runner R;
	R.add("rt_json", rt_json, "Json::encode compact -> decode");
	R.add("rt_json_pretty", rt_json_pretty, "Json::encode PRETTY -> decode");
	R.add("rt_xdl", rt_xdl, "Xdl::encode compact -> decode (identifier keys)");
	R.add("rt_xdl_pretty", rt_xdl_pretty, "Xdl::encode PRETTY -> decode");
	R.add("rt_numbers", rt_numbers, "400 doubles/floats/ints per case");
	R.add("file_rt", file_rt, "Json/Xdl write -> read through files of 1 byte .. MBs");
	R.add("chunkshift", chunkshift, "read-chunk boundary at every parser state");
	R.setup = [](const vf::Options& o) {
		scratch = o.out;
		if (o.param("dump", 0)) recf = fopen((o.out + "/records.txt").c_str(), "w");
	};
	return R.main(argc, argv);
}
