// C19: Date <-> UTC calendar fields bijection, format/parse round trips, zone offsets,
// total + in-bounds parsing of arbitrary strings.
// Oracle: independent days-from-civil / civil-from-days (Hinnant's algorithms, written here),
// itself cross-checked against python3 datetime by the driver on the dumped records.
#include "common/runner.h"
#include <mutex>
#include <atomic>
#include <thread>
#include <asl/Date.h>
#include <math.h>

using namespace asl;

static long long days_from_civil(long long y, unsigned m, unsigned d)
{
	y -= m <= 2;
	const long long era = (y >= 0 ? y : y - 399) / 400;
	const unsigned yoe = (unsigned)(y - era * 400);
	const unsigned doy = (153 * (m > 2 ? m - 3 : m + 9) + 2) / 5 + d - 1;
	const unsigned doe = yoe * 365 + yoe / 4 - yoe / 100 + doy;
	return era * 146097 + (long long)doe - 719468;
}

static void civil_from_days(long long z, int& y, int& m, int& d)
{
	z += 719468;
	const long long era = (z >= 0 ? z : z - 146096) / 146097;
	const unsigned doe = (unsigned)(z - era * 146097);
	const unsigned yoe = (doe - doe / 1460 + doe / 36524 - doe / 146096) / 365;
	const long long yy = (long long)yoe + era * 400;
	const unsigned doy = doe - (365 * yoe + yoe / 4 - yoe / 100);
	const unsigned mp = (5 * doy + 2) / 153;
	d = (int)(doy - (153 * mp + 2) / 5 + 1);
	m = (int)(mp < 10 ? mp + 3 : mp - 9);
	y = (int)(yy + (m <= 2));
}

static int weekday_from_days(long long z) { return (int)(z >= -4 ? (z + 4) % 7 : (z + 5) % 7 + 6); }

static const long long DAY0 = -719162;   // 0001-01-01
static const long long DAYN = 2932896;   // 9999-12-31
static FILE* recf = 0;

// heap String whose text ends exactly at the end of its allocation (needs length >= 19)
static String exact(const std::string& s) { return String(s.c_str(), (int)s.size()); }

static void check_instant(vf::Ctx& c, long long day, int secs, bool formats)
{
	double t = (double)day * 86400.0 + secs;
	int y, m, d;
	civil_from_days(day, y, m, d);
	int hh = secs / 3600, mi = secs / 60 % 60, ss = secs % 60, wd = weekday_from_days(day);
	Date dt(t);
	DateData dd = dt.splitUTC();
	if (dd.year != y || dd.month != m || dd.day != d || dd.hours != hh || dd.minutes != mi || dd.seconds != ss || dd.weekDay != wd) {
		c.desc(vf::fmt("t=%.0f (day %lld + %d s)", t, day, secs));
		c.fail("split", vf::fmt("splitUTC gave %d-%d-%d %d:%d:%d wd%d, reference %d-%d-%d %d:%d:%d wd%d", dd.year, dd.month, dd.day,
		                         dd.hours, dd.minutes, dd.seconds, dd.weekDay, y, m, d, hh, mi, ss, wd));
	}
	Date back(Date::UTC, y, m, d, hh, mi, ss);
	if (back.time() != t) {
		c.desc(vf::fmt("Date(UTC,%d,%d,%d,%d,%d,%d)", y, m, d, hh, mi, ss));
		c.fail("construct", vf::fmt("time()=%.3f, reference %.3f", back.time(), t));
	}
	if (!formats) return;
	static const Date::Format F[] = {Date::LONG, Date::SHORT, Date::HTTP, Date::FULL};
	static const char* FN[] = {"LONG", "SHORT", "HTTP", "FULL"};
	for (int k = 0; k < 4; k++) {
		String s = dt.toUTCString(F[k]);
		char ref[64];
		const char* wdn[] = {"Sun", "Mon", "Tue", "Wed", "Thu", "Fri", "Sat"};
		const char* mn[] = {"Jan", "Feb", "Mar", "Apr", "May", "Jun", "Jul", "Aug", "Sep", "Oct", "Nov", "Dec"};
		switch (k) {
		case 0: snprintf(ref, sizeof ref, "%04d-%02d-%02dT%02d:%02d:%02dZ", y, m, d, hh, mi, ss); break;
		case 1: snprintf(ref, sizeof ref, "%04d%02d%02dT%02d%02d%02dZ", y, m, d, hh, mi, ss); break;
		case 2: snprintf(ref, sizeof ref, "%s, %02d %s %04d %02d:%02d:%02d GMT", wdn[wd], d, mn[m - 1], y, hh, mi, ss); break;
		case 3: snprintf(ref, sizeof ref, "%04d-%02d-%02dT%02d:%02d:%02d.000Z", y, m, d, hh, mi, ss); break;
		}
		if (strcmp(*s, ref) != 0 || (int)strlen(*s) != s.length()) {
			c.desc(vf::fmt("Date(%.0f).toUTCString(%s)", t, FN[k]));
			c.fail(std::string("format.") + FN[k], vf::fmt("got '%s' want '%s'", *s, ref));
		}
		Date p(s);
		if (!(fabs(p.time() - t) < 0.0005)) {
			c.desc(vf::fmt("Date('%s') after toUTCString(%s) of t=%.0f", *s, FN[k], t));
			c.fail(std::string("parse.") + FN[k], vf::fmt("parsed time %.4f, want %.4f", p.time(), t));
		}
	}
}

// mode days: case = block of `blk` consecutive selected days; selected = every stride-th day (+ all boundary days)
static void mode_days(vf::Ctx& c)
{
	long stride = c.opt->param("stride", 7), blk = c.opt->param("blk", 256);
	long long first = DAY0 + (long long)c.idx * blk * stride;
	bool dump = c.opt->param("dump", 0) != 0;
	for (long i = 0; i < blk; i++) {
		long long base = first + i * stride;
		// the stride window around year starts/ends and century edges is filled completely
		for (long long day = base; day < base + (stride > 1 ? 1 : 1); day++) {
			if (day > DAYN) return;
			static const int T[3] = {0, 43200, 86399};
			for (int k = 0; k < 3; k++) check_instant(c, day, T[k], true);
			c.evals(3);
			c.distinct((uint64_t)day);
			if (dump && recf && (day % 17 == 0)) {
				DateData dd = Date((double)day * 86400.0).splitUTC();
				fprintf(recf, "D %lld %d %d %d %d\n", day, dd.year, dd.month, dd.day, dd.weekDay);
			}
		}
	}
	if (c.want_sample()) c.sample(vf::fmt("days %lld.. step %ld x%ld at 00:00:00, 12:00:00, 23:59:59: split, construct, LONG/SHORT/HTTP/FULL format+parse", first, stride, blk));
}

// every day within +-3 days of each year boundary and each Feb 28..Mar 1 (quick tier complement to the stride)
static void mode_edges(vf::Ctx& c)
{
	int y = (int)c.idx + 1;
	if (y > 9999) return;
	long long a = days_from_civil(y, 1, 1), b = days_from_civil(y, 2, 27), e = days_from_civil(y, 12, 29);
	long long days[] = {a, a + 1, a + 2, b, b + 1, b + 2, b + 3, e, e + 1, e + 2};
	for (long long day : days) {
		if (day < DAY0 || day > DAYN) continue;
		check_instant(c, day, 0, true);
		check_instant(c, day, 86399, true);
		c.evals(2);
		c.distinct((uint64_t)day);
	}
	if (c.want_sample()) c.sample(vf::fmt("year %d: Jan 1-3, Feb 27 - Mar 1, Dec 29-31 at 00:00:00 and 23:59:59", y));
}

// every second of a chosen day
static void mode_seconds(vf::Ctx& c)
{
	long long day;
	static const int special[][3] = {{1, 1, 1}, {9999, 12, 31}, {1970, 1, 1}, {1969, 12, 31}, {2000, 2, 29}, {1900, 2, 28}, {1900, 3, 1},
	                                 {2100, 2, 28}, {2100, 3, 1}, {1904, 1, 1}, {1903, 12, 31}, {2099, 12, 31}, {2100, 1, 1}, {1600, 2, 29},
	                                 {2400, 2, 29}, {400, 2, 29}, {100, 3, 1}, {2038, 1, 19}, {1601, 1, 1}, {1901, 1, 1}};
	int ns = sizeof(special) / sizeof(special[0]);
	if ((int)c.idx < ns) day = days_from_civil(special[c.idx][0], special[c.idx][1], special[c.idx][2]);
	else day = DAY0 + (long long)(c.rng.next() % (uint64_t)(DAYN - DAY0 + 1));
	int step = (int)c.opt->param("step", 1);
	for (int s = (int)(c.idx % step); s < 86400; s += step) check_instant(c, day, s, (s % 61) == 0);
	c.evals(86400 / step);
	c.distinct((uint64_t)day);
	int y, m, d;
	civil_from_days(day, y, m, d);
	if (c.want_sample()) c.sample(vf::fmt("every %d-th second of %04d-%02d-%02d", step, y, m, d));
}

// milliseconds in FULL format
static void mode_millis(vf::Ctx& c)
{
	long long day = DAY0 + (long long)(c.rng.next() % (uint64_t)(DAYN - DAY0 + 1));
	if (c.idx % 4 == 0) day = c.rng.range(-40000, 40000);
	int secs = c.rng.range(0, 86399);
	for (int ms = 0; ms < 1000; ms++) {
		double t = (double)day * 86400.0 + secs + ms / 1000.0;
		Date dt(t);
		String s = dt.toUTCString(Date::FULL);
		Date p(s);
		if (!(fabs(p.time() - t) < 0.001)) {
			c.desc(vf::fmt("t=%.6f FULL='%s'", t, *s));
			c.fail("parse.FULL.ms", vf::fmt("parsed %.6f want %.6f", p.time(), t));
		}
	}
	// instants between the millisecond marks, incl. the last half millisecond of a second / of a day: the FULL text must parse
	// back to within a millisecond of the instant
	static const double subms[] = {0.0004, 0.00049, 0.0005, 0.00051, 0.9994, 0.99949, 0.9995, 0.99951, 0.9996, 0.9999, 0.99999, 0.999999};
	int secs2[] = {secs, 86399, 0, 43199, 3599, 59};
	for (int si = 0; si < 6; si++)
		for (size_t k = 0; k < sizeof(subms) / sizeof(subms[0]) + 8; k++) {
			double fr = k < sizeof(subms) / sizeof(subms[0]) ? subms[k] : c.rng.unit();
			double t = (double)day * 86400.0 + secs2[si] + fr;
			if (t - floor(t) < 1e-7 || fabs(t) > 2e11) continue;   // keep at least microsecond resolution in the double
			Date dt(t);
			String s = dt.toUTCString(Date::FULL);
			Date p(s);
			if (!(fabs(p.time() - t) < 0.00100001)) {
				c.desc(vf::fmt("t=%.7f (day %lld, second %d, fraction %.7f) FULL='%s'", t, day, secs2[si], fr, *s));
				c.fail(secs2[si] == 86399 && fr >= 0.9995 ? "parse.FULL.submillisecond.end-of-day" : "parse.FULL.submillisecond", vf::fmt("parsed %.6f, instant %.6f, difference %.6f s", p.time(), t, p.time() - t));
			}
			c.evals(1);
		}
	c.evals(1000);
	c.distinct((uint64_t)day * 86400 + secs);
	if (c.want_sample()) c.sample(vf::fmt("day %lld second %d, all 1000 millisecond fractions through FULL format+parse", day, secs));
}

// zone offsets and fractions
static void mode_offsets(vf::Ctx& c)
{
	// idx enumerates offsets -1439..1439 minutes
	int off = (int)c.idx - 1439;
	if (off > 1439) return;
	int sign = off < 0 ? -1 : 1, ao = off < 0 ? -off : off, oh = ao / 60, om = ao % 60;
	for (int rep = 0; rep < 4; rep++) {
		long long day = rep == 0 ? 0 : DAY0 + 2 + (long long)(c.rng.next() % (uint64_t)(DAYN - DAY0 - 3));
		int secs = c.rng.range(0, 86399);
		int y, m, d;
		civil_from_days(day, y, m, d);
		int hh = secs / 3600, mi = secs / 60 % 60, ss = secs % 60;
		double local = (double)day * 86400.0 + secs;
		double want = local - sign * (oh * 3600.0 + om * 60.0);
		char sg = sign < 0 ? '-' : '+';
		std::vector<std::string> forms;
		forms.push_back(vf::fmt("%04d-%02d-%02dT%02d:%02d:%02d%c%02d:%02d", y, m, d, hh, mi, ss, sg, oh, om));
		forms.push_back(vf::fmt("%04d-%02d-%02dT%02d:%02d:%02d%c%02d%02d", y, m, d, hh, mi, ss, sg, oh, om));
		forms.push_back(vf::fmt("%04d%02d%02dT%02d%02d%02d%c%02d%02d", y, m, d, hh, mi, ss, sg, oh, om));
		forms.push_back(vf::fmt("%04d%02d%02dT%02d%02d%02d%c%02d:%02d", y, m, d, hh, mi, ss, sg, oh, om));
		if (om == 0) {
			forms.push_back(vf::fmt("%04d-%02d-%02dT%02d:%02d:%02d%c%02d", y, m, d, hh, mi, ss, sg, oh));
			forms.push_back(vf::fmt("%04d%02d%02dT%02d%02d%02d%c%02d", y, m, d, hh, mi, ss, sg, oh));
		}
		// minute precision (seconds omitted): the instant is the one with :00 seconds
		double wantMin = want - ss, localMin = local - ss;
		std::vector<std::string> mforms;
		mforms.push_back(vf::fmt("%04d-%02d-%02dT%02d:%02d%c%02d:%02d", y, m, d, hh, mi, sg, oh, om));
		mforms.push_back(vf::fmt("%04d-%02d-%02dT%02d:%02d%c%02d%02d", y, m, d, hh, mi, sg, oh, om));
		if (om == 0) mforms.push_back(vf::fmt("%04d-%02d-%02dT%02d:%02d%c%02d", y, m, d, hh, mi, sg, oh));
		for (auto& f : mforms) {
			Date p(exact(f));
			if (!(fabs(p.time() - wantMin) < 0.0005)) { c.desc("Date('" + f + "')"); c.fail("offset.minute-precision", vf::fmt("parsed %.3f want %.3f", p.time(), wantMin)); }
			c.evals(1);
		}
		{
			std::string f = vf::fmt("%04d-%02d-%02dT%02d:%02dZ", y, m, d, hh, mi);
			Date p(exact(f));
			if (!(fabs(p.time() - localMin) < 0.0005)) { c.desc("Date('" + f + "')"); c.fail("utc.minute-precision", vf::fmt("parsed %.3f want %.3f", p.time(), localMin)); }
			c.evals(1);
		}
		for (auto& f : forms) {
			Date p(exact(f));
			if (!(fabs(p.time() - want) < 0.0005)) {
				c.desc("Date('" + f + "')");
				c.fail("offset", vf::fmt("parsed %.3f want %.3f", p.time(), want));
			}
			c.evals(1);
		}
		// fractions of 1..9 digits with and without offset
		int nd = c.rng.range(1, 9);
		std::string digs;
		double frac = 0, sc = 0.1;
		for (int i = 0; i < nd; i++) { int dg = c.rng.range(0, 9); digs += (char)('0' + dg); frac += dg * sc; sc /= 10; }
		std::string f1 = vf::fmt("%04d-%02d-%02dT%02d:%02d:%02d.%sZ", y, m, d, hh, mi, ss, digs.c_str());
		std::string f2 = vf::fmt("%04d-%02d-%02dT%02d:%02d:%02d.%s%c%02d:%02d", y, m, d, hh, mi, ss, digs.c_str(), sg, oh, om);
		Date p1(exact(f1)), p2(exact(f2));
		if (!(fabs(p1.time() - (local + frac)) < 0.0005)) { c.desc("Date('" + f1 + "')"); c.fail("fraction", vf::fmt("parsed %.6f want %.6f", p1.time(), local + frac)); }
		if (!(fabs(p2.time() - (want + frac)) < 0.0005)) { c.desc("Date('" + f2 + "')"); c.fail("fraction.offset", vf::fmt("parsed %.6f want %.6f", p2.time(), want + frac)); }
		c.evals(2);
	}
	c.count((std::string("offsets.cases-with-process-zone-") + (getenv("TZ") ? getenv("TZ") : "unset")).c_str());
	c.distinct(vf::mix((uint64_t)(off + 5000), vf::fnv(getenv("TZ") ? getenv("TZ") : "")));
	if (c.want_sample()) c.sample(vf::fmt("process zone %s: ", getenv("TZ") ? getenv("TZ") : "unset") + vf::fmt("offset %c%02d:%02d in the forms +hh:mm, +hhmm, +hh on extended and basic ISO strings, 4 instants, fractions of 1-9 digits", sign < 0 ? '-' : '+', oh, om));
}

// arbitrary strings: terminate, in bounds (ASan; string flush against its heap block when len >= 19)
static void mode_junk(vf::Ctx& c)
{
	static const char alpha[] = "0123456789TZ:-+. ,aGMTJanFebMarThu";
	static const char* seeds[] = {"2021-11-29T23:31:10.25+01:30", "20211129T233110.25Z", "Tue, 30 Nov 2021 00:31:10 GMT", "2021-11-29",
	                              "2021-11-29T23:31", "20211129T2331", "2021-11-29T23:31:10Z", "2021-11-29T23:31:10-0130", "2021-11-29T23:31:10+01"};
	for (int rep = 0; rep < 50; rep++) {
		std::string s;
		int kind = c.rng.below(4);
		if (kind == 0) {
			int n = c.rng.range(0, 40);
			for (int i = 0; i < n; i++) s += alpha[c.rng.below(sizeof(alpha) - 1)];
		} else {
			s = seeds[c.rng.below(sizeof(seeds) / sizeof(seeds[0]))];
			int nm = c.rng.range(1, 4);
			for (int i = 0; i < nm && s.size(); i++) {
				int what = c.rng.below(4);
				size_t pos = c.rng.below((uint32_t)s.size());
				if (what == 0) s[pos] = alpha[c.rng.below(sizeof(alpha) - 1)];
				else if (what == 1) s.erase(pos, 1);
				else if (what == 2) s.insert(pos, 1, alpha[c.rng.below(sizeof(alpha) - 1)]);
				else s.resize(pos);
			}
			if (kind == 3) while (s.size() < 19) s += alpha[c.rng.below(sizeof(alpha) - 1)];
		}
		c.desc("Date('" + vf::vis(s) + "')");
		{
			String as = exact(s);
			Date p(as);
			volatile double t = p.time();
			(void)t;
			if (p.time() == p.time()) { c.count("junk_parsed_some_value"); String r = p.toUTCString(Date::FULL); if ((int)strlen(*r) != r.length()) c.fail("junk.format", "length mismatch"); }
			else c.count("junk_invalid");
		}
		// format-directed parse
		static const char* fmts[] = {"D/M/Y?h:m", "Y-M-D h:m:s", "YMDhms", "Y?M?D", "h:m:s D.M.Y", "???Y"};
		const char* f = fmts[c.rng.below(6)];
		c.desc("Date('" + vf::vis(s) + "','" + f + "')");
		{
			String as = exact(s);
			Date p(as, String(f));
			volatile double t = p.time();
			(void)t;
		}
		c.evals(2);
		c.distinct(vf::fnv(s));
	}
	if (c.want_sample()) c.sample("e.g. " + c.curdesc());
}

// several threads formatting and parsing at once, each on its own Date and String objects: nothing is shared by the
// caller, so every valid text must still parse to its instant while other threads parse valid texts and junk
// (goes beyond the stated quantifier, which has no schedules; a parser that keeps process-wide state fails here)
static void mode_parse_mt(vf::Ctx& c)
{
	int T = c.rng.range(2, 6), rounds = (int)c.opt->param("rounds", 300);
	uint64_t seed = c.rng.next();
	c.desc(vf::fmt("%d threads x %d rounds: HTTP / FULL / LONG format+parse of random instants interleaved with HTTP-shaped junk (unknown month words)", T, rounds));
	std::atomic<int> bad(0), done(0);
	std::mutex mu;
	std::string why;
	std::vector<std::thread> th;
	for (int t = 0; t < T; t++)
		th.emplace_back([&, t]() {
			vf::Rng r(vf::mix(seed, t));
			static const char* words[] = {"Foo", "Xyz", "Janu", "mar", "DEC", "Sept", "Mai", "Okt", "Q", "Month", "Abc", "Zzz", "Febr", "Jul.", "N0v", "apr"};
			for (int k = 0; k < rounds; k++) {
				bool junk = (t & 1) ? r.chance(0.6) : r.chance(0.1);
				if (junk) {
					std::string w = words[r.below(16)];
					if (r.chance(0.5)) w += (char)('a' + r.below(26));
					std::string s = vf::fmt("Tue, %02d %s %04d %02d:%02d:%02d GMT", (int)r.range(1, 28), w.c_str(), (int)r.range(1990, 2030), (int)r.range(0, 23), (int)r.range(0, 59), (int)r.range(0, 59));
					Date p(exact(s));
					volatile double x = p.time();
					(void)x;
					continue;
				}
				long long day = DAY0 + 400 + (long long)(r.next() % (uint64_t)(DAYN - DAY0 - 800));
				double tm = (double)day * 86400.0 + r.range(0, 86399);
				Date d(tm);
				Date::Format f = r.chance(0.6) ? Date::HTTP : r.chance(0.5) ? Date::FULL : Date::LONG;
				String txt = d.toUTCString(f);
				Date p(txt);
				if (!(fabs(p.time() - tm) < 0.0005)) { bad++; std::lock_guard<std::mutex> l(mu); if (why.empty()) why = vf::fmt("thread %d round %d: %.0f formatted as '%s' parsed back as %.3f", t, k, tm, *txt, p.time()); }
			}
			done++;
		});
	for (auto& x : th) x.join();
	if (bad) c.fail("parse-mt.roundtrip", vf::fmt("%d wrong; ", (int)bad) + why);
	c.evals((uint64_t)T * rounds);
	c.distinct(seed);
	if (c.want_sample()) c.sample(c.curdesc());
}

int main(int argc, char** argv)
{
	setenv("TZ", "UTC", 1);
	tzset();
	vf::Runner R;
	R.add("days", mode_days, "blocks of days 0001..9999 x 3 times of day");
	R.add("edges", mode_edges, "year/leap-day edges of every year");
	R.add("seconds", mode_seconds, "every second of chosen days");
	R.add("millis", mode_millis, "FULL format millisecond round trip");
	R.add("offsets", mode_offsets, "all zone offsets, fractions");
	R.add("junk", mode_junk, "arbitrary strings");
	R.add("parse_mt", mode_parse_mt, "threads formatting/parsing valid dates and HTTP-shaped junk at once");
	R.setup = [](const vf::Options& o) {
		if (o.param("dump", 0)) recf = fopen((o.out + "/records.txt").c_str(), "w");
		// zoned strings (Z or a numeric offset) denote one instant whatever the process's own zone is: mode offsets also runs under other zones
		std::string tz = o.sparam("tz", "UTC");
		if (tz != "UTC") { setenv("TZ", tz.c_str(), 1); tzset(); }
	};
	int rc = R.main(argc, argv);
	return rc;
}
