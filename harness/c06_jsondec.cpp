// C06: Json::decode / Xdl::decode are total and memory-safe on any bytes, accept every RFC 8259 document with the
// value an independent parser gives, reject every prefix that stops before the root's closing character, and the
// incremental parser gives the same result for every partition of a text into chunks.
#include "common/jsonmodel.h"
#include <algorithm>

using namespace asl;
using namespace jm;

static FILE* recf = 0;

static std::string dumpOf(const Var& v) { std::string d; dumpVar(v, d); return d; }

// exact-size heap copy so that an over-read past the terminator is visible to ASan
struct Exact
{
	char* p;
	Exact(const std::string& s) { p = (char*)malloc(s.size() + 1); memcpy(p, s.data(), s.size()); p[s.size()] = 0; }
	~Exact() { free(p); }
};

static Var parseWhole(const std::string& text)
{
	Exact e(text);
	XdlParser parser;
	parser.parse(e.p);
	parser.parse(" ");
	return parser.value();
}

static Var parseChunks(const std::string& text, const std::vector<size_t>& cuts)
{
	XdlParser parser;
	size_t a = 0;
	for (size_t i = 0; i <= cuts.size(); i++) {
		size_t b = i < cuts.size() ? cuts[i] : text.size();
		Exact e(text.substr(a, b - a));
		parser.parse(e.p);
		a = b;
	}
	parser.parse(" ");
	return parser.value();
}

// chunk independence for one text: all 2-chunk cuts if short, else sampled; plus random k-chunk partitions
static void chunkCheck(vf::Ctx& c, const std::string& text, const char* what)
{
	if (memchr(text.data(), 0, text.size())) return;  // the incremental API takes NUL-terminated chunks
	Var whole = parseWhole(text);
	std::string dw = dumpOf(whole);
	size_t n = text.size();
	std::vector<size_t> cutsToTry;
	if (n <= (size_t)c.opt->param("allcuts", 120)) for (size_t i = 1; i < n; i++) cutsToTry.push_back(i);
	else {
		for (int i = 0; i < 24; i++) cutsToTry.push_back(1 + c.rng.below((uint32_t)(n - 1)));
		// plus cuts in front of and inside multi-byte characters (where a byte-oriented parser is most likely to keep per-call state)
		std::vector<size_t> mb;
		for (size_t i = 1; i < n; i++) if ((unsigned char)text[i] >= 0x80) mb.push_back(i);
		for (int i = 0; i < 16 && mb.size(); i++) cutsToTry.push_back(mb[c.rng.below((uint32_t)mb.size())]);
		c.count("cuts_at_multibyte_positions", mb.size() ? 16 : 0);
	}
	for (size_t cut : cutsToTry) {
		std::vector<size_t> cs(1, cut);
		Var v = parseChunks(text, cs);
		c.evals(1);
		std::string d = dumpOf(v);
		if (d != dw) {
			c.desc(vf::fmt("%s text (%d bytes) cut at %d: '%s' | '%s'", what, (int)n, (int)cut, vf::vis(text.substr(0, cut), 300).c_str(), vf::vis(text.substr(cut), 300).c_str()));
			c.fail("chunks.two-chunk-result-differs", "whole: " + dw.substr(0, 300) + "  chunked: " + d.substr(0, 300));
		}
	}
	for (int rep = 0; rep < 6 && n >= 2; rep++) {
		std::vector<size_t> cs;
		int k = c.rng.range(2, 8);
		if (rep == 0) { for (size_t i = 1; i < n; i++) cs.push_back(i); }  // one byte at a time
		else { for (int i = 0; i < k; i++) cs.push_back(1 + c.rng.below((uint32_t)(n - 1))); std::sort(cs.begin(), cs.end()); cs.erase(std::unique(cs.begin(), cs.end()), cs.end()); }
		Var v = parseChunks(text, cs);
		c.evals(1);
		std::string d = dumpOf(v);
		if (d != dw) {
			std::string cutlist;
			for (size_t x : cs) cutlist += vf::fmt("%d,", (int)x);
			c.desc(vf::fmt("%s text (%d bytes) '%s' cut at [%s]", what, (int)n, vf::vis(text, 500).c_str(), cutlist.substr(0, 200).c_str()));
			c.fail("chunks.k-chunk-result-differs", "whole: " + dw.substr(0, 300) + "  chunked: " + d.substr(0, 300));
		}
	}
	c.count("chunked_texts");
}

// ---------------------------------------------------------------- RFC 8259 conformance + prefix rejection
static void conform(vf::Ctx& c)
{
	DocGen g(c.rng, false);
	g.maxdepth = c.rng.range(1, 6);
	g.maxkids = c.rng.range(1, 7);
	JV m = g.document();
	const std::string& text = g.text;
	c.desc("json: " + vf::vis(text, 1500));
	Var v = Json::decode(String(text.c_str(), (int)text.size()));
	std::string why;
	if (!v.ok()) c.fail("conform.valid-document-rejected", "");
	if (!same(v, m, why)) c.fail("conform.value-differs-from-model", why);
	if (recf && c.idx % 2 == 0) fprintf(recf, "D\t%s\t%s\n", vf::hex(text).c_str(), dumpOf(v).c_str());
	// every prefix that stops before the final closing character of a root array/object/string is rejected
	if (g.rootClose >= 0) {
		long lim = g.rootClose;
		for (long p = 0; p <= lim; p++) {
			if (lim > 600 && p > 40 && p < lim - 200 && (p % 7)) continue;
			std::string pre = text.substr(0, p);
			Var pv = Json::decode(String(pre.c_str(), (int)pre.size()));
			c.evals(1);
			if (pv.ok()) {
				c.desc("prefix of length " + std::to_string(p) + " of json: " + vf::vis(text, 800));
				c.fail("conform.truncated-document-accepted", "prefix '" + vf::vis(pre, 200) + "' decoded to " + dumpOf(pv).substr(0, 200));
			}
		}
		c.count("prefix_checked_docs");
	}
	chunkCheck(c, text, "json");
	c.count(m.k == JV::A ? "root_array" : m.k == JV::O ? "root_object" : m.k == JV::S ? "root_string" : "root_scalar");
	if (countNodes(m) >= 2 || m.k == JV::S) c.distinct(vf::fnv(text));
	if (c.want_sample()) c.sample(vf::vis(text, 300));
}

// XDL documents: total, chunk-independent; the value is compared with the generator's model only as a recorded statistic
static void xdl(vf::Ctx& c)
{
	DocGen g(c.rng, true);
	g.maxdepth = c.rng.range(1, 5);
	JV m = g.document();
	c.desc("xdl: " + vf::vis(g.text, 1500));
	Var v = Xdl::decode(String(g.text.c_str(), (int)g.text.size()));
	std::string why;
	if (!v.ok()) c.count("xdl_generated_doc_rejected(recorded)");
	else if (!same(v, m, why)) c.count("xdl_value_differs_from_generator_model(recorded)");
	else c.count("xdl_value_matches_generator_model");
	chunkCheck(c, g.text, "xdl");
	c.distinct(vf::fnv(g.text));
	if (c.want_sample()) c.sample(vf::vis(g.text, 300));
}

// ---------------------------------------------------------------- mutation and raw bytes: total + safe + chunk-independent
static std::string mutate(vf::Rng& r, std::string s, const std::string& other)
{
	static const char* toks[] = {"[", "]", "{", "}", ",", ":", "\"", "\\", "\\u", "\\ud83d", "/*", "*/", "//", "\n", "-", ".", "e", "E+", "0", "00", "1e999", "true", "null", "Y", "N", "=", "a{", "$type", "\xff", "\x01", "]]]]", "}}", "[[[[[["};
	int nm = r.range(1, 4);
	for (int i = 0; i < nm; i++) {
		int w = r.below(8);
		size_t n = s.size();
		size_t pos = n ? r.below((uint32_t)n) : 0;
		switch (w) {
		case 0: s.resize(pos); break;                                                       // truncation
		case 1: if (n) s.erase(pos, r.range(1, 4)); break;                                   // deletion
		case 2: if (n) { size_t len = r.range(1, 12); s.insert(pos, s.substr(pos, len)); } break;  // duplication
		case 3: if (other.size()) { size_t a = r.below((uint32_t)other.size()); s.insert(pos, other.substr(a, r.range(1, 30))); } break;  // splice
		case 4: if (n) s[pos] = (char)(s[pos] ^ (1 << r.below(8))); break;                  // bit flip
		case 5: if (n) s[pos] = (char)r.range(1, 255); break;                               // byte replace
		default: s.insert(pos, toks[r.below(sizeof(toks) / sizeof(toks[0]))]); break;      // token insert
		}
	}
	for (size_t i = 0; i < s.size(); i++) if (!s[i]) s[i] = ' ';
	return s;
}

static void total(vf::Ctx& c)
{
	std::string text;
	int kind = c.rng.below(10);
	if (kind < 7) {
		DocGen g(c.rng, c.rng.chance(0.4));
		g.maxdepth = c.rng.range(1, 5);
		g.document();
		DocGen g2(c.rng, c.rng.chance(0.4));
		g2.document();
		text = mutate(c.rng, g.text, g2.text);
	} else if (kind < 9) {
		int n = c.rng.range(0, 60);
		static const char alpha[] = "[]{},:\"\\/*- .0123456789eE+truefalsnYN=$_ab\n\t\r\x01\x7f\xc3\xa9\xff";
		for (int i = 0; i < n; i++) text += alpha[c.rng.below(sizeof(alpha) - 1)];
	} else {
		int n = c.rng.range(0, 200);
		for (int i = 0; i < n; i++) text += (char)c.rng.range(1, 255);
	}
	c.desc("text: " + vf::vis(text, 2000));
	{
		Var a = Json::decode(String(text.c_str(), (int)text.size()));
		Var b = Xdl::decode(String(text.c_str(), (int)text.size()));
		c.count(a.ok() ? "mutants_accepted" : "mutants_rejected");
		// a value, when one is returned, can be walked and encoded
		if (a.ok()) { String e = Json::encode(a); if ((int)strlen(*e) != e.length()) c.fail("total.encode-of-decoded-value", ""); }
		std::string da = dumpOf(a), db = dumpOf(b);
		if (da != db) c.fail("total.json-and-xdl-entry-points-disagree", "");
	}
	chunkCheck(c, text, "mutant");
	c.distinct(vf::fnv(text));
	if (c.want_sample()) c.sample(vf::vis(text, 200));
}

// ---------------------------------------------------------------- nesting
static void deep(vf::Ctx& c)
{
	long maxd = c.opt->param("maxdepth", 512);
	int d = c.idx < 8 ? (int)maxd - (int)c.idx : c.rng.range(1, (int)maxd);
	std::string text;
	JV m;
	bool obj = c.rng.chance(0.3);
	// [[[...[7]...]]] or {"a":{"a":...}}
	std::string inner = c.rng.chance(0.5) ? "7" : "\"x\"";
	for (int i = 0; i < d; i++) text += obj ? "{\"a\":" : "[";
	text += inner;
	for (int i = 0; i < d; i++) text += obj ? "}" : "]";
	c.desc(vf::fmt("nesting depth %d (%s)", d, obj ? "objects" : "arrays"));
	Var v = Json::decode(String(text.c_str(), (int)text.size()));
	if (!v.ok()) c.fail("deep.valid-nesting-rejected", "");
	const Var* p = &v;
	Var tmp;
	int seen = 0;
	Var cur = v;
	while (cur.is(Var::ARRAY) || cur.is(Var::OBJ)) {
		if (cur.length() != 1) c.fail("deep.structure", vf::fmt("level %d has %d children", seen, cur.length()));
		Var nxt = cur.is(Var::ARRAY) ? cur[0] : cur["a"];
		cur = nxt;
		seen++;
		if (seen > d + 1) break;
	}
	(void)p;
	if (seen != d) c.fail("deep.depth", vf::fmt("decoded depth %d, expected %d", seen, d));
	if (recf && c.idx % 16 == 0 && d <= 400) fprintf(recf, "D\t%s\t%s\n", vf::hex(text).c_str(), dumpOf(v).c_str());
	// and the truncated forms are rejected
	for (int k = 1; k <= 3; k++) {
		std::string pre = text.substr(0, text.size() - k);
		if (Json::decode(String(pre.c_str(), (int)pre.size())).ok()) c.fail("conform.truncated-document-accepted", vf::fmt("depth %d minus %d closing characters", d, k));
	}
	c.distinct((uint64_t)d * 2 + obj);
	if (c.want_sample()) c.sample(c.curdesc());
}

// beyond the property's nesting bound: only totality / memory safety is judged
static void hostile_depth(vf::Ctx& c)
{
	static const int depths[] = {600, 1000, 3000, 10000, 30000, 100000};
	int d = depths[c.idx % 6];
	int form = (int)(c.idx / 6) % 8;
	std::string text;
	if (form == 0) text = std::string(d, '[');
	else if (form == 1) text = std::string(d, '[') + std::string(d, ']');
	else if (form == 2) { for (int i = 0; i < d; i++) text += "{\"a\":"; }
	else if (form == 3) { for (int i = 0; i < d; i++) text += "{\"a\":"; text += "1"; text += std::string(d, '}'); }
	else if (form == 4) { for (int i = 0; i < d; i++) text += "a{b="; }                                         // XDL class-tagged objects
	else if (form == 5) { for (int i = 0; i < d; i++) text += "a{b="; text += "1"; text += std::string(d, '}'); }
	else if (form == 6) { for (int i = 0; i < d; i++) text += (i & 1) ? "T{x=" : "["; text += "Y"; for (int i = d - 1; i >= 0; i--) text += (i & 1) ? "}" : "]"; }
	else { for (int i = 0; i < d; i++) text += (i % 3 == 0) ? "[" : (i % 3 == 1) ? "{\"k\":" : "c{v:"; text += "null"; for (int i = d - 1; i >= 0; i--) text += (i % 3 == 0) ? "]" : "}"; }
	c.desc(vf::fmt("hostile nesting depth %d form %d", d, form));
	{
		Var v = Json::decode(String(text.c_str(), (int)text.size()));
		c.count(v.ok() ? "deep_hostile_accepted" : "deep_hostile_rejected");
		if (v.ok() && d >= 3000) c.count("deep_hostile_accepted_beyond_3000");
	}
	c.distinct((uint64_t)d * 8 + form);
	if (c.want_sample()) c.sample(c.curdesc());
}

int main(int argc, char** argv)
{
	vf::Runner R;
	R.add("conform", conform, "generated RFC 8259 documents: value, prefix rejection, chunk independence");
	R.add("xdl", xdl, "generated XDL documents: total, chunk independent");
	R.add("total", total, "mutated documents and raw bytes: total, safe, chunk independent");
	R.add("deep", deep, "nesting up to 512");
	R.add("hostile_depth", hostile_depth, "nesting far beyond 512: memory safety only");
	R.setup = [](const vf::Options& o) {
		if (o.param("dump", 0)) recf = fopen((o.out + "/records.txt").c_str(), "w");
	};
	return R.main(argc, argv);
}
