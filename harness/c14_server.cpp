// C14: SocketServer serves each accepted connection exactly once on a live socket, closes it afterwards, and
// stop(true) returns only when the accept loop and every serve() call are over. Decided by an offline checker over an
// event log: accept events come from the ASL_VERIF hook in the accept loop, serve events from the subclass, client
// events from raw POSIX client threads, control events from the main thread; one mutex gives the log a total order.
#include "common/runner.h"
#include "common/sched.h"
#include <asl/SocketServer.h>
#include <asl/Socket.h>
#include <thread>
#include <atomic>
#include <mutex>
#include <vector>
#include <map>
#include <string>
#include <sys/socket.h>
#include <sys/un.h>
#include <netinet/in.h>
#include <arpa/inet.h>
#include <poll.h>
#include <fcntl.h>
#include <signal.h>

using namespace asl;

enum Ev { ACCEPTED, SERVE_ENTER, SERVE_EXIT, STOP_CALLED, STOP_RETURNED, DESTROYED, CLIENT_CONNECTED, CLIENT_ECHO, CLIENT_EOF, CLIENT_NOEOF, CLIENT_FAIL, ASYNC_STOP_LOOP_ENDED, CLIENT_NOECHO, SIGNAL_SENT };
static const char* EVN[] = {"accepted", "serve_enter", "serve_exit", "stop_called", "stop_returned", "destroyed", "client_connected", "client_echo", "client_eof", "client_no_eof", "client_fail", "async_stop_waited", "client_no_echo", "signal_to_accept_thread"};

struct Event { Ev e; std::string token; int fd; double t; };

struct Log
{
	std::mutex mu;
	std::vector<Event> ev;
	double t0;
	Log() : t0(vf::now()) {}
	void add(Ev e, const std::string& token = "", int fd = -1)
	{
		std::lock_guard<std::mutex> l(mu);
		Event x = {e, token, fd, vf::now() - t0};
		ev.push_back(x);
	}
	bool has(Ev e) { std::lock_guard<std::mutex> l(mu); for (size_t i = 0; i < ev.size(); i++) if (ev[i].e == e) return true; return false; }
	bool hasFd(Ev e, int fd) { std::lock_guard<std::mutex> l(mu); for (size_t i = 0; i < ev.size(); i++) if (ev[i].e == e && ev[i].fd == fd) return true; return false; }
	std::string str(size_t maxn = 60)
	{
		std::string s;
		for (size_t i = 0; i < ev.size() && i < maxn; i++) s += vf::fmt("%s%s%s ", EVN[ev[i].e], ev[i].token.size() ? ":" : "", ev[i].token.c_str());
		return s;
	}
};

static Log* g_log = 0;
static std::atomic<int> g_badSocketInServe(0);

struct Server : public SocketServer
{
	int serveDelayUs;
	bool keepCopies;                 // the application keeps a copy of every client socket (e.g. a broadcast list)
	std::mutex regmu;
	std::vector<Socket> registry;
	Server() : serveDelayUs(0), keepCopies(false) {}
	int port() { return _sockets.length() ? _sockets[0].localAddress().port() : 0; }
	void serve(Socket client)
	{
		int fd = client.handle();
		if (keepCopies) { std::lock_guard<std::mutex> l(regmu); registry.push_back(client); }
		String line;
		if (client.waitInput(3)) line = client.readLine();   // token line, or nothing if the peer already closed
		std::string token = *line;
		g_log->add(SERVE_ENTER, token, fd);
		if (serveDelayUs) { struct timespec ts = {serveDelayUs / 1000000, (serveDelayUs % 1000000) * 1000L}; nanosleep(&ts, 0); }
		// the socket handed to serve() must still be a live descriptor for the whole call
		if (fcntl(fd, F_GETFD) == -1) g_badSocketInServe++;
		if (token.size()) { String reply = String("echo:") + token.c_str() + "\n"; client.write(*reply, reply.length()); }
		if (fcntl(fd, F_GETFD) == -1) g_badSocketInServe++;
		g_log->add(SERVE_EXIT, token, fd);
	}
};

// accept events from the library's accept loop (hook placed right after accept())
static std::atomic<int> g_loopExited(0);
static void c14_hook(int id, const volatile void* obj)
{
	if (id == ASL_VP_SRV_LOOP_EXIT) g_loopExited = 1;
	if (id == ASL_VP_SRV_ACCEPTED && g_log) {
		Socket* s = (Socket*)obj;
		g_log->add(ACCEPTED, "", s->handle());
	}
}

static int connectTo(bool unixSock, int port, const std::string& path)
{
	// non-blocking connect with a 2 s budget: a Unix-socket connect blocks for ever when the listen backlog is full
	// and nobody accepts any more (server stopping), which would hang the harness, not the library
	struct sockaddr_un ua;
	struct sockaddr_in ia;
	struct sockaddr* sa;
	socklen_t sl;
	int fd;
	if (unixSock) {
		fd = socket(AF_UNIX, SOCK_STREAM | SOCK_NONBLOCK, 0);
		memset(&ua, 0, sizeof ua);
		ua.sun_family = AF_UNIX;
		strncpy(ua.sun_path, path.c_str(), sizeof(ua.sun_path) - 1);
		sa = (struct sockaddr*)&ua; sl = sizeof ua;
	} else {
		fd = socket(AF_INET, SOCK_STREAM | SOCK_NONBLOCK, 0);
		memset(&ia, 0, sizeof ia);
		ia.sin_family = AF_INET;
		ia.sin_port = htons(port);
		ia.sin_addr.s_addr = htonl(INADDR_LOOPBACK);
		sa = (struct sockaddr*)&ia; sl = sizeof ia;
	}
	if (fd < 0) return -1;
	double t0 = vf::now();
	for (;;) {
		int r = connect(fd, sa, sl);
		if (r == 0 || errno == EISCONN) break;
		if (errno == EINPROGRESS || errno == EALREADY) {
			struct pollfd p = {fd, POLLOUT, 0};
			poll(&p, 1, 200);
			int err = 0; socklen_t el = sizeof err;
			getsockopt(fd, SOL_SOCKET, SO_ERROR, &err, &el);
			if ((p.revents & POLLOUT) && err == 0) break;
			if (err) { close(fd); return -1; }
		} else if (errno == EAGAIN || errno == EINTR) {
			struct timespec ts = {0, 5000000};
			nanosleep(&ts, 0);
		} else { close(fd); return -1; }
		if (vf::now() - t0 > 2.0) { close(fd); return -1; }
	}
	int fl = fcntl(fd, F_GETFL);
	fcntl(fd, F_SETFL, fl & ~O_NONBLOCK);
	return fd;
}

// returns bytes read until '\n' or EOF/timeout
static int readLineTimeout(int fd, std::string& out, int ms)
{
	double t0 = vf::now();
	for (;;) {
		int left = ms - (int)((vf::now() - t0) * 1000);
		if (left <= 0) return -2;
		struct pollfd p = {fd, POLLIN, 0};
		int r = poll(&p, 1, left);
		if (r <= 0) continue;
		char ch;
		ssize_t n = read(fd, &ch, 1);
		if (n == 0) return 0;       // EOF
		if (n < 0) return -1;
		if (ch == '\n') return 1;
		out += ch;
	}
}

static void clientThread(bool unixSock, int port, std::string path, std::string token, int behaviour, int startDelayUs)
{
	if (startDelayUs) { struct timespec ts = {0, startDelayUs * 1000L}; nanosleep(&ts, 0); }
	int fd = connectTo(unixSock, port, path);
	if (fd < 0) { g_log->add(CLIENT_FAIL, token); return; }
	g_log->add(CLIENT_CONNECTED, token, fd);
	if (behaviour == 1) { close(fd); return; }                       // closes before sending anything
	std::string msg = token + "\n";
	if (send(fd, msg.data(), msg.size(), MSG_NOSIGNAL) != (ssize_t)msg.size()) { close(fd); return; }
	if (behaviour == 2) { close(fd); return; }                       // closes before reading the reply
	std::string line;
	int r = readLineTimeout(fd, line, 30000);
	if (r == -2) g_log->add(CLIENT_NOECHO, token, fd);
	if (r == 1 && line == "echo:" + token) {
		g_log->add(CLIENT_ECHO, token, fd);
		std::string rest;
		int e = readLineTimeout(fd, rest, 30000);                       // after serve() returns the library closes the socket
		g_log->add(e == 0 || e == -1 ? CLIENT_EOF : CLIENT_NOEOF, token, fd);
	}
	close(fd);
}

static bool fd0Unix(bool) { return false; }

static void mode_hist(vf::Ctx& c)
{
	// the sanitizer builds run different histories than the plain build (the case index alone would give all three the same ones)
#if defined(__SANITIZE_THREAD__)
	c.rng.reseed(c.rng.next() ^ 0x7153a11ULL);
#elif defined(__SANITIZE_ADDRESS__)
	c.rng.reseed(c.rng.next() ^ 0xa5a11ULL);
#endif
	bool unixSock = c.rng.chance(0.3), sequential = c.rng.chance(0.35);
	bool blockingStart = c.rng.chance(0.3);   // start() run in an application thread instead of start(true)
	bool keepCopies = c.rng.chance(0.3);
	int N = c.rng.chance(0.1) ? 0 : (c.rng.chance(0.2) ? c.rng.range(50, 200) : c.rng.range(1, 30));
	int nClientThreadsMax = 16;
	int stopWhen = c.rng.below(3);  // 0 = before/while clients connect, 1 = mid-burst, 2 = after all clients are done
	uint64_t seed = c.rng.next();
	int jm = c.rng.below(4);
	// two-step shutdown: stop(false), the accept loop ends while a serve() call is still in flight, then stop(true)
	bool twoStep = !sequential && c.idx % 4 == 1;
	if (twoStep) { N = c.rng.range(2, 8); stopWhen = 1; }
	// long handler: one serve() call outlives the stop request by 5.5-7 s (stop(true) polls every 100 ms, so > 50 polls)
	bool longServe = !twoStep && c.idx % 16 == 7;
	if (longServe) { N = c.rng.range(1, 3); stopWhen = 1; }
	// descriptor 0: the process runs with stdin closed and the first accepted connection gets descriptor number 0
	bool fd0 = !twoStep && !longServe && c.idx % 16 == 3;
	if (fd0 && N == 0) N = 1;
	// two endpoints: the server listens on a TCP port and on a Unix path; in half of these histories only one of them gets traffic
	bool twoEp = !twoStep && !longServe && !fd0 && c.idx % 16 == 13;
	bool twoEpOnlyTcp = twoEp && c.rng.chance(0.5);
	if (twoEp) { unixSock = false; N = c.rng.range(2, 8); }   // few clients: the bounded-progress clause applies
	// signals: the thread running the accept loop (blocking start() in an application thread) handles two signals while idle
	bool sig = !twoStep && !longServe && !fd0 && !twoEp && c.idx % 16 == 11;
	if (sig) { blockingStart = true; stopWhen = 2; if (N > 20) N = 20; }
	std::string path = c.opt->out + vf::fmt("/s%llu.sock", (unsigned long long)c.idx);
	unlink(path.c_str());
	c.desc(vf::fmt("%s %s%s%s, %d clients, stop %s%s, jitter %d", unixSock ? "unix" : "tcp", sequential ? "sequential" : "concurrent", blockingStart ? ", start() in its own thread" : "",
	               keepCopies ? ", serve() keeps a copy of each socket" : "", N, twoStep ? "asynchronously, then again synchronously once the accept loop has ended; first " : longServe ? "while a serve() call of 5.5-7 s is in flight, " : fd0 ? "(stdin closed: first connection accepted on descriptor 0) " : twoEp ? (twoEpOnlyTcp ? "(server also listens on a Unix path that gets no traffic) " : "(server listens on TCP and on a Unix path, clients use both) ") : sig ? "(two signals handled by the accept thread before the stop) " : "", stopWhen == 0 ? "early" : stopWhen == 1 ? "mid-burst" : "after all", jm));
	Log log;
	g_log = &log;
	g_badSocketInServe = 0;
	g_loopExited = 0;
	if (jm == 1) sched::jitter(seed, 0.3, 300);
	else if (jm == 2) sched::jitter(seed, 0.05, 2000);
	else if (jm == 3) sched::jitter(seed, 1.0, 160000, 1u << ASL_VP_THREAD_ENTRY);   // every new thread starts late (longer than stop()'s 100 ms poll)
	else sched::jitter(seed, 0.0, 0);

	Server* srv = new Server;
	srv->serveDelayUs = c.rng.chance(0.5) ? 0 : c.rng.range(100, 20000);
	if (twoStep) srv->serveDelayUs = c.rng.range(300000, 700000);
	if (longServe) srv->serveDelayUs = c.rng.range(5500000, 7000000);
	srv->setSequential(sequential);
	srv->keepCopies = keepCopies;
	// with two endpoints, in half of the histories a descriptor is released between the two binds, so that the endpoint bound later has the smaller number
	int holeFd = twoEp && c.rng.chance(0.5) ? open("/dev/null", O_RDONLY) : -1;
	bool bound = unixSock ? srv->bindPath(path.c_str()) : srv->bind("127.0.0.1", 0);
	if (holeFd >= 0) { close(holeFd); c.count("two_endpoints_second_has_smaller_descriptor"); }
	if (bound && twoEp) bound = srv->bindPath(path.c_str());
	if (!bound) { delete srv; g_log = 0; sched::off(); c.inconclusive("bind-failed"); return; }
	int port = unixSock ? 0 : srv->port();
	std::vector<std::thread> clients;
	std::vector<std::string> tokens;
	int launched = 0;
	auto launch = [&](int k) {
		for (int i = 0; i < k && launched < N; i++, launched++) {
			std::string tok = vf::fmt("T%llu-%d", (unsigned long long)c.idx, launched);
			tokens.push_back(tok);
			int beh = fd0 && launched == 0 ? 0 : c.rng.chance(0.75) ? 0 : c.rng.range(1, 2);
			int delay = fd0 && launched == 0 ? 0 : c.rng.chance(0.5) ? 0 : c.rng.range(0, 30000);
			bool viaUnix = twoEp ? (!twoEpOnlyTcp && c.rng.chance(0.5)) : unixSock;
			if (twoEp && twoEpOnlyTcp && (c.idx & 16)) viaUnix = false;
			clients.emplace_back(clientThread, viaUnix, port, path, tok, beh, delay);
			if ((int)clients.size() >= nClientThreadsMax && c.rng.chance(0.3)) { struct timespec ts = {0, 1000000}; nanosleep(&ts, 0); }
		}
	};
	int savedStdin = -1;
	bool stdinClosed = false;
	if (fd0) {
		// the first client connects while the server is bound but not yet accepting (the connection waits in the backlog);
		// descriptor 0 is then freed, so the accept() that follows returns 0
		launch(1);
		for (int i = 0; i < 2000 && !log.has(CLIENT_CONNECTED); i++) { struct timespec ts = {0, 1000000}; nanosleep(&ts, 0); }
		savedStdin = dup(0);
		close(0);
		stdinClosed = true;
	}
	std::thread starter;
	if (blockingStart) {
		starter = std::thread([&]() { srv->start(); });
		// the blocking start() marks the server as running before it enters the accept loop; wait for that like an application would
		for (int i = 0; i < 2000 && !srv->running(); i++) { struct timespec ts = {0, 1000000}; nanosleep(&ts, 0); }
	}
	else srv->start(true);

	if (fd0) {
		// no other descriptor may be created before that accept() has happened
		for (int i = 0; i < 5000 && !log.has(ACCEPTED); i++) { struct timespec ts = {0, 1000000}; nanosleep(&ts, 0); }
		c.count(log.hasFd(ACCEPTED, 0) ? "connections_accepted_on_descriptor_0" : "descriptor_0_variant_without_fd_0");
	}
	if (stopWhen == 0) { launch(c.rng.range(0, N)); }
	else if (stopWhen == 1) {
		launch(longServe ? 1 : N / 2);
		struct timespec ts = {0, (long)c.rng.range(0, 20) * 1000000L}; nanosleep(&ts, 0);
		if (longServe) { for (int i = 0; i < 5000 && !log.has(SERVE_ENTER); i++) { struct timespec t1 = {0, 1000000}; nanosleep(&t1, 0); } c.count(log.has(SERVE_ENTER) ? "long_serve_in_flight_at_stop" : "long_serve_not_started_before_stop"); }
	}
	else { launch(N); for (auto& t : clients) t.join(); clients.clear(); }

	if (sig && starter.joinable()) {
		for (int k = 0; k < 2; k++) {
			log.add(SIGNAL_SENT);
			pthread_kill(starter.native_handle(), SIGUSR2);
			struct timespec ts = {0, 60000000}; nanosleep(&ts, 0);
		}
		c.count("signals_sent_to_the_accept_thread", 2);
	}
	std::thread late;
	log.add(STOP_CALLED);
	if (twoStep) {
		srv->stop(false);
		launch(1);   // a connection wakes the accept loop, which then sees the request and ends
		// running() also counts clients, so the end of the accept loop is taken from its hook (which fires just before _running is cleared)
		for (int i = 0; i < 2500 && !g_loopExited; i++) { struct timespec ts = {0, 1000000}; nanosleep(&ts, 0); }
		{ struct timespec ts = {0, 5000000}; nanosleep(&ts, 0); }
		log.add(ASYNC_STOP_LOOP_ENDED);
		c.count(g_loopExited ? "two_step_loop_ended_before_sync_stop" : "two_step_loop_still_running");
		if (g_loopExited && srv->running()) c.count("two_step_sync_stop_with_serve_in_flight");
	}
	if (stopWhen == 1) late = std::thread([&]() { launch(N); });   // clients keep arriving while stop(true) is in progress
	srv->stop(true);
	bool runningAfter = srv->running();
	log.add(STOP_RETURNED);
	{ std::lock_guard<std::mutex> l(srv->regmu); srv->registry.clear(); }
	if (late.joinable()) late.join();
	// connections attempted after stop(true) returned must never be served
	std::vector<std::thread> post;
	int npost = c.rng.range(blockingStart ? 1 : 0, 3);
	for (int i = 0; i < npost; i++) {
		std::string tok = vf::fmt("P%llu-%d", (unsigned long long)c.idx, i);
		post.emplace_back([=]() {
			int fd = connectTo(unixSock, port, path);
			if (fd < 0) return;
			std::string msg = tok + "\n";
			ssize_t w = send(fd, msg.data(), msg.size(), MSG_NOSIGNAL);
			(void)w;
			struct timespec ts = {0, 150000000};
			nanosleep(&ts, 0);
			close(fd);
		});
	}
	for (auto& t : post) t.join();
	for (auto& t : clients) t.join();
	if (blockingStart) starter.join();   // the accept loop has ended, so the blocking start() call returns by itself
	delete srv;
	log.add(DESTROYED);
	if (stdinClosed) { if (savedStdin >= 0) { dup2(savedStdin, 0); close(savedStdin); } }
	{ struct timespec ts = {0, 200000000}; nanosleep(&ts, 0); }   // a thread touching the destroyed server now is caught by ASan
	uint64_t eh = sched::g().ehash.load();
	sched::off();
	g_log = 0;
	unlink(path.c_str());

	// ---- offline checker over the log
	std::vector<Event>& ev = log.ev;
	int accepted = 0, enters = 0, exits = 0;
	long stopRet = -1;
	std::map<std::string, int> served, exited, echoed, eof, noeof, connected;
	std::map<int, int> openServe;   // fd -> serve depth
	for (size_t i = 0; i < ev.size(); i++) {
		const Event& e = ev[i];
		switch (e.e) {
		case ACCEPTED: accepted++; if (stopRet >= 0) c.fail("accept-after-stop-returned", log.str()); break;
		case SERVE_ENTER:
			enters++;
			if (e.token.size()) served[e.token]++;
			if (stopRet >= 0) c.fail("serve-started-after-stop-returned", "token " + e.token + " | " + log.str());
			if (enters > accepted) c.fail("serve-without-accept", vf::fmt("%d serve() entries but %d accepted connections | ", enters, accepted) + log.str());
			break;
		case SERVE_EXIT: exits++; if (e.token.size()) exited[e.token]++; if (stopRet >= 0) c.fail("serve-still-running-after-stop-returned", "token " + e.token + " | " + log.str()); break;
		case STOP_RETURNED:
			stopRet = (long)i;
			if (enters != exits) c.fail("stop-returned-with-serve-in-flight", vf::fmt("%d entered, %d returned | ", enters, exits) + log.str());
			if (accepted != enters) c.fail("stop-returned-with-accepted-connection-unserved", vf::fmt("%d accepted, %d served | ", accepted, enters) + log.str());
			break;
		case CLIENT_CONNECTED: connected[e.token]++; break;
		case CLIENT_ECHO: echoed[e.token]++; break;
		case CLIENT_EOF: eof[e.token]++; break;
		case CLIENT_NOEOF: noeof[e.token]++; break;
		default: break;
		}
	}
	if (runningAfter) c.fail("running-true-after-stop-returned", log.str());
	// bounded progress: a client that connected and sent its token while no stop had been requested gets its echo within 30 s
	{
		long stopCalledAt = -1, firstSignal = -1;
		for (size_t i = 0; i < ev.size(); i++) { if (ev[i].e == STOP_CALLED && stopCalledAt < 0) stopCalledAt = (long)i; if (ev[i].e == SIGNAL_SENT && firstSignal < 0) firstSignal = (long)i; }
		for (size_t i = 0; i < ev.size(); i++)
			// only for small histories: with a large burst the listen backlog (5) overflows and the kernel's SYN / SYN-ACK retransmission
			// schedule (1, 3, 7, 15, 31 s), not the server, decides when a "connected" client becomes acceptable (seen once on a loaded machine)
			if (N <= 12 && ev[i].e == CLIENT_NOECHO && (stopCalledAt < 0 || (long)i < stopCalledAt) && (firstSignal < 0 || (long)i < firstSignal) && !fd0Unix(unixSock))
				c.fail("connected-client-not-served-within-30s", "token " + ev[i].token + " | " + log.str());
	}
	if (accepted != enters || enters != exits) c.fail("conservation.accepted-entered-exited", vf::fmt("accepted %d, serve entered %d, serve returned %d | ", accepted, enters, exits) + log.str());
	for (auto& kv : served) if (kv.second != 1) c.fail("connection-served-more-than-once", kv.first + vf::fmt(" served %d times | ", kv.second) + log.str());
	for (auto& kv : served) if (kv.first[0] == 'P') c.fail("serve-started-after-stop-returned", "post-stop client " + kv.first + " was served");
	for (auto& kv : echoed) if (!served.count(kv.first)) c.fail("echo-without-serve", kv.first);
	for (auto& kv : noeof) c.fail("socket-not-closed-after-serve", kv.first + " got its echo but no EOF within 30 s | " + log.str());
	if (g_badSocketInServe) c.fail("socket-invalid-inside-serve", vf::fmt("%d checks", (int)g_badSocketInServe));
	c.count("accepted", accepted);
	c.count("served_with_token", served.size());
	c.count("clients_connected", connected.size());
	c.count("clients_saw_echo_and_eof", eof.size());
	c.count(unixSock ? "unix_histories" : "tcp_histories");
	c.count(sequential ? "sequential_histories" : "concurrent_histories");
	c.count("events", ev.size());
	c.evals(ev.size());
	c.distinct(vf::mix(eh, vf::fnv(log.str(200))));
	if (c.want_sample()) c.sample(c.curdesc() + " -> " + log.str(40));
}

int main(int argc, char** argv)
{
	{ struct sigaction sa; memset(&sa, 0, sizeof sa); sa.sa_handler = [](int) {}; sigemptyset(&sa.sa_mask); sa.sa_flags = 0; sigaction(SIGUSR2, &sa, 0); }   // no SA_RESTART: interrupts select()/accept()
	vf::Runner R;
	sched::extra_hook = c14_hook;
	R.add("hist", mode_hist, "start / clients / stop(true) / destroy histories");
	return R.main(argc, argv);
}
