// C09: HTTP request reading/dispatch is total, prompt and memory-safe for any byte stream ended by the peer at any point;
// well-formed requests reach the application exactly as sent; the decoded path never contains ".."; URL parsing and
// percent-decoding are total and in bounds.
// The per-connection handler of the real HttpServer is driven on one end of a socketpair (through the public virtual of
// the base class) in a harness thread; the other end is a hostile raw client.
#include "common/runner.h"
#include <set>
#include <asl/HttpServer.h>
#include <asl/Http.h>
#include <asl/File.h>
#include <thread>
#include <atomic>
#include <mutex>
#include <vector>
#include <map>
#include <algorithm>
#include <sys/socket.h>
#include <poll.h>
#include <pthread.h>

using namespace asl;

struct Seen
{
	std::string method, path, body, querystring;
	std::map<std::string, std::string> query, headers;
};

struct Expect
{
	std::string method, path, body;
	std::map<std::string, std::string> query;                          // decoded key -> value
	std::vector<std::pair<std::string, std::string> > headers;          // lookup name (some case) -> value
	std::vector<std::string> absent;                                    // names that were never sent as headers (they occur inside a folded value)
	bool fragment;                                                      // the target carried a '#fragment'
	Expect() : fragment(false) {}
};

static std::mutex g_mu;
static std::vector<Seen> g_seen;
static std::vector<std::string> g_lookups;   // header names to look up (given by the generator for the current connection)
static std::atomic<int> g_dotdot(0);
static std::string g_dotdotPath;

struct Srv : public HttpServer
{
	bool files;
	Srv() : HttpServer(-1), files(false) {}
	void serve(HttpRequest& req, HttpResponse& res)
	{
		Seen s;
		s.method = *req.method();
		s.path = std::string(*req.path(), req.path().length());
		if (s.path.find("..") != std::string::npos)   // byte-level: the path is a counted string and may hold a zero byte (from %00)
		 { g_dotdot++; std::lock_guard<std::mutex> l(g_mu); g_dotdotPath = s.path; }
		s.body = std::string((const char*)req.body().data(), req.body().length());
		s.querystring = *req.querystring();
		// a handler looking up an optional parameter that was not sent gets "" and must not change what query() reports
		if (vf::fnv(s.path) & 1) { String a = req.query("zz-not-sent"); if (a.length()) s.query["<lookup of a parameter that was not sent returned text>"] = *a; }
		const Dic<>& q = req.query();
		foreach2(String& k, const String& v, q) s.query[std::string(*k, k.length())] = std::string(*v, v.length());
		foreach2(String& k2, const String& v2, q) { String w = req.query(k2); if (w != v2) s.query["<query(key) differs from query()[key]> " + std::string(*k2)] = *w; }
		{
			std::lock_guard<std::mutex> l(g_mu);
			for (size_t i = 0; i < g_lookups.size(); i++) if (req.hasHeader(g_lookups[i].c_str())) { String v = req.header(g_lookups[i].c_str()); s.headers[g_lookups[i]] = std::string(*v, v.length()); }
			g_seen.push_back(s);
		}
		if (files) serveFile(req, res);
		else { res.setHeader("Content-Type", "text/plain"); res.put("ok"); }
	}
	void handle(int fd) { static_cast<SocketServer&>(*this).serve(Socket(fd)); }
};

// ---------------------------------------------------------------- one connection: feed bytes, close, wait for the handler
struct ConnResult { std::string received; bool finished; double cpu, wall; bool spun; };

static double threadCpu(pthread_t t)
{
	clockid_t cid;
	if (pthread_getcpuclockid(t, &cid) != 0) return 0;
	struct timespec ts;
	if (clock_gettime(cid, &ts) != 0) return 0;
	return ts.tv_sec + ts.tv_nsec * 1e-9;
}

// writes `data` in the given fragments (cut offsets), draining the reply meanwhile; then closes (full close) and waits for the handler.
static ConnResult runConn(vf::Ctx& c, Srv& srv, const std::string& data, const std::vector<size_t>& cuts, bool halfClose, double halfCloseWait = 2.0)
{
	ConnResult R;
	R.finished = false; R.cpu = 0; R.wall = 0; R.spun = false;
	int sv[2];
	if (socketpair(AF_UNIX, SOCK_STREAM, 0, sv) != 0) { c.inconclusive("socketpair"); R.finished = true; return R; }
	std::atomic<int> done(0);
	std::thread th([&]() { srv.handle(sv[0]); done = 1; });
	pthread_t pt = th.native_handle();
	int fd = sv[1];
	size_t off = 0, ci = 0;
	char buf[65536];
	auto drain = [&](int ms) {
		struct pollfd p = {fd, POLLIN, 0};
		while (poll(&p, 1, ms) > 0 && (p.revents & (POLLIN | POLLHUP))) {
			ssize_t n = read(fd, buf, sizeof buf);
			if (n <= 0) return false;
			R.received.append(buf, n);
			ms = 0;
		}
		return true;
	};
	bool open = true;
	while (off < data.size() && open) {
		size_t end = ci < cuts.size() ? cuts[ci++] : data.size();
		if (end > data.size()) end = data.size();
		while (off < end) {
			struct pollfd p = {fd, POLLOUT | POLLIN, 0};
			poll(&p, 1, 1000);
			if (p.revents & POLLIN) { if (!drain(0)) { open = false; break; } }
			if (p.revents & (POLLERR | POLLHUP)) { open = false; break; }
			if (p.revents & POLLOUT) {
				ssize_t n = send(fd, data.data() + off, end - off, MSG_NOSIGNAL | MSG_DONTWAIT);
				if (n < 0) { if (errno == EAGAIN) continue; open = false; break; }
				off += n;
			}
		}
		if (ci <= cuts.size() && off < data.size() && c.rng.chance(0.3)) { struct timespec ts = {0, 200000}; nanosleep(&ts, 0); }
	}
	double t0 = vf::now();
	if (halfClose) {
		// half close: the handler sees EOF after everything that was sent. Keep reading its replies until it is done -
		// closing earlier with unread replies in our receive queue would reset the connection and discard requests the
		// handler has not read yet (seen on a loaded machine), which is the client's doing, not the server's
		shutdown(fd, SHUT_WR);
		double tw = vf::now();
		while (!done && vf::now() - tw < halfCloseWait) if (!drain(20)) break;
	} else {
		drain(c.rng.chance(0.5) ? 0 : 2);
	}
	close(fd);
	// the peer is gone: the handler must return promptly. Decided logically: a handler that is still running and has burnt
	// more than 2 s of CPU since the close is spinning; one that is merely blocked is given 25 s (the library's own waits are <= 10 s).
	double cpu0 = threadCpu(pt);
	for (;;) {
		if (done) { R.finished = true; break; }
		struct timespec ts = {0, 2000000};
		nanosleep(&ts, 0);
		double el = vf::now() - t0, cpu = threadCpu(pt) - cpu0;
		if (cpu > 2.0) { R.spun = true; R.cpu = cpu; R.wall = el; break; }
		if (el > 25.0) { R.cpu = cpu; R.wall = el; break; }
	}
	if (R.finished) th.join();
	else th.detach();
	return R;
}

static void judgeTermination(vf::Ctx& c, const ConnResult& r, const char* what)
{
	if (r.finished) return;
	if (r.spun) c.fail_exit(std::string(what) + ".handler-spins-after-peer-closed", vf::fmt("handler thread used %.1f s of CPU in %.1f s after the client closed and is still running", r.cpu, r.wall));
	c.fail_exit(std::string(what) + ".handler-blocked-after-peer-closed", vf::fmt("handler thread still blocked %.1f s after the client closed (cpu %.2f s)", r.wall, r.cpu));
}

// ---------------------------------------------------------------- generator of well-formed requests
static std::string pct(vf::Rng& r, unsigned char ch) { char b[8]; snprintf(b, sizeof b, r.chance(0.5) ? "%%%02X" : "%%%02x", ch); return b; }

static std::string genToken(vf::Rng& r, int maxlen)
{
	static const char a[] = "abcdefghijklmnopqrstuvwxyzABCDEFGHIJKLMNOPQRSTUVWXYZ0123456789-_";
	int n = r.range(1, maxlen);
	std::string s;
	for (int i = 0; i < n; i++) s += a[r.below(sizeof(a) - 1)];
	return s;
}

// text and its percent-encoded spelling; `form`: query component ('+' for space allowed)
static void genEncoded(vf::Rng& r, int maxlen, bool form, std::string& raw, std::string& enc)
{
	static const char unres[] = "abcdefghijklmnopqrstuvwxyzABCDEFGHIJKLMNOPQRSTUVWXYZ0123456789-_~";
	int n = r.range(form ? 0 : 1, maxlen);
	for (int i = 0; i < n; i++) {
		int w = r.below(10);
		if (w < 6) { char ch = unres[r.below(sizeof(unres) - 1)]; raw += ch; enc += r.chance(0.1) ? pct(r, ch) : std::string(1, ch); }
		else if (w == 6) { raw += ' '; enc += (form && r.chance(0.5)) ? "+" : "%20"; }
		else if (w == 7) { static const char sp[] = "&=+?#%/;:@,$!*'()[]\"<>\\^`{|}"; char ch = sp[r.below(sizeof(sp) - 1)]; if (!form && ch == '/') ch = '!'; raw += ch; enc += pct(r, ch); }
		else if (w == 8) { unsigned char ch = (unsigned char)r.range(0x80, 0xff); raw += (char)ch; enc += pct(r, ch); }
		else { unsigned char ch = (unsigned char)r.range(1, 0x1f); raw += (char)ch; enc += pct(r, ch); }
	}
}

static std::string genRequest(vf::Rng& r, Expect& e, bool last, std::vector<std::string>& lookups, int id)
{
	static const char* methods[] = {"GET", "POST", "PUT", "PATCH", "DELETE", "HEAD", "GET", "POST"};
	e.method = methods[r.below(8)];
	// target
	std::string target;
	int nseg = r.range(1, 4);
	for (int i = 0; i < nseg; i++) {
		std::string raw, enc;
		genEncoded(r, 8, false, raw, enc);
		if (raw.find("..") != std::string::npos || raw == ".") { raw = "x"; enc = "x"; }
		e.path += "/" + raw;
		target += "/" + enc;
	}
	if (r.chance(0.2)) { e.path += "/"; target += "/"; }
	if (r.chance(0.6)) {
		int nq = r.range(1, 4);
		target += "?";
		for (int i = 0; i < nq; i++) {
			std::string kr = vf::fmt("k%d", i) + genToken(r, 3), ke = kr, vr, ve;
			genEncoded(r, 10, true, vr, ve);
			if (i) target += "&";
			target += ke + "=" + ve;
			e.query[kr] = vr;
		}
	}
	// a fragment after the target (some clients send one): nothing of it is path or query, even when it contains '?', '=' or '&'
	if (r.chance(0.08)) {
		static const char* frs[] = {"#frag", "#", "#a?z=9", "#?k0=other", "#x&w=1", "#a=b", "#%23"};
		target += frs[r.below(7)];
		e.fragment = true;
	}
	bool http10 = r.chance(0.05) && last;
	std::string req = e.method + " " + target + (http10 ? " HTTP/1.0\r\n" : " HTTP/1.1\r\n");
	// headers
	auto addHeader = [&](const std::string& name, const std::string& value, bool plainOnly) {
		std::string spelled = name, lookup = name;
		int cs = r.below(3);
		for (size_t i = 0; i < spelled.size(); i++) { if (cs == 1) spelled[i] = (char)tolower(spelled[i]); else if (cs == 2) spelled[i] = (char)toupper(spelled[i]); }
		int lc = r.below(3);
		for (size_t i = 0; i < lookup.size(); i++) { if (lc == 1) lookup[i] = (char)tolower(lookup[i]); else if (lc == 2) lookup[i] = (char)toupper(lookup[i]); }
		int ws = plainOnly ? 1 : r.below(5);   // optional whitespace after the colon (RFC 7230 3.2): none, one space, several, tab
		std::string sep = ws == 0 ? ":" : ws == 1 ? ": " : ws == 2 ? ":  " : ws == 3 ? ":\t" : ": ";
		std::string tail = (!plainOnly && r.chance(0.15)) ? (r.chance(0.5) ? " " : "\t") : "";   // optional trailing whitespace
		req += spelled + sep + value + tail + "\r\n";
		e.headers.push_back(std::make_pair(lookup, value));
		lookups.push_back(lookup);
		r.chance(0.5);
	};
	addHeader("Host", "example.test", false);
	addHeader("X-Req-Id", vf::fmt("%d", id), false);
	// one request in ten carries a header whose value is folded onto a second line (obs-fold) that looks like a header of its own;
	// how the two lines are joined is not judged, only that no header of that name appears
	if (r.chance(0.1)) {
		std::string inner = "X-Inner-" + genToken(r, 5);
		req += "X-Folded-" + genToken(r, 4) + ": first part;\r\n" + (r.chance(0.5) ? " " : "\t") + inner + ": admin\r\n";
		e.absent.push_back(inner);
		lookups.push_back(inner);
	}
	int nh = r.range(0, 5);
	for (int i = 0; i < nh; i++) {
		std::string name = vf::fmt("X-H%d-", i) + genToken(r, 6);
		std::string val;
		int n = r.range(1, r.chance(0.05) ? 3000 : 30);
		for (int k = 0; k < n; k++) val += (char)r.range(0x21, 0x7e);
		if (n > 2 && r.chance(0.3)) val[n / 2] = ' ';
		addHeader(name, val, false);
	}
	// body
	int bk = r.below(6);
	if (e.method == "GET" || e.method == "HEAD" || e.method == "DELETE") bk = r.chance(0.8) ? 0 : bk;
	if (bk >= 2) {
		int n = r.chance(0.1) ? r.range(15990, 16010) : r.chance(0.1) ? r.range(30000, 70000) : r.range(1, 300);
		for (int i = 0; i < n; i++) e.body += (char)(r.chance(0.1) ? "\r\n\0 :"[r.below(5)] : r.below(256));
	}
	if (!last && r.chance(0.3)) addHeader("Connection", "keep-alive", true);
	if (last && r.chance(0.3)) addHeader("Connection", "close", true);
	if (bk == 1) { addHeader("Content-Length", "0", true); }
	if (bk >= 2 && bk <= 4) {
		addHeader("Content-Length", vf::fmt("%d", (int)e.body.size()), true);
		req += "\r\n" + e.body;
	} else if (bk == 5) {
		addHeader("Transfer-Encoding", "chunked", true);
		req += "\r\n";
		size_t off = 0;
		while (off < e.body.size()) {
			size_t n = std::min(e.body.size() - off, (size_t)(r.chance(0.6) ? r.range(1, 20) : r.range(1, 20000)));   // mostly several chunks per body: a stream cut between two chunks has delivered a prefix of the body
			req += vf::fmt(r.chance(0.5) ? "%x\r\n" : "%X\r\n", (unsigned)n) + e.body.substr(off, n) + "\r\n";
			off += n;
		}
		req += "0\r\n\r\n";
	} else req += "\r\n";
	return req;
}

static void compareSeen(vf::Ctx& c, const std::vector<Expect>& exp, const std::string& stream)
{
	std::vector<Seen> seen;
	{ std::lock_guard<std::mutex> l(g_mu); seen = g_seen; }
	if (seen.size() != exp.size()) c.fail("wellformed.request-count", vf::fmt("sent %d requests, the application saw %d", (int)exp.size(), (int)seen.size()));
	for (size_t i = 0; i < exp.size(); i++) {
		const Expect& e = exp[i];
		const Seen& s = seen[i];
		std::string at = vf::fmt("request %d of %d: ", (int)i + 1, (int)exp.size());
		if (s.method != e.method) c.fail("wellformed.method", at + "'" + vf::vis(s.method) + "' vs '" + e.method + "'");
		if (s.path != e.path) c.fail("wellformed.path", at + "'" + vf::vis(s.path) + "' vs '" + vf::vis(e.path) + "'");
		for (auto& kv : e.query) {
			auto it = s.query.find(kv.first);
			if (it == s.query.end()) c.fail("wellformed.query-missing", at + kv.first);
			if (it->second != kv.second) c.fail("wellformed.query-value", at + kv.first + "='" + vf::vis(it->second) + "' vs '" + vf::vis(kv.second) + "'");
		}
		if (s.query.size() != e.query.size()) c.fail("wellformed.query-count", at + vf::fmt("%d vs %d", (int)s.query.size(), (int)e.query.size()));
		if (e.fragment) c.count("wellformed.targets-with-a-fragment");
		for (auto& h : e.headers) {
			auto it = s.headers.find(h.first);
			if (it == s.headers.end()) c.fail("wellformed.header-missing", at + "header(" + h.first + ")");
			if (it->second != h.second) c.fail("wellformed.header-value", at + "header(" + h.first + ")='" + vf::vis(it->second, 80) + "' vs '" + vf::vis(h.second, 80) + "'");
		}
		for (auto& a : e.absent) if (s.headers.count(a)) c.fail("wellformed.header-never-sent", at + "header(" + a + ") = '" + vf::vis(s.headers.find(a)->second, 60) + "' was not sent as a header (it is the continuation of a folded value)");
		if (s.body != e.body) {
			size_t k = 0;
			while (k < s.body.size() && k < e.body.size() && s.body[k] == e.body[k]) k++;
			c.fail("wellformed.body", at + vf::fmt("%d bytes vs %d sent, first difference at %d", (int)s.body.size(), (int)e.body.size(), (int)k));
		}
	}
	(void)stream;
}

static std::vector<size_t> randCuts(vf::Rng& r, size_t n)
{
	std::vector<size_t> cs;
	if (n < 2) return cs;
	int w = r.below(4);
	if (w == 0) return cs;
	if (w == 1) { int k = r.range(1, 6); for (int i = 0; i < k; i++) cs.push_back(1 + r.below((uint32_t)(n - 1))); }
	else if (w == 2 && n < 400) { for (size_t i = 1; i < n; i++) cs.push_back(i); }
	else { size_t p = 0; while (p < n) { p += r.range(1, 50); if (p < n) cs.push_back(p); } }
	std::sort(cs.begin(), cs.end());
	cs.erase(std::unique(cs.begin(), cs.end()), cs.end());
	return cs;
}

static void mode_wellformed(vf::Ctx& c)
{
	Srv srv;
	int k = c.rng.range(1, 4);
	std::vector<Expect> exp(k);
	std::string stream;
	{ std::lock_guard<std::mutex> l(g_mu); g_seen.clear(); g_lookups.clear(); }
	std::vector<std::string> lookups;
	for (int i = 0; i < k; i++) stream += genRequest(c.rng, exp[i], i == k - 1, lookups, i);
	{ std::lock_guard<std::mutex> l(g_mu); g_lookups = lookups; }
	c.desc(vf::fmt("%d pipelined well-formed requests, %d bytes: ", k, (int)stream.size()) + vf::vis(stream, 1500));
	ConnResult r = runConn(c, srv, stream, randCuts(c.rng, stream.size()), true, 60.0);
	judgeTermination(c, r, "wellformed");
	compareSeen(c, exp, stream);
	c.count("requests", k);
	c.distinct(vf::fnv(stream));
	if (c.want_sample()) c.sample(vf::vis(stream, 300));
}

// every stream cut at every offset, then the peer closes
static void mode_cuts(vf::Ctx& c)
{
	Srv srv;
	std::vector<Expect> exp(2);
	std::vector<std::string> lookups;
	std::string stream = genRequest(c.rng, exp[0], false, lookups, 0);
	if (c.rng.chance(0.4)) stream += genRequest(c.rng, exp[1], true, lookups, 1);
	if (stream.size() > 1500) stream.resize(1500);
	size_t step = stream.size() > 400 ? 1 + stream.size() / 300 : 1;
	long ncuts = 0;
	// every step-th offset, plus every offset next to a line end (the framing of headers, chunk-size lines and chunk data hangs on them)
	std::vector<size_t> cutsAt;
	{
		std::set<size_t> cs;
		for (size_t cut = 0; cut <= stream.size(); cut += step) cs.insert(cut);
		if (step > 1) {
			size_t extra = 0;
			for (size_t p2 = stream.find("\r\n"); p2 != std::string::npos && extra < 240; p2 = stream.find("\r\n", p2 + 1))
				for (size_t d = 0; d <= 3; d++) if (p2 + d <= stream.size() && cs.insert(p2 + d).second) extra++;
			cs.insert(stream.size());
		}
		cutsAt.assign(cs.begin(), cs.end());
	}
	for (size_t ci = 0; ci < cutsAt.size(); ci++) {
		size_t cut = cutsAt[ci];
		{ std::lock_guard<std::mutex> l(g_mu); g_seen.clear(); g_lookups = lookups; }
		std::string part = stream.substr(0, cut);
		c.desc(vf::fmt("stream cut at %d of %d then closed: ", (int)cut, (int)stream.size()) + vf::vis(part.size() > 300 ? part.substr(part.size() - 300) : part, 400));
		ConnResult r = runConn(c, srv, part, std::vector<size_t>(), c.rng.chance(0.3));
		judgeTermination(c, r, "cut");
		// whatever reaches the application from a stream that ended early is a request of the stream, whole: same method, path and body
		{
			std::vector<Seen> seen;
			{ std::lock_guard<std::mutex> l(g_mu); seen = g_seen; }
			if (seen.size() > exp.size()) c.fail("cut.more-requests-dispatched-than-sent", vf::fmt("%d", (int)seen.size()));
			for (size_t i = 0; i < seen.size() && i < exp.size(); i++) {
				if (seen[i].method != exp[i].method || seen[i].path != exp[i].path) c.fail("cut.dispatched-request-line-differs", vf::fmt("request %d: %s %s", (int)i + 1, vf::vis(seen[i].method).c_str(), vf::vis(seen[i].path, 80).c_str()));
				if (seen[i].body != exp[i].body) c.fail("cut.dispatched-with-truncated-body", vf::fmt("request %d reached the application with %d of its %d body bytes", (int)i + 1, (int)seen[i].body.size(), (int)exp[i].body.size()));
				for (auto& h : exp[i].headers) { auto it = seen[i].headers.find(h.first); if (it == seen[i].headers.end() || it->second != h.second) { c.fail("cut.dispatched-with-partial-headers", vf::fmt("request %d: header(%s)", (int)i + 1, h.first.c_str())); break; } }
			}
			if (seen.size()) c.count("cut_streams_with_a_dispatched_request");
		}
		ncuts++;
	}
	c.evals(ncuts);
	c.count("cut_streams", ncuts);
	c.distinct(vf::fnv(stream));
	if (c.want_sample()) c.sample(vf::fmt("%d-byte request stream cut at %ld offsets", (int)stream.size(), ncuts));
}

// mutated / hostile streams: only termination and memory safety are judged
static std::string mutateStream(vf::Rng& r, std::string s)
{
	static const char* inj[] = {"\r\n", "\n", "\r", ":", " ", "Content-Length: -1\r\n", "Content-Length: 99999999999\r\n", "Content-Length: 2147483647\r\n", "Content-Length: abc\r\n",
	                            "Content-Length: 5\r\n", "Transfer-Encoding: chunked\r\n", "Expect: 100-continue\r\n", "Range: bytes=5\r\n", "Range: bytes=-\r\n", "Range: bytes=a-b\r\n",
	                            "Range: bytes=0-1,3-4\r\n", "Range: bytes=-5\r\n", "Range: bytes=5-2\r\n", "Range: bytes=0-0\r\n", "Range: bytes=99999999999-\r\n", "Range: bytes=2-\r\n",
	                            "Upgrade: websocket\r\n", "Connection: keep-alive\r\n", "Connection: close\r\n", "ffffffff\r\n", "-5\r\n", "zz\r\n", "80000000\r\n", "#", "?", "%", "%zz", "..",
	                            "Origin: x\r\n", "If-Modified-Since: Tue, 30 Nov 2021 00:31:10 GMT\r\n", "If-Modified-Since: junk\r\n", "\t folded\r\n", "NoColonHeader\r\n", "\x00", "\xff\xfe"};
	int nm = r.range(1, 4);
	for (int i = 0; i < nm; i++) {
		size_t n = s.size(), pos = n ? r.below((uint32_t)n) : 0;
		switch (r.below(7)) {
		case 0: s.resize(pos); break;
		case 1: if (n) s.erase(pos, r.range(1, 5)); break;
		case 2: if (n) s.insert(pos, s.substr(pos, r.range(1, 30))); break;
		case 3: if (n) s[pos] = (char)r.below(256); break;
		case 4: { size_t le = s.find("\r\n"); if (le != std::string::npos) s.insert(le + 2, inj[r.below(sizeof(inj) / sizeof(inj[0]))]); break; }
		case 5: s.insert(pos, std::string(r.range(100, 20000), "aA /:\r"[r.below(6)])); break;
		default: { const char* t = inj[r.below(sizeof(inj) / sizeof(inj[0]))]; s.insert(pos, t, t[0] ? strlen(t) : 1); break; }
		}
	}
	return s;
}

static std::string g_root;

static void mode_mutants(vf::Ctx& c)
{
	Srv srv;
	srv.files = c.rng.chance(0.5);
	if (srv.files) srv.setRoot(g_root.c_str());
	std::vector<Expect> exp(2);
	std::vector<std::string> lookups;
	std::string stream;
	if (srv.files && c.rng.chance(0.7)) stream = std::string("GET ") + (c.rng.chance(0.8) ? "/a.txt" : c.rng.chance(0.5) ? "/" : "/sub") + " HTTP/1.1\r\nHost: h\r\n\r\n";
	else stream = genRequest(c.rng, exp[0], c.rng.chance(0.5), lookups, 0);
	if (c.rng.chance(0.3)) stream += genRequest(c.rng, exp[1], true, lookups, 1);
	stream = mutateStream(c.rng, stream);
	{ std::lock_guard<std::mutex> l(g_mu); g_seen.clear(); g_lookups = lookups; }
	c.desc(vf::fmt("mutated stream (%s), %d bytes: ", srv.files ? "file server" : "app", (int)stream.size()) + vf::vis(stream, 1200));
	ConnResult r = runConn(c, srv, stream, randCuts(c.rng, stream.size()), c.rng.chance(0.5));
	judgeTermination(c, r, "mutant");
	if (r.received.find("SECRET-SENTINEL") != std::string::npos) c.fail("file-outside-root-served", "");
	if (g_dotdot) c.fail("path-contains-dotdot", vf::vis(g_dotdotPath));
	{ std::lock_guard<std::mutex> l(g_mu); c.count("mutant_requests_reaching_app", g_seen.size()); }
	c.distinct(vf::fnv(stream));
	if (c.want_sample()) c.sample(vf::vis(stream, 200));
}

// ---------------------------------------------------------------- request targets: exhaustive over the traversal alphabet
static const char* TSYM[] = {".", "/", "%2e", "%2E", "%2f", "%25", "a"};
static const int TLEN[] = {1, 1, 3, 3, 3, 3, 1};

// number of symbol sequences with total character length <= L
static void enumTargets(int L, std::vector<std::string>& out, std::string& cur, int len)
{
	if (cur.size()) out.push_back(cur);
	for (int s = 0; s < 7; s++) {
		if (len + TLEN[s] > L) continue;
		size_t old = cur.size();
		cur += TSYM[s];
		enumTargets(L, out, cur, len + TLEN[s]);
		cur.resize(old);
	}
}

static std::vector<std::string> g_targets;

static void mode_targets(vf::Ctx& c)
{
	long per = c.opt->param("per", 200);
	size_t from = (size_t)c.idx * per, to = std::min(g_targets.size(), from + per);
	if (from >= to) return;
	Srv srv;
	srv.files = true;
	srv.setRoot(g_root.c_str());
	std::string stream;
	for (size_t i = from; i < to; i++) stream += "GET /" + g_targets[i] + " HTTP/1.1\r\nHost: h\r\n\r\n";
	{ std::lock_guard<std::mutex> l(g_mu); g_seen.clear(); g_lookups.clear(); }
	g_dotdot = 0;
	c.desc(vf::fmt("targets %d..%d pipelined on one connection, e.g. GET /%s", (int)from, (int)to - 1, g_targets[from].c_str()));
	ConnResult r = runConn(c, srv, stream, std::vector<size_t>(), true, 60.0);
	judgeTermination(c, r, "targets");
	std::vector<Seen> seen;
	{ std::lock_guard<std::mutex> l(g_mu); seen = g_seen; }
	for (size_t i = 0; i < seen.size(); i++) if (seen[i].path.find("..") != std::string::npos) c.fail("path-contains-dotdot", "target /" + g_targets[from + i] + " gave path '" + seen[i].path + "'");
	if (g_dotdot) c.fail("path-contains-dotdot", vf::vis(g_dotdotPath));
	if (r.received.find("SECRET-SENTINEL") != std::string::npos) c.fail("file-outside-root-served", "");
	if (seen.size() != to - from) c.fail("targets.request-count", vf::fmt("sent %d requests, the application saw %d", (int)(to - from), (int)seen.size()));
	c.evals(to - from);
	c.count("targets", to - from);
	for (size_t i = from; i < to; i++) c.distinct(vf::fnv(g_targets[i]));
	if (c.want_sample()) c.sample(c.curdesc());
}

// several connections delivering large bodies to the same server object at once (each on its own socketpair and handler
// thread, as the concurrent server runs them): every body reaches the application as sent
struct BodySrv : public HttpServer
{
	std::mutex mu;
	std::map<std::string, std::string> verdict;   // path -> "" (body as expected) or what was wrong
	BodySrv() : HttpServer(-1) {}
	void serve(HttpRequest& req, HttpResponse& res)
	{
		std::string path(*req.path(), req.path().length());
		int t = 0, i = 0, len = 0;
		std::string v;
		if (sscanf(path.c_str(), "/t%d/%d/%d", &t, &i, &len) != 3) v = "unparseable path";
		else {
			const byte* b = req.body().data();
			int n = req.body().length();
			if (n != len) v = vf::fmt("%d body bytes, %d sent", n, len);
			else for (int k = 0; k < n; k++) if (b[k] != (byte)('A' + t + (k % 251 == 250 ? i : 0))) { v = vf::fmt("byte %d is 0x%02x, sent 0x%02x", k, b[k], (byte)('A' + t + (k % 251 == 250 ? i : 0))); break; }
		}
		{ std::lock_guard<std::mutex> l(mu); verdict[path] = v; }
		res.put("ok");
	}
	void handle(int fd) { static_cast<SocketServer&>(*this).serve(Socket(fd)); }
};

static void mode_bodies_mt(vf::Ctx& c)
{
	int T = c.rng.range(2, 6), per = c.rng.range(2, 5);
	BodySrv srv;
	std::vector<std::vector<int> > lens(T);
	for (int t = 0; t < T; t++) for (int i = 0; i < per; i++) lens[t].push_back(c.rng.chance(0.3) ? c.rng.range(1, 2000) : c.rng.range(100000, 600000));
	c.desc(vf::fmt("%d connections at once, %d pipelined POSTs each with bodies of up to 600 KB, one server object", T, per));
	std::vector<std::thread> th;
	std::atomic<int> failedSetup(0);
	for (int t = 0; t < T; t++)
		th.emplace_back([&, t]() {
			int sv[2];
			if (socketpair(AF_UNIX, SOCK_STREAM, 0, sv) != 0) { failedSetup++; return; }
			std::thread h([&]() { srv.handle(sv[0]); });
			std::thread rd([&]() { char buf[65536]; for (;;) { ssize_t n = read(sv[1], buf, sizeof buf); if (n <= 0) break; } });
			for (int i = 0; i < per; i++) {
				int len = lens[t][i];
				std::string body((size_t)len, (char)('A' + t));
				for (int k = 250; k < len; k += 251) body[k] = (char)('A' + t + i);
				std::string req = vf::fmt("POST /t%d/%d/%d HTTP/1.1\r\nHost: h\r\nContent-Length: %d\r\n%s\r\n", t, i, len, len, i + 1 == per ? "Connection: close\r\n" : "") + body;
				size_t off = 0;
				while (off < req.size()) { ssize_t n = send(sv[1], req.data() + off, std::min(req.size() - off, (size_t)32768), MSG_NOSIGNAL); if (n <= 0) break; off += n; }
			}
			shutdown(sv[1], SHUT_WR);
			h.join();
			rd.join();
			close(sv[1]);
		});
	for (auto& x : th) x.join();
	if (failedSetup) { c.inconclusive("socketpair"); return; }
	int seen = 0;
	for (int t = 0; t < T; t++) for (int i = 0; i < per; i++) {
		std::string path = vf::fmt("/t%d/%d/%d", t, i, lens[t][i]);
		auto it = srv.verdict.find(path);
		if (it == srv.verdict.end()) { c.fail("bodies-mt.request-not-dispatched", path); continue; }
		seen++;
		if (it->second.size()) c.fail("bodies-mt.body-differs", path + ": " + it->second);
	}
	c.evals(seen);
	c.distinct(vf::mix(c.rng.next(), (uint64_t)T * 16 + per));
	if (c.want_sample()) c.sample(c.curdesc());
}

// random longer targets with deeper encodings
static void mode_targets_rand(vf::Ctx& c)
{
	Srv srv;
	srv.files = true;
	srv.setRoot(g_root.c_str());
	static const char* sym[] = {".", "..", "/", "%2e", "%2E", "%2f", "%2F", "%25", "%252e", "%25252e", "a", "sub", "%00", "%c0%ae", "\\", "....//", "..;/", "?", "#", "%", "%2", "+", "secret.txt", "../secret.txt", "-private/", "-private/secret.txt", "./"};
	// a third of the connections talk to a server whose root was given with a trailing "/." (the same directory)
	bool dotRoot = c.idx % 3 == 1;
	if (dotRoot) srv.setRoot((g_root + "/.").c_str());
	std::string stream;
	std::vector<std::string> tg;
	int n = c.rng.range(1, 30);
	for (int i = 0; i < n; i++) {
		std::string t;
		int k = c.rng.range(1, 25);
		if (c.rng.chance(0.15)) k = c.rng.range(1, 3);
		for (int j = 0; j < k; j++) t += sym[c.rng.below(sizeof(sym) / sizeof(sym[0]))];
		tg.push_back(t);
		// one target in five is not in origin form (no leading '/'): whatever the server makes of it, it stays inside the root
		bool noslash = c.rng.chance(0.2);
		if (noslash) c.count("targets_without_leading_slash");
		stream += std::string("GET ") + (noslash ? "" : "/") + t + " HTTP/1.1\r\nHost: h\r\n\r\n";
	}
	{ std::lock_guard<std::mutex> l(g_mu); g_seen.clear(); g_lookups.clear(); }
	g_dotdot = 0;
	c.desc("random targets: " + vf::vis(stream, 1500));
	ConnResult r = runConn(c, srv, stream, std::vector<size_t>(), true, 60.0);
	judgeTermination(c, r, "targets");
	if (g_dotdot) c.fail("path-contains-dotdot", vf::vis(g_dotdotPath));
	if (r.received.find("SECRET-SENTINEL") != std::string::npos) c.fail("file-outside-root-served", "");
	c.evals(n);
	c.distinct(vf::fnv(stream));
	if (c.want_sample()) c.sample(vf::vis(tg[0], 100));
}

// ---------------------------------------------------------------- Url parsing / decoding
static const char UALPHA[] = ":/[]@?#%a1.";

static void urlOne(vf::Ctx& c, const std::string& s)
{
	static const char* prefixes[] = {"", "aaaaaaaaaaaaaaaaaaa", "http://hhhhhhhhhhhh", "http://[::1]:80/ppppp"};
	for (int p = 0; p < 4; p++) {
		std::string t = std::string(prefixes[p]) + s;
		c.desc("Url/decode/parseQuery of '" + vf::vis(t) + "'");
		String as(t.c_str(), (int)t.size());
		{
			Url u(as);
			volatile int port = u.port;
			(void)port;
			if ((int)strlen(*u.host) != u.host.length() || (int)strlen(*u.path) != u.path.length() || (int)strlen(*u.protocol) != u.protocol.length()) c.fail("url.field-length", "");
			// the accessors derived from the parsed fields are total too
			String q = u.query();
			if ((int)strlen(*q) != q.length() || q.length() > as.length()) c.fail("url.query-length", vf::fmt("query() has length %d, strlen %d, input %d bytes", q.length(), (int)strlen(*q), as.length()));
			Dic<> pr = u.params();
			volatile int np = pr.length();
			(void)np;
		}
		{
			String d = Url::decode(as);
			if (d.length() > as.length()) c.fail("url.decode-longer-than-input", "");
			Dic<> q = Url::parseQuery(as);
			volatile int n = q.length();
			(void)n;
		}
		c.evals(1);
	}
}

static void mode_url(vf::Ctx& c)
{
	// idx enumerates blocks of strings over UALPHA up to length L
	long L = c.opt->param("maxlen", 5), blk = c.opt->param("blk", 2000);
	const int A = sizeof(UALPHA) - 1;
	uint64_t total = 0, p = 1;
	for (int l = 0; l <= L; l++) { total += p; p *= A; }
	uint64_t from = (uint64_t)c.idx * blk, to = std::min(total, from + blk);
	for (uint64_t k = from; k < to; k++) {
		uint64_t x = k;
		int len = 0;
		uint64_t cnt = 1;
		while (x >= cnt) { x -= cnt; cnt *= A; len++; }
		std::string s(len, ' ');
		for (int i = 0; i < len; i++) { s[i] = UALPHA[x % A]; x /= A; }
		urlOne(c, s);
		c.distinct(vf::fnv(s));
	}
	if (c.want_sample()) c.sample(c.curdesc());
}

static void mode_url_rand(vf::Ctx& c)
{
	for (int rep = 0; rep < 50; rep++) {
		std::string s;
		int n = c.rng.range(0, 60);
		static const char al[] = ":/[]@?#%a1.&=+ \\;,~-_ABCDEFabcdef0123456789";
		for (int i = 0; i < n; i++) s += c.rng.chance(0.9) ? al[c.rng.below(sizeof(al) - 1)] : (char)c.rng.range(1, 255);
		urlOne(c, s);
		c.distinct(vf::fnv(s));
	}
	if (c.want_sample()) c.sample(c.curdesc());
}

int main(int argc, char** argv)
{
	vf::Runner R;
	R.add("wellformed", mode_wellformed, "pipelined well-formed requests in random fragmentations: the application sees what was sent");
	R.add("cuts", mode_cuts, "request streams cut at every offset, then closed");
	R.add("mutants", mode_mutants, "mutated request streams incl. Range/Expect/Content-Length/chunked abuse, app and file server");
	R.add("targets", mode_targets, "all request targets over {. / %2e %2E %2f %25 a} up to a character length");
	R.add("bodies_mt", mode_bodies_mt, "several connections with large bodies on one server object at once");
	R.add("targets_rand", mode_targets_rand, "random longer targets with deeper encodings");
	R.add("url", mode_url, "Url(), Url::decode, parseQuery over all short strings of URL metacharacters");
	R.add("url_rand", mode_url_rand, "random longer URL strings");
	R.setup = [](const vf::Options& o) {
		// web root with a file and a sub directory; a sentinel file lives next to the root, outside it
		std::string base = o.out + "/www";
		mkdir(base.c_str(), 0777);
		g_root = base + "/root";
		mkdir(g_root.c_str(), 0777);
		mkdir((g_root + "/sub").c_str(), 0777);
		FILE* f = fopen((g_root + "/a.txt").c_str(), "w"); if (f) { fputs("0123456789abcdefghij", f); fclose(f); }
		f = fopen((g_root + "/a").c_str(), "w"); if (f) { fputs("file-a", f); fclose(f); }
		f = fopen((g_root + "/sub/index.html").c_str(), "w"); if (f) { fputs("<p>index</p>", f); fclose(f); }
		f = fopen((base + "/secret.txt").c_str(), "w"); if (f) { fputs("SECRET-SENTINEL", f); fclose(f); }
		f = fopen((base + "/a").c_str(), "w"); if (f) { fputs("SECRET-SENTINEL", f); fclose(f); }
		// a sibling directory whose name starts with the root's name
		mkdir((g_root + "-private").c_str(), 0777);
		f = fopen((g_root + "-private/secret.txt").c_str(), "w"); if (f) { fputs("SECRET-SENTINEL", f); fclose(f); }
		f = fopen((g_root + "-private/index.html").c_str(), "w"); if (f) { fputs("SECRET-SENTINEL", f); fclose(f); }
		if (o.mode == "targets") { std::string cur; enumTargets((int)o.param("maxchars", 8), g_targets, cur, 0); }
	};
	return R.main(argc, argv);
}
