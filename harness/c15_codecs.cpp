// C15: Base64 / hex / percent-encoding / SHA-1 against their standards, round trips, and
// total + in-bounds decoding of malformed text.
// Oracles: independent implementations written here (RFC 4648 Base64 encoder and strict decoder,
// hex, RFC 3986 percent codec with the two safe sets asl documents, FIPS 180-4 SHA-1 with the
// plain 80-word message schedule). The plan's post step cross-checks a sample of the recorded
// (input, asl output) pairs against python3 base64 / binascii / urllib.parse / hashlib.
// Memory clauses: ASan with every input ending flush with the end of an exact-size heap block
// (asl Strings of length >= 19, malloc(len+1) C strings, malloc(len) byte buffers, ByteArrays >= 3).
#include "common/runner.h"
#include <mutex>
#include <atomic>
#include <thread>
#include <asl/String.h>
#include <asl/Array.h>
#include <asl/Map.h>
#include <asl/util.h>
#include <asl/Http.h>
#include <asl/SHA1.h>
#include <map>
#include <math.h>
#include <ctype.h>

using namespace asl;
typedef std::string Bytes;

// ------------------------------------------------------------------ reference implementations
static const char B64[] = "ABCDEFGHIJKLMNOPQRSTUVWXYZabcdefghijklmnopqrstuvwxyz0123456789+/";

static std::string ref_b64enc(const Bytes& x)
{
	std::string o;
	size_t n = x.size(), i = 0;
	o.reserve((n + 2) / 3 * 4);
	const unsigned char* p = (const unsigned char*)x.data();
	for (; i + 3 <= n; i += 3) {
		o += B64[p[i] >> 2];
		o += B64[((p[i] & 3) << 4) | (p[i + 1] >> 4)];
		o += B64[((p[i + 1] & 15) << 2) | (p[i + 2] >> 6)];
		o += B64[p[i + 2] & 63];
	}
	if (n - i == 1) {
		o += B64[p[i] >> 2];
		o += B64[(p[i] & 3) << 4];
		o += "==";
	} else if (n - i == 2) {
		o += B64[p[i] >> 2];
		o += B64[((p[i] & 3) << 4) | (p[i + 1] >> 4)];
		o += B64[(p[i + 1] & 15) << 2];
		o += '=';
	}
	return o;
}

static inline bool is_ws(unsigned char c) { return c == ' ' || c == '\n' || c == '\r' || c == '\t'; }
static inline int b64val(unsigned char c)
{
	if (c >= 'A' && c <= 'Z') return c - 'A';
	if (c >= 'a' && c <= 'z') return c - 'a' + 26;
	if (c >= '0' && c <= '9') return c - '0' + 52;
	if (c == '+') return 62;
	if (c == '/') return 63;
	return -1;
}

// strict RFC 4648 decoder after removing the four whitespace characters.
// returns 0 = malformed, 1 = well-formed with non-zero pad bits (non-canonical), 2 = well-formed canonical
static int ref_b64dec(const std::string& text, Bytes& out)
{
	std::string t;
	for (size_t i = 0; i < text.size(); i++) if (!is_ws((unsigned char)text[i])) t += text[i];
	out.clear();
	if (t.size() % 4) return 0;
	int canonical = 2;
	for (size_t i = 0; i < t.size(); i += 4) {
		int a = b64val(t[i]), b = b64val(t[i + 1]), c = b64val(t[i + 2]), d = b64val(t[i + 3]);
		bool last = i + 4 == t.size();
		if (a < 0 || b < 0) return 0;
		if (c < 0) {
			if (!last || t[i + 2] != '=' || t[i + 3] != '=') return 0;
			out += (char)((a << 2) | (b >> 4));
			if (b & 15) canonical = 1;
		} else if (d < 0) {
			if (!last || t[i + 3] != '=') return 0;
			out += (char)((a << 2) | (b >> 4));
			out += (char)(((b & 15) << 4) | (c >> 2));
			if (c & 3) canonical = 1;
		} else {
			out += (char)((a << 2) | (b >> 4));
			out += (char)(((b & 15) << 4) | (c >> 2));
			out += (char)(((c & 3) << 6) | d);
		}
	}
	return canonical;
}

static std::string ref_hex(const Bytes& x)
{
	static const char* d = "0123456789abcdef";
	std::string o;
	o.reserve(x.size() * 2);
	for (size_t i = 0; i < x.size(); i++) { o += d[(unsigned char)x[i] >> 4]; o += d[x[i] & 15]; }
	return o;
}
static inline int hexval(unsigned char c)
{
	if (c >= '0' && c <= '9') return c - '0';
	if (c >= 'a' && c <= 'f') return c - 'a' + 10;
	if (c >= 'A' && c <= 'F') return c - 'A' + 10;
	return -1;
}
static bool ref_unhex(const std::string& t, Bytes& out)
{
	out.clear();
	if (t.size() % 2) return false;
	for (size_t i = 0; i < t.size(); i += 2) {
		int a = hexval(t[i]), b = hexval(t[i + 1]);
		if (a < 0 || b < 0) return false;
		out += (char)(a * 16 + b);
	}
	return true;
}

// percent-encoding with the safe sets asl documents ("like JS encodeURI / encodeURIComponent")
static std::string ref_pctenc(const Bytes& s, bool component)
{
	static const char* H = "0123456789ABCDEF";
	const char* extra = component ? "-_.!~*'()" : "-_.!~*'();/?:@&=+$,#";
	std::string o;
	for (size_t i = 0; i < s.size(); i++) {
		unsigned char c = (unsigned char)s[i];
		bool safe = (c >= 'A' && c <= 'Z') || (c >= 'a' && c <= 'z') || (c >= '0' && c <= '9') || (c && strchr(extra, c));
		if (safe) o += (char)c;
		else { o += '%'; o += H[c >> 4]; o += H[c & 15]; }
	}
	return o;
}
// RFC 3986 percent-decoder; false when a '%' is not followed by two hex digits
static bool ref_pctdec(const std::string& t, Bytes& out)
{
	out.clear();
	for (size_t i = 0; i < t.size(); i++) {
		if (t[i] != '%') { out += t[i]; continue; }
		if (i + 2 >= t.size()) return false;
		int a = hexval(t[i + 1]), b = hexval(t[i + 2]);
		if (a < 0 || b < 0) return false;
		out += (char)(a * 16 + b);
		i += 2;
	}
	return true;
}

// FIPS 180-4 SHA-1, straightforward (80-word schedule, big-endian words, explicit padding)
static inline uint32_t rotl32(uint32_t x, int k) { return (x << k) | (x >> (32 - k)); }
static void sha1_block(uint32_t H[5], const unsigned char* p)
{
	uint32_t W[80];
	for (int t = 0; t < 16; t++) W[t] = ((uint32_t)p[4 * t] << 24) | ((uint32_t)p[4 * t + 1] << 16) | ((uint32_t)p[4 * t + 2] << 8) | p[4 * t + 3];
	for (int t = 16; t < 80; t++) W[t] = rotl32(W[t - 3] ^ W[t - 8] ^ W[t - 14] ^ W[t - 16], 1);
	uint32_t a = H[0], b = H[1], c = H[2], d = H[3], e = H[4];
	for (int t = 0; t < 80; t++) {
		uint32_t f, k;
		if (t < 20) { f = (b & c) | (~b & d); k = 0x5a827999; }
		else if (t < 40) { f = b ^ c ^ d; k = 0x6ed9eba1; }
		else if (t < 60) { f = (b & c) | (b & d) | (c & d); k = 0x8f1bbcdc; }
		else { f = b ^ c ^ d; k = 0xca62c1d6; }
		uint32_t T = rotl32(a, 5) + f + e + k + W[t];
		e = d; d = c; c = rotl32(b, 30); b = a; a = T;
	}
	H[0] += a; H[1] += b; H[2] += c; H[3] += d; H[4] += e;
}
static Bytes ref_sha1(const unsigned char* m, size_t n)
{
	uint32_t H[5] = {0x67452301, 0xefcdab89, 0x98badcfe, 0x10325476, 0xc3d2e1f0};
	size_t i = 0;
	for (; i + 64 <= n; i += 64) sha1_block(H, m + i);
	unsigned char tail[128];
	size_t r = n - i;
	memset(tail, 0, sizeof tail);
	if (r) memcpy(tail, m + i, r);
	tail[r] = 0x80;
	size_t tl = (r + 1 + 8 <= 64) ? 64 : 128;
	uint64_t bits = (uint64_t)n * 8;
	for (int k = 0; k < 8; k++) tail[tl - 1 - k] = (unsigned char)(bits >> (8 * k));
	sha1_block(H, tail);
	if (tl == 128) sha1_block(H, tail + 64);
	Bytes o;
	for (int k = 0; k < 5; k++) for (int j = 3; j >= 0; j--) o += (char)(H[k] >> (8 * j));
	return o;
}
static Bytes ref_sha1(const Bytes& b) { return ref_sha1((const unsigned char*)b.data(), b.size()); }

// ------------------------------------------------------------------ plumbing
static int recfd = -1;
struct Rec   // lines are handed to the kernel in one write per case, so a later crash cannot tear them
{
	std::string buf;
	bool on;
	Rec(bool on_) : on(on_ && recfd >= 0) {}
	void line(const std::string& l) { if (on) { buf += l; buf += '\n'; } }
	~Rec() { if (on && buf.size()) { ssize_t r = write(recfd, buf.data(), buf.size()); (void)r; } }
};
static std::string hx(const std::string& s) { return s.empty() ? std::string("-") : vf::hex(s); }

// heap String whose text ends exactly at the end of its allocation when s.size() >= 19
static String exact(const std::string& s) { return String(s.data(), (int)s.size()); }

struct Block   // exact-size raw heap block
{
	unsigned char* p;
	Block(const void* src, size_t n, bool nul = false)
	{
		p = (unsigned char*)malloc(n + (nul ? 1 : 0));
		if (n) memcpy(p, src, n);
		if (nul) p[n] = 0;
	}
	~Block() { free(p); }
private:
	Block(const Block&);
	void operator=(const Block&);
};

static bool same(const ByteArray& a, const Bytes& x) { return a.length() == (int)x.size() && (x.empty() || memcmp(a.data(), x.data(), x.size()) == 0); }
static bool same(const String& a, const std::string& x) { return a.length() == (int)x.size() && memcmp(*a, x.data(), x.size()) == 0 && (*a)[x.size()] == 0; }
static std::string str(const String& a) { return std::string(*a, a.length() > 0 ? a.length() : 0); }
static std::string str(const ByteArray& a) { return a.length() > 0 ? std::string((const char*)a.data(), a.length()) : std::string(); }

static std::string brief(const Bytes& x)
{
	return vf::fmt("%d bytes %s%s", (int)x.size(), vf::hex(x.data(), x.size() < 48 ? x.size() : 48).c_str(), x.size() > 48 ? ".." : "");
}

static Bytes random_bytes(vf::Rng& r, size_t n, int lo = 0)
{
	Bytes x(n, 0);
	size_t i = 0;
	for (; i + 8 <= n; i += 8) { uint64_t v = r.next(); memcpy(&x[i], &v, 8); }
	for (; i < n; i++) x[i] = (char)r.next();
	if (lo) for (i = 0; i < n; i++) if (!x[i]) x[i] = (char)(1 + r.below(255));
	return x;
}

// interleave the four whitespace characters into a Base64 text
static std::string interleave(vf::Rng& r, const std::string& t, int style)
{
	static const char WS[] = " \n\r\t";
	std::string o;
	if (style == 0) {   // random gaps, also before the first and after the last symbol and inside the padding
		static const double P[] = {0.02, 0.2, 0.6};
		double p = P[r.below(3)];
		for (size_t i = 0; i <= t.size(); i++) {
			if (r.chance(p)) for (int k = r.range(1, 3); k > 0; k--) o += WS[r.below(4)];
			if (i < t.size()) o += t[i];
		}
	} else if (style == 1) {   // MIME/PEM style line wrapping
		int w = r.chance(0.5) ? 76 : (r.chance(0.5) ? 64 : r.range(1, 100));
		const char* eol = r.chance(0.5) ? "\r\n" : "\n";
		for (size_t i = 0; i < t.size(); i++) {
			o += t[i];
			if ((i + 1) % w == 0) o += eol;
		}
		if (r.chance(0.7)) o += eol;
	} else {   // leading / trailing blobs, whitespace between and after the padding characters
		for (int k = r.range(0, 5); k > 0; k--) o += WS[r.below(4)];
		for (size_t i = 0; i < t.size(); i++) {
			if (t[i] == '=') o += WS[r.below(4)];
			o += t[i];
		}
		for (int k = r.range(0, 5); k > 0; k--) o += WS[r.below(4)];
	}
	return o;
}

// ------------------------------------------------------------------ byte arrays through Base64 and hex
static void check_bytes(vf::Ctx& c, const Bytes& x, Rec& rec, bool dump, bool light)
{
	int n = (int)x.size();
	std::string rb = ref_b64enc(x), rh = ref_hex(x);
	{
		Bytes back;
		if (ref_b64dec(rb, back) != 2 || back != x) c.fail("selfcheck.base64", "reference encoder/decoder disagree on " + brief(x));
	}
	c.desc("encodeBase64(ByteArray " + brief(x) + ")");
	ByteArray a((const byte*)x.data(), n);
	String s = encodeBase64(a);
	if (s.length() != 4 * ((n + 2) / 3) || (int)strlen(*s) != s.length())
		c.fail("encodeBase64.length", vf::fmt("length() %d strlen %d, RFC 4648 length %d", s.length(), (int)strlen(*s), 4 * ((n + 2) / 3)));
	if (!same(s, rb)) c.fail("encodeBase64.text", "got '" + vf::vis(str(s), 200) + "' want '" + vf::vis(rb, 200) + "'");
	{
		c.desc("encodeBase64(const byte*, n) exact block " + brief(x));
		Block b(x.data(), n);
		String s2 = encodeBase64(b.p, n);
		if (!same(s2, rb)) c.fail("encodeBase64.ptr.text", "got '" + vf::vis(str(s2), 200) + "' want '" + vf::vis(rb, 200) + "'");
	}
	if (!light && memchr(x.data(), 0, n) == 0) {
		c.desc("encodeBase64(String) " + brief(x));
		String s3 = encodeBase64(exact(x));
		if (!same(s3, rb)) c.fail("encodeBase64.string.text", "got '" + vf::vis(str(s3), 200) + "' want '" + vf::vis(rb, 200) + "'");
	}
	c.desc("decodeBase64(encodeBase64(" + brief(x) + "))");
	{
		ByteArray d = decodeBase64(s);
		if (!same(d, x)) c.fail("decodeBase64.roundtrip", vf::fmt("got %d bytes %s", d.length(), vf::hex(str(d).substr(0, 48)).c_str()));
		ByteArray d2 = decodeBase64(exact(rb));
		if (!same(d2, x)) c.fail("decodeBase64.roundtrip", vf::fmt("(exact-size text) got %d bytes %s", d2.length(), vf::hex(str(d2).substr(0, 48)).c_str()));
		Block t(rb.data(), rb.size(), true);
		ByteArray d3 = decodeBase64((const char*)t.p, c.rng.chance(0.5) ? -1 : (int)rb.size());
		if (!same(d3, x)) c.fail("decodeBase64.ptr.roundtrip", vf::fmt("got %d bytes %s", d3.length(), vf::hex(str(d3).substr(0, 48)).c_str()));
	}
	int nws = light ? 1 : 3;
	for (int k = 0; k < nws; k++) {
		int style = light ? (int)c.rng.below(3) : k;
		std::string w = interleave(c.rng, rb, style);
		c.desc(vf::fmt("decodeBase64 of whitespace-interleaved text (style %d) '", style) + vf::vis(w, 600) + "' for " + brief(x));
		ByteArray d = decodeBase64(exact(w));
		if (!same(d, x)) c.fail(style == 0 ? "decodeBase64.whitespace.random" : style == 1 ? "decodeBase64.whitespace.wrapped" : "decodeBase64.whitespace.edges",
		                        vf::fmt("got %d bytes %s, want %d bytes", d.length(), vf::hex(str(d).substr(0, 48)).c_str(), n));
		if (w.size() < 19) {   // short texts are stored inline in a String: give the C-string entry point an exact block
			Block t(w.data(), w.size(), true);
			ByteArray d2 = decodeBase64((const char*)t.p, (int)w.size());
			if (!same(d2, x)) c.fail("decodeBase64.ptr.whitespace", vf::fmt("got %d bytes, want %d", d2.length(), n));
		}
		if (w.size() != rb.size()) c.count("b64_texts_with_whitespace");
		if (dump && k == 0 && n <= 1024) rec.line("W " + hx(x) + " " + hx(w));
		c.evals(1);
	}
	c.desc("encodeHex(ByteArray " + brief(x) + ")");
	String h = encodeHex(a);
	if (h.length() != 2 * n || (int)strlen(*h) != h.length()) c.fail("encodeHex.length", vf::fmt("length() %d strlen %d want %d", h.length(), (int)strlen(*h), 2 * n));
	if (!same(h, rh)) c.fail("encodeHex.text", "got '" + vf::vis(str(h), 200) + "' want '" + vf::vis(rh, 200) + "'");
	{
		c.desc("encodeHex(const byte*, n) exact block " + brief(x));
		Block b(x.data(), n);
		String h2 = encodeHex(b.p, n);
		if (!same(h2, rh)) c.fail("encodeHex.ptr.text", "got '" + vf::vis(str(h2), 200) + "'");
	}
	c.desc("decodeHex(encodeHex(" + brief(x) + "))");
	{
		ByteArray d = decodeHex(h);
		if (!same(d, x)) c.fail("decodeHex.roundtrip", vf::fmt("got %d bytes %s", d.length(), vf::hex(str(d).substr(0, 48)).c_str()));
		ByteArray d2 = decodeHex(exact(rh));
		if (!same(d2, x)) c.fail("decodeHex.roundtrip", vf::fmt("(exact-size text) got %d bytes", d2.length()));
	}
	c.evals(4);
	c.count(n % 3 == 0 ? "b64_tail_0" : n % 3 == 1 ? "b64_tail_1" : "b64_tail_2");
	if (n > 0) c.distinct(vf::fnv(x));
	if (dump && n <= 1024) {
		rec.line("B " + hx(x) + " " + hx(str(s)));
		rec.line("H " + hx(x) + " " + hx(str(h)));
	}
}

// mode bytes: case idx = length 0..1024; contents: all-zero, all-0xFF, counting, `reps` random (one of them NUL-free)
static void mode_bytes(vf::Ctx& c)
{
	int n = (int)c.idx, reps = (int)c.opt->param("reps", 3);
	Rec rec(c.opt->param("dump", 0) != 0);
	check_bytes(c, Bytes(n, '\0'), rec, n % 4 == 0, false);
	check_bytes(c, Bytes(n, '\xff'), rec, n % 4 == 1, false);
	Bytes cnt(n, 0);
	for (int i = 0; i < n; i++) cnt[i] = (char)(i + n);
	check_bytes(c, cnt, rec, n % 4 == 2, false);
	for (int k = 0; k < reps; k++) check_bytes(c, random_bytes(c.rng, n, k == 1), rec, k == 0, false);
	c.count("lengths_covered");
	if (c.want_sample()) c.sample(vf::fmt("length %d: all-zero, all-0xFF, counting and %d random contents through encodeBase64/decodeBase64 (plain + 3 whitespace styles), encodeHex/decodeHex", n, reps));
}

static int sampled_len(vf::Ctx& c, int lo, int maxlen)
{
	if (c.idx == 0) return maxlen;
	if (c.idx == 1) return maxlen - 1;
	if (c.idx == 2) return maxlen - 2;
	int kmax = 0;
	while ((2 << kmax) <= maxlen) kmax++;
	int n;
	switch (c.idx % 4) {
	case 0: { int k = c.rng.range(10, kmax); n = (1 << k) + c.rng.range(-3, 3); break; }
	case 1: n = 64 * c.rng.range(lo / 64 + 1, maxlen / 64) + c.rng.range(-9, 9); break;
	case 2: { double u = c.rng.unit(); n = (int)(lo * exp(u * log((double)maxlen / lo))); break; }
	default: n = c.rng.range(lo, maxlen); break;
	}
	if (n < lo) n = lo;
	if (n > maxlen) n = maxlen;
	return n;
}

static Bytes periodic(const Bytes& blk, size_t n)
{
	Bytes x;
	x.reserve(n + blk.size());
	while (x.size() < n) x += blk;
	x.resize(n);
	return x;
}

// mode bytes_big: sampled lengths 1025..maxlen; one random content, one 251-periodic content (python-checkable by digest)
static void mode_bytes_big(vf::Ctx& c)
{
	int maxlen = (int)c.opt->param("maxlen", 1 << 20);
	int n = sampled_len(c, 1025, maxlen);
	Rec rec(c.opt->param("dump", 0) != 0);
	check_bytes(c, random_bytes(c.rng, n), rec, false, true);
	Bytes blk = random_bytes(c.rng, 251);
	Bytes x = periodic(blk, n);
	check_bytes(c, x, rec, false, true);
	if (rec.on) {
		// digests of asl's own output texts, by the reference SHA-1 (itself cross-checked against hashlib)
		ByteArray a((const byte*)x.data(), n);
		rec.line(vf::fmt("LB %d ", n) + vf::hex(blk) + " " + vf::hex(ref_sha1(str(encodeBase64(a)))));
		rec.line(vf::fmt("LH %d ", n) + vf::hex(blk) + " " + vf::hex(ref_sha1(str(encodeHex(a)))));
	}
	c.count(n >= (1 << 20) ? "big_ge_1MiB" : n >= (1 << 16) ? "big_64KiB_1MiB" : "big_lt_64KiB");
	if (c.want_sample()) c.sample(vf::fmt("length %d: random and 251-periodic content through Base64 (+whitespace) and hex, both directions", n));
}

// ------------------------------------------------------------------ SHA-1
static void check_sha(vf::Ctx& c, const Bytes& x, Rec& rec, bool dump, const Bytes* blk)
{
	int n = (int)x.size();
	Bytes want = ref_sha1(x);
	c.desc("SHA1::hash(const byte*, n) exact block, " + brief(x));
	Block b(x.data(), n);
	SHA1::Hash h = SHA1::hash(b.p, n);
	Bytes got((const char*)(const byte*)h, 20);
	if (got != want) c.fail("sha1.ptr", "got " + vf::hex(got) + " FIPS 180-4 " + vf::hex(want));
	c.desc("SHA1::hash(ByteArray) " + brief(x));
	{
		ByteArray a((const byte*)x.data(), n);
		SHA1::Hash h2 = SHA1::hash(a);
		if (Bytes((const char*)(const byte*)h2, 20) != want) c.fail("sha1.bytearray", "got " + vf::hex(Bytes((const char*)(const byte*)h2, 20)) + " FIPS 180-4 " + vf::hex(want));
	}
	c.desc("SHA1::hash(String) " + brief(x));
	{
		SHA1::Hash h3 = SHA1::hash(exact(x));
		if (Bytes((const char*)(const byte*)h3, 20) != want) c.fail("sha1.string", "got " + vf::hex(Bytes((const char*)(const byte*)h3, 20)) + " FIPS 180-4 " + vf::hex(want));
	}
	if (memchr(x.data(), 0, n) == 0) {
		c.desc("SHA1::hash(const char*) " + brief(x));
		Block t(x.data(), n, true);
		SHA1::Hash h4 = SHA1::hash((const char*)t.p);
		if (Bytes((const char*)(const byte*)h4, 20) != want) c.fail("sha1.cstr", "got " + vf::hex(Bytes((const char*)(const byte*)h4, 20)) + " FIPS 180-4 " + vf::hex(want));
		c.evals(1);
	}
	// the fixed-size overloads used for WebSocket keys
	c.desc("encodeHex/encodeBase64(SHA1::Hash) " + brief(x));
	if (!same(encodeHex(h), ref_hex(want))) c.fail("sha1.encodeHex", "encodeHex(Array_<byte,20>) differs");
	if (!same(encodeBase64(h), ref_b64enc(want))) c.fail("sha1.encodeBase64", "encodeBase64(Array_<byte,20>) differs");
	c.evals(2);
	int r = n % 64;
	c.count(r < 55 ? "sha_pad_one_block" : r == 55 ? "sha_pad_exact_55" : r < 64 ? "sha_pad_two_blocks" : "sha_pad_?");
	c.distinct(vf::fnv(x.data(), x.size() < 4096 ? x.size() : 4096, (uint64_t)n));
	if (dump) {
		if (blk) rec.line(vf::fmt("LS %d ", n) + vf::hex(*blk) + " " + vf::hex(got));
		else rec.line("S " + hx(x) + " " + vf::hex(got));
	}
}

// mode sha1: case idx = message length 0..; zeros, 0xFF, `reps` random contents (one NUL-free)
static void mode_sha1(vf::Ctx& c)
{
	int n = (int)c.idx, reps = (int)c.opt->param("reps", 4);
	Rec rec(c.opt->param("dump", 0) != 0);
	check_sha(c, Bytes(n, '\0'), rec, true, 0);
	check_sha(c, Bytes(n, '\xff'), rec, true, 0);
	for (int k = 0; k < reps; k++) check_sha(c, random_bytes(c.rng, n, k == 1), rec, k < 2, 0);
	c.count("lengths_covered");
	if (c.want_sample()) c.sample(vf::fmt("message length %d (%d mod 64): zeros, 0xFF and %d random contents through the four SHA1::hash overloads", n, n % 64, reps));
}

// several threads hashing / encoding their own private buffers at the same time: every digest and text must be the one the
// same call gives alone (beyond the stated quantifier, which has no schedules; a codec that keeps process-wide state fails here)
static void mode_codecs_mt(vf::Ctx& c)
{
	int T = c.rng.range(2, 6), rounds = (int)c.opt->param("rounds", 40);
	uint64_t seed = c.rng.next();
	c.desc(vf::fmt("%d threads x %d rounds: SHA1::hash, encodeBase64/decodeBase64 and encodeHex/decodeHex of private buffers of 1 KiB - 256 KiB", T, rounds));
	std::atomic<int> bad(0);
	std::mutex mu;
	std::string why;
	std::vector<std::thread> th;
	for (int t = 0; t < T; t++)
		th.emplace_back([&, t]() {
			vf::Rng r(vf::mix(seed, t));
			for (int k = 0; k < rounds; k++) {
				size_t n = (size_t)r.range(1024, k % 8 == 0 ? 262144 : 8192);
				Bytes b = random_bytes(r, (int)n, false);
				ByteArray in((const byte*)b.data(), (int)b.size());
				Bytes want = ref_sha1(b);
				SHA1::Hash h = SHA1::hash(in);
				std::string what;
				if (Bytes((const char*)(const byte*)h, 20) != want) what = "SHA1::hash";
				String e64 = encodeBase64(in);
				ByteArray d64 = decodeBase64(e64);
				if (str(d64) != b) what = "decodeBase64(encodeBase64(x))";
				String eh = encodeHex(in);
				ByteArray dh = decodeHex(eh);
				if (str(dh) != b) what = "decodeHex(encodeHex(x))";
				if (what.size()) { bad++; std::lock_guard<std::mutex> l(mu); if (why.empty()) why = vf::fmt("thread %d round %d, %d bytes: %s differs from the single-threaded reference", t, k, (int)n, what.c_str()); }
			}
		});
	for (auto& x : th) x.join();
	if (bad) c.fail("codecs-mt.result-differs", vf::fmt("%d wrong; ", (int)bad) + why);
	c.evals((uint64_t)T * rounds * 3);
	c.distinct(seed);
	if (c.want_sample()) c.sample(c.curdesc());
}

static void mode_sha1_big(vf::Ctx& c)
{
	int maxlen = (int)c.opt->param("maxlen", 1 << 20);
	int n = sampled_len(c, 261, maxlen);
	Rec rec(c.opt->param("dump", 0) != 0);
	check_sha(c, random_bytes(c.rng, n, c.idx % 2), rec, false, 0);
	Bytes blk = random_bytes(c.rng, 251);
	check_sha(c, periodic(blk, n), rec, true, &blk);
	c.count(n >= (1 << 20) ? "big_ge_1MiB" : n >= (1 << 16) ? "big_64KiB_1MiB" : "big_lt_64KiB");
	if (c.want_sample()) c.sample(vf::fmt("message length %d (%d mod 64): random and 251-periodic content", n, n % 64));
}

// ------------------------------------------------------------------ exhaustive short strings through decodeBase64
static const char ALPHA8[] = {'A', 'b', '+', '/', '=', ' ', '\n', '*'};

// total number of strings of length <= L over k symbols
static uint64_t total_upto(int k, int L)
{
	uint64_t t = 0, p = 1;
	for (int i = 0; i <= L; i++) { t += p; p *= k; }
	return t;
}
// g-th string in (length, lexicographic) order
static std::string nth_string(uint64_t g, const char* alpha, int k)
{
	int len = 0;
	uint64_t p = 1;
	while (g >= p) { g -= p; p *= k; len++; }
	std::string s(len, alpha[0]);
	for (int i = len - 1; i >= 0; i--) { s[i] = alpha[g % k]; g /= k; }
	return s;
}

// Shape that the separate mode b64_padonly owns: at least 4 characters, and the trailing run of characters that
// are not Base64 symbols (first character excluded) holds more '=' signs than 3*floor(#non-whitespace characters / 4),
// i.e. more padding than there are decoded bytes ("=====", "A====", "* * =", "==\n==="...).
static bool pad_heavy(const std::string& s)
{
	if (s.size() < 4) return false;
	int m = 0, e = 0;
	for (size_t i = 0; i < s.size(); i++) if (!is_ws((unsigned char)s[i])) m++;
	for (size_t i = s.size() - 1; i > 0 && b64val((unsigned char)s[i]) < 0; i--) if (s[i] == '=') e++;
	return e > 3 * (m / 4);
}

static const char PREFIX_B64[] = "QUJDQUJDQUJDQUJDQUJD";   // 20 symbols = "ABCABCABCABCABC"
static const char PREFIX_B64_BYTES[] = "ABCABCABCABCABC";

static int b64_one(vf::Ctx& c, const std::string& s, bool with_prefix, std::string* why)
{
	// returns the smallest length() seen over the entry points (negative = defect), judges agreement on well-formed text
	Bytes want;
	int wf = ref_b64dec(s, want);
	int minlen = 0;
	c.desc("decodeBase64 on '" + vf::vis(s) + "' [C string in malloc(len+1) with n=-1 and n=len; String; 20-symbol prefix + String]");
	{
		Block t(s.data(), s.size(), true);
		ByteArray d1 = decodeBase64((const char*)t.p, -1);
		ByteArray d2 = decodeBase64((const char*)t.p, (int)s.size());
		ByteArray d3 = decodeBase64(exact(s));
		minlen = d1.length() < d2.length() ? d1.length() : d2.length();
		if (d3.length() < minlen) minlen = d3.length();
		if (minlen < 0) { if (why) *why = vf::fmt("length() = %d / %d / %d (C string n=-1 / n=len / String)", d1.length(), d2.length(), d3.length()); return minlen; }
		if (wf == 2) {
			if (!same(d1, want) || !same(d2, want) || !same(d3, want))
				c.fail("decodeBase64.wellformed", vf::fmt("canonical Base64 with whitespace: got %d/%d/%d bytes (%s), RFC 4648 gives %d bytes (%s)", d1.length(), d2.length(), d3.length(),
				                                           vf::hex(str(d1)).c_str(), (int)want.size(), vf::hex(want).c_str()));
			c.count("x_wellformed_canonical");
		} else if (wf == 1) c.count(same(d1, want) ? "x_noncanonical_padbits_same_as_lenient_decoder" : "x_noncanonical_padbits_other");
		else c.count("x_malformed");
	}
	if (with_prefix) {
		String p = exact(PREFIX_B64 + s);
		ByteArray d = decodeBase64(p);
		if (d.length() < 0) { if (why) *why = vf::fmt("with valid 20-symbol prefix: length() = %d", d.length()); return d.length(); }
		if (wf == 2 && !same(d, PREFIX_B64_BYTES + want)) c.fail("decodeBase64.wellformed.prefixed", vf::fmt("got %d bytes %s", d.length(), vf::hex(str(d)).c_str()));
	}
	return minlen;
}

// mode b64x: case = block of `blk` consecutive strings of the enumeration of all strings of length <= maxlen over ALPHA8;
// strings of the pad_heavy shape are left to mode b64_padonly
static void mode_b64x(vf::Ctx& c)
{
	int maxlen = (int)c.opt->param("maxlen", 6);
	uint64_t blk = (uint64_t)c.opt->param("blk", 1024), tot = total_upto(8, maxlen), g0 = c.idx * blk, g1 = g0 + blk;
	Rec rec(c.opt->param("dump", 0) != 0);
	long every = c.opt->param("dumpevery", 97);
	if (g1 > tot) g1 = tot;
	uint64_t ran = 0, skipped = 0;
	for (uint64_t g = g0; g < g1; g++) {
		std::string s = nth_string(g, ALPHA8, 8);
		if (pad_heavy(s)) { skipped++; continue; }
		std::string why;
		int ml = b64_one(c, s, true, &why);
		if (ml < 0) c.fail("decodeBase64.negative-length", why);
		ran++;
		if (g % 5 == 0) {
			// a result belongs to its caller: changing it must not change what a later call returns
			ByteArray a = decodeBase64(exact(s));
			int n0 = a.length();
			if (n0 >= 0) {
				a << (byte)0xAA << (byte)0xBB;
				ByteArray b2 = decodeBase64(exact(s));
				if (b2.length() != n0) c.fail("decodeBase64.result-shared-between-calls", vf::fmt("'%s': decoded to %d bytes, and to %d bytes after the first result had 2 bytes appended by its owner", vf::vis(s).c_str(), n0, b2.length()));
				c.count("b64_result_independence_checks");
			}
		}
		if (rec.on && g % every == 0) {
			Bytes want;
			if (ref_b64dec(s, want) == 2) rec.line("X " + hx(s) + " " + hx(str(decodeBase64(exact(s)))));
		}
	}
	c.evals(ran * 4);
	c.count("x_strings_run", ran);
	c.count("x_strings_left_to_b64_padonly", skipped);
	if (g1 > g0) c.distinct(g0);
	if (c.want_sample() && g1 > g0) c.sample("strings #" + std::to_string(g0) + "..#" + std::to_string(g1 - 1) + " of the enumeration over {A b + / = SP LF *}, e.g. '" + vf::vis(nth_string(g1 - 1, ALPHA8, 8)) + "'");
}

// mode b64_padonly: the same enumeration restricted to the pad_heavy shape (+ random longer members of the shape)
static void mode_b64_padonly(vf::Ctx& c)
{
	int maxlen = (int)c.opt->param("maxlen", 6);
	uint64_t blk = (uint64_t)c.opt->param("blk", 1024), tot = total_upto(8, maxlen), g0 = c.idx * blk, g1 = g0 + blk;
	if (g1 > tot) g1 = tot;
	uint64_t ran = 0, neg = 0;
	std::string first, firstwhy;
	for (uint64_t g = g0; g < g1; g++) {
		std::string s = nth_string(g, ALPHA8, 8);
		if (!pad_heavy(s)) continue;
		std::string why;
		int ml = b64_one(c, s, false, &why);
		ran++;
		if (ml < 0 && !neg++) { first = s; firstwhy = why; }
	}
	// random longer members: k valid quads then more '=' / junk than data
	for (int rep = 0; rep < 8; rep++) {
		std::string s;
		int kind = c.rng.below(3);
		if (kind == 0) { s = std::string(c.rng.range(4, 40), '='); }
		else if (kind == 1) { s = "A"; s += std::string(c.rng.range(4, 30), '='); }
		else { for (int i = c.rng.range(1, 3); i > 0; i--) { s += '*'; s += ' '; } s += std::string(c.rng.range(1, 6), '='); while (s.size() < 4) s += ' '; }
		if (!pad_heavy(s)) continue;
		std::string why;
		int ml = b64_one(c, s, false, &why);
		ran++;
		if (ml < 0 && !neg++) { first = s; firstwhy = why; }
	}
	c.evals(ran * 3);
	c.count("padonly_strings_run", ran);
	c.count("padonly_negative_length", neg);
	if (ran) c.distinct(g0);
	if (c.want_sample() && ran) c.sample(vf::fmt("%d padding-heavy strings among #%llu..#%llu", (int)ran, (unsigned long long)g0, (unsigned long long)g1 - 1));
	if (neg) {
		c.desc("decodeBase64('" + vf::vis(first) + "')");
		c.fail("decodeBase64.negative-length", vf::fmt("%d of %d padding-heavy strings in this block returned an array with negative length; first: '%s': %s", (int)neg, (int)ran, vf::vis(first).c_str(), firstwhy.c_str()));
	}
}

// mode b64junk: random longer malformed texts (mutations of valid texts, junk bytes 1..255) - totality and bounds
static void mode_b64junk(vf::Ctx& c)
{
	for (int rep = 0; rep < 40; rep++) {
		std::string s;
		int kind = c.rng.below(3);
		if (kind == 0) {
			int n = c.rng.range(0, 80);
			static const char alpha[] = "ABab01+/+/==== \n\r\t*-_.%";
			for (int i = 0; i < n; i++) s += alpha[c.rng.below(sizeof(alpha) - 1)];
		} else if (kind == 1) {
			s = ref_b64enc(random_bytes(c.rng, c.rng.range(0, 90)));
			for (int k = c.rng.range(1, 5); k > 0 && s.size(); k--) {
				size_t pos = c.rng.below((uint32_t)s.size());
				int what = c.rng.below(4);
				if (what == 0) s[pos] = (char)(1 + c.rng.below(255));
				else if (what == 1) s.erase(pos, 1);
				else if (what == 2) s.insert(pos, 1, "= \n*A"[c.rng.below(5)]);
				else s.resize(pos);
			}
		} else {
			s = random_bytes(c.rng, c.rng.range(0, 64), 1);
		}
		if (pad_heavy(s)) { c.count("junk_left_to_b64_padonly"); continue; }
		c.desc("decodeBase64('" + vf::vis(s) + "') [String; C string in malloc(len+1)]");
		ByteArray d = decodeBase64(exact(s));
		Block t(s.data(), s.size(), true);
		ByteArray d2 = decodeBase64((const char*)t.p, (int)s.size());
		if (d.length() < 0 || d2.length() < 0) c.fail("decodeBase64.negative-length", vf::fmt("length() = %d / %d", d.length(), d2.length()));
		Bytes want;
		int wf = ref_b64dec(s, want);
		if (wf == 2 && !same(d, want)) c.fail("decodeBase64.wellformed", vf::fmt("got %d bytes, RFC 4648 gives %d", d.length(), (int)want.size()));
		c.count(wf == 2 ? "junk_wellformed" : "junk_malformed");
		c.evals(2);
		c.distinct(vf::fnv(s));
	}
	if (c.want_sample()) c.sample("e.g. " + c.curdesc());
}

// mode b64_ptrn: the explicit-length entry point decodeBase64(const char*, int n) on VALID text whose n characters are
// (even idx) an exact malloc(n) block without a terminator, (odd idx) the head of a longer NUL-terminated valid text.
// One text per case (a sanitizer abort costs the case). Kept apart from the other modes: the String overload always
// passes a terminated buffer of exactly n characters, which is what every other mode exercises.
static void mode_b64_ptrn(vf::Ctx& c)
{
	Bytes x = random_bytes(c.rng, c.idx < 40 ? (int)c.idx / 2 : c.rng.range(0, 300));
	std::string t = ref_b64enc(x);
	if (c.rng.chance(0.3)) t = interleave(c.rng, t, (int)c.rng.below(3));
	ByteArray d;
	if (c.idx % 2 == 0) {
		c.desc(vf::fmt("decodeBase64(p, %d) with p = malloc(%d) holding '%s' and no terminator", (int)t.size(), (int)t.size(), vf::vis(t, 300).c_str()));
		Block b(t.data(), t.size(), false);
		d = decodeBase64((const char*)b.p, (int)t.size());
	} else {
		std::string more = t + ref_b64enc(random_bytes(c.rng, c.rng.range(1, 60)));
		c.desc(vf::fmt("decodeBase64(p, %d) with p -> '%s' (NUL-terminated, %d characters)", (int)t.size(), vf::vis(more, 300).c_str(), (int)more.size()));
		Block b(more.data(), more.size(), true);
		d = decodeBase64((const char*)b.p, (int)t.size());
	}
	if (d.length() < 0) c.fail("decodeBase64.ptrn.negative-length", vf::fmt("length() = %d", d.length()));
	if (!same(d, x)) c.fail(c.idx % 2 ? "decodeBase64.ptrn.reads-past-n" : "decodeBase64.ptrn.roundtrip", vf::fmt("got %d bytes %s, want %d bytes %s", d.length(), vf::hex(str(d).substr(0, 40)).c_str(), (int)x.size(), vf::hex(x.substr(0, 40)).c_str()));
	c.count(c.idx % 2 ? "ptrn_head_of_longer_text" : "ptrn_unterminated_exact_block");
	if (x.size()) c.distinct(vf::fnv(t));
	if (c.want_sample()) c.sample(c.curdesc().substr(0, 300));
}

// ------------------------------------------------------------------ hex strings
static const char ALPHA5[] = {'0', '9', 'a', 'F', 'g'};
static const char PREFIX_HEX[] = "00ff10a55a7e0180c3e1";   // 20 digits = 10 bytes
static const char PREFIX_HEX_BYTES[] = "\x00\xff\x10\xa5\x5a\x7e\x01\x80\xc3\xe1";

static void hex_one(vf::Ctx& c, const std::string& s, bool judge_len)
{
	c.desc("decodeHex('" + vf::vis(s) + "') [String; valid 20-digit prefix + String]");
	ByteArray d = decodeHex(exact(s));
	if (d.length() < 0) c.fail("decodeHex.negative-length", vf::fmt("length() = %d", d.length()));
	std::string ps = PREFIX_HEX + s;
	ByteArray dp = decodeHex(exact(ps));
	if (dp.length() < 0) c.fail("decodeHex.negative-length", vf::fmt("prefixed: length() = %d", dp.length()));
	Bytes want;
	bool valid = ref_unhex(s, want);
	bool lower = true;
	for (size_t i = 0; i < s.size(); i++) if (s[i] >= 'A' && s[i] <= 'F') lower = false;
	if (valid && lower) {   // this is the text encodeHex produces for `want`
		if (!same(d, want)) c.fail("decodeHex.valid", vf::fmt("got %d bytes %s want %s", d.length(), vf::hex(str(d)).c_str(), vf::hex(want).c_str()));
		if (!same(dp, Bytes(PREFIX_HEX_BYTES, 10) + want)) c.fail("decodeHex.valid.prefixed", vf::fmt("got %d bytes %s", dp.length(), vf::hex(str(dp)).c_str()));
		c.count("hex_valid_lowercase");
	} else if (valid) c.count(same(d, want) ? "hex_uppercase_decoded_like_lowercase" : "hex_uppercase_decoded_differently");
	else c.count(s.size() % 2 ? "hex_odd_length" : "hex_even_with_junk");
	(void)judge_len;
	c.evals(1);
}

// mode hexx: every string of length <= 5 over {0 9 a F g}; odd lengths are left to mode hex_odd
static void mode_hexx(vf::Ctx& c)
{
	uint64_t blk = (uint64_t)c.opt->param("blk", 64), tot = total_upto(5, 5), g0 = c.idx * blk, g1 = g0 + blk;
	if (g1 > tot) g1 = tot;
	uint64_t ran = 0, skipped = 0;
	for (uint64_t g = g0; g < g1; g++) {
		std::string s = nth_string(g, ALPHA5, 5);
		if (s.size() % 2) { skipped++; continue; }
		hex_one(c, s, true);
		ran++;
	}
	c.count("hexx_even_strings_run", ran);
	c.count("hexx_odd_left_to_hex_odd", skipped);
	if (g1 > g0) c.distinct(g0);
	if (c.want_sample() && ran) c.sample("even-length strings among #" + std::to_string(g0) + "..#" + std::to_string(g1 - 1) + " over {0 9 a F g}");
}

static std::string random_hexish(vf::Ctx& c, int len)
{
	std::string s;
	int kind = c.rng.below(4);
	static const char lo[] = "0123456789abcdef", mixed[] = "0123456789abcdefABCDEF", junk[] = "0123456789abcdefABCDEFgGxX -+.\n";
	for (int i = 0; i < len; i++) {
		if (kind == 0) s += lo[c.rng.below(16)];
		else if (kind == 1) s += mixed[c.rng.below(22)];
		else if (kind == 2) s += junk[c.rng.below(sizeof(junk) - 1)];
		else s += (char)(1 + c.rng.below(255));
	}
	return s;
}

// mode hex: random even-length strings (valid lower-case, mixed case, junk, arbitrary bytes), lengths 0..4096
static void mode_hex(vf::Ctx& c)
{
	for (int rep = 0; rep < 20; rep++) {
		int len = 2 * (c.rng.chance(0.7) ? c.rng.range(0, 40) : c.rng.range(0, 2048));
		std::string s = random_hexish(c, len);
		hex_one(c, s, true);
		c.distinct(vf::fnv(s));
	}
	if (c.want_sample()) c.sample("e.g. " + c.curdesc().substr(0, 300));
}

// mode hex_odd: ONE odd-length string per case: idx < 3255 enumerates all odd-length strings of length <= 5 over
// {0 9 a F g} (each also behind a valid 20-digit prefix so that the result array is an exact-size block), then random ones
static void mode_hex_odd(vf::Ctx& c)
{
	std::string s;
	uint64_t g = c.idx;
	if (g < 5) s = nth_string(1 + g, ALPHA5, 5);
	else if (g < 5 + 125) s = nth_string(1 + 5 + 25 + (g - 5), ALPHA5, 5);
	else if (g < 5 + 125 + 3125) s = nth_string(1 + 5 + 25 + 125 + 625 + (g - 130), ALPHA5, 5);
	else s = random_hexish(c, 2 * (c.rng.chance(0.7) ? c.rng.range(0, 40) : c.rng.range(0, 2048)) + 1);
	if (s.size() % 2 == 0) { c.inconclusive("enumeration slip"); return; }
	hex_one(c, s, false);
	c.distinct(vf::fnv(s));
	if (c.want_sample()) c.sample(c.curdesc().substr(0, 300));
}

// ------------------------------------------------------------------ percent-encoding
static const char PREFIX_URL[] = "abcdefghij0123456789";   // 20 unreserved characters, unchanged by both modes

static void url_one(vf::Ctx& c, const Bytes& s, Rec& rec, bool dump)
{
	for (int comp = 0; comp < 2; comp++) {
		c.desc(vf::fmt("Url::decode(Url::encode('%s', component=%d))", vf::vis(s).c_str(), comp));
		String in = exact(s);
		String enc = Url::encode(in, comp != 0);
		if ((int)strlen(*enc) != enc.length()) c.fail("url.encode.length", vf::fmt("length() %d strlen %d", enc.length(), (int)strlen(*enc)));
		String dec = Url::decode(enc);
		if (!same(dec, s)) c.fail(comp ? "url.roundtrip.component" : "url.roundtrip.whole", "encoded '" + vf::vis(str(enc)) + "' decoded '" + vf::vis(str(dec)) + "'");
		String dec2 = Url::decode(exact(str(enc)));   // the same text flush with its block
		if (!same(dec2, s)) c.fail(comp ? "url.roundtrip.component" : "url.roundtrip.whole", "(exact-size text) decoded '" + vf::vis(str(dec2)) + "'");
		Bytes back;
		if (!ref_pctdec(str(enc), back) || back != s)
			c.fail(comp ? "url.encode.component.not-percent-decodable" : "url.encode.whole.not-percent-decodable", "an RFC 3986 percent-decoder maps '" + vf::vis(str(enc)) + "' to '" + vf::vis(back) + "'");
		// not judged: exact choice of untouched characters vs the documented JS-like sets; decoding of other spellings
		c.count(str(enc) == ref_pctenc(s, comp != 0) ? "url_encode_equals_documented_safe_set" : "url_encode_differs_from_documented_safe_set");
		std::string lowered = ref_pctenc(s, true);
		for (size_t i = 0; i < lowered.size(); i++) if (lowered[i] == '%') { lowered[i + 1] = (char)tolower(lowered[i + 1]); lowered[i + 2] = (char)tolower(lowered[i + 2]); i += 2; }
		String dec3 = Url::decode(exact(lowered));
		c.count(same(dec3, s) ? "url_decode_of_lowercase_escapes_same" : "url_decode_of_lowercase_escapes_differs");
		if (dump) rec.line(vf::fmt("U %d ", comp) + hx(s) + " " + hx(str(enc)));
		c.evals(1);
	}
	// flush variant: the string behind 20 unreserved characters occupies exactly len+1 bytes
	if (s.size() < 19) {
		Bytes ps = PREFIX_URL + s;
		for (int comp = 0; comp < 2; comp++) {
			c.desc(vf::fmt("Url::decode(Url::encode('%s', component=%d))", vf::vis(ps).c_str(), comp));
			String enc = Url::encode(exact(ps), comp != 0);
			String dec = Url::decode(exact(str(enc)));
			if (!same(dec, ps)) c.fail(comp ? "url.roundtrip.component" : "url.roundtrip.whole", "(prefixed) encoded '" + vf::vis(str(enc)) + "' decoded '" + vf::vis(str(dec)) + "'");
		}
	}
}

// mode url_pairs: case idx -> first byte idx+1; the 1-byte string and all 255 two-byte strings starting with it
static void mode_url_pairs(vf::Ctx& c)
{
	int b1 = (int)c.idx + 1;
	if (b1 > 255) return;
	Rec rec(c.opt->param("dump", 0) != 0);
	url_one(c, Bytes(1, (char)b1), rec, true);
	for (int b2 = 1; b2 < 256; b2++) {
		Bytes s(1, (char)b1);
		s += (char)b2;
		url_one(c, s, rec, (b1 * 31 + b2) % 23 == 0);
	}
	c.distinct((uint64_t)b1);
	c.count("first_bytes_covered");
	if (c.want_sample()) c.sample(vf::fmt("byte 0x%02x alone and followed by every byte 0x01..0xff, both modes", b1));
}

static Bytes random_urlish(vf::Ctx& c, int maxn)
{
	int n = c.rng.chance(0.1) ? 0 : c.rng.range(1, maxn), kind = c.rng.below(5);
	Bytes s;
	static const char reserved[] = "%+&=#?/:;@$, !~*'()-_.\"<>[]{}|\\^`\t\n\r";
	static const char* frag[] = {"%41", "%zz", "%", "%%", "%2", "%2f", "%2F", "%00", "+", "%25", "a=b&c=d", "http://h:80/p?q#f", "\xc3\xa9", "\xe2\x82\xac", "\xf0\x9f\x98\x80"};
	while ((int)s.size() < n) {
		if (kind == 0) s += (char)(1 + c.rng.below(255));
		else if (kind == 1) s += (char)(0x20 + c.rng.below(0x5f));
		else if (kind == 2) s += reserved[c.rng.below(sizeof(reserved) - 1)];
		else if (kind == 3) s += frag[c.rng.below(sizeof(frag) / sizeof(frag[0]))];
		else s += c.rng.chance(0.5) ? (char)('a' + c.rng.below(26)) : c.rng.chance(0.5) ? reserved[c.rng.below(sizeof(reserved) - 1)] : (char)(0x80 + c.rng.below(0x80));
	}
	return s;
}

static void mode_url(vf::Ctx& c)
{
	Rec rec(c.opt->param("dump", 0) != 0);
	for (int rep = 0; rep < 20; rep++) {
		Bytes s = random_urlish(c, rep % 5 == 0 ? 400 : 40);
		url_one(c, s, rec, rep == 0);
		if (s.size()) c.distinct(vf::fnv(s));
	}
	if (c.want_sample()) c.sample("e.g. " + c.curdesc().substr(0, 300));
}

// mode url_junk: Url::decode / Url::parseQuery on arbitrary text: every string of length <= maxlen over {% 4 1 g a + &  =}
// behind a 20-character prefix (flush with the block end) and bare; totality and bounds only
static const char ALPHAU[] = {'%', '4', '1', 'g', 'a', '+', '&', '='};
static void mode_url_junk(vf::Ctx& c)
{
	int maxlen = (int)c.opt->param("maxlen", 5);
	uint64_t blk = (uint64_t)c.opt->param("blk", 512), tot = total_upto(8, maxlen), g0 = c.idx * blk, g1 = g0 + blk;
	if (g1 > tot) g1 = tot;
	uint64_t ran = 0;
	for (uint64_t g = g0; g < g1; g++) {
		std::string s = nth_string(g, ALPHAU, 8);
		c.desc("Url::decode / Url::parseQuery on '" + s + "' [bare; behind 20 unreserved characters]");
		for (int v = 0; v < 2; v++) {
			std::string t = v ? PREFIX_URL + s : s;
			String d = Url::decode(exact(t));
			if (d.length() < 0) c.fail("url.decode.negative-length", vf::fmt("length() = %d", d.length()));
			Bytes want;
			if (ref_pctdec(t, want) && memchr(want.data(), 0, want.size()) == 0) c.count(same(d, want) ? "urljunk_wellformed_same_as_rfc3986" : "urljunk_wellformed_differs");
			else c.count("urljunk_malformed_escape");
			Dic<> q = Url::parseQuery(exact(t));
			if (q.length() < 0) c.fail("url.parseQuery.negative-length", vf::fmt("length() = %d", q.length()));
		}
		ran++;
	}
	c.evals(ran * 4);
	if (g1 > g0) c.distinct(g0);
	if (c.want_sample() && g1 > g0) c.sample("strings #" + std::to_string(g0) + "..#" + std::to_string(g1 - 1) + " over {% 4 1 g a + & =} through Url::decode and Url::parseQuery");
}

// mode query: dictionaries with non-empty keys through Url::params / Url::parseQuery
static void mode_query(vf::Ctx& c)
{
	Rec rec(c.opt->param("dump", 0) != 0);
	for (int rep = 0; rep < 10; rep++) {
		int n = c.rng.chance(0.08) ? 0 : c.rng.range(1, rep % 3 == 0 ? 24 : 6);
		std::map<Bytes, Bytes> model;
		Dic<> d;
		std::string descr;
		for (int i = 0; i < n; i++) {
			Bytes k;
			while (k.empty()) k = random_urlish(c, c.rng.chance(0.2) ? 40 : 8);
			Bytes v = c.rng.chance(0.3) ? Bytes() : random_urlish(c, c.rng.chance(0.2) ? 120 : 12);
			model[k] = v;
			d[exact(k)] = exact(v);
		}
		for (auto& kv : model) descr += "'" + vf::vis(kv.first) + "'='" + vf::vis(kv.second) + "' ";
		c.desc("Url::parseQuery(Url::params({" + descr + "}))");
		if (d.length() != (int)model.size()) { c.inconclusive("Dic construction"); continue; }
		String qs = Url::params(d);
		Dic<> back = Url::parseQuery(exact(str(qs)));
		bool ok = back.length() == (int)model.size();
		std::string got;
		foreach2 (String& k, String& v, back) {
			auto it = model.find(str(k));
			if (it == model.end() || it->second != str(v)) ok = false;
			got += "'" + vf::vis(str(k)) + "'='" + vf::vis(str(v)) + "' ";
		}
		if (!ok) c.fail("query.roundtrip", "query string '" + vf::vis(str(qs)) + "' parsed back to {" + got + "}");
		// the parsed dictionary works as a dictionary: every key is found by lookup, and it equals the original
		for (auto& kv : model) {
			const Dic<>& cb = back;
			if (!cb.has(exact(kv.first))) { c.fail("query.lookup-misses-present-key", "key '" + vf::vis(kv.first) + "' of {" + got + "}"); break; }
			if (str(cb[exact(kv.first)]) != kv.second) { c.fail("query.lookup-value", "key '" + vf::vis(kv.first) + "'"); break; }
		}
		if (ok && !(back == d)) c.fail("query.parsed-not-equal-to-original", "{" + got + "}");
		// independent parse of the query string: split on '&', first '=', '+' -> space, percent-decode
		{
			std::map<Bytes, Bytes> ind;
			std::string q = str(qs);
			bool good = true;
			size_t pos = 0;
			while (pos <= q.size() && !q.empty()) {
				size_t e = q.find('&', pos);
				if (e == std::string::npos) e = q.size();
				std::string pair = q.substr(pos, e - pos);
				size_t eq = pair.find('=');
				std::string pk = pair.substr(0, eq), pv = eq == std::string::npos ? "" : pair.substr(eq + 1);
				for (auto& ch : pk) if (ch == '+') ch = ' ';
				for (auto& ch : pv) if (ch == '+') ch = ' ';
				Bytes dk, dv;
				if (!ref_pctdec(pk, dk) || !ref_pctdec(pv, dv)) good = false;
				ind[dk] = dv;
				pos = e + 1;
			}
			if (!good || ind != model) c.fail("query.params.not-standard-decodable", "an independent query parser does not map '" + vf::vis(str(qs)) + "' back to the dictionary");
		}
		if (rec.on && rep < 2) {
			std::string pairs;
			for (auto& kv : model) { if (pairs.size()) pairs += ","; pairs += hx(kv.first) + ":" + hx(kv.second); }
			rec.line("Q " + (pairs.empty() ? std::string("-") : pairs) + " " + hx(str(qs)));
		}
		c.count(n == 0 ? "query_empty_dic" : "query_nonempty_dic");
		for (auto& kv : model) if (kv.second.empty()) c.count("query_empty_values");
		c.evals(1);
		if (n) c.distinct(vf::fnv(str(qs)));
	}
	if (c.want_sample()) c.sample(c.curdesc().substr(0, 400));
}

int main(int argc, char** argv)
{
	vf::Runner R;
	R.add("bytes", mode_bytes, "idx = length: Base64 + hex both directions, whitespace-interleaved decode");
	R.add("bytes_big", mode_bytes_big, "sampled lengths up to --param maxlen");
	R.add("sha1", mode_sha1, "idx = message length");
	R.add("codecs_mt", mode_codecs_mt, "threads hashing and encoding private buffers at once");
	R.add("sha1_big", mode_sha1_big, "sampled message lengths up to --param maxlen");
	R.add("b64x", mode_b64x, "blocks of the exhaustive enumeration over {A b + / = SP LF *} (pad-heavy shape excluded)");
	R.add("b64_padonly", mode_b64_padonly, "the pad-heavy shape of the same enumeration: more trailing '=' than decoded bytes");
	R.add("b64junk", mode_b64junk, "random malformed Base64 texts");
	R.add("b64_ptrn", mode_b64_ptrn, "decodeBase64(const char*, n) with n delimiting the text (no terminator / longer buffer)");
	R.add("hexx", mode_hexx, "even-length strings of length <= 5 over {0 9 a F g}");
	R.add("hex", mode_hex, "random even-length hex-like strings");
	R.add("hex_odd", mode_hex_odd, "odd-length strings, one per case");
	R.add("url_pairs", mode_url_pairs, "all 1- and 2-byte strings over 1..255, both modes");
	R.add("url", mode_url, "random strings, both modes");
	R.add("url_junk", mode_url_junk, "Url::decode / parseQuery on arbitrary text");
	R.add("query", mode_query, "dictionaries through params / parseQuery");
	R.setup = [](const vf::Options& o) {
		if (o.param("dump", 0)) recfd = open((o.out + "/records.txt").c_str(), O_WRONLY | O_CREAT | O_TRUNC | O_APPEND, 0666);
	};
	return R.main(argc, argv);
}
